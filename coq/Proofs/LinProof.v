(* Proofs/LinProof.v — C04: the checker is sound and complete; machines whose calls take
   effect in ONE section that is the specification's step are linearizable, with the order of
   those sections as the witness (any number of threads, calls and any schedule); the
   section table of memmap.go: which calls are of that kind, refutation witnesses for the
   others, and "exactly one of any number of concurrent Mkdir of a free name succeeds". *)
From Coq Require Import Sorting.Permutation.
From AF Require Import Lib.Bytes Lib.Path Lib.Ops Gen.Consts Model.MemFile Model.MemFs Model.Lin
  Proofs.ArchiveLemmas Proofs.MemBelow.
Local Open Scope nat_scope.

(* ================================================================ permutations *)
Lemma lin_insert_all_perm {A} (a : A) l l' : In l' (lin_insert_all a l) -> Permutation (a :: l) l'.
Proof.
  revert l'. induction l as [|x r IH]; intros l' H; cbn in H.
  - destruct H as [<-|[]]. apply Permutation_refl.
  - destruct H as [<-|H]; [apply Permutation_refl|].
    apply in_map_iff in H as (q & <- & Hq).
    eapply Permutation_trans; [apply perm_swap|]. apply perm_skip. now apply IH.
Qed.

Lemma lin_insert_all_in {A} (a : A) l1 l2 : In (l1 ++ a :: l2) (lin_insert_all a (l1 ++ l2)).
Proof.
  induction l1 as [|x r IH]; cbn.
  - destruct l2; cbn; auto.
  - right. apply in_map_iff. exists (r ++ a :: l2). split; [reflexivity|exact IH].
Qed.

Lemma lin_perms_sound {A} (l l' : list A) : In l' (lin_perms l) -> Permutation l' l.
Proof.
  revert l'. induction l as [|a r IH]; intros l' H; cbn in H.
  - destruct H as [<-|[]]. apply perm_nil.
  - apply in_flat_map in H as (p & Hp & Hl).
    apply Permutation_sym. eapply Permutation_trans; [|apply (lin_insert_all_perm _ _ _ Hl)].
    apply perm_skip. apply Permutation_sym. now apply IH.
Qed.

Lemma lin_perms_complete {A} (l l' : list A) : Permutation l' l -> In l' (lin_perms l).
Proof.
  revert l'. induction l as [|a r IH]; intros l' H; cbn.
  - apply Permutation_sym, Permutation_nil in H. subst. now left.
  - assert (Hin : In a l') by (eapply Permutation_in; [apply Permutation_sym, H|now left]).
    apply in_split in Hin as (l1 & l2 & ->).
    apply Permutation_sym, Permutation_cons_app_inv in H.
    apply in_flat_map. exists (l1 ++ l2). split.
    + apply IH. now apply Permutation_sym.
    + apply lin_insert_all_in.
Qed.

(* ================================================================ real-time order *)
Lemma lc_precedesb_spec {Op Res} (a b : lcall Op Res) : lc_precedesb a b = true <-> lc_precedes a b.
Proof.
  unfold lc_precedesb, lc_precedes. destruct (lc_resp a); [apply Nat.ltb_lt|split; [discriminate|tauto]].
Qed.

Lemma rt_okb_spec {Op Res} (order : list (lcall Op Res)) : rt_okb order = true <-> respects_real_time order.
Proof.
  induction order as [|a r IH]; cbn; [tauto|].
  rewrite andb_true_iff, forallb_forall, IH. split; intros [H1 H2]; (split; [|exact H2]).
  - intros b Hb Hp. specialize (H1 b Hb). apply lc_precedesb_spec in Hp. rewrite Hp in H1. discriminate.
  - intros b Hb. specialize (H1 b Hb). destruct (lc_precedesb b a) eqn:E; [|reflexivity].
    apply lc_precedesb_spec in E. contradiction.
Qed.

Lemma lin_list_eqb_spec {A} (eqb : A -> A -> bool) (Heq : forall a b, eqb a b = true <-> a = b) l1 l2 :
  lin_list_eqb eqb l1 l2 = true <-> l1 = l2.
Proof.
  revert l2; induction l1 as [|a r IH]; intros [|b r2]; cbn; try (split; [discriminate|discriminate]); [tauto|].
  rewrite andb_true_iff, Heq, IH. split; [intros [-> ->]; reflexivity|intros E; inversion E; auto].
Qed.

(* ================================================================ the checker *)
Section Checker.
Context {St Op Res Obs : Type}.
Variable step : St -> Op -> St * Res.
Variable obs : St -> Obs.
Variable res_eqb : Res -> Res -> bool.
Variable obs_eqb : Obs -> Obs -> bool.
Hypothesis res_eqb_spec : forall a b, res_eqb a b = true <-> a = b.
Hypothesis obs_eqb_spec : forall a b, obs_eqb a b = true <-> a = b.

Lemma lin_order_ok_spec s0 fin order :
  lin_order_ok step obs res_eqb obs_eqb s0 fin order = true <->
  respects_real_time order /\
  snd (lin_replay step s0 (map lc_op order)) = map lc_res order /\
  obs (fst (lin_replay step s0 (map lc_op order))) = fin.
Proof.
  unfold lin_order_ok. rewrite !andb_true_iff, rt_okb_spec, (lin_list_eqb_spec _ res_eqb_spec), obs_eqb_spec. tauto.
Qed.

Theorem lin_check_sound s0 hist fin :
  lin_check step obs res_eqb obs_eqb s0 hist fin = true -> linearizable step obs s0 hist fin.
Proof.
  unfold lin_check. intros H. apply existsb_exists in H as (order & Hin & Hok).
  apply lin_order_ok_spec in Hok. exists order. split; [now apply lin_perms_sound|exact Hok].
Qed.

Theorem lin_check_complete s0 hist fin :
  linearizable step obs s0 hist fin -> lin_check step obs res_eqb obs_eqb s0 hist fin = true.
Proof.
  intros (order & Hp & Hok). unfold lin_check. apply existsb_exists. exists order.
  split; [now apply lin_perms_complete|now apply lin_order_ok_spec].
Qed.

Corollary lin_check_refutes s0 hist fin :
  lin_check step obs res_eqb obs_eqb s0 hist fin = false -> ~ linearizable step obs s0 hist fin.
Proof. intros H L. apply lin_check_complete in L. congruence. Qed.
End Checker.

(* ================================================================ replay and order lemmas *)
Lemma lin_replay_app {St Op Res} (step : St -> Op -> St * Res) s l1 l2 :
  lin_replay step s (l1 ++ l2) =
  (fst (lin_replay step (fst (lin_replay step s l1)) l2),
   snd (lin_replay step s l1) ++ snd (lin_replay step (fst (lin_replay step s l1)) l2)).
Proof.
  revert s; induction l1 as [|o r IH]; intros s; cbn [lin_replay app].
  - cbn. now destruct (lin_replay step s l2).
  - destruct (step s o) as [s1 x]. rewrite IH.
    destruct (lin_replay step s1 r) as [s2 xs]. cbn [fst snd].
    now destruct (lin_replay step s2 l2).
Qed.

Lemma rt_snoc {Op Res} (l : list (lcall Op Res)) b :
  respects_real_time l -> (forall a, In a l -> ~ lc_precedes b a) -> respects_real_time (l ++ [b]).
Proof.
  induction l as [|a r IH]; cbn; intros H Hb; [split; [intros ? []|exact I]|].
  destruct H as [H1 H2]. split.
  - intros x Hx. apply in_app_or in Hx as [Hx|[<-|[]]]; [now apply H1|apply Hb; now left].
  - apply IH; [exact H2|]. intros x Hx. apply Hb. now right.
Qed.

Definition lin_resp_fn {Op Res} (t clk : nat) (c : lcall Op Res) : lcall Op Res :=
  match lc_resp c with
  | None => if Nat.eqb (lc_tid c) t then mkCall (lc_tid c) (lc_op c) (lc_inv c) (Some clk) (lc_res c) else c
  | Some _ => c
  end.

Lemma lin_set_resp_map {Op Res} t clk (l : list (lcall Op Res)) : lin_set_resp t clk l = map (lin_resp_fn t clk) l.
Proof. reflexivity. Qed.

Lemma lin_resp_fn_op {Op Res} t clk (c : lcall Op Res) : lc_op (lin_resp_fn t clk c) = lc_op c.
Proof. unfold lin_resp_fn. destruct (lc_resp c); [reflexivity|]. now destruct (Nat.eqb _ _). Qed.
Lemma lin_resp_fn_res {Op Res} t clk (c : lcall Op Res) : lc_res (lin_resp_fn t clk c) = lc_res c.
Proof. unfold lin_resp_fn. destruct (lc_resp c); [reflexivity|]. now destruct (Nat.eqb _ _). Qed.
Lemma lin_resp_fn_inv {Op Res} t clk (c : lcall Op Res) : lc_inv (lin_resp_fn t clk c) = lc_inv c.
Proof. unfold lin_resp_fn. destruct (lc_resp c); [reflexivity|]. now destruct (Nat.eqb _ _). Qed.
Lemma lin_resp_fn_resp {Op Res} t clk (c : lcall Op Res) :
  lc_resp (lin_resp_fn t clk c) = lc_resp c \/ lc_resp (lin_resp_fn t clk c) = Some clk.
Proof.
  unfold lin_resp_fn. destruct (lc_resp c) eqn:E; [now left|].
  destruct (Nat.eqb _ _); [now right|now left].
Qed.

Lemma lin_set_resp_ops {Op Res} t clk (l : list (lcall Op Res)) : map lc_op (lin_set_resp t clk l) = map lc_op l.
Proof. rewrite lin_set_resp_map, map_map. apply map_ext. intros; apply lin_resp_fn_op. Qed.
Lemma lin_set_resp_ress {Op Res} t clk (l : list (lcall Op Res)) : map lc_res (lin_set_resp t clk l) = map lc_res l.
Proof. rewrite lin_set_resp_map, map_map. apply map_ext. intros; apply lin_resp_fn_res. Qed.

Lemma rt_set_resp {Op Res} t clk (l : list (lcall Op Res)) :
  Forall (fun x => lc_inv x < clk) l -> respects_real_time l -> respects_real_time (lin_set_resp t clk l).
Proof.
  rewrite lin_set_resp_map.
  induction l as [|a r IH]; cbn; intros Hc H; [exact I|].
  inversion Hc as [|? ? Ha Hr]; subst. destruct H as [H1 H2]. split; [|now apply IH].
  intros b' Hb' Hp. apply in_map_iff in Hb' as (b & <- & Hb).
  unfold lc_precedes in Hp. rewrite lin_resp_fn_inv in Hp.
  destruct (lin_resp_fn_resp t clk b) as [E|E]; rewrite E in Hp.
  - apply (H1 b Hb). exact Hp.
  - lia.
Qed.

Lemma Forall_list_set {A} (P : A -> Prop) i v (l : list A) : Forall P l -> P v -> Forall P (list_set i v l).
Proof.
  revert i; induction l as [|x r IH]; intros i H Hv; [destruct i; constructor|].
  inversion H; subst. destruct i; cbn; constructor; auto.
Qed.

Lemma nth_error_Forall {A} (P : A -> Prop) l i x : Forall P l -> nth_error l i = Some x -> P x.
Proof. intros H E. rewrite Forall_forall in H. apply H. eapply nth_error_In; eauto. Qed.

(* ================================================================ the machine is linearizable *)
(* [okpc o pc]: the program counters call o can be at.  Every section at such a counter either
   changes nothing and moves on (an unlocked pre-check), or is the call's last and is exactly
   the specification's step on the current state: its linearization point. *)
Section MachineLin.
Context {St Op Res PC Obs : Type}.
Variable step : St -> Op -> St * Res.
Variable obs : St -> Obs.
Variable sec : St -> Op -> PC -> St * (PC + Res).
Variable pc0 : PC.
Variable okpc : Op -> PC -> Prop.
Variable okop : Op -> Prop.
Hypothesis ok_start : forall o, okop o -> okpc o pc0.
Hypothesis ok_sec : forall o pc s, okpc o pc ->
  match sec s o pc with
  | (s', inl pc') => s' = s /\ okpc o pc'
  | (s', inr r) => s' = fst (step s o) /\ r = snd (step s o)
  end.

Definition thr_ok (clk : nat) (th : lthread Op Res PC) : Prop :=
  Forall okop (lt_todo th) /\
  match lt_phase th with
  | LPIdle => True
  | LPRun o inv pc => okpc o pc /\ inv < clk
  | LPRet o inv r => inv < clk
  end.

Definition mach_inv (s0 : St) (c : lcfg St Op Res PC) : Prop :=
  lin_replay step s0 (map lc_op (lg_lin c)) = (lg_st c, map lc_res (lg_lin c)) /\
  respects_real_time (lg_lin c) /\
  Forall (fun x => lc_inv x < lg_clk c) (lg_lin c) /\
  Forall (thr_ok (lg_clk c)) (lg_thr c).

Lemma thr_ok_mono clk th : thr_ok clk th -> thr_ok (S clk) th.
Proof.
  unfold thr_ok. intros [H1 H2]. split; [exact H1|].
  destruct (lt_phase th); [exact I|destruct H2; split; [assumption|lia]|lia].
Qed.

Lemma mach_inv_event s0 c t : mach_inv s0 c -> mach_inv s0 (lin_event sec pc0 c t).
Proof.
  intros (HR & HT & HC & HP). unfold lin_event.
  destruct (nth_error (lg_thr c) t) as [th|] eqn:Et; [|repeat split; assumption].
  pose proof (nth_error_Forall _ _ _ _ HP Et) as [Htodo Hph].
  assert (HP' : Forall (thr_ok (S (lg_clk c))) (lg_thr c)) by (eapply Forall_impl; [apply thr_ok_mono|exact HP]).
  assert (HC' : Forall (fun x => lc_inv x < S (lg_clk c)) (lg_lin c)).
  { eapply Forall_impl; [|exact HC]. cbn. intros; lia. }
  destruct (lt_phase th) as [|o inv pc|o inv r] eqn:Eph.
  - (* invoke *)
    destruct (lt_todo th) as [|o rest] eqn:Etd; [repeat split; assumption|].
    inversion Htodo as [|? ? Ho Hrest]; subst.
    unfold mach_inv; cbn [lg_st lg_clk lg_thr lg_lin]. repeat split; try assumption.
    apply Forall_list_set; [exact HP'|]. split; cbn; [exact Hrest|]. split; [now apply ok_start|lia].
  - (* a section *)
    destruct Hph as [Hok Hinv]. specialize (ok_sec o pc (lg_st c) Hok).
    destruct (sec (lg_st c) o pc) as [s' [pc'|r]].
    + destruct ok_sec as [-> Hok']. unfold mach_inv; cbn [lg_st lg_clk lg_thr lg_lin]. repeat split; try assumption.
      apply Forall_list_set; [exact HP'|]. split; cbn; [exact Htodo|]. split; [exact Hok'|lia].
    + destruct ok_sec as [-> ->]. unfold mach_inv; cbn [lg_st lg_clk lg_thr lg_lin]. repeat split.
      * rewrite !map_app. cbn [map lc_op lc_res]. rewrite lin_replay_app, HR. cbn [fst snd lin_replay].
        now destruct (step (lg_st c) o).
      * apply rt_snoc; [exact HT|]. intros a _ Hp. exact Hp.
      * apply Forall_app. split; [exact HC'|]. constructor; [cbn; lia|constructor].
      * apply Forall_list_set; [exact HP'|]. split; cbn; [exact Htodo|lia].
  - (* return *)
    unfold mach_inv; cbn [lg_st lg_clk lg_thr lg_lin]. repeat split.
    + now rewrite lin_set_resp_ops, lin_set_resp_ress.
    + now apply rt_set_resp.
    + rewrite lin_set_resp_map. apply Forall_map. eapply Forall_impl; [|exact HC'].
      intros x Hx. cbn. now rewrite lin_resp_fn_inv.
    + apply Forall_list_set; [exact HP'|]. split; cbn; [exact Htodo|exact I].
Qed.

Lemma mach_inv_run s0 sched : forall c, mach_inv s0 c -> mach_inv s0 (fold_left (lin_event sec pc0) sched c).
Proof. induction sched as [|t r IH]; intros c H; cbn; [exact H|]. apply IH. now apply mach_inv_event. Qed.

Lemma mach_inv_start s0 progs : (forall p o, In p progs -> In o p -> okop o) -> mach_inv s0 (lin_start s0 progs).
Proof.
  intros H. unfold mach_inv, lin_start; cbn. repeat split; try constructor.
  apply Forall_map. apply Forall_forall. intros p Hp. split; cbn; [|exact I].
  apply Forall_forall. intros o Ho. eapply H; eauto.
Qed.

(* every history of the machine — any number of threads and calls, any schedule — is
   linearizable, the order of the last sections being the witness *)
Theorem machine_linearizable s0 progs sched hist :
  (forall p o, In p progs -> In o p -> okop o) ->
  Permutation hist (lg_lin (lin_run sec pc0 s0 progs sched)) ->
  linearizable step obs s0 hist (obs (lg_st (lin_run sec pc0 s0 progs sched))).
Proof.
  intros Hok Hperm.
  destruct (mach_inv_run s0 sched _ (mach_inv_start s0 progs Hok)) as (HR & HT & _ & _).
  fold (lin_run sec pc0 s0 progs sched) in HR, HT.
  exists (lg_lin (lin_run sec pc0 s0 progs sched)). split; [now apply Permutation_sym|].
  split; [exact HT|]. rewrite HR. cbn. split; reflexivity.
Qed.
End MachineLin.

(* the special case asked for: every call executes as ONE atomic step of the specification at
   some instant between its invocation and its response *)
Theorem atomic_machine_linearizable {St Op Res PC Obs} (step : St -> Op -> St * Res) (obs : St -> Obs)
    (sec : St -> Op -> PC -> St * (PC + Res)) (pc0 : PC) s0 progs sched hist :
  (forall p o, In p progs -> In o p -> lin_atomic_op step sec pc0 o) ->
  Permutation hist (lg_lin (lin_run sec pc0 s0 progs sched)) ->
  linearizable step obs s0 hist (obs (lg_st (lin_run sec pc0 s0 progs sched))).
Proof.
  intros Hat. apply (machine_linearizable step obs sec pc0
    (fun o pc => pc = pc0 /\ lin_atomic_op step sec pc0 o) (lin_atomic_op step sec pc0)).
  - intros o Ho. split; [reflexivity|exact Ho].
  - intros o pc s [-> Ho]. rewrite (Ho s). split; reflexivity.
  - exact Hat.
Qed.

(* ================================================================ MemMapFs: the section table *)
Definition ln_okpc (k : seccfg) (c : lop) (pc : lpc) : Prop :=
  ln_lin_ok k (snd c) = true /\
  match pc with
  | LnStart => True
  | LnMkdirLocked => match snd c with Mkdir _ _ | MkdirAll _ _ => True | _ => False end
  | _ => False
  end.

Lemma ln_atomic_ok k c st :
  ln_lin_ok k (snd c) = true ->
  match ln_atomic st c with
  | (s', inl pc') => s' = st /\ ln_okpc k c pc'
  | (s', inr r) => s' = fst (lin_step st c) /\ r = snd (lin_step st c)
  end.
Proof. intros _. unfold ln_atomic. split; reflexivity. Qed.

Lemma ln_ok_sec k c pc st : ln_okpc k c pc ->
  match ln_sec k st c pc with
  | (s', inl pc') => s' = st /\ ln_okpc k c pc'
  | (s', inr r) => s' = fst (lin_step st c) /\ r = snd (lin_step st c)
  end.
Proof.
  destruct c as [slot o]. intros [Hok Hpc]. cbn [snd] in *.
  destruct pc; try contradiction.
  - (* LnStart *)
    destruct o; unfold ln_sec; cbn [snd fst]; try (apply (ln_atomic_ok k); exact Hok).
    + (* Mkdir *) unfold ln_mkdir_start. destruct (lookup (fst st) (normalize_path p)).
      * apply (ln_atomic_ok k); exact Hok.
      * split; [reflexivity|]. split; [exact Hok|exact I].
    + (* MkdirAll *) unfold ln_mkdir_start. destruct (lookup (fst st) (normalize_path p)).
      * apply (ln_atomic_ok k); exact Hok.
      * split; [reflexivity|]. split; [exact Hok|exact I].
    + (* OpenFile *) cbn [ln_lin_ok] in Hok. apply andb_true_iff in Hok as [Hs Hf].
      apply negb_true_iff in Hs. apply negb_true_iff in Hf. rewrite Hs, Hf.
      apply (ln_atomic_ok k). cbn. now rewrite Hs, Hf.
    + (* RemoveAll *) cbn [ln_lin_ok] in Hok. apply negb_true_iff in Hok. rewrite Hok.
      apply (ln_atomic_ok k). cbn. now rewrite Hok.
    + (* Rename *) cbn [ln_lin_ok] in Hok. apply andb_true_iff in Hok as [Hs Hf].
      apply negb_true_iff in Hs. apply negb_true_iff in Hf. rewrite Hs, Hf. cbn [orb].
      apply (ln_atomic_ok k). cbn. now rewrite Hs, Hf.
    + (* Chmod *) cbn [ln_lin_ok] in Hok. apply negb_true_iff in Hok. rewrite Hok.
      apply (ln_atomic_ok k). cbn. now rewrite Hok.
    + (* Chtimes *) cbn [ln_lin_ok] in Hok. apply negb_true_iff in Hok. rewrite Hok.
      apply (ln_atomic_ok k). cbn. now rewrite Hok.
    + (* HReaddirnames *) cbn [ln_lin_ok] in Hok. apply negb_true_iff in Hok. rewrite Hok.
      apply (ln_atomic_ok k). cbn. now rewrite Hok.
  - (* LnMkdirLocked *)
    destruct o; try contradiction; unfold ln_sec; cbn [snd fst]; unfold ln_mkdir_locked;
      cbn [ln_lin_ok] in Hok; apply negb_true_iff in Hok; rewrite Hok;
      apply (ln_atomic_ok k); cbn; now rewrite Hok.
Qed.

(* Every history of the section machine in which all calls are of the kind [ln_lin_ok]
   (one effective section = the specification's step) is linearizable w.r.t. the sequential
   model: any number of goroutines and calls, any interleaving of sections. *)
Theorem sections_linearizable k s0 progs sched hist :
  (forall p c, In p progs -> In c p -> ln_lin_ok k (snd c) = true) ->
  Permutation hist (lg_lin (ln_run k s0 progs sched)) ->
  linearizable lin_step lin_obs s0 hist (lin_obs (lg_st (ln_run k s0 progs sched))).
Proof.
  intros Hok. unfold ln_run.
  apply (machine_linearizable lin_step lin_obs (ln_sec k) LnStart (ln_okpc k) (fun c => ln_lin_ok k (snd c) = true)).
  - intros c Hc. split; [exact Hc|exact I].
  - intros c pc s Hpc. apply ln_ok_sec. exact Hpc.
  - exact Hok.
Qed.

(* once every multi-section method is repaired, every call is of that kind *)
Lemma ln_lin_ok_atomic o : ln_lin_ok ln_cfg_atomic o = true.
Proof. destruct o; reflexivity. Qed.

Theorem repaired_linearizable s0 progs sched hist :
  Permutation hist (lg_lin (ln_run ln_cfg_atomic s0 progs sched)) ->
  linearizable lin_step lin_obs s0 hist (lin_obs (lg_st (ln_run ln_cfg_atomic s0 progs sched))).
Proof. apply sections_linearizable. intros; apply ln_lin_ok_atomic. Qed.

(* the methods with one critical section whatever the configuration *)
Definition ln_single_today (o : op) : bool :=
  match o with
  | OpenFile _ _ _ | Mkdir _ _ | MkdirAll _ _ | RemoveAll _ | Rename _ _ | Chmod _ _ | Chtimes _ _ | HReaddirnames _ _ => false
  | _ => true
  end.
Lemma ln_single_today_ok k o : ln_single_today o = true -> ln_lin_ok k o = true.
Proof. destruct o; cbn; congruence. Qed.
Lemma ln_single_today_atomic k c : ln_single_today (snd c) = true -> lin_atomic_op lin_step (ln_sec k) LnStart c.
Proof.
  destruct c as [slot o]. cbn [snd]. intros H s. destruct o; try discriminate; reflexivity.
Qed.

(* ================================================================ decidable equality (checker instance) *)
Definition lin_errk_eq_dec : forall a b : errk, {a = b} + {a <> b}.
Proof. decide equality. Defined.
Definition lin_err_eq_dec : forall a b : err, {a = b} + {a <> b}.
Proof. decide equality; [apply bool_dec|apply lin_errk_eq_dec]. Defined.
Definition lin_bytes_eq_dec : forall a b : bytes, {a = b} + {a <> b} := list_eq_dec N.eq_dec.
Definition lin_finfo_eq_dec : forall a b : finfo, {a = b} + {a <> b}.
Proof. decide equality; try apply Z.eq_dec; try apply bool_dec; apply lin_bytes_eq_dec. Defined.
Definition lin_eopt_eq_dec : forall a b : option err, {a = b} + {a <> b}.
Proof. decide equality. apply lin_err_eq_dec. Defined.
Definition lin_res_eq_dec : forall a b : res, {a = b} + {a <> b}.
Proof.
  decide equality; try apply lin_eopt_eq_dec; try apply Z.eq_dec; try apply lin_bytes_eq_dec;
    try apply lin_err_eq_dec; try apply lin_finfo_eq_dec; try apply Nat.eq_dec;
    try (apply list_eq_dec; apply lin_finfo_eq_dec); try (apply list_eq_dec; apply lin_bytes_eq_dec).
Defined.
Definition lin_entry_eq_dec : forall a b : entry, {a = b} + {a <> b}.
Proof. decide equality; try apply Z.eq_dec; try apply bool_dec; apply lin_bytes_eq_dec. Defined.

Definition lin_res_eqb (a b : res) : bool := if lin_res_eq_dec a b then true else false.
Definition lin_obs_eqb (a b : list entry) : bool := if list_eq_dec lin_entry_eq_dec a b then true else false.
Lemma lin_res_eqb_spec a b : lin_res_eqb a b = true <-> a = b.
Proof. unfold lin_res_eqb. destruct (lin_res_eq_dec a b); split; congruence. Qed.
Lemma lin_obs_eqb_spec a b : lin_obs_eqb a b = true <-> a = b.
Proof. unfold lin_obs_eqb. destruct (list_eq_dec lin_entry_eq_dec a b); split; congruence. Qed.

Definition lin_check_mem (s0 : lstate) (hist : list (lcall lop res)) (fin : list entry) : bool :=
  lin_check lin_step lin_obs lin_res_eqb lin_obs_eqb s0 hist fin.

Theorem lin_check_mem_sound s0 hist fin : lin_check_mem s0 hist fin = true -> linearizable lin_step lin_obs s0 hist fin.
Proof. apply lin_check_sound; [apply lin_res_eqb_spec|apply lin_obs_eqb_spec]. Qed.
Theorem lin_check_mem_complete s0 hist fin : linearizable lin_step lin_obs s0 hist fin -> lin_check_mem s0 hist fin = true.
Proof. apply lin_check_complete; [apply lin_res_eqb_spec|apply lin_obs_eqb_spec]. Qed.
Theorem lin_check_mem_refutes s0 hist fin : lin_check_mem s0 hist fin = false -> ~ linearizable lin_step lin_obs s0 hist fin.
Proof. apply lin_check_refutes; [apply lin_res_eqb_spec|apply lin_obs_eqb_spec]. Qed.

(* ================================================================ Mkdir: exactly one winner *)
(* ---- model facts about Mkdir ---- *)
Lemma lookup_upd_node s r f k : lookup (upd_node s r f) k = lookup s k.
Proof. unfold upd_node. destruct (get_node s r); reflexivity. Qed.

Lemma lookup_add_kid s p f k : lookup (add_kid s p f) k = lookup s k.
Proof. unfold add_kid. apply lookup_upd_node. Qed.

Lemma alist_set_keeps {A} k k' (v : A) l : alist_get k l <> None -> alist_get k (alist_set k' v l) <> None.
Proof.
  intros H. destruct (beqb k' k) eqn:E.
  - apply beqb_eq in E; subst. rewrite alist_get_set_same. discriminate.
  - rewrite alist_get_set_other; [exact H|]. intros ->. rewrite beqb_refl in E. discriminate.
Qed.

Lemma register_keeps fuel : forall s f perm k, lookup s k <> None -> lookup (register fuel s f perm) k <> None.
Proof.
  induction fuel as [|fu IH]; intros s f perm k H; cbn [register].
  - destruct (find_parent s f); [now rewrite lookup_add_kid|exact H].
  - destruct (find_parent s f); [now rewrite lookup_add_kid|].
    set (pn := normalize_path (path_dir (clean (node_name s f)))).
    destruct (lookup s pn) as [x|] eqn:El.
    + destruct (get_node s x) as [nx|]; [|exact H]. destruct (ndir nx); [|exact H].
      destruct (lockfree_open s _); [now rewrite lookup_add_kid|exact H].
    + unfold alloc_node. cbv beta iota zeta.
      match goal with |- context [register fu ?s2 ?it perm] => set (s2' := s2); set (it' := it) end.
      assert (H2 : lookup (register fu s2' it' perm) k <> None).
      { apply IH. unfold s2', lookup; cbn. apply alist_set_keeps. exact H. }
      destruct (lockfree_open (register fu s2' it' perm) _); [now rewrite lookup_add_kid|exact H2].
Qed.

Section MkdirFacts.
Variable name : str.
Hypothesis Hnorm : normalize_path name = name.

Lemma m_mkdir_exists m perm f : lookup m name = Some f -> m_mkdir m name perm = (m, RErr (EW KExist)).
Proof. intros H. unfold m_mkdir. rewrite Hnorm, H. reflexivity. Qed.

Lemma set_file_mode_found m mode f : lookup m name = Some f ->
  set_file_mode m name mode = (upd_node m f (with_mode mode), ROk).
Proof. intros H. unfold set_file_mode. rewrite Hnorm, H. reflexivity. Qed.

Lemma m_mkdir_fresh m perm : lookup m name = None -> below_file m name = false ->
  exists m', m_mkdir m name perm = (m', ROk) /\ lookup m' name <> None.
Proof.
  intros H Hbf. unfold m_mkdir. rewrite Hnorm, H, Hbf. unfold alloc_node. cbv beta iota zeta.
  match goal with |- context [reg ?s2 ?it ?pm] => set (s3 := reg s2 it pm) end.
  assert (H3 : lookup s3 name <> None).
  { unfold s3, reg. apply register_keeps. unfold lookup; cbn. rewrite alist_get_set_same. discriminate. }
  destruct (lookup s3 name) as [f|] eqn:E; [|congruence].
  rewrite (set_file_mode_found s3 _ f E). eexists. split; [reflexivity|].
  rewrite lookup_upd_node. congruence.
Qed.
End MkdirFacts.

(* ---- counting ---- *)
Definition cnt {A} (f : A -> bool) (l : list A) : nat := length (filter f l).
Lemma cnt_cons {A} (f : A -> bool) x r : cnt f (x :: r) = (if f x then 1 else 0) + cnt f r.
Proof. unfold cnt; cbn. destruct (f x); reflexivity. Qed.
Lemma cnt_app {A} (f : A -> bool) l1 l2 : cnt f (l1 ++ l2) = cnt f l1 + cnt f l2.
Proof. unfold cnt. now rewrite filter_app, app_length. Qed.
Lemma cnt_list_set {A} (f : A -> bool) : forall l t v old, nth_error l t = Some old ->
  cnt f (list_set t v l) + (if f old then 1 else 0) = cnt f l + (if f v then 1 else 0).
Proof.
  induction l as [|x r IH]; intros t v old H; destruct t; cbn in H; try discriminate.
  - inversion H; subst. cbn [list_set]. rewrite !cnt_cons. lia.
  - cbn [list_set]. rewrite !cnt_cons. specialize (IH t v old H). lia.
Qed.

Section MkdirOne.
Variable k : seccfg.
Variable name : str.
Hypothesis Hnorm : normalize_path name = name.

Definition mk_created (st : lstate) : bool := match lookup (fst st) name with Some _ => true | None => false end.
Definition mk_pending (th : lthread lop res lpc) : bool :=
  match lt_phase th with LPRun _ _ (LnSetMode _ _ _) => true | _ => false end.
Definition mk_won (x : lcall lop res) : bool := match lc_res x with ROk => true | _ => false end.
Definition mk_res_ok (r : res) : Prop := r = ROk \/ r = RErr (EW KExist).
Definition mk_thr_ok (cr : bool) (th : lthread lop res lpc) : Prop :=
  match lt_phase th with
  | LPIdle => (lt_todo th = [] /\ cr = true) \/ (exists perm, lt_todo th = [(None, Mkdir name perm)])
  | LPRun c inv pc => lt_todo th = [] /\ (exists perm, c = (None, Mkdir name perm)) /\
      (pc = LnStart \/ pc = LnMkdirLocked \/ (cr = true /\ exists m, pc = LnSetMode name m ROk))
  | LPRet c inv r => lt_todo th = [] /\ cr = true /\ mk_res_ok r
  end.
Definition mk_inv (c : lcfg lstate lop res lpc) : Prop :=
  cnt mk_pending (lg_thr c) + cnt mk_won (lg_lin c) = (if mk_created (lg_st c) then 1 else 0) /\
  Forall (fun x => mk_res_ok (lc_res x)) (lg_lin c) /\
  Forall (mk_thr_ok (mk_created (lg_st c))) (lg_thr c) /\
  (* until the directory is made the name stays creatable: not below a regular file *)
  (mk_created (lg_st c) = false -> below_file (fst (lg_st c)) name = false).

Ltac use_set H :=
  match goal with |- context [list_set _ ?v (lg_thr _)] => specialize (H v); cbn [mk_pending lt_phase] in H end.

Lemma mk_thr_ok_mono th : mk_thr_ok false th -> mk_thr_ok true th.
Proof.
  unfold mk_thr_ok. destruct (lt_phase th).
  - intros [[_ H]|H]; [discriminate|now right].
  - intros (H1 & H2 & [H|[H|[H _]]]); [| |discriminate]; (split; [exact H1|split; [exact H2|tauto]]).
  - intros (_ & H & _). discriminate.
Qed.
Lemma mk_thr_ok_le cr cr' th : (cr = true -> cr' = true) -> mk_thr_ok cr th -> mk_thr_ok cr' th.
Proof.
  destruct cr, cr'; intros H; try exact (fun x => x); [specialize (H eq_refl); discriminate|apply mk_thr_ok_mono].
Qed.

Lemma cnt_won_set_resp t clk l : cnt mk_won (lin_set_resp t clk l) = cnt mk_won l.
Proof.
  rewrite lin_set_resp_map. induction l as [|x r IH]; [reflexivity|]. cbn [map]. rewrite !cnt_cons, IH.
  unfold mk_won. now rewrite lin_resp_fn_res.
Qed.

Lemma lin_step_mkdir m sl perm :
  lin_step (m, sl) (None, Mkdir name perm) =
  (let '(m1, r) := m_mkdir (lin_now m) name perm in
   ((mkM (mdata m1) (mheap m1) (mhandles m1) (mclock m1 + 1)%Z, sl), lin_proj r)).
Proof.
  unfold lin_step. cbn [op_handle_of]. unfold m_step. cbn [m_step_raw].
  destruct (m_mkdir (lin_now m) name perm) as [m1 r]. now destruct r.
Qed.

(* one section of a Mkdir of [name]: what it does to "created", to the count of winners *)
Lemma mk_inv_event c t : mk_inv c -> mk_inv (lin_event (ln_sec k) LnStart c t).
Proof.
  intros (HC & HR & HT & HB). unfold lin_event.
  destruct (nth_error (lg_thr c) t) as [th|] eqn:Et; [|repeat split; assumption].
  pose proof (nth_error_Forall _ _ _ _ HT Et) as Hth.
  pose proof (fun v => cnt_list_set mk_pending (lg_thr c) t v th Et) as Hset.
  unfold mk_thr_ok in Hth. unfold mk_pending at 2 in Hset.
  destruct (lt_phase th) as [|cl inv pc|cl inv r] eqn:Eph.
  - (* invoke *)
    destruct Hth as [[Htd _]|[perm Htd]]; rewrite Htd; [repeat split; assumption|].
    unfold mk_inv; cbn [lg_st lg_clk lg_thr lg_lin]. repeat split; try assumption.
    + use_set Hset. lia.
    + apply Forall_list_set; [exact HT|]. unfold mk_thr_ok; cbn. split; [reflexivity|]. split; [now exists perm|now left].
  - (* a section *)
    destruct Hth as (Htd & [perm ->] & Hpc).
    destruct (lg_st c) as [m sl] eqn:Est.
    assert (Hcr : mk_created (m, sl) = match lookup m name with Some _ => true | None => false end) by reflexivity.
    destruct Hpc as [->|[->|[Hcr1 [mode ->]]]].
    + (* LnStart: the unlocked pre-check *)
      unfold ln_sec; cbn [snd fst]. unfold ln_mkdir_start; cbn [fst]. rewrite Hnorm.
      destruct (lookup m name) as [f|] eqn:El.
      * unfold ln_atomic. rewrite lin_step_mkdir, (m_mkdir_exists name Hnorm _ perm f) by exact El. cbn [fst snd lin_proj].
        unfold mk_inv; cbn [lg_st lg_clk lg_thr lg_lin].
        assert (E2 : mk_created (mkM (mdata (lin_now m)) (mheap (lin_now m)) (mhandles (lin_now m)) (mclock (lin_now m) + 1)%Z, sl) = true).
        { unfold mk_created, lookup; cbn. unfold lookup in El. now rewrite El. }
        rewrite E2. rewrite Hcr in HC, HT. repeat split.
        -- rewrite cnt_app. use_set Hset. cbn. lia.
        -- apply Forall_app. split; [exact HR|]. constructor; [now right|constructor].
        -- apply Forall_list_set; [exact HT|]. unfold mk_thr_ok; cbn. split; [exact Htd|]. split; [reflexivity|now right].
        -- discriminate.
      * unfold mk_inv; cbn [lg_st lg_clk lg_thr lg_lin]. repeat split; try assumption.
        -- use_set Hset. lia.
        -- apply Forall_list_set; [exact HT|]. unfold mk_thr_ok; cbn. split; [exact Htd|]. split; [now exists perm|tauto].
    + (* LnMkdirLocked *)
      unfold ln_sec; cbn [snd fst]. unfold ln_mkdir_locked; cbn [fst snd].
      rewrite Hcr in HC, HT.
      destruct (lookup m name) as [f|] eqn:El.
      * (* exists already: EEXIST whichever variant *)
        assert (Hex : m_mkdir (lin_now m) name perm = (lin_now m, RErr (EW KExist))) by (apply (m_mkdir_exists name Hnorm _ perm f); exact El).
        destruct (sc_mkdir_setmode k).
        -- rewrite Hex. cbn [ln_mkres]. unfold mk_inv; cbn [lg_st lg_clk lg_thr lg_lin].
           assert (E2 : mk_created (lin_now m, sl) = true) by (unfold mk_created, lookup in *; cbn; now rewrite El).
           rewrite E2. repeat split.
           ++ rewrite cnt_app. use_set Hset. cbn. lia.
           ++ apply Forall_app. split; [exact HR|]. constructor; [now right|constructor].
           ++ apply Forall_list_set; [exact HT|]. unfold mk_thr_ok; cbn. split; [exact Htd|]. split; [reflexivity|now right].
           ++ discriminate.
        -- unfold ln_atomic. rewrite lin_step_mkdir, Hex. cbn [fst snd lin_proj].
           unfold mk_inv; cbn [lg_st lg_clk lg_thr lg_lin].
           assert (E2 : mk_created (mkM (mdata (lin_now m)) (mheap (lin_now m)) (mhandles (lin_now m)) (mclock (lin_now m) + 1)%Z, sl) = true).
           { unfold mk_created, lookup in *; cbn. now rewrite El. }
           rewrite E2. repeat split.
           ++ rewrite cnt_app. use_set Hset. cbn. lia.
           ++ apply Forall_app. split; [exact HR|]. constructor; [now right|constructor].
           ++ apply Forall_list_set; [exact HT|]. unfold mk_thr_ok; cbn. split; [exact Htd|]. split; [reflexivity|now right].
           ++ discriminate.
      * (* free: this call creates the directory *)
        assert (Hbf : below_file (lin_now m) name = false).
        { rewrite <- (HB ltac:(unfold mk_created; cbn [fst]; now rewrite El)). apply below_file_ext; reflexivity. }
        destruct (m_mkdir_fresh name Hnorm (lin_now m) perm) as (m' & Hmk & Hl'); [exact El | exact Hbf|].
        assert (HT' : Forall (mk_thr_ok true) (lg_thr c)) by (eapply Forall_impl; [apply mk_thr_ok_mono|exact HT]).
        destruct (sc_mkdir_setmode k).
        -- rewrite Hmk. unfold mk_inv; cbn [lg_st lg_clk lg_thr lg_lin].
           assert (E2 : mk_created (m', sl) = true) by (unfold mk_created; cbn; destruct (lookup m' name); congruence).
           rewrite E2. repeat split.
           ++ use_set Hset. lia.
           ++ exact HR.
           ++ apply Forall_list_set; [exact HT'|]. unfold mk_thr_ok; cbn. split; [exact Htd|]. split; [now exists perm|].
              right; right. split; [reflexivity|eexists; reflexivity].
           ++ discriminate.
        -- unfold ln_atomic. rewrite lin_step_mkdir, Hmk. cbn [fst snd lin_proj].
           unfold mk_inv; cbn [lg_st lg_clk lg_thr lg_lin].
           assert (E2 : mk_created (mkM (mdata m') (mheap m') (mhandles m') (mclock m' + 1)%Z, sl) = true).
           { unfold mk_created, lookup in *; cbn. destruct (alist_get name (mdata m')); congruence. }
           rewrite E2. repeat split.
           ++ rewrite cnt_app. use_set Hset. cbn. lia.
           ++ apply Forall_app. split; [exact HR|]. constructor; [now left|constructor].
           ++ apply Forall_list_set; [exact HT'|]. unfold mk_thr_ok; cbn. split; [exact Htd|]. split; [reflexivity|now left].
           ++ discriminate.
    + (* the trailing setFileMode of the winner *)
      rewrite Hcr in Hcr1, HC, HT.
      destruct (lookup m name) as [f|] eqn:El; [|discriminate].
      unfold ln_sec; cbn [snd fst].
      rewrite (set_file_mode_found name Hnorm (lin_now m) mode f) by exact El.
      unfold ln_ret; cbn [fst snd lin_bind lin_proj].
      unfold mk_inv; cbn [lg_st lg_clk lg_thr lg_lin].
      assert (E2 : mk_created (upd_node (lin_now m) f (with_mode mode), sl) = true).
      { unfold mk_created; cbn [fst]. rewrite lookup_upd_node. unfold lookup in *; cbn. now rewrite El. }
      rewrite E2. repeat split.
      * rewrite cnt_app. use_set Hset. cbn. lia.
      * apply Forall_app. split; [exact HR|]. constructor; [now left|constructor].
      * apply Forall_list_set; [exact HT|]. unfold mk_thr_ok; cbn. split; [exact Htd|]. split; [reflexivity|now left].
      * discriminate.
  - (* return *)
    destruct Hth as (Htd & Hcr1 & Hr).
    unfold mk_inv; cbn [lg_st lg_clk lg_thr lg_lin]. repeat split.
    + rewrite cnt_won_set_resp. use_set Hset. lia.
    + rewrite lin_set_resp_map. apply Forall_map. eapply Forall_impl; [|exact HR]. intros x Hx. cbn. now rewrite lin_resp_fn_res.
    + apply Forall_list_set; [exact HT|]. unfold mk_thr_ok; cbn. left. split; [exact Htd|exact Hcr1].
    + exact HB.
Qed.

Lemma mk_inv_run sched : forall c, mk_inv c -> mk_inv (fold_left (lin_event (ln_sec k) LnStart) sched c).
Proof. induction sched as [|t r IH]; intros c H; cbn; [exact H|]. apply IH. now apply mk_inv_event. Qed.

Definition mk_progs (perms : list Z) : list (list lop) := map (fun perm => [(None, Mkdir name perm)]) perms.

Lemma mk_inv_start (s0 : lstate) perms : lookup (fst s0) name = None -> below_file (fst s0) name = false ->
  mk_inv (lin_start s0 (mk_progs perms)).
Proof.
  intros H Hbf. unfold mk_inv, lin_start, mk_progs; cbn [lg_st lg_thr lg_lin].
  unfold mk_created. rewrite H. repeat split; [| | |intros _; exact Hbf].
  - rewrite map_map. induction perms as [|p r IH]; [reflexivity|]. cbn [map]. rewrite cnt_cons. cbn. exact IH.
  - constructor.
  - rewrite map_map. apply Forall_forall. intros th Hth. apply in_map_iff in Hth as (perm & <- & _).
    unfold mk_thr_ok; cbn. right. now exists perm.
Qed.

Lemma list_set_length {A} i (v : A) l : length (list_set i v l) = length l.
Proof. revert i; induction l as [|x r IH]; intros [|i]; cbn; auto. Qed.

Lemma lin_event_threads c t : length (lg_thr (lin_event (ln_sec k) LnStart c t)) = length (lg_thr c).
Proof.
  unfold lin_event. destruct (nth_error (lg_thr c) t) as [th|]; [|reflexivity].
  destruct (lt_phase th).
  - destruct (lt_todo th); [reflexivity|]. cbn. apply list_set_length.
  - destruct (ln_sec k (lg_st c) o pc) as [s' [pc'|r]]; cbn; apply list_set_length.
  - cbn. apply list_set_length.
Qed.

Lemma lin_run_threads sched : forall c, length (lg_thr (fold_left (lin_event (ln_sec k) LnStart) sched c)) = length (lg_thr c).
Proof. induction sched as [|t r IH]; intros c; cbn; [reflexivity|]. now rewrite IH, lin_event_threads. Qed.

(* Among ANY number of concurrent Mkdir calls of one free name that does not lie below a regular
   file (there every call answers ENOTDIR), under ANY interleaving of their sections, exactly one
   reports success and every other one reports "exists". *)
Theorem mkdir_exactly_one (s0 : lstate) perms sched :
  lookup (fst s0) name = None -> below_file (fst s0) name = false -> perms <> [] ->
  lin_quiescent (ln_run k s0 (mk_progs perms) sched) = true ->
  cnt mk_won (lg_lin (ln_run k s0 (mk_progs perms) sched)) = 1 /\
  Forall (fun x => lc_res x = ROk \/ lc_res x = RErr (EW KExist)) (lg_lin (ln_run k s0 (mk_progs perms) sched)).
Proof.
  intros Hfree Hbf Hne Hq. unfold ln_run, lin_run in *.
  pose proof (mk_inv_run sched _ (mk_inv_start s0 perms Hfree Hbf)) as (HC & HR & HT & _).
  pose proof (lin_run_threads sched (lin_start s0 (mk_progs perms))) as Hlen.
  unfold lin_quiescent in Hq. rewrite forallb_forall in Hq.
  set (c := fold_left (lin_event (ln_sec k) LnStart) sched (lin_start s0 (mk_progs perms))) in *.
  assert (Hq' : forall x, In x (lg_thr c) ->
     match lt_phase x, lt_todo x with LPIdle, [] => true | _, _ => false end = true) by exact Hq.
  clear Hq. rename Hq' into Hq.
  split; [|exact HR].
  assert (Hp : cnt mk_pending (lg_thr c) = 0).
  { assert (G : forall l, (forall x, In x l -> match lt_phase x, lt_todo x with LPIdle, [] => true | _, _ => false end = true) ->
                cnt mk_pending l = 0).
    { induction l as [|x r IH]; intros Hl; [reflexivity|]. rewrite cnt_cons, IH by (intros; apply Hl; now right).
      specialize (Hl x (or_introl eq_refl)). unfold mk_pending. destruct (lt_phase x); [reflexivity|discriminate|discriminate]. }
    apply G. exact Hq. }
  assert (Hcr : mk_created (lg_st c) = true).
  { destruct (lg_thr c) as [|th r] eqn:E.
    - cbn in Hlen. unfold mk_progs in Hlen. rewrite map_length in Hlen. destruct perms; [congruence|discriminate].
    - inversion HT as [|? ? Hth _]; subst. specialize (Hq th (or_introl eq_refl)).
      unfold mk_thr_ok in Hth. destruct (lt_phase th); try discriminate.
      destruct (lt_todo th) eqn:Etd; [|discriminate].
      destruct Hth as [[_ H]|[perm H]]; [exact H|discriminate]. }
  rewrite Hcr, Hp in HC. exact HC.
Qed.
End MkdirOne.

(* ================================================================ refutation witnesses *)
(* The multi-section methods AS THE CODE IS TODAY: a schedule of the section machine whose
   history has no linearization (decided by the complete checker, by computation). *)
Local Open Scope Z_scope.
Definition w_f : str := [47; 102]%N.                 (* /f *)
Definition w_d : str := [47; 100]%N.                 (* /d *)
Definition w_dx : str := [47; 100; 47; 120]%N.       (* /d/x *)
Definition w_dy : str := [47; 100; 47; 121]%N.       (* /d/y *)
Definition w_excl : Z := Z.lor (Z.lor o_rdwr o_create) o_excl.

(* two O_CREATE|O_EXCL of one free name: lookup1 lookup2 create1 create2 => both succeed *)
Definition w1_progs : list (list lop) :=
  [[(Some 10%nat, OpenFile w_f w_excl 420)]; [(Some 20%nat, OpenFile w_f w_excl 416)]].
Definition w1_sched : list nat := [0; 1; 0; 1; 0; 0; 0; 0; 1; 1; 1; 1]%nat.

(* Mkdir creates /d, a concurrent Remove takes it away, Mkdir's setFileMode says not-exist *)
Definition w2_progs : list (list lop) := [[(None, Mkdir w_d 493)]; [(None, Remove w_d)]].
Definition w2_sched : list nat := [0; 0; 0; 1; 1; 1; 0; 0; 0]%nat.

(* RemoveAll /d has deleted the key /d but not yet /d/x: a reader finds /d gone, then /d/x there *)
Definition w3_setup : list lop := [(None, Mkdir w_d 493); (Some 1%nat, Create w_dx); (Some 2%nat, Create w_dy)].
Definition w3_s0 : lstate := fst (lin_replay lin_step lin_init w3_setup).
Definition w3_progs : list (list lop) := [[(None, RemoveAll w_d)]; [(None, Stat w_d); (None, Stat w_dx)]].
Definition w3_sched : list nat := [0; 0; 0; 1; 1; 1; 1; 1; 1; 0; 0; 0; 0; 0]%nat.

Definition refuted (k : seccfg) (s0 : lstate) : Prop :=
  exists hist fin, produced_by_sections k s0 hist fin /\
    lin_check_mem s0 hist fin = false /\ ~ linearizable lin_step lin_obs s0 hist fin.

Lemma refuted_by k s0 progs sched :
  lin_quiescent (ln_run k s0 progs sched) = true ->
  lin_check_mem s0 (lg_lin (ln_run k s0 progs sched)) (lin_obs (lg_st (ln_run k s0 progs sched))) = false ->
  refuted k s0.
Proof.
  intros Hq Hc. eexists; eexists. split; [exists progs, sched; split; [exact Hq|split; reflexivity]|].
  split; [exact Hc|now apply lin_check_mem_refutes].
Qed.

(* Chmod finds /f, a concurrent Rename moves it to /g and a Stat of /g still shows the old
   mode; then Chmod sets the mode of the node it found: it "succeeded" on a name that was gone *)
Definition w4_setup : list lop := [(Some 1%nat, OpenFile w_f (Z.lor o_rdwr o_create) 420)].
Definition w4_s0 : lstate := fst (lin_replay lin_step lin_init w4_setup).
Definition w_g : str := [47; 103]%N.
Definition w4_progs : list (list lop) := [[(None, Chmod w_f 384)]; [(None, Rename w_f w_g); (None, Stat w_g)]].
(* padded: events of a thread that has finished are no-ops (Rename has one to three sections) *)
Definition w4_sched : list nat := [0; 0; 0; 1; 1; 1; 1; 1; 1; 1; 1; 0; 0; 0]%nat.
Definition w5_progs : list (list lop) := [[(None, Chtimes w_f 1000)]; [(None, Rename w_f w_g); (None, Stat w_g)]].
Definition w5_sched : list nat := [0; 0; 1; 1; 1; 1; 1; 1; 1; 1; 0; 0; 0]%nat.

Theorem refuted_excl_create k : sc_open_split k = true -> refuted k lin_init.
Proof.
  destruct k as [a b c d e f g h i j]; cbn [sc_open_split sc_mkdir_setmode sc_rmall_split sc_chmod_split sc_chtimes_split]; intros ->. apply (refuted_by _ _ w1_progs w1_sched);
    destruct b, c, d, e, f, g, h, i, j; vm_compute; reflexivity.
Qed.

(* both calls of the witness report success *)
Lemma refuted_excl_create_both k : sc_open_split k = true ->
  map lc_res (lg_lin (ln_run k lin_init w1_progs w1_sched)) = [RHandle 0; RHandle 0].
Proof. destruct k as [a b c d e f g h i j]; cbn [sc_open_split sc_mkdir_setmode sc_rmall_split sc_chmod_split sc_chtimes_split]; intros ->. destruct b, c, d, e, f, g, h, i, j; vm_compute; reflexivity. Qed.

Theorem refuted_mkdir_then_remove k : sc_mkdir_setmode k = true -> refuted k lin_init.
Proof.
  destruct k as [a b c d e f g h i j]; cbn [sc_open_split sc_mkdir_setmode sc_rmall_split sc_chmod_split sc_chtimes_split]; intros ->. apply (refuted_by _ _ w2_progs w2_sched);
    destruct a, b, d, e, f, g, h, i, j; vm_compute; reflexivity.
Qed.

Lemma refuted_mkdir_then_remove_results k : sc_mkdir_setmode k = true ->
  map (fun x => (lc_op x, lc_res x)) (lg_lin (ln_run k lin_init w2_progs w2_sched)) =
  [((None, Remove w_d), ROk); ((None, Mkdir w_d 493), RErr (EW KNotExist))].
Proof. destruct k as [a b c d e f g h i j]; cbn [sc_open_split sc_mkdir_setmode sc_rmall_split sc_chmod_split sc_chtimes_split]; intros ->. destruct a, b, d, e, f, g, h, i, j; vm_compute; reflexivity. Qed.

Theorem refuted_removeall k : sc_rmall_split k = true -> refuted k w3_s0.
Proof.
  destruct k as [a b c d e f g h i j]; cbn [sc_open_split sc_mkdir_setmode sc_rmall_split sc_chmod_split sc_chtimes_split]; intros ->. apply (refuted_by _ _ w3_progs w3_sched);
    destruct a, b, c, e, f, g, h, i, j; vm_compute; reflexivity.
Qed.

Theorem refuted_chmod_rename k : sc_chmod_split k = true -> refuted k w4_s0.
Proof.
  destruct k as [a b c d e f g h i j]; cbn [sc_chmod_split]; intros ->. apply (refuted_by _ _ w4_progs w4_sched);
    destruct a, b, c, d, f, g, h, i, j; vm_compute; reflexivity.
Qed.

Theorem refuted_chtimes_rename k : sc_chtimes_split k = true -> refuted k w4_s0.
Proof.
  destruct k as [a b c d e f g h i j]; cbn [sc_chtimes_split]; intros ->. apply (refuted_by _ _ w5_progs w5_sched);
    destruct a, b, c, d, e, g, h, i, j; vm_compute; reflexivity.
Qed.

(* ================================================================ the two later switches *)
(* ---- the split Readdirnames, run back to back, is the specification's Readdirnames: the
   selection of entries in [ln_rdn_list] is the one of [m_readdir] ---- *)
Lemma ln_rdn_names_eq s i h' refs :
  map fi_name (map (fun r => match get_node s r with Some c => finfo_of c | None => mkFi [] false 0 0 0 end) refs)
  = ln_rdn_names (set_handle s i h') refs.
Proof.
  unfold ln_rdn_names. rewrite map_map. apply map_ext. intros r.
  unfold get_node, set_handle; cbn [mheap]. destruct (nth_error (mheap s) r); reflexivity.
Qed.

Lemma ln_rdn_back_to_back s i count :
  m_step_raw s (HReaddirnames i count) =
  match ln_rdn_list s i count with
  | (s1, inl (refs, e)) => (s1, RNames (ln_rdn_names s1 refs) e)
  | (s1, inr r) => (s1, r)
  end.
Proof.
  cbn [m_step_raw]. unfold m_hop, ln_rdn_list.
  destruct (nth_error (mhandles s) i) as [h|]; [|reflexivity].
  destruct (get_node s (href h)) as [n|] eqn:En; [|reflexivity].
  unfold m_readdir. rewrite En.
  destruct (ndir n); cbn [negb]; [|reflexivity].
  cbv zeta.
  match goal with |- context [firstn ?a ?b] => set (refs := firstn a b) end.
  rewrite <- (ln_rdn_names_eq s i _ refs).
  match goal with |- context [map fi_name ?l] => set (infos := l) end.
  destruct (_ && _)%bool; [|reflexivity].
  destruct infos; reflexivity.
Qed.

(* ---- Readdirnames on an open directory ‖ Rename of a child out of it: the listing contains
   the name "g", which never was a name in /d ---- *)
Definition w6_setup : list lop := [(None, Mkdir w_d 493); (Some 1%nat, Create w_dx); (Some 10%nat, Open w_d)].
Definition w6_s0 : lstate := fst (lin_replay lin_step lin_init w6_setup).
Definition w6_progs : list (list lop) := [[(None, HReaddirnames 10 (-1))]; [(None, Rename w_dx w_g)]].
Definition w6_sched : list nat := [0; 0; 1; 1; 1; 1; 1; 0; 0]%nat.

Theorem refuted_readdirnames_rename k : sc_rdnames_split k = true -> refuted k w6_s0.
Proof.
  destruct k as [a b c d e f g h i j]; cbn [sc_rdnames_split]; intros ->. apply (refuted_by _ _ w6_progs w6_sched);
    destruct a, b, c, d, e, f, g, i, j; vm_compute; reflexivity.
Qed.

Lemma refuted_readdirnames_rename_results k : sc_rdnames_split k = true ->
  map (fun x => (lc_op x, lc_res x)) (lg_lin (ln_run k w6_s0 w6_progs w6_sched)) =
  [((None, Rename w_dx w_g), ROk); ((None, HReaddirnames 10 (-1)), RNames [[103%N]] None)].
Proof. destruct k as [a b c d e f g h i j]; cbn [sc_rdnames_split]; intros ->. destruct a, b, c, d, e, f, g, i, j; vm_compute; reflexivity. Qed.

(* ---- OpenFile(O_WRONLY|O_CREATE|O_TRUNC) creates /f; Chtimes sets its time; OpenFile's
   truncate, after its locked section, stamps the file again: Chtimes "succeeded" without
   effect on a file that OpenFile created before it ---- *)
Definition w_crtr : Z := Z.lor (Z.lor o_wronly o_create) o_trunc.
Definition w7_progs : list (list lop) := [[(Some 10%nat, OpenFile w_f w_crtr 412)]; [(None, Chtimes w_f 1000)]].
(* padded: events of a thread that has finished are no-ops (Chtimes has one or two sections) *)
Definition w7_sched : list nat := [0; 0; 1; 1; 1; 1; 0; 0; 0]%nat.

Theorem refuted_openfile_trunc k : sc_open_split k = false -> sc_open_finish k = true -> refuted k lin_init.
Proof.
  destruct k as [a b c d e f g h i j]; cbn [sc_open_split sc_open_finish]; intros -> ->. apply (refuted_by _ _ w7_progs w7_sched);
    destruct b, c, d, e, f, h, i, j; vm_compute; reflexivity.
Qed.

Lemma refuted_openfile_trunc_results k : sc_open_split k = false -> sc_open_finish k = true ->
  map (fun x => (lc_op x, lc_res x)) (lg_lin (ln_run k lin_init w7_progs w7_sched)) =
    [((None, Chtimes w_f 1000), ROk); ((Some 10%nat, OpenFile w_f w_crtr 412), RHandle 0)] /\
  map e_mtime (lin_obs (lg_st (ln_run k lin_init w7_progs w7_sched))) = [BIG; BIG].
Proof.
  destruct k as [a b c d e f g h i j]; cbn [sc_open_split sc_open_finish]; intros -> ->.
  destruct b, c, d, e, f, h, i, j; vm_compute; split; reflexivity.
Qed.

(* ---- OpenFile(O_RDWR|O_APPEND|O_TRUNC) on /f = "abcd": its seek reads length 4; a Write of 8 bytes
   through ANOTHER handle runs between the seek and the truncate; the new handle keeps offset 4 and
   a one-byte Write through it lands there.  Had the other Write come first the offset would be 8,
   had it come second its 8 bytes would survive.  This is the history recorded on the Go side by
   the lock-aware cooperative scheduler BEFORE the repair (corpus/C04/openfile-append-trunc-write.case,
   now a regression case): both steps lay in ONE section of mu, which a handle operation does not
   take, but in two holds of the file's mutex (lin_openfile_finish_one_hold = 0) ---- *)
Definition w_apptr : Z := Z.lor (Z.lor o_rdwr o_append) o_trunc.
Definition w10_setup : list lop :=
  [(Some 1%nat, OpenFile w_f (Z.lor o_rdwr o_create) 420); (None, HWrite 1 [97; 98; 99; 100]%N); (None, HClose 1);
   (Some 20%nat, OpenFile w_f o_rdwr 0)].
Definition w10_s0 : lstate := fst (lin_replay lin_step lin_init w10_setup).
Definition w10_progs : list (list lop) :=
  [[(Some 10%nat, OpenFile w_f w_apptr 412); (None, HWrite 10 [78]%N)];
   [(None, HWrite 20 [87; 87; 87; 87; 87; 87; 87; 87]%N)]].
(* OpenFile: invoke, locked section, seek; the other Write; truncate and return, then the Write
   through the new handle (padded) *)
Definition w10_sched : list nat := [0; 0; 0; 1; 1; 1; 0; 0; 0; 0; 0; 0; 0]%nat.

(* the goroutine that runs between OpenFile's sections only uses a handle: it does not take mu *)
Lemma w10_writer_handles_only : Forall (fun c : lop => op_handle_of (snd c) <> None) (nth 1 w10_progs []).
Proof. repeat constructor; discriminate. Qed.

Theorem refuted_openfile_append_trunc_write k : sc_open_split k = false -> sc_open_finish k = true -> refuted k w10_s0.
Proof.
  destruct k as [a b c d e f g h i j]; cbn [sc_open_split sc_open_finish]; intros -> ->. apply (refuted_by _ _ w10_progs w10_sched);
    destruct b, c, d, e, f, h, i, j; vm_compute; reflexivity.
Qed.

Lemma refuted_openfile_append_trunc_write_results k : sc_open_split k = false -> sc_open_finish k = true ->
  map (fun x => (lc_op x, lc_res x)) (lg_lin (ln_run k w10_s0 w10_progs w10_sched)) =
    [((None, HWrite 20 [87; 87; 87; 87; 87; 87; 87; 87]%N), RCount 8 None);
     ((Some 10%nat, OpenFile w_f w_apptr 412), RHandle 0); ((None, HWrite 10 [78]%N), RCount 1 None)] /\
  map e_data (lin_obs (lg_st (ln_run k w10_s0 w10_progs w10_sched))) = [[]; [0; 0; 0; 0; 78]%N].
Proof.
  destruct k as [a b c d e f g h i j]; cbn [sc_open_split sc_open_finish]; intros -> ->.
  destruct b, c, d, e, f, h, i, j; vm_compute; split; reflexivity.
Qed.

(* ================================================================ Rename and the directories' mutexes *)
Definition w_e : str := [47; 101]%N.                 (* /e *)
Definition w_ex : str := [47; 101; 47; 120]%N.       (* /e/x *)

(* ---- /d/x moves to /e/x; between its leaving /d and its entering /e a goroutine lists /d and
   THEN /e through handles opened before: x is in neither ---- *)
Definition w8_setup : list lop :=
  [(None, Mkdir w_d 493); (None, Mkdir w_e 493); (Some 1%nat, Create w_dx); (Some 10%nat, Open w_d); (Some 11%nat, Open w_e)].
Definition w8_s0 : lstate := fst (lin_replay lin_step lin_init w8_setup).
Definition w8_progs : list (list lop) :=
  [[(None, Rename w_dx w_ex)]; [(None, HReaddirnames 10 (-1)); (None, HReaddirnames 11 (-1))]].
(* Rename: invoke, first section; the two listings; the rest of Rename (padded: events of a
   thread that has finished are no-ops) *)
Definition w8_sched : list nat := [0; 0; 1; 1; 1; 1; 1; 1; 1; 1; 0; 0; 0; 0; 0]%nat.

(* the goroutine that runs between Rename's sections only uses handles: these calls do not take mu *)
Lemma w8_lister_handles_only : Forall (fun c : lop => op_handle_of (snd c) <> None) (nth 1 w8_progs []).
Proof. repeat constructor; discriminate. Qed.

Theorem refuted_rename_two_parents k : sc_rename_parents_split k = true -> refuted k w8_s0.
Proof.
  destruct k as [a b c d e f g h i j]; cbn [sc_rename_parents_split]; intros ->. apply (refuted_by _ _ w8_progs w8_sched);
    destruct a, b, c, d, e, f, g, h, j; vm_compute; reflexivity.
Qed.

Lemma refuted_rename_two_parents_results k : sc_rename_parents_split k = true ->
  map (fun x => (lc_op x, lc_res x)) (lg_lin (ln_run k w8_s0 w8_progs w8_sched)) =
  [((None, HReaddirnames 10 (-1)), RNames [] None); ((None, HReaddirnames 11 (-1)), RNames [] None);
   ((None, Rename w_dx w_ex), ROk)].
Proof. destruct k as [a b c d e f g h i j]; cbn [sc_rename_parents_split]; intros ->. destruct a, b, c, d, e, f, g, h, j; vm_compute; reflexivity. Qed.

(* ---- /d, with children x and y, becomes /g; while x is out of the directory (unregistered, not
   yet registered under its new name) a goroutine lists the directory through a handle opened
   before: one child of two ---- *)
Definition w9_setup : list lop :=
  [(None, Mkdir w_d 493); (Some 1%nat, Create w_dx); (Some 2%nat, Create w_dy); (Some 10%nat, Open w_d)].
Definition w9_s0 : lstate := fst (lin_replay lin_step lin_init w9_setup).
Definition w9_progs : list (list lop) := [[(None, Rename w_d w_g)]; [(None, HReaddirnames 10 (-1))]].
(* Rename: invoke, its sections up to the one that takes the first child out (one more when the
   parents are separate holds as well); the listing; the rest *)
Definition w9_sched (k : seccfg) : list nat :=
  ((if sc_rename_parents_split k then [0; 0; 0; 0] else [0; 0; 0]) ++ [1; 1; 1; 1; 0; 0; 0; 0; 0; 0])%nat.

Lemma w9_lister_handles_only : Forall (fun c : lop => op_handle_of (snd c) <> None) (nth 1 w9_progs []).
Proof. repeat constructor; discriminate. Qed.

Theorem refuted_rename_dir_children k : sc_rename_kids_split k = true -> refuted k w9_s0.
Proof.
  destruct k as [a b c d e f g h i j]; cbn [sc_rename_kids_split]; intros ->.
  apply (refuted_by _ _ w9_progs (w9_sched (mkCfg a b c d e f g h i true)));
    destruct a, b, c, d, e, f, g, h, i; vm_compute; reflexivity.
Qed.

Lemma refuted_rename_dir_children_results k : sc_rename_kids_split k = true ->
  map (fun x => (lc_op x, lc_res x)) (lg_lin (ln_run k w9_s0 w9_progs (w9_sched k))) =
  [((None, HReaddirnames 10 (-1)), RNames [[121%N]] None); ((None, Rename w_d w_g), ROk)].
Proof. destruct k as [a b c d e f g h i j]; cbn [sc_rename_kids_split]; intros ->. destruct a, b, c, d, e, f, g, h, i; vm_compute; reflexivity. Qed.
