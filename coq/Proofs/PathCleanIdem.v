(* Proofs/PathCleanIdem.v — filepath.Clean (Lib/Path.clean) is idempotent on rooted paths, hence
   an archive entry is addressed by its own cleaned path: splitpath (cpath n) = splitpath n. *)
From AF Require Import Lib.Bytes Lib.Path Model.Archive Proofs.ArchiveLemmas.

Definition slash_free (s : str) : Prop := ~ In SLASH s.
Definition normal (s : str) : Prop :=
  is_empty s = false /\ is_dot s = false /\ is_dotdot s = false /\ slash_free s.

Lemma split_aux_free s : slash_free s -> forall cur, split_aux s cur = [rev cur ++ s].
Proof.
  induction s as [|c s IH]; intros F cur; cbn; [now rewrite app_nil_r|].
  destruct (N.eqb c SLASH) eqn:E.
  - apply N.eqb_eq in E. exfalso. apply F. now left.
  - rewrite IH by (intros H; apply F; now right). cbn. now rewrite <- app_assoc.
Qed.

Lemma split_aux_app s t : slash_free s -> forall cur,
  split_aux (s ++ SLASH :: t) cur = (rev cur ++ s) :: split_aux t [].
Proof.
  induction s as [|c s IH]; intros F cur; cbn.
  - rewrite ?N.eqb_refl. now rewrite app_nil_r.
  - destruct (N.eqb c SLASH) eqn:E.
    + apply N.eqb_eq in E. exfalso. apply F. now left.
    + rewrite IH by (intros H; apply F; now right). cbn. now rewrite <- app_assoc.
Qed.

Lemma split_join segs : segs <> [] -> Forall slash_free segs -> split_slash (join_slash segs) = segs.
Proof.
  induction segs as [|x segs IH]; intros Hne HF; [contradiction|].
  inversion HF as [|? ? Hx HF']; subst. destruct segs as [|y segs].
  - cbn. unfold split_slash. now rewrite split_aux_free.
  - change (join_slash (x :: y :: segs)) with (x ++ SLASH :: join_slash (y :: segs)).
    unfold split_slash. rewrite split_aux_app by exact Hx. cbn [rev app]. f_equal.
    apply IH; [discriminate|exact HF'].
Qed.

Lemma split_aux_pieces_free s : forall cur, slash_free cur -> Forall slash_free (split_aux s cur).
Proof.
  induction s as [|c s IH]; intros cur F; cbn.
  - constructor; [|constructor]. intros H. apply F. now apply in_rev.
  - destruct (N.eqb c SLASH) eqn:E.
    + constructor; [intros H; apply F; now apply in_rev|]. apply IH. intros [].
    + apply IH. intros [H|H]; [|now apply F]. subst. now rewrite N.eqb_refl in E.
Qed.

Lemma norm_rooted_normal segs : forall stack,
  Forall slash_free segs -> Forall normal stack -> Forall normal (norm_aux true segs stack).
Proof.
  induction segs as [|s segs IH]; intros stack HF HS; cbn [norm_aux].
  - now apply Forall_rev.
  - inversion HF as [|? ? Hs HF']; subst.
    destruct (is_empty s || is_dot s) eqn:E1; [now apply IH|].
    apply orb_false_iff in E1 as [Ee Ed].
    destruct (is_dotdot s) eqn:E2.
    + destruct stack as [|top st]; [now apply IH|].
      inversion HS as [|? ? Ht HS']; subst. destruct Ht as (_ & _ & Htd & _). rewrite Htd. now apply IH.
    + apply IH; [exact HF'|]. constructor; [|exact HS]. repeat split; auto.
Qed.

Lemma norm_normal_id r segs : forall stack,
  Forall normal segs -> norm_aux r segs stack = rev stack ++ segs.
Proof.
  induction segs as [|s segs IH]; intros stack HF; cbn [norm_aux]; [now rewrite app_nil_r|].
  inversion HF as [|? ? (He & Hd & Hdd & _) HF']; subst. rewrite He, Hd, Hdd. cbn [orb].
  rewrite IH by exact HF'. cbn [rev]. now rewrite <- app_assoc.
Qed.

Lemma is_rooted_clean s : is_rooted s = true -> is_rooted (clean s) = true.
Proof. intros H. unfold clean. rewrite H. cbn. now rewrite ?N.eqb_refl. Qed.

Lemma clean_rooted_idem s : is_rooted s = true -> clean (clean s) = clean s.
Proof.
  intros H. unfold clean at 1. rewrite (is_rooted_clean s H).
  unfold clean, clean_segs. rewrite H. cbn [render is_rooted]. rewrite N.eqb_refl.
  set (segs := norm_aux true (split_slash s) []).
  assert (HN : Forall normal segs).
  { apply norm_rooted_normal; [|constructor]. apply split_aux_pieces_free. intros []. }
  f_equal. f_equal.
  unfold split_slash at 1. cbn [split_aux]. rewrite N.eqb_refl. cbn [rev norm_aux is_empty orb].
  destruct segs as [|x segs'] eqn:Es.
  - reflexivity.
  - fold (split_slash (join_slash (x :: segs'))). rewrite split_join.
    + now rewrite norm_normal_id.
    + discriminate.
    + eapply Forall_impl; [|exact HN]. intros a (_ & _ & _ & F). exact F.
Qed.

Lemma is_rooted_rooted_name n : is_rooted (rooted_name n) = true.
Proof.
  unfold rooted_name. destruct (is_rooted n) eqn:E; [exact E|]. cbn. now rewrite ?N.eqb_refl.
Qed.

Lemma cpath_idem n : cpath (cpath n) = cpath n.
Proof.
  unfold cpath at 1. unfold rooted_name.
  assert (R : is_rooted (cpath n) = true) by (apply is_rooted_clean, is_rooted_rooted_name).
  rewrite R. unfold cpath. apply clean_rooted_idem, is_rooted_rooted_name.
Qed.

(* an entry is addressed by its own cleaned path *)
Theorem splitpath_cpath n : splitpath (cpath n) = splitpath n.
Proof. unfold splitpath. now rewrite cpath_idem. Qed.
