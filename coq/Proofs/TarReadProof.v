(* Proofs/TarReadProof.v — C14 for tarfs (patched variant, legacy = false): exactness of
   Read/ReadAt/Seek/Close against the byte-array specification, absence of panics. *)
From AF Require Import Lib.Bytes Lib.Path Lib.Ops Gen.Consts Model.ByteFile Model.Archive Model.Tar
  Proofs.ArchiveLemmas.
Local Open Scope Z_scope.

Definition Rt (e : aentry) (h : th) (b : bh) : Prop :=
  bro b = true /\ tclosed h = bclosed b /\
  (bclosed b = false -> tfile h = Some e /\ tpos h = Z.of_nat (bpos b)).

Lemma ts_same (s : tst) i h : nth_error (ths s) i = Some h ->
  s = mkTS (tix s) (list_set i h (ths s)) (tsh s).
Proof. intros E. rewrite (list_set_same _ _ _ E). now destruct s. Qed.

Lemma proj14_read_none i n x : proj14 (HRead i n) (RData x None) = PBytes x false.
Proof. destruct x; reflexivity. Qed.
Lemma proj14_read_eof i n x :
  proj14 (HRead i n) (RData x (Some (E KEOF))) = PBytes x (match x with [] => 0 <? n | _ => false end).
Proof. destruct x; reflexivity. Qed.

Lemma pread_len c pos n : length (pread c pos n) = Nat.min n (length c - pos).
Proof. unfold pread. now rewrite firstn_length, skipn_length. Qed.

Lemma pread_beyond c pos n : (length c <= pos)%nat -> pread c pos n = [].
Proof. intros H. unfold pread. rewrite skipn_all2 by exact H. apply firstn_nil. Qed.

Section OneEntry.
Variable e : aentry.
Hypothesis Hfile : eisdir e = false.
Let c := econtent e.

Lemma t_read_local s i h b n :
  nth_error (ths s) i = Some h -> Rt e h b ->
  exists h' r, t_read false s i h n = (mkTS (tix s) (list_set i h' (ths s)) (tsh s), r) /\
    proj14 (HRead i n) r = snd (bh_local false c b (HRead i n)) /\
    Rt e h' (fst (bh_local false c b (HRead i n))).
Proof.
  intros En HR0. pose proof HR0 as (Hro & Hcl & Hopen). unfold t_read, bh_local. rewrite Hcl.
  destruct (bclosed b) eqn:Ec.
  { exists h, (RData [] (Some (E KClosed))). split; [f_equal; now apply ts_same|]. split; [reflexivity|exact HR0]. }
  destruct (Hopen eq_refl) as [Hf Hp]. rewrite Hf, Hfile. unfold t_getpos, t_setpos, br_read. fold c.
  unfold zlen. destruct (Z.of_nat (length c) <=? tpos h) eqn:Ee.
  - apply Z.leb_le in Ee. exists (tset_pos h (tpos h)), (RData [] (Some (E KEOF))).
    split; [reflexivity|]. rewrite pread_beyond by lia. cbn [length snd fst]. split.
    + rewrite proj14_read_eof. now rewrite andb_true_r.
    + split; [exact Hro|]. split; [cbn; congruence|]. intros _. cbn. split; [exact Hf|lia].
  - apply Z.leb_gt in Ee.
    set (x := firstn (Z.to_nat (Z.max 0 n)) (skipn (Z.to_nat (tpos h)) c)).
    assert (Hx : x = pread c (bpos b) (Z.to_nat n)).
    { unfold x, pread. f_equal; [lia|f_equal; lia]. }
    exists (tset_pos h (tpos h + Z.of_nat (length x))), (RData x None). split; [reflexivity|].
    rewrite <- Hx. cbn [snd fst]. split.
    + rewrite proj14_read_none. f_equal. destruct (0 <? n) eqn:En0; [|reflexivity].
      apply Z.ltb_lt in En0. symmetry. apply Nat.eqb_neq.
      rewrite Hx, pread_len. lia.
    + split; [exact Hro|]. split; [cbn; congruence|]. intros _. cbn. split; [exact Hf|lia].
Qed.

Lemma t_readat_local s h b i n off :
  Rt e h b ->
  exists r, t_readat s h n off = (s, r) /\
    proj14 (HReadAt i n off) r = snd (bh_local false c b (HReadAt i n off)) /\
    Rt e h (fst (bh_local false c b (HReadAt i n off))).
Proof.
  intros HR0. pose proof HR0 as (Hro & Hcl & Hopen). unfold t_readat, bh_local. rewrite Hcl.
  destruct (bclosed b) eqn:Ec.
  { eexists. split; [reflexivity|]. split; [reflexivity|exact HR0]. }
  destruct (Hopen eq_refl) as [Hf Hp]. rewrite Hf, Hfile. eexists. split; [reflexivity|].
  unfold br_readat. fold c. destruct (off <? 0) eqn:Eo; [split; [reflexivity|exact HR0]|].
  apply Z.ltb_ge in Eo. cbn [fst snd]. split; [|exact HR0].
  unfold zlen. destruct (Z.of_nat (length c) <=? off) eqn:Ee.
  - apply Z.leb_le in Ee. rewrite pread_beyond by lia. reflexivity.
  - apply Z.leb_gt in Ee.
    set (x := firstn (Z.to_nat (Z.max 0 n)) (skipn (Z.to_nat off) c)).
    assert (Hx : x = pread c (Z.to_nat off) (Z.to_nat n)).
    { unfold x, pread. f_equal. lia. }
    rewrite <- Hx.
    destruct (Z.of_nat (length x) <? Z.max 0 n) eqn:El.
    + apply Z.ltb_lt in El. cbn -[Z.ltb].
      assert (0 <? n = true) as -> by (apply Z.ltb_lt; lia).
      f_equal. symmetry. apply Z.ltb_lt. lia.
    + apply Z.ltb_ge in El. cbn -[Z.ltb]. f_equal. symmetry. apply Z.ltb_ge. lia.
Qed.

Lemma t_seek_local s i h b off wh :
  nth_error (ths s) i = Some h -> Rt e h b ->
  exists h' r, t_seek false s i h off wh = (mkTS (tix s) (list_set i h' (ths s)) (tsh s), r) /\
    proj14 (HSeek i off wh) r = snd (bh_local false c b (HSeek i off wh)) /\
    Rt e h' (fst (bh_local false c b (HSeek i off wh))).
Proof.
  intros En HR0. pose proof HR0 as (Hro & Hcl & Hopen). unfold t_seek, bh_local, ok_whence. rewrite Hcl.
  destruct (bclosed b) eqn:Ec.
  { exists h, (RPos 0 (Some (E KClosed))). split; [f_equal; now apply ts_same|]. split; [|exact HR0].
    cbn. destruct (negb ((wh =? 0) || (wh =? 1) || (wh =? 2))); reflexivity. }
  destruct (Hopen eq_refl) as [Hf Hp]. rewrite Hf, Hfile. unfold t_getpos, t_setpos, br_seek. fold c.
  destruct (negb ((wh =? 0) || (wh =? 1) || (wh =? 2))) eqn:Ew.
  { exists (tset_pos h (tpos h)), (RPos 0 (Some (E KOther))). split; [reflexivity|]. cbn [fst snd]. split.
    - cbn. rewrite Ew. reflexivity.
    - split; [exact Hro|]. split; [cbn; congruence|]. intros _. cbn. auto. }
  rewrite Hp. cbn [andb].
  set (target := if wh =? 0 then off else if wh =? 1 then Z.of_nat (bpos b) + off else zlen c + off).
  destruct (target <? 0) eqn:El.
  { exists (tset_pos h (Z.of_nat (bpos b))), (RPos 0 (Some (E KNegative))). split; [reflexivity|]. cbn [fst snd]. split.
    - cbn. rewrite Ew. reflexivity.
    - split; [exact Hro|]. split; [cbn; congruence|]. intros _. cbn. auto. }
  apply Z.ltb_ge in El.
  exists (tset_pos h target), (RPos target None). split; [reflexivity|]. cbn [fst snd]. split; [reflexivity|].
  split; [exact Hro|]. split; [cbn; congruence|]. intros _. cbn. split; [exact Hf|lia].
Qed.

Lemma t_close_local s i h b :
  nth_error (ths s) i = Some h -> Rt e h b ->
  exists h' r, t_close s i h = (mkTS (tix s) (list_set i h' (ths s)) (tsh s), r) /\
    proj14 (HClose i) r = snd (bh_local false c b (HClose i)) /\
    Rt e h' (fst (bh_local false c b (HClose i))).
Proof.
  intros En HR0. pose proof HR0 as (Hro & Hcl & Hopen). unfold t_close, bh_local. rewrite Hcl.
  destruct (bclosed b) eqn:Ec.
  - exists h, (RErr (E KClosed)). split; [f_equal; now apply ts_same|]. split; [reflexivity|].
    split; [exact Hro|]. split; [cbn; congruence|]. cbn. discriminate.
  - eexists _, _. split; [reflexivity|]. split; [reflexivity|].
    split; [exact Hro|]. split; [reflexivity|]. cbn. discriminate.
Qed.

(* the path q names the entry e in the index: what Open(q) finds *)
Definition tar_resolves (ix : index) (q : str) : Prop :=
  idx_get ix (fst (splitpath q)) (snd (splitpath q)) = Some e.

Lemma t_open_resolves s q :
  tar_resolves (tix s) q ->
  t_open s q = (mkTS (tix s) (ths s ++ [mkTH (Some e) (splitpath q) false 0]) (tsh s), RHandle (length (ths s))).
Proof.
  unfold tar_resolves, t_open, idx_get. destruct (splitpath q) as [d f]. cbn [fst snd].
  intros H. destruct (alist_get d (tix s)) as [m|]; [|discriminate]. now rewrite H.
Qed.

Lemma tar_step_sim s bs o :
  Forall2 (Rt e) (ths s) (bhs bs) -> bdata bs = c ->
  is_read_op o = true ->
  (forall q, o = Open q -> tar_resolves (tix s) q) ->
  proj14 o (snd (tar_step false s o)) = snd (aspec_step false bs o) /\
  Forall2 (Rt e) (ths (fst (tar_step false s o))) (bhs (fst (aspec_step false bs o))) /\
  bdata (fst (aspec_step false bs o)) = c /\
  tix (fst (tar_step false s o)) = tix s.
Proof.
  intros HF Hc Hop Hres.
  destruct o; cbn in Hop; try discriminate.
  - (* Open *)
    change (tar_step false s (Open p)) with (t_open s p).
    rewrite (t_open_resolves s p (Hres p eq_refl)). cbn.
    repeat split; auto. apply Forall2_snoc; [exact HF|].
    split; [reflexivity|]. split; [reflexivity|]. intros _. cbn. auto.
  - (* HRead *)
    pose proof (Forall2_nth_error _ _ _ h HF) as Hn. unfold tar_step.
    destruct (nth_error (ths s) h) as [h0|] eqn:Ez, (nth_error (bhs bs) h) as [b0|] eqn:Eb; try contradiction.
    + rewrite (aspec_step_local false bs (HRead h n) h b0 eq_refl Eb). rewrite Hc.
      destruct (t_read_local s h h0 b0 n Ez Hn) as (h' & r & -> & P & R).
      cbn [fst snd ths tix bhs bdata]. repeat split; auto. now apply Forall2_list_set.
    + rewrite (aspec_step_noslot false bs (HRead h n) h eq_refl Eb). cbn. auto.
  - (* HReadAt *)
    pose proof (Forall2_nth_error _ _ _ h HF) as Hn. unfold tar_step.
    destruct (nth_error (ths s) h) as [h0|] eqn:Ez, (nth_error (bhs bs) h) as [b0|] eqn:Eb; try contradiction.
    + rewrite (aspec_step_local false bs (HReadAt h n off) h b0 eq_refl Eb). rewrite Hc.
      destruct (t_readat_local s h0 b0 h n off Hn) as (r & -> & P & R).
      cbn [fst snd ths tix bhs bdata]. repeat split; auto.
      rewrite <- (list_set_same _ _ _ Ez) at 1. now apply Forall2_list_set.
    + rewrite (aspec_step_noslot false bs (HReadAt h n off) h eq_refl Eb). cbn. auto.
  - (* HSeek *)
    pose proof (Forall2_nth_error _ _ _ h HF) as Hn. unfold tar_step.
    destruct (nth_error (ths s) h) as [h0|] eqn:Ez, (nth_error (bhs bs) h) as [b0|] eqn:Eb; try contradiction.
    + rewrite (aspec_step_local false bs (HSeek h off whence) h b0 eq_refl Eb). rewrite Hc.
      destruct (t_seek_local s h h0 b0 off whence Ez Hn) as (h' & r & -> & P & R).
      cbn [fst snd ths tix bhs bdata]. repeat split; auto. now apply Forall2_list_set.
    + rewrite (aspec_step_noslot false bs (HSeek h off whence) h eq_refl Eb). cbn. auto.
  - (* HClose *)
    pose proof (Forall2_nth_error _ _ _ h HF) as Hn. unfold tar_step.
    destruct (nth_error (ths s) h) as [h0|] eqn:Ez, (nth_error (bhs bs) h) as [b0|] eqn:Eb; try contradiction.
    + rewrite (aspec_step_local false bs (HClose h) h b0 eq_refl Eb). rewrite Hc.
      destruct (t_close_local s h h0 b0 Ez Hn) as (h' & r & -> & P & R).
      cbn [fst snd ths tix bhs bdata]. repeat split; auto. now apply Forall2_list_set.
    + rewrite (aspec_step_noslot false bs (HClose h) h eq_refl Eb). cbn. auto.
Qed.

Theorem tar_reads_exact_from : forall prog s bs,
  Forall2 (Rt e) (ths s) (bhs bs) -> bdata bs = c ->
  (forall o, In o prog -> is_read_op o = true) ->
  (forall q, In (Open q) prog -> tar_resolves (tix s) q) ->
  proj14_all prog (snd (arun (tar_step false) s prog)) = snd (aspec_run false bs prog).
Proof.
  induction prog as [|o prog IH]; intros s bs HF Hc Hops Hres; [reflexivity|].
  cbn [arun aspec_run].
  destruct (tar_step_sim s bs o HF Hc (Hops o (or_introl eq_refl))
              (fun q E => Hres q (or_introl E))) as (P & F' & C' & I').
  destruct (tar_step false s o) as [s1 r] eqn:Es. destruct (aspec_step false bs o) as [bs1 p] eqn:Eb.
  cbn [fst snd] in *.
  specialize (IH s1 bs1 F' C' (fun o' H => Hops o' (or_intror H))).
  rewrite I' in IH. specialize (IH (fun q H => Hres q (or_intror H))).
  destruct (arun (tar_step false) s1 prog) as [s2 rs]. destruct (aspec_run false bs1 prog) as [bs2 ps].
  cbn [fst snd proj14_all] in *. now rewrite P, IH.
Qed.
End OneEntry.

(* ---------------------------------------------------------------- no panics *)
(* Close clears the header: File.Stat / File.Name on a closed handle dereference nil.  That is
   outside the property (it speaks of read positions) and outside this theorem's scope. *)
Definition tar_scope (o : op) : bool := match o with HStat _ | HName _ => false | _ => true end.

Definition t_inv (h : th) : Prop := tclosed h = false -> tfile h <> None.
Definition ts_inv (s : tst) : Prop := Forall t_inv (ths s).

Lemma t_open_inv s p : ts_inv s -> snd (t_open s p) <> RPanic /\ ts_inv (fst (t_open s p)).
Proof.
  intros Hi. unfold t_open. destruct (splitpath p) as [d f].
  destruct (alist_get d (tix s)) as [m|]; [|cbn; split; [discriminate|exact Hi]].
  destruct (alist_get f m) as [e|]; [|cbn; split; [discriminate|exact Hi]].
  cbn. split; [discriminate|]. apply Forall_app; split; [exact Hi|]. constructor; [|constructor].
  intros _; cbn; discriminate.
Qed.

Lemma tar_step_inv s o :
  tar_scope o = true -> ts_inv s ->
  snd (tar_step false s o) <> RPanic /\ ts_inv (fst (tar_step false s o)).
Proof.
  intros Hs Hi.
  assert (Hh : forall i h, nth_error (ths s) i = Some h -> t_inv h).
  { intros i h E. eapply Forall_nth_error; eauto. }
  destruct o; cbn in Hs; try discriminate; unfold tar_step;
    try (cbn; split; [discriminate|exact Hi]);
    try (destruct (nth_error (ths s) h) as [h0|] eqn:En; [pose proof (Hh _ _ En) as I0; unfold t_inv in I0|cbn; split; [discriminate|exact Hi]]).
  - (* Open *) now apply t_open_inv.
  - (* OpenFile *) destruct (negb (flag =? o_rdonly)); [cbn; split; [discriminate|exact Hi]|now apply t_open_inv].
  - (* Stat *)
    cbn [fst snd]. split; [|exact Hi]. unfold t_stat. destruct (splitpath p) as [d f].
    destruct (alist_get d (tix s)) as [m|]; [|discriminate]. destruct (alist_get f m); discriminate.
  - (* HRead *)
    unfold t_read. destruct (tclosed h0) eqn:Ec; [cbn; split; [discriminate|exact Hi]|].
    destruct (tfile h0) as [e|] eqn:Ef; [|exfalso; now apply I0].
    destruct (eisdir e); [cbn; split; [discriminate|exact Hi]|].
    unfold br_read, t_getpos, t_setpos.
    destruct (zlen (econtent e) <=? tpos h0); cbn [fst snd ths]; (split; [discriminate|]);
      (apply Forall_list_set; [exact Hi|]); intros _; cbn; rewrite Ef; discriminate.
  - (* HReadAt *)
    unfold t_readat. destruct (tclosed h0) eqn:Ec; [cbn; split; [discriminate|exact Hi]|].
    destruct (tfile h0) as [e|] eqn:Ef; [|exfalso; now apply I0].
    destruct (eisdir e); [cbn; split; [discriminate|exact Hi]|].
    cbn [fst snd]. split; [|exact Hi]. unfold br_readat.
    destruct (off <? 0); [discriminate|]. destruct (zlen (econtent e) <=? off); discriminate.
  - (* HWrite *) cbn; split; [discriminate|exact Hi].
  - (* HWriteAt *) cbn; split; [discriminate|exact Hi].
  - (* HWriteString *) cbn; split; [discriminate|exact Hi].
  - (* HSeek *)
    unfold t_seek. destruct (tclosed h0) eqn:Ec; [cbn; split; [discriminate|exact Hi]|].
    destruct (tfile h0) as [e|] eqn:Ef; [|exfalso; now apply I0].
    destruct (eisdir e); [cbn; split; [discriminate|exact Hi]|].
    unfold br_seek, t_getpos, t_setpos.
    destruct (negb ((whence =? 0) || (whence =? 1) || (whence =? 2)));
      [cbn [fst snd ths]; split; [discriminate|]; apply Forall_list_set; [exact Hi|]; intros _; cbn; rewrite Ef; discriminate|].
    match goal with |- context [if ?c <? 0 then _ else _] => destruct (c <? 0) end;
      cbn [fst snd ths]; (split; [discriminate|]); (apply Forall_list_set; [exact Hi|]); intros _; cbn; rewrite Ef; discriminate.
  - (* HTruncate *) cbn; split; [discriminate|exact Hi].
  - (* HClose *)
    unfold t_close. destruct (tclosed h0) eqn:Ec; [cbn; split; [discriminate|exact Hi]|].
    cbn [fst snd ths]. split; [discriminate|]. apply Forall_list_set; [exact Hi|]. intros Hc; cbn in Hc; discriminate.
  - (* HReaddir *)
    cbn [fst snd]. split; [|exact Hi]. unfold t_readdir, t_readdir_entries.
    destruct (tclosed h0) eqn:Ec; [discriminate|].
    destruct (tfile h0) as [e|] eqn:Ef; [|exfalso; now apply I0].
    destruct (negb (eisdir e)); [discriminate|]. destruct (alist_get (joined (ename e)) (tix s)); discriminate.
  - (* HReaddirnames *)
    cbn [fst snd]. split; [|exact Hi]. unfold t_readdirnames, t_readdir_entries.
    destruct (tclosed h0) eqn:Ec; [discriminate|].
    destruct (tfile h0) as [e|] eqn:Ef; [|exfalso; now apply I0].
    destruct (negb (eisdir e)); [discriminate|]. destruct (alist_get (joined (ename e)) (tix s)); discriminate.
  - (* HSync *) cbn; split; [discriminate|exact Hi].
Qed.

Lemma tar_run_inv prog : forall s, (forall o, In o prog -> tar_scope o = true) -> ts_inv s ->
  ~ In RPanic (snd (arun (tar_step false) s prog)) /\ ts_inv (fst (arun (tar_step false) s prog)).
Proof.
  induction prog as [|o prog IH]; intros s Hsc Hi; [cbn; tauto|].
  cbn [arun]. destruct (tar_step_inv s o (Hsc o (or_introl eq_refl)) Hi) as [P I].
  destruct (tar_step false s o) as [s1 r]. cbn [fst snd] in *.
  destruct (IH s1 (fun o' H => Hsc o' (or_intror H)) I) as [P' I'].
  destruct (arun (tar_step false) s1 prog) as [s2 rs]. cbn [fst snd] in *.
  split; [|exact I']. intros [E|H]; [now apply P|now apply P'].
Qed.

(* C14 (b) for tarfs *)
Theorem tar_never_panics : forall (a : archive) (prog : list op),
  (forall o, In o prog -> tar_scope o = true) -> ~ In RPanic (tar_run false a prog).
Proof. intros a prog Hsc. apply tar_run_inv; [exact Hsc|constructor]. Qed.
