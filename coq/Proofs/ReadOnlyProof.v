(* Proofs/ReadOnlyProof.v — C07: ReadOnlyFs over ANY source that satisfies a small contract,
   then the contract for MemMapFs and for BasePathFs over a source that satisfies it. *)
From AF Require Import Lib.Bytes Lib.Path Lib.Ops Gen.Consts Model.MemFile Model.MemFs Model.ReadOnly
  Model.BasePath Proofs.MemFsBasics.
Local Open Scope Z_scope.

Lemma ro_step_spec {St} (inner : St -> op -> St * res) s o :
  ro_step inner s o = if ro_passes o then inner s o else (s, RErr (E KEPERM)).
Proof.
  destruct o; cbn [ro_step ro_passes]; try reflexivity.
  destruct (Z.land flag readonly_mask =? 0); reflexivity.
Qed.

Section Contract.
Context {St V : Type} (inner : St -> op -> St * res).
Variable view : St -> V.          (* what the source holds: paths, contents, modes, mtimes *)
Variable Inv : St -> Prop.        (* e.g.: every handle that already exists cannot write *)
(* K: a call that ReadOnlyFs forwards never changes what the source holds, and keeps Inv *)
Hypothesis K : forall s o, ro_passes o = true -> Inv s ->
  view (fst (inner s o)) = view s /\ Inv (fst (inner s o)).

Lemma ro_step_frozen s o : Inv s ->
  view (fst (ro_step inner s o)) = view s /\ Inv (fst (ro_step inner s o)).
Proof.
  intros Hi. rewrite ro_step_spec. destruct (ro_passes o) eqn:Hp; [now apply K | now split].
Qed.

Theorem ro_frozen : forall ops s, Inv s ->
  view (fst (run_steps (ro_step inner) s ops)) = view s /\ Inv (fst (run_steps (ro_step inner) s ops)).
Proof.
  induction ops as [|o ops IH]; intros s Hi; cbn [run_steps]; [now split|].
  destruct (ro_step_frozen s o Hi) as [Hv Hi'].
  destruct (ro_step inner s o) as [s1 x] eqn:E1. cbn [fst] in *.
  destruct (IH s1 Hi') as [Hv2 Hi2].
  destruct (run_steps (ro_step inner) s1 ops) as [s2 xs]. cbn [fst] in *.
  split; [congruence | exact Hi2].
Qed.

End Contract.

(* mutators: EPERM, source not consulted, state unchanged — for every source *)
Definition mutating (o : op) : bool := negb (ro_passes o).

Theorem ro_mutators_eperm {St} (inner : St -> op -> St * res) s o :
  mutating o = true -> ro_step inner s o = (s, RErr (E KEPERM)).
Proof.
  unfold mutating. rewrite ro_step_spec. destruct (ro_passes o); [discriminate | reflexivity].
Qed.

(* reads: exactly what the source returns *)
Theorem ro_reads_transparent {St} (inner : St -> op -> St * res) s o :
  ro_passes o = true -> ro_step inner s o = inner s o.
Proof. rewrite ro_step_spec. intros ->. reflexivity. Qed.

(* the write-flag classification: any flag word with a write-ish bit is refused *)
Lemma ro_openfile_refused {St} (inner : St -> op -> St * res) s p flag perm :
  Z.land flag readonly_mask <> 0 -> ro_step inner s (OpenFile p flag perm) = (s, RErr (E KEPERM)).
Proof.
  intros H. cbn [ro_step]. destruct (Z.land flag readonly_mask =? 0) eqn:E; [apply Z.eqb_eq in E; contradiction | reflexivity].
Qed.

(* ---- the contract holds for MemMapFs ---- *)
Theorem memfs_contract : forall s o, ro_passes o = true -> all_inert s ->
  fs_view (fst (m_step s o)) = fs_view s /\ all_inert (fst (m_step s o)).
Proof. exact reading_step. Qed.

(* ---- and is inherited through BasePathFs (and through ReadOnlyFs itself) ---- *)
Section Inherit.
Context {St V : Type} (inner : St -> op -> St * res).
Variable view : St -> V.
Variable Inv : St -> Prop.
Hypothesis K : forall s o, ro_passes o = true -> Inv s ->
  view (fst (inner s o)) = view s /\ Inv (fst (inner s o)).

Lemma bp_contract base : forall s o, ro_passes o = true -> Inv s ->
  view (fst (bp_step inner base s o)) = view s /\ Inv (fst (bp_step inner base s o)).
Proof.
  intros s o Hp Hi. destruct o; try discriminate Hp; cbn [bp_step]; try (now apply K).
  - destruct (real_path base p); [now apply K | now split].
  - destruct (real_path base p); [now apply K | now split].
  - destruct (real_path base p); [now apply K | now split].
  - pose proof (K s (HName h) eq_refl Hi) as Hk. destruct (inner s (HName h)) as [s' r]. destruct r; exact Hk.
Qed.

Lemma ro_contract : forall s o, ro_passes o = true -> Inv s ->
  view (fst (ro_step inner s o)) = view s /\ Inv (fst (ro_step inner s o)).
Proof. intros s o Hp Hi. rewrite ro_step_spec, Hp. now apply K. Qed.
End Inherit.

(* ---- instances: the statements of C07 for concrete stacks ---- *)
Theorem ro_mem_frozen : forall ops s, all_inert s ->
  snapshot (fst (run_steps (ro_step m_step) s ops)) = snapshot s.
Proof.
  intros ops s Hi. apply snapshot_of_view.
  apply (ro_frozen m_step fs_view all_inert memfs_contract ops s Hi).
Qed.

Theorem ro_bp_mem_frozen : forall base ops s, all_inert s ->
  snapshot (fst (run_steps (ro_step (bp_step m_step base)) s ops)) = snapshot s.
Proof.
  intros base ops s Hi. apply snapshot_of_view.
  apply (ro_frozen (bp_step m_step base) fs_view all_inert (bp_contract m_step fs_view all_inert memfs_contract base) ops s Hi).
Qed.

Theorem ro_ro_mem_frozen : forall ops s, all_inert s ->
  snapshot (fst (run_steps (ro_step (ro_step m_step)) s ops)) = snapshot s.
Proof.
  intros ops s Hi. apply snapshot_of_view.
  apply (ro_frozen (ro_step m_step) fs_view all_inert (ro_contract m_step fs_view all_inert memfs_contract) ops s Hi).
Qed.

Lemma all_inert_init : all_inert m_init.
Proof. intros i h H. destruct i; discriminate. Qed.
