(* Proofs/CacheInv.v — C11: the invariant of the caching filesystem over two MemMapFs layers.

   [CInv (sb, sl, tbl)]: both layers satisfy the invariant WF of MemMapFs, and there is a pairing phi of
   layer nodes with base nodes (a partial injection) such that
     - every name of the layer denotes, in the base, the node paired with the layer's node (so the layer's
       tree is part of the base's tree), and a base name whose node is paired denotes the partner in the layer;
     - paired nodes are of the same kind and hold the same bytes;
     - every UnionFile of the handle table has a base handle and a layer handle with equal offset / closed /
       read-only flags on paired nodes; base-only and layer-only handles cannot write;
     - different table slots use different inner handles.
   From it: Coh (every UnionFile is coherent), Aligned for every slot, and "each file of the cache layer exists
   in the base with identical content".

   This file: definitions, the general preservation lemma for the tree part (one lemma for every way the two
   path maps evolve: a renaming rho of names applied to both maps + fresh bindings), the table part. *)
From AF Require Import Lib.Bytes Lib.Path Lib.Ops Gen.Consts Model.MemFile Model.MemFs Model.WfOps Model.Union Model.Cow
  Model.Cache Proofs.MemFsBasics Proofs.MemFsPath Proofs.MemFsWF Proofs.MemFsStep Proofs.CacheProof.
Local Open Scope Z_scope.

(* ------------------------------------------------------------------------------------------ *)
(* how one filesystem state evolves                                                            *)
(* ------------------------------------------------------------------------------------------ *)
Definition olookup (s : mst) (ok : option str) : option nat := match ok with Some k => lookup s k | None => None end.
Definition fresh_in (s : mst) (r : nat) : Prop := (length (mheap s) <= r)%nat.

Lemma fresh_or_old s r : fresh_in s r \/ exists n, get_node s r = Some n.
Proof.
  unfold fresh_in, get_node. destruct (nth_error (mheap s) r) as [n|] eqn:E; [right; now exists n | left; now apply nth_error_None].
Qed.
Lemma fresh_not_old s r n : fresh_in s r -> get_node s r = Some n -> False.
Proof. unfold fresh_in. intros H Hn. apply get_some_lt in Hn. lia. Qed.

(* [Frame rho s s']: the name k' of s' denotes what rho k' denoted in s, or a node that did not exist in s
   (then rho k' denoted nothing); nodes persist with their kind, directories keep their (empty) content;
   a fresh directory is empty *)
Record Frame (rho : str -> option str) (s s' : mst) : Prop := mkFrame {
  fr_keys : forall k', lookup s' k' = olookup s (rho k') \/
                       (olookup s (rho k') = None /\ exists r, lookup s' k' = Some r /\ fresh_in s r);
  fr_nodes : forall r n, get_node s r = Some n ->
             exists n', get_node s' r = Some n' /\ ndir n' = ndir n /\ (ndir n = true -> ndata n' = ndata n);
  fr_fresh : forall k' r n', lookup s' k' = Some r -> fresh_in s r -> get_node s' r = Some n' -> ndir n' = true -> ndata n' = [];
  fr_heap : (length (mheap s) <= length (mheap s'))%nat
}.

(* an old node that is bound in s' was bound, at the renamed name, in s *)
Lemma frame_old rho s s' k' r n : Frame rho s s' -> lookup s' k' = Some r -> get_node s r = Some n -> olookup s (rho k') = Some r.
Proof.
  intros F Hl Hn. destruct (fr_keys _ _ _ F k') as [E|(_ & r' & E & Hf)].
  - now rewrite <- E.
  - rewrite Hl in E. inversion E; subst r'. exfalso. eapply fresh_not_old; eauto.
Qed.
(* a binding of s survives at every name that renames to it *)
Lemma frame_keep rho s s' k' r : Frame rho s s' -> olookup s (rho k') = Some r -> lookup s' k' = Some r.
Proof.
  intros F Hl. destruct (fr_keys _ _ _ F k') as [E|(E & _)]; [now rewrite E | congruence].
Qed.

(* ------------------------------------------------------------------------------------------ *)
(* the tree part of the invariant                                                              *)
(* ------------------------------------------------------------------------------------------ *)
Record TreeInv (sb sl : mst) (phi : nat -> option nat) : Prop := mkTreeInv {
  ti_wfb : WF sb;
  ti_wfl : WF sl;
  ti_key : forall k rl, lookup sl k = Some rl -> exists rb, phi rl = Some rb /\ lookup sb k = Some rb;
  ti_pair : forall rl rb, phi rl = Some rb ->
            exists nl nb, get_node sl rl = Some nl /\ get_node sb rb = Some nb /\ ndir nl = ndir nb /\ ndata nl = ndata nb;
  ti_live : forall rl rb k, phi rl = Some rb -> lookup sb k = Some rb -> lookup sl k = Some rl;
  ti_inj : forall a b x, phi a = Some x -> phi b = Some x -> a = b;
  ti_dirs : forall k r n, lookup sb k = Some r -> get_node sb r = Some n -> ndir n = true -> ndata n = []
}.

(* the same without the clause on the bytes: what survives while a copy into the layer is under way *)
Record TreeShape (sb sl : mst) (phi : nat -> option nat) : Prop := mkTreeShape {
  ts_wfb : WF sb;
  ts_wfl : WF sl;
  ts_key : forall k rl, lookup sl k = Some rl -> exists rb, phi rl = Some rb /\ lookup sb k = Some rb;
  ts_pair : forall rl rb, phi rl = Some rb ->
            exists nl nb, get_node sl rl = Some nl /\ get_node sb rb = Some nb /\ ndir nl = ndir nb;
  ts_live : forall rl rb k, phi rl = Some rb -> lookup sb k = Some rb -> lookup sl k = Some rl;
  ts_inj : forall a b x, phi a = Some x -> phi b = Some x -> a = b;
  ts_dirs : forall k r n, lookup sb k = Some r -> get_node sb r = Some n -> ndir n = true -> ndata n = []
}.
Lemma TreeInv_shape sb sl phi : TreeInv sb sl phi -> TreeShape sb sl phi.
Proof.
  intros [A B C D E F G]. split; auto. intros rl rb H. destruct (D rl rb H) as (nl & nb & H1 & H2 & H3 & _). now exists nl, nb.
Qed.

(* the name a node is bound to *)
Definition key_of (s : mst) (r : nat) : option str :=
  match find (fun kv => Nat.eqb (snd kv) r) (mdata s) with Some kv => Some (fst kv) | None => None end.

Lemma key_of_lookup s r k : WF s -> key_of s r = Some k -> lookup s k = Some r.
Proof.
  intros W. unfold key_of. destruct (find _ (mdata s)) as [[k0 r0]|] eqn:E; [|discriminate].
  intros H. inversion H; subst k0. apply find_some in E as [Hin He]. cbn [snd] in He. apply Nat.eqb_eq in He. subst r0.
  apply in_aget; [exact (g_nodup _ _ _ _ W) | exact Hin].
Qed.
Lemma lookup_key_of s r k : WF s -> lookup s k = Some r -> key_of s r = Some k.
Proof.
  intros W Hl. unfold key_of. destruct (find _ (mdata s)) as [[k0 r0]|] eqn:E.
  - pose proof E as E'. apply find_some in E as [Hin He]. cbn [snd] in He. apply Nat.eqb_eq in He. subst r0.
    assert (Hl0 : lookup s k0 = Some r) by (apply in_aget; [exact (g_nodup _ _ _ _ W) | exact Hin]).
    f_equal. cbn [fst]. apply (GWF_inj _ _ _ s k0 k r W); auto.
  - exfalso. apply aget_in in Hl. pose proof (find_none _ _ E _ Hl) as Hn. cbn [snd] in Hn. rewrite Nat.eqb_refl in Hn. discriminate.
Qed.

(* the pairing after a step: old layer nodes keep their partner, a fresh layer node is paired with the node
   the base binds to the same name *)
Definition phi_next (phi : nat -> option nat) (sl sb' sl' : mst) (rl : nat) : option nat :=
  if Nat.ltb rl (length (mheap sl)) then phi rl
  else match key_of sl' rl with Some k' => lookup sb' k' | None => None end.

Lemma phi_next_old phi sl sb' sl' rl n : get_node sl rl = Some n -> phi_next phi sl sb' sl' rl = phi rl.
Proof. intros Hn. unfold phi_next. apply get_some_lt in Hn. apply Nat.ltb_lt in Hn. now rewrite Hn. Qed.
Lemma phi_next_fresh phi sl sb' sl' rl : fresh_in sl rl ->
  phi_next phi sl sb' sl' rl = match key_of sl' rl with Some k' => lookup sb' k' | None => None end.
Proof. intros Hf. unfold phi_next. assert (E : Nat.ltb rl (length (mheap sl)) = false) by (apply Nat.ltb_ge; exact Hf). now rewrite E. Qed.

(* THE GENERAL LEMMA.  Both path maps evolve by the same renaming rho (plus fresh bindings); the bytes of
   old pairs stay equal; every fresh binding of the layer has, in the base, a binding of the same name to a
   node of the same kind and content. *)
Theorem TreeShape_step phi sb sl sb' sl' rho :
  TreeShape sb sl phi -> WF sb' -> WF sl' -> Frame rho sb sb' -> Frame rho sl sl' ->
  (forall rl rb nl nb, phi rl = Some rb -> get_node sl' rl = Some nl -> get_node sb' rb = Some nb -> ndata nl = ndata nb) ->
  (forall k' rl, lookup sl' k' = Some rl -> fresh_in sl rl ->
     exists rb nl nb, lookup sb' k' = Some rb /\ get_node sl' rl = Some nl /\ get_node sb' rb = Some nb /\
                      ndir nl = ndir nb /\ ndata nl = ndata nb) ->
  TreeInv sb' sl' (phi_next phi sl sb' sl') /\
  (forall rl rb, phi rl = Some rb -> phi_next phi sl sb' sl' rl = Some rb).
Proof.
  intros T Wb' Wl' Fb Fl Hdata Hfresh. pose proof T as [Wb Wl Tk Tp Tl Ti Td].
  set (phi' := phi_next phi sl sb' sl').
  assert (Hext : forall rl rb, phi rl = Some rb -> phi' rl = Some rb).
  { intros rl rb H. destruct (Tp rl rb H) as (nl & _ & Hnl & _). unfold phi'. now rewrite (phi_next_old _ _ _ _ _ nl Hnl). }
  (* a pair of phi': an old pair, or a fresh layer node bound to a name the base binds to the partner *)
  assert (Hcases : forall rl rb, phi' rl = Some rb ->
            (phi rl = Some rb /\ exists nl, get_node sl rl = Some nl) \/
            (fresh_in sl rl /\ exists k', lookup sl' k' = Some rl /\ lookup sb' k' = Some rb)).
  { intros rl rb H. destruct (fresh_or_old sl rl) as [Hf|(nl & Hnl)].
    - right. split; [exact Hf|]. unfold phi' in H. rewrite (phi_next_fresh _ _ _ _ _ Hf) in H.
      destruct (key_of sl' rl) as [k'|] eqn:Ek; [|discriminate]. exists k'. split; [now apply key_of_lookup | exact H].
    - left. unfold phi' in H. rewrite (phi_next_old _ _ _ _ _ nl Hnl) in H. split; [exact H | now exists nl]. }
  split; [|exact Hext]. split.
  - exact Wb'.
  - exact Wl'.
  - (* names of the layer *)
    intros k' rl Hl. destruct (fresh_or_old sl rl) as [Hf|(nl & Hnl)].
    + destruct (Hfresh k' rl Hl Hf) as (rb & _ & _ & Hb & _). exists rb. split; [|exact Hb].
      unfold phi'. rewrite (phi_next_fresh _ _ _ _ _ Hf), (lookup_key_of sl' rl k' Wl' Hl). exact Hb.
    + pose proof (frame_old _ _ _ _ _ _ Fl Hl Hnl) as Ho. destruct (rho k') as [k|] eqn:Er; [|discriminate Ho]. cbn [olookup] in Ho.
      destruct (Tk k rl Ho) as (rb & Hp & Hb). exists rb. split; [now apply Hext|].
      apply (frame_keep rho sb sb' k' rb Fb). rewrite Er. exact Hb.
  - (* pairs: same kind, same bytes *)
    intros rl rb H. destruct (Hcases rl rb H) as [(Hp & _)|(Hf & k' & Hl & Hb)].
    + destruct (Tp rl rb Hp) as (nl & nb & Hnl & Hnb & Hd).
      destruct (fr_nodes _ _ _ Fl rl nl Hnl) as (nl' & Hnl' & Hdl & _).
      destruct (fr_nodes _ _ _ Fb rb nb Hnb) as (nb' & Hnb' & Hdb & _).
      exists nl', nb'. split; [exact Hnl'|]. split; [exact Hnb'|]. split; [congruence|]. exact (Hdata rl rb nl' nb' Hp Hnl' Hnb').
    + destruct (Hfresh k' rl Hl Hf) as (rb0 & nl & nb & Hb0 & Hnl & Hnb & Hd & Hdat).
      assert (rb0 = rb) by congruence. subst rb0. now exists nl, nb.
  - (* a base name whose node is paired denotes the partner in the layer *)
    intros rl rb k' H Hb. destruct (Hcases rl rb H) as [(Hp & nl & Hnl)|(Hf & k2 & Hl & Hb2)].
    + destruct (Tp rl rb Hp) as (_ & nb & _ & Hnb & _).
      pose proof (frame_old _ _ _ _ _ _ Fb Hb Hnb) as Ho. destruct (rho k') as [k|] eqn:Er; [|discriminate Ho]. cbn [olookup] in Ho.
      apply (frame_keep rho sl sl' k' rl Fl). rewrite Er. cbn [olookup]. exact (Tl rl rb k Hp Ho).
    + assert (k' = k2) by (apply (GWF_inj _ _ _ sb' k' k2 rb Wb'); auto). subst k2. exact Hl.
  - (* injective *)
    intros a b x Ha Hb.
    destruct (Hcases a x Ha) as [(Hpa & na & Hna)|(Hfa & ka & Hla & Hba)];
    destruct (Hcases b x Hb) as [(Hpb & nb & Hnb)|(Hfb & kb & Hlb & Hbb)].
    + exact (Ti a b x Hpa Hpb).
    + (* a old, b fresh: x is an old base node, so the name kb denoted, renamed, x in the base and hence a in the layer *)
      exfalso. destruct (Tp a x Hpa) as (_ & nx & _ & Hnx & _).
      pose proof (frame_old _ _ _ _ _ _ Fb Hbb Hnx) as Ho. destruct (rho kb) as [k|] eqn:Er; [|discriminate Ho]. cbn [olookup] in Ho.
      pose proof (Tl a x k Hpa Ho) as Hla.
      assert (Hl' : lookup sl' kb = Some a) by (apply (frame_keep rho sl sl' kb a Fl); rewrite Er; exact Hla).
      rewrite Hlb in Hl'. inversion Hl'; subst b. eapply fresh_not_old; eauto.
    + exfalso. destruct (Tp b x Hpb) as (_ & nx & _ & Hnx & _).
      pose proof (frame_old _ _ _ _ _ _ Fb Hba Hnx) as Ho. destruct (rho ka) as [k|] eqn:Er; [|discriminate Ho]. cbn [olookup] in Ho.
      pose proof (Tl b x k Hpb Ho) as Hlb.
      assert (Hl' : lookup sl' ka = Some b) by (apply (frame_keep rho sl sl' ka b Fl); rewrite Er; exact Hlb).
      rewrite Hla in Hl'. inversion Hl'; subst a. eapply fresh_not_old; eauto.
    + assert (ka = kb) by (apply (GWF_inj _ _ _ sb' ka kb x Wb'); auto). subst kb. congruence.
  - (* directories of the base are empty *)
    intros k' r n' Hl Hn' Hd. destruct (fresh_or_old sb r) as [Hf|(n & Hn)].
    + exact (fr_fresh _ _ _ Fb k' r n' Hl Hf Hn' Hd).
    + destruct (fr_nodes _ _ _ Fb r n Hn) as (n2 & Hn2 & Hd2 & Hdat). rewrite Hn' in Hn2. inversion Hn2; subst n2.
      pose proof (frame_old _ _ _ _ _ _ Fb Hl Hn) as Ho. destruct (rho k') as [k|] eqn:Er; [|discriminate Ho]. cbn [olookup] in Ho.
      rewrite Hdat by congruence. apply (Td k r n Ho Hn). congruence.
Qed.

Theorem TreeInv_step phi sb sl sb' sl' rho :
  TreeInv sb sl phi -> WF sb' -> WF sl' -> Frame rho sb sb' -> Frame rho sl sl' ->
  (forall rl rb nl nb, phi rl = Some rb -> get_node sl' rl = Some nl -> get_node sb' rb = Some nb -> ndata nl = ndata nb) ->
  (forall k' rl, lookup sl' k' = Some rl -> fresh_in sl rl ->
     exists rb nl nb, lookup sb' k' = Some rb /\ get_node sl' rl = Some nl /\ get_node sb' rb = Some nb /\
                      ndir nl = ndir nb /\ ndata nl = ndata nb) ->
  TreeInv sb' sl' (phi_next phi sl sb' sl') /\
  (forall rl rb, phi rl = Some rb -> phi_next phi sl sb' sl' rl = Some rb).
Proof. intros T. apply TreeShape_step. now apply TreeInv_shape. Qed.

(* ------------------------------------------------------------------------------------------ *)
(* the handle table                                                                            *)
(* ------------------------------------------------------------------------------------------ *)
Definition bhs (c : chandle) : list nat :=
  match c with HB h => [h] | HL _ => [] | HU u => match ubase u with Some h => [h] | None => [] end end.
Definition lhs (c : chandle) : list nat :=
  match c with HB _ => [] | HL h => [h] | HU u => match ulayer u with Some h => [h] | None => [] end end.

Definition EntOK (sb sl : mst) (phi : nat -> option nat) (c : chandle) : Prop :=
  match c with
  | HB h => exists hb, nth_error (mhandles sb) h = Some hb /\ inert hb = true
  | HL h => exists hl, nth_error (mhandles sl) h = Some hl /\ inert hl = true
  | HU u => exists bh lh hb hl, ubase u = Some bh /\ ulayer u = Some lh /\
              nth_error (mhandles sb) bh = Some hb /\ nth_error (mhandles sl) lh = Some hl /\
              hproj_eq hb hl /\ phi (href hl) = Some (href hb) /\
              (forall nl, get_node sl (href hl) = Some nl -> ndir nl = true -> inert hl = true)
  end.

Record TblInv (sb sl : mst) (tbl : list chandle) (phi : nat -> option nat) : Prop := mkTblInv {
  tb_ok : forall i c, nth_error tbl i = Some c -> EntOK sb sl phi c;
  tb_sepb : forall i j ci cj h, i <> j -> nth_error tbl i = Some ci -> nth_error tbl j = Some cj -> In h (bhs ci) -> ~ In h (bhs cj);
  tb_sepl : forall i j ci cj h, i <> j -> nth_error tbl i = Some ci -> nth_error tbl j = Some cj -> In h (lhs ci) -> ~ In h (lhs cj)
}.

Definition CInvP (sb sl : mst) (tbl : list chandle) (phi : nat -> option nat) : Prop := TreeInv sb sl phi /\ TblInv sb sl tbl phi.
Definition CInv (st : mst * mst * list chandle) : Prop := let '(sb, sl, tbl) := st in exists phi, CInvP sb sl tbl phi.

(* handles of s survive in s' *)
Definition hkeep (s s' : mst) : Prop := forall i h, nth_error (mhandles s) i = Some h -> nth_error (mhandles s') i = Some h.
Lemma hkeep_refl s : hkeep s s. Proof. intros i h H. exact H. Qed.
Lemma hkeep_trans a b c : hkeep a b -> hkeep b c -> hkeep a c. Proof. intros H1 H2 i h H. apply H2, H1, H. Qed.

(* nodes keep their kind *)
Definition kkeep (s s' : mst) : Prop := forall r n, get_node s r = Some n -> exists n', get_node s' r = Some n' /\ ndir n' = ndir n.
Lemma frame_kkeep rho s s' : Frame rho s s' -> kkeep s s'.
Proof. intros F r n H. destruct (fr_nodes _ _ _ F r n H) as (n' & A & B & _). now exists n'. Qed.

Lemma EntOK_mono sb sl phi sb' sl' phi' c :
  EntOK sb sl phi c -> hkeep sb sb' -> hkeep sl sl' -> kkeep sl sl' ->
  (forall rl rb, phi rl = Some rb -> phi' rl = Some rb) ->
  (forall rl rb, phi rl = Some rb -> exists nl, get_node sl rl = Some nl) ->
  EntOK sb' sl' phi' c.
Proof.
  intros H Kb Kl Kk Hp Hn. destruct c as [h|h|u]; cbn [EntOK] in *.
  - destruct H as (hb & A & B). exists hb. split; [now apply Kb | exact B].
  - destruct H as (hl & A & B). exists hl. split; [now apply Kl | exact B].
  - destruct H as (bh & lh & hb & hl & A & B & C & D & E & F & G). exists bh, lh, hb, hl.
    split; [exact A|]. split; [exact B|]. split; [now apply Kb|]. split; [now apply Kl|]. split; [exact E|]. split; [now apply Hp|].
    intros nl' Hnl' Hd. destruct (Hn _ _ F) as (nl & Hnl). destruct (Kk _ _ Hnl) as (n2 & Hn2 & Hd2).
    rewrite Hnl' in Hn2. inversion Hn2; subst n2. apply (G nl Hnl). congruence.
Qed.

Lemma TblInv_mono sb sl tbl phi sb' sl' phi' :
  TblInv sb sl tbl phi -> hkeep sb sb' -> hkeep sl sl' -> kkeep sl sl' ->
  (forall rl rb, phi rl = Some rb -> phi' rl = Some rb) ->
  (forall rl rb, phi rl = Some rb -> exists nl, get_node sl rl = Some nl) ->
  TblInv sb' sl' tbl phi'.
Proof.
  intros [H1 H2 H3] Kb Kl Kk Hp Hn. split; [|exact H2 | exact H3].
  intros i c Hc. eapply EntOK_mono; eauto.
Qed.

(* every inner handle named by the table exists *)
Lemma EntOK_bounds sb sl phi c h :
  EntOK sb sl phi c -> (In h (bhs c) -> (h < length (mhandles sb))%nat) /\ (In h (lhs c) -> (h < length (mhandles sl))%nat).
Proof.
  intros H. destruct c as [x|x|u]; cbn [EntOK bhs lhs] in *.
  - destruct H as (hb & A & _). split; [intros [->|[]]; now apply nth_error_lt in A | intros []].
  - destruct H as (hl & A & _). split; [intros [] | intros [->|[]]; now apply nth_error_lt in A].
  - destruct H as (bh & lh & hb & hl & A & B & C & D & _). rewrite A, B.
    split; intros [->|[]]; [now apply nth_error_lt in C | now apply nth_error_lt in D].
Qed.

(* a new slot whose inner handles were just allocated *)
Lemma TblInv_snoc sb sl tbl phi c :
  TblInv sb sl tbl phi -> EntOK sb sl phi c ->
  (forall i ci h, nth_error tbl i = Some ci -> In h (bhs ci) -> ~ In h (bhs c)) ->
  (forall i ci h, nth_error tbl i = Some ci -> In h (lhs ci) -> ~ In h (lhs c)) ->
  TblInv sb sl (tbl ++ [c]) phi.
Proof.
  intros [H1 H2 H3] Hc Hb Hl.
  assert (Hnth : forall i x, nth_error (tbl ++ [c]) i = Some x -> (i < length tbl /\ nth_error tbl i = Some x)%nat \/ (i = length tbl /\ x = c)).
  { intros i x Hx. destruct (Nat.lt_ge_cases i (length tbl)) as [Hlt|Hge].
    - left. rewrite nth_error_app1 in Hx by exact Hlt. now split.
    - right. rewrite nth_error_app2 in Hx by exact Hge. destruct (i - length tbl)%nat as [|d] eqn:E; cbn in Hx.
      + inversion Hx. split; [lia | reflexivity].
      + destruct d; discriminate Hx. }
  split.
  - intros i x Hx. destruct (Hnth i x Hx) as [[_ Hi]|[_ ->]]; [now apply (H1 i) | exact Hc].
  - intros i j ci cj h Hij Hi Hj Hin. destruct (Hnth i ci Hi) as [[Li Hi']|[Ei ->]]; destruct (Hnth j cj Hj) as [[Lj Hj']|[Ej ->]].
    + now apply (H2 i j ci cj h).
    + now apply (Hb i ci h).
    + intros Hin2. now apply (Hb j cj h Hj' Hin2).
    + lia.
  - intros i j ci cj h Hij Hi Hj Hin. destruct (Hnth i ci Hi) as [[Li Hi']|[Ei ->]]; destruct (Hnth j cj Hj) as [[Lj Hj']|[Ej ->]].
    + now apply (H3 i j ci cj h).
    + now apply (Hl i ci h).
    + intros Hin2. now apply (Hl j cj h Hj' Hin2).
    + lia.
Qed.

(* ------------------------------------------------------------------------------------------ *)
(* what the invariant gives                                                                    *)
(* ------------------------------------------------------------------------------------------ *)
(* each file (each name) of the cache layer exists in the base, same kind, identical content *)
Definition LayerInBase (st : mst * mst * list chandle) : Prop :=
  let '(sb, sl, _) := st in
  forall k rl nl, lookup sl k = Some rl -> get_node sl rl = Some nl ->
    exists rb nb, lookup sb k = Some rb /\ get_node sb rb = Some nb /\ ndir nb = ndir nl /\ ndata nb = ndata nl.

Theorem CInv_layer_in_base st : CInv st -> LayerInBase st.
Proof.
  destruct st as [[sb sl] tbl]. intros (phi & T & _) k rl nl Hl Hn.
  destruct (ti_key _ _ _ T k rl Hl) as (rb & Hp & Hb). destruct (ti_pair _ _ _ T rl rb Hp) as (nl' & nb & Hnl & Hnb & Hd & Hdat).
  rewrite Hn in Hnl. inversion Hnl; subst nl'. exists rb, nb. repeat split; auto.
Qed.

Theorem CInv_Coh st : CInv st -> Coh st.
Proof.
  destruct st as [[sb sl] tbl]. intros (phi & T & [H1 _ _]) i u bh lh Hn Hb Hl.
  destruct (H1 i _ Hn) as (bh' & lh' & hb & hl & A & B & C & D & E & F & _). cbn [EntOK] in *.
  rewrite Hb in A. rewrite Hl in B. inversion A; inversion B; subst bh' lh'.
  destruct (ti_pair _ _ _ T _ _ F) as (nl & nb & Hnl & Hnb & _ & Hdat).
  exists hb, hl, nb, nl. repeat split; auto; apply E.
Qed.

Theorem CInv_Aligned st i : CInv st -> Aligned st i.
Proof.
  destruct st as [[sb sl] tbl]. intros (phi & T & [H1 H2 H3]) u bh lh hb hl Hn Hb Hl Hhb Hhl j u2 bh2 lh2 hb2 hl2 Hji Hn2 Hb2 Hl2 Hhb2 Hhl2.
  destruct (H1 i _ Hn) as (bh' & lh' & hb' & hl' & A & B & C & D & E & F & _).
  rewrite Hb in A. rewrite Hl in B. inversion A; inversion B; subst bh' lh'. rewrite Hhb in C. rewrite Hhl in D. inversion C; inversion D; subst hb' hl'.
  destruct (H1 j _ Hn2) as (bh' & lh' & hb' & hl' & A2 & B2 & C2 & D2 & E2 & F2 & _).
  rewrite Hb2 in A2. rewrite Hl2 in B2. inversion A2; inversion B2; subst bh' lh'. rewrite Hhb2 in C2. rewrite Hhl2 in D2. inversion C2; inversion D2; subst hb' hl'.
  split; [|split].
  - intros ->. apply (H2 j i (HU u2) (HU u) bh Hji Hn2 Hn); cbn [bhs]; [rewrite Hb2 | rewrite Hb]; now left.
  - intros ->. apply (H3 j i (HU u2) (HU u) lh Hji Hn2 Hn); cbn [lhs]; [rewrite Hl2 | rewrite Hl]; now left.
  - split.
    + intros Eb. rewrite Eb in F2. apply (ti_inj _ _ _ T _ _ _ F2 F).
    + intros El. rewrite El in F2. congruence.
Qed.

(* ------------------------------------------------------------------------------------------ *)
(* the initial state                                                                           *)
(* ------------------------------------------------------------------------------------------ *)
Theorem CInv_init : CInv (m_init, m_init, []).
Proof.
  exists (fun r => match r with O => Some O | _ => None end).
  assert (L : forall k r, lookup m_init k = Some r -> k = s_slash /\ r = 0%nat).
  { intros k r. unfold lookup, m_init. cbn. destruct (beqb k s_slash) eqn:E; [|discriminate].
    apply beqb_eq in E. intros H. inversion H. auto. }
  split.
  - split; try exact WF_init.
    + intros k rl H. destruct (L k rl H) as [-> ->]. exists 0%nat. split; [reflexivity | exact H].
    + intros rl rb H. destruct rl; [|discriminate]. inversion H; subst rb. exists root_node, root_node. repeat split.
    + intros rl rb k H Hb. destruct rl; [|discriminate]. destruct (L k rb Hb) as [-> ->]. reflexivity.
    + intros a b x Ha Hb. destruct a, b; try discriminate; reflexivity.
    + intros k r n H Hn Hd. destruct (L k r H) as [-> ->]. cbn in Hn. inversion Hn. reflexivity.
  - split; intros i; destruct i; discriminate.
Qed.
