(* Proofs/IOUtilProof.v — C17, write/read round trips on MemMapFs (m_step):
   WriteFile / WriteReader followed by ReadFile return exactly the bytes given, for every size;
   SafeWriteReader never alters a path that exists. *)
From AF Require Import Lib.Bytes Lib.Path Lib.Ops Gen.Consts Model.MemFile Model.MemFs Model.IOUtil
  Proofs.BytesLemmas Proofs.PathProof Proofs.MemFsBasics Proofs.MemBelow Proofs.MemCreate.
Local Open Scope Z_scope.

(* ------------------------------------------------------------------------------------ *)
(** * the abstract read loop: a reader that returns min(len buf, remaining) yields its content *)

Lemma firstn_add {A} (l : list A) n m : firstn (n + m) l = firstn n l ++ firstn m (skipn n l).
Proof.
  revert l; induction n as [|n IH]; intros l; [reflexivity|].
  destruct l as [|x l]; cbn [Nat.add firstn skipn app]; [now rewrite firstn_nil | now rewrite IH].
Qed.

Lemma zlen_nonneg {A} (l : list A) : 0 <= zlen l.
Proof. unfold zlen. lia. Qed.

Lemma zlen_firstn {A} (l : list A) a : 0 <= a <= zlen l -> zlen (firstn (Z.to_nat a) l) = a.
Proof. intros H. unfold zlen in *. rewrite firstn_length. lia. Qed.

Lemma zlen_zero_nil {A} (l : list A) : zlen l = 0 -> l = [].
Proof. unfold zlen. destruct l; cbn; [reflexivity | lia]. Qed.

(* the request sizes of bytes.Buffer.ReadFrom are always at least MinRead *)
Lemma read_chunk_pos cap len :
  io_min_read <= (if io_min_read <=? cap - len then cap else Z.max (len + io_min_read) (2 * cap)) - len.
Proof. destruct (io_min_read <=? cap - len) eqn:E; [apply Z.leb_le in E; lia | lia]. Qed.

(* ------------------------------------------------------------------------------------ *)
(** * m_step: one API call = the raw step, then the clock ticks *)

Definition bump (s : mst) : mst := mkM (mdata s) (mheap s) (mhandles s) (mclock s + 1).

Lemma m_step_bump s o : m_step s o = (bump (fst (m_step_raw s o)), snd (m_step_raw s o)).
Proof. unfold m_step. now destruct (m_step_raw s o). Qed.

Lemma lookup_bump s k : lookup (bump s) k = lookup s k. Proof. reflexivity. Qed.
Lemma get_node_bump s x : get_node (bump s) x = get_node s x. Proof. reflexivity. Qed.
Lemma handles_bump s : mhandles (bump s) = mhandles s. Proof. reflexivity. Qed.
Lemma view_bump s : fs_view (bump s) = fs_view s. Proof. reflexivity. Qed.

(* the file p is a regular file holding [data] *)
Definition holds (s : mst) (p : str) (data : bytes) : Prop :=
  exists f n, lookup s (normalize_path p) = Some f /\ get_node s f = Some n /\ ndata n = data /\ ndir n = false.

(* handle h is open on node f, at offset a; f holds [data] *)
Definition rd_inv (s : mst) (h f : nat) (data : bytes) (a : Z) : Prop :=
  exists hd n, nth_error (mhandles s) h = Some hd /\ hclosed hd = false /\ href hd = f /\ hat hd = a /\
               get_node s f = Some n /\ ndata n = data.

Lemma read_loop_mem fuel : forall s h f data a acc cap,
  rd_inv s h f data a -> 0 <= a <= zlen data -> acc = firstn (Z.to_nat a) data ->
  (Z.to_nat (zlen data - a) < fuel)%nat ->
  snd (io_read_loop m_step fuel s h acc cap) = RData data None.
Proof.
  induction fuel as [|fuel IH]; intros s h f data a acc cap Hinv Ha Hacc Hfuel; [lia|].
  cbn [io_read_loop].
  assert (Hlen : zlen acc = a) by (subst acc; now apply zlen_firstn).
  rewrite Hlen. pose proof (read_chunk_pos cap a) as Hc.
  set (cap1 := if io_min_read <=? cap - a then cap else Z.max (a + io_min_read) (2 * cap)) in *.
  set (c := cap1 - a) in *. unfold io_min_read in Hc.
  destruct Hinv as [hd [n [Hh [Hcl [Hrf [Hat [Hn Hd]]]]]]].
  rewrite m_step_bump. cbn [m_step_raw]. unfold m_hop. rewrite Hh, Hrf, Hn. rewrite Hd.
  unfold f_read. rewrite Hcl, Hat.
  assert (Hc0 : (0 <? c) = true) by (apply Z.ltb_lt; lia). rewrite Hc0. cbn [andb].
  destruct (a =? zlen data) eqn:Eeq.
  - (* at the end: io.EOF *)
    apply Z.eqb_eq in Eeq. cbn [fst snd]. cbn [io_is_eof ek ewrapped errk_eqb andb negb snd].
    rewrite app_nil_r. subst acc. rewrite Eeq. unfold zlen. rewrite Nat2Z.id. now rewrite firstn_all.
  - apply Z.eqb_neq in Eeq.
    assert (E1 : (zlen data <? a) = false) by (apply Z.ltb_ge; lia). rewrite E1.
    assert (E2 : (a <? 0) = false) by (apply Z.ltb_ge; lia). rewrite E2.
    set (k := if c <=? zlen data - a then c else zlen data - a).
    assert (Hk : 1 <= k <= zlen data - a).
    { unfold k. destruct (c <=? zlen data - a) eqn:E; [apply Z.leb_le in E|apply Z.leb_gt in E]; lia. }
    cbn [fst snd].
    eapply (IH _ h f data (a + k)).
    + exists (set_at hd (a + k)), n. rewrite handles_bump. unfold set_handle. cbn [mhandles].
      repeat split; try assumption.
      * apply nth_error_list_set_same. now apply nth_error_some_lt in Hh.
    + lia.
    + subst acc. unfold slice. replace (a + k - a) with k by lia.
      replace (Z.to_nat (a + k)) with (Z.to_nat a + Z.to_nat k)%nat by lia. now rewrite firstn_add.
    + lia.
Qed.

(* ReadFile of a regular file returns its content: Open, Stat (size hint), the loop, Close *)
Theorem read_file_holds s p data : holds s p data -> snd (read_file m_step s p) = RData data None.
Proof.
  intros [f [n [Hl [Hn [Hd Hnd]]]]]. unfold read_file.
  rewrite m_step_bump. cbn [m_step_raw]. unfold m_open. rewrite Hl. unfold alloc_handle. cbn [fst snd].
  set (h := length (mhandles s)). set (hd := mkH f 0 0 false true).
  set (s1 := bump _).
  assert (Hh1 : nth_error (mhandles s1) h = Some hd) by (unfold s1; cbn [bump mhandles]; apply nth_error_snoc).
  assert (Hn1 : get_node s1 f = Some n) by exact Hn.
  rewrite m_step_bump. cbn [m_step_raw]. unfold m_hop. rewrite Hh1. cbn [href hd]. rewrite Hn1. cbn [fst snd].
  unfold finfo_of. rewrite Hnd. cbn [fi_size]. rewrite Hd.
  set (hint := if zlen data <? io_size_cap then zlen data else 0).
  set (s2 := bump s1).
  assert (Hloop : snd (io_read_loop m_step (Z.to_nat (zlen data) + 2) s2 h [] (hint + io_min_read)) = RData data None).
  { apply (read_loop_mem _ s2 h f data 0).
    - exists hd, n. repeat split; try assumption; reflexivity.
    - pose proof (zlen_nonneg data). lia.
    - reflexivity.
    - pose proof (zlen_nonneg data). lia. }
  destruct (io_read_loop m_step (Z.to_nat (zlen data) + 2) s2 h [] (hint + io_min_read)) as [s3 r].
  cbn [snd] in Hloop. subst r. now destruct (m_step s3 (HClose h)).
Qed.

(* ------------------------------------------------------------------------------------ *)
(** * writing *)

(* a handle open for writing on node f at offset a; f is a regular file holding [data] *)
Definition wr_inv (s : mst) (p : str) (h f : nat) (data : bytes) (a : Z) : Prop :=
  exists n, lookup s (normalize_path p) = Some f /\ get_node s f = Some n /\ ndata n = data /\ ndir n = false /\
            nth_error (mhandles s) h = Some (mkH f a 0 false false).

(* sane state for WriteFile(p): p is a regular file, or p is absent and its parent entry is present
   (a directory: the open succeeds; a regular file: the open is refused with ENOTDIR) *)
Definition sane_for (s : mst) (p : str) : Prop :=
  match lookup s (normalize_path p) with
  | Some f => exists n, get_node s f = Some n /\ ndir n = false
  | None => exists d dn, lookup s (parent_key (normalize_path p)) = Some d /\ get_node s d = Some dn
  end.

Lemma wflags_excl : flag_has io_write_flags o_excl = false. Proof. reflexivity. Qed.
Lemma wflags_create : flag_has io_write_flags o_create = true. Proof. reflexivity. Qed.
Lemma wflags_append : flag_has io_write_flags o_append = false. Proof. reflexivity. Qed.
Lemma wflags_trunc : flag_has io_write_flags o_trunc && flag_has io_write_flags (Z.lor o_rdwr o_wronly) = true.
Proof. reflexivity. Qed.
Lemma wflags_ro : (Z.land io_write_flags memfs_access_mask =? 0) = false. Proof. reflexivity. Qed.

Lemma set_file_mode_found st nm m f :
  lookup st (normalize_path nm) = Some f -> set_file_mode st nm m = (upd_node st f (with_mode m), ROk).
Proof. intros H. unfold set_file_mode. now rewrite H. Qed.

(* the open succeeds — or is refused with ENOTDIR (the nearest existing ancestor of the absent
   name is a regular file: memmap.go lockfreeBelowFile) *)
Lemma open_for_write s p perm s1 r :
  sane_for s p -> m_step s (OpenFile p io_write_flags perm) = (s1, r) ->
  (exists f, r = RHandle (length (mhandles s)) /\ wr_inv s1 p (length (mhandles s)) f [] 0 /\
            (forall k x, lookup s k = Some x -> k <> normalize_path p -> lookup s1 k = Some x)) \/
  r = RErr (EW KENOTDIR).
Proof.
  intros Hs H. rewrite m_step_bump in H. cbn [m_step_raw] in H. unfold m_openfile in H.
  rewrite wflags_excl, wflags_create, wflags_append, wflags_trunc, wflags_ro in H. cbn [andb negb] in H.
  unfold sane_for in Hs. set (name := normalize_path p) in *.
  destruct (lookup s name) as [f|] eqn:El.
  - left. destruct Hs as [n [Hn Hnd]]. unfold alloc_handle in H. cbn [fst snd] in H.
    inversion H; subst s1 r; clear H. exists f. rewrite upd_node_handles. split; [reflexivity|]. split.
    + exists (with_mtime (mclock s) (with_data [] n)).
      unfold lookup, get_node. cbn [bump mdata mheap mhandles]. rewrite upd_node_data.
      repeat split; try assumption.
      * exact (get_upd_same _ _ _ _ Hn).
      * apply nth_error_snoc.
    + intros k x Hk _. cbn [bump lookup mdata]. unfold lookup. cbn [mdata]. now rewrite upd_node_data.
  - destruct (below_file s name) eqn:Hbf; [right; now inversion H|]. left.
    destruct Hs as [d [dn [Hp Hd]]].
    assert (Hne : parent_key name <> name) by (intros E; rewrite E in Hp; congruence).
    rewrite m_create_node_attach in H.
    destruct (attach_parent_present s name (new_file name (mclock s)) 0 d dn eq_refl Hp Hd Hne)
      as [Hmd [Hhd [Hck [Hlen [Hf [Hdn Hoth]]]]]].
    set (f := length (mheap s)) in *. set (s3 := attach s name (new_file name (mclock s)) 0) in *.
    unfold alloc_handle in H. cbn [fst snd] in H.
    match type of H with context [set_file_mode ?st ?nm ?m] =>
      rewrite (set_file_mode_found st nm m f) in H end.
    2:{ unfold name. rewrite normalize_idempotent. fold name. unfold lookup. cbn [mdata].
        rewrite upd_node_data, Hmd. apply alist_get_set_same. }
    cbn [fst snd] in H. inversion H; subst s1 r; clear H. exists f.
    rewrite upd_node_handles, Hhd. split; [reflexivity|]. split.
    + eexists. unfold lookup, get_node. cbn [bump mdata mheap mhandles].
      rewrite upd_node_data. cbn [mdata]. rewrite upd_node_data, Hmd, alist_get_set_same.
      rewrite upd_node_handles. cbn [mhandles].
      split; [reflexivity|]. split.
      * refine (get_upd_same _ _ _ _ _). unfold get_node. cbn [mheap].
        exact (get_upd_same _ _ _ _ Hf).
      * repeat split. apply nth_error_snoc.
    + intros k x Hk Hkn. unfold lookup. cbn [bump mdata]. rewrite upd_node_data. cbn [mdata].
      rewrite upd_node_data, Hmd. rewrite alist_get_set_other by exact Hkn. exact Hk.
Qed.

Lemma go_write_append data b : go_write data b (zlen data) = data ++ b.
Proof.
  unfold go_write. rewrite Z.sub_diag. cbn [Z.ltb Z.compare].
  assert (E : (zlen b + zlen data <? zlen data) = false) by (apply Z.ltb_ge; pose proof (zlen_nonneg b); lia).
  rewrite E, app_nil_r. unfold zlen. now rewrite Nat2Z.id, firstn_all.
Qed.

Lemma zlen_app {A} (a b : list A) : zlen (a ++ b) = zlen a + zlen b.
Proof. unfold zlen. rewrite app_length. lia. Qed.

(* File.Write at the end of the file appends *)
Lemma hwrite_append s p h f data b :
  wr_inv s p h f data (zlen data) ->
  exists s2, m_step s (HWrite h b) = (s2, RCount (zlen b) None) /\
             wr_inv s2 p h f (data ++ b) (zlen (data ++ b)) /\
             (forall k, lookup s2 k = lookup s k) /\ length (mheap s2) = length (mheap s).
Proof.
  intros [n [Hl [Hn [Hd [Hnd Hh]]]]]. rewrite m_step_bump. cbn [m_step_raw]. unfold m_hop.
  rewrite Hh. cbn [href]. rewrite Hn. unfold f_write. cbn [hclosed hro hat]. rewrite Hd.
  assert (Hhlt : (h < length (mhandles s))%nat) by now apply nth_error_some_lt in Hh.
  destruct (zlen b =? 0) eqn:Eb.
  - apply Z.eqb_eq in Eb. pose proof (zlen_zero_nil _ Eb) as ->. rewrite app_nil_r. cbn [fst snd put_data].
    eexists. split; [reflexivity|]. split; [|split; [reflexivity | reflexivity || (cbn [bump set_handle mheap]; reflexivity)]].
    exists n. unfold lookup, get_node. cbn [bump set_handle mdata mheap mhandles].
    repeat split; try assumption. now apply nth_error_list_set_same.
  - assert (E0 : (zlen data <? 0) = false) by (apply Z.ltb_ge; apply zlen_nonneg). rewrite E0.
    cbn [fst snd put_data]. rewrite go_write_append.
    eexists. split; [reflexivity|]. split; [|split].
    + eexists. unfold lookup, get_node. cbn [bump mdata mheap mhandles].
      rewrite upd_node_data, upd_node_handles. cbn [set_handle mdata mhandles].
      split; [exact Hl|]. split.
      * refine (get_upd_same _ _ _ _ _). exact Hn.
      * cbn [ndata ndir with_mtime with_data]. repeat split; [exact Hnd|].
        rewrite zlen_app. unfold set_at. cbn [href hrdc hclosed hro].
        now apply nth_error_list_set_same.
    + intros k. unfold lookup. cbn [bump mdata]. now rewrite upd_node_data.
    + cbn [bump mheap]. now rewrite upd_node_heap_length.
Qed.

(* File.Close of an open read-write handle *)
Lemma hclose_rw s p h f data a :
  wr_inv s p h f data a ->
  exists s2, m_step s (HClose h) = (s2, ROk) /\ holds s2 p data /\
             (forall k, lookup s2 k = lookup s k) /\ length (mheap s2) = length (mheap s).
Proof.
  intros [n [Hl [Hn [Hd [Hnd Hh]]]]]. rewrite m_step_bump. cbn [m_step_raw]. unfold m_hop.
  rewrite Hh. cbn [href hclosed hro]. rewrite Hn. cbn [fst snd].
  eexists. split; [reflexivity|]. split; [|split].
  - exists f. eexists. unfold lookup, get_node. cbn [bump mdata mheap]. rewrite upd_node_data.
    cbn [set_handle mdata]. split; [exact Hl|]. split; [refine (get_upd_same _ _ _ _ _); exact Hn|].
    now split.
  - intros k. unfold lookup. cbn [bump mdata]. now rewrite upd_node_data.
  - cbn [bump mheap]. now rewrite upd_node_heap_length.
Qed.

(* WriteFile leaves a regular file holding exactly the bytes given *)
Theorem write_file_holds s p b perm s' :
  sane_for s p -> write_file m_step s p b perm = (s', ROk) -> holds s' p b.
Proof.
  intros Hs H. unfold write_file in H.
  destruct (m_step s (OpenFile p io_write_flags perm)) as [s1 r1] eqn:E1.
  destruct (open_for_write _ _ _ _ _ Hs E1) as [[f [-> [Hw _]]] | ->]; [|discriminate H].
  destruct (hwrite_append _ _ _ _ _ b Hw) as [s2 [E2 [Hw2 _]]]. rewrite E2 in H.
  destruct (hclose_rw _ _ _ _ _ _ Hw2) as [s3 [E3 [Hh _]]]. rewrite E3 in H.
  rewrite Z.ltb_irrefl in H. inversion H; subst. exact Hh.
Qed.

Theorem write_read_roundtrip s p b perm s' :
  sane_for s p -> write_file m_step s p b perm = (s', ROk) ->
  snd (read_file m_step s' p) = RData b None.
Proof. intros Hs H. apply read_file_holds. eapply write_file_holds; eassumption. Qed.

(* ------------------------------------------------------------------------------------ *)
(** * WriteReader *)

Lemma io_pieces_concat fuel : forall c, concat (io_pieces fuel c) = c.
Proof.
  induction fuel as [|fuel IH]; intros c; cbn [io_pieces].
  - cbn. apply app_nil_r.
  - destruct (Nat.leb (length c) (Z.to_nat io_copy_buf)); [cbn; apply app_nil_r|].
    cbn [concat]. rewrite IH. apply firstn_skipn.
Qed.

Lemma io_reads_concat chunks : concat (io_reads chunks) = concat chunks.
Proof.
  unfold io_reads. induction chunks as [|c r IH]; [reflexivity|].
  cbn [flat_map concat]. now rewrite concat_app, io_pieces_concat, IH.
Qed.

(* io.Copy into a handle positioned at the end appends everything the reader delivers *)
Lemma io_copy_mem p h f reads : forall s data,
  wr_inv s p h f data (zlen data) ->
  exists s2, io_copy m_step s h reads = (s2, ROk) /\
             wr_inv s2 p h f (data ++ concat reads) (zlen (data ++ concat reads)) /\
             (forall k, lookup s2 k = lookup s k) /\ length (mheap s2) = length (mheap s).
Proof.
  induction reads as [|b r IH]; intros s data Hw.
  - cbn [io_copy concat]. rewrite app_nil_r. exists s. now repeat split.
  - destruct b as [|x b].
    + cbn [io_copy concat app]. now apply IH.
    + cbn [io_copy]. destruct (hwrite_append _ _ _ _ _ (x :: b) Hw) as [s1 [E1 [Hw1 [Hl1 Hh1]]]].
      rewrite E1.
      assert (E : (zlen (x :: b) <? 0) || (zlen (x :: b) <? zlen (x :: b)) = false).
      { rewrite Z.ltb_irrefl, orb_false_r. apply Z.ltb_ge, zlen_nonneg. }
      rewrite E, Z.ltb_irrefl.
      destruct (IH _ _ Hw1) as [s2 [E2 [Hw2 [Hl2 Hh2]]]]. exists s2.
      cbn [concat]. rewrite app_assoc. split; [exact E2|]. split; [exact Hw2|]. split.
      * intros k. now rewrite Hl2, Hl1.
      * now rewrite Hh2, Hh1.
Qed.

Definition parent_present (s : mst) (name : str) : Prop :=
  exists d dn, lookup s (parent_key name) = Some d /\ get_node s d = Some dn /\ parent_key name <> name.

(* MemMapFs.Create: an existing regular file is truncated in place; otherwise (absent, or a
   directory!) a new file node is bound to the name *)
Lemma create_for_write s p s1 r :
  parent_present s (normalize_path p) -> m_step s (Create p) = (s1, r) ->
  (exists f, r = RHandle (length (mhandles s)) /\ wr_inv s1 p (length (mhandles s)) f [] 0 /\
            (forall k x, lookup s k = Some x -> k <> normalize_path p -> lookup s1 k = Some x) /\
            (forall x n, get_node s x = Some n -> exists n', get_node s1 x = Some n')) \/
  r = RErr (EW KENOTDIR).
Proof.
  intros [d [dn [Hp [Hd Hne]]]] H. rewrite m_step_bump in H. cbn [m_step_raw] in H. unfold m_create in H.
  set (name := normalize_path p) in *.
  set (ex := match lookup s name with
             | Some f => match get_node s f with Some n => if ndir n then None else Some f | None => None end
             | None => None end) in *.
  destruct ex as [f|] eqn:Eex.
  - (* truncate in place *) left.
    unfold ex in Eex. destruct (lookup s name) as [f0|] eqn:El; [|discriminate].
    destruct (get_node s f0) as [n|] eqn:En; [|discriminate]. destruct (ndir n) eqn:End; [discriminate|].
    inversion Eex; subst f0; clear Eex.
    unfold alloc_handle in H. cbn [fst snd] in H. inversion H; subst s1 r; clear H.
    exists f. rewrite upd_node_handles. split; [reflexivity|]. split; [|split].
    + exists (with_mtime (mclock s) (with_data [] n)).
      unfold lookup, get_node. cbn [bump mdata mheap mhandles]. rewrite upd_node_data.
      repeat split; try assumption.
      * exact (get_upd_same _ _ _ _ En).
      * apply nth_error_snoc.
    + intros k x Hk _. unfold lookup. cbn [bump mdata]. now rewrite upd_node_data.
    + intros x n0 Hx. unfold get_node. cbn [bump mheap].
      destruct (Nat.eq_dec f x) as [->|Hfx].
      * eexists. exact (get_upd_same _ _ _ _ Hx).
      * exists n0. rewrite <- Hx. exact (get_upd_other _ _ _ _ Hfx).
  - destruct (below_file s name) eqn:Hbf; [right; now inversion H|]. left.
    rewrite m_create_node_attach in H.
    destruct (attach_parent_present s name (new_file name (mclock s)) 0 d dn eq_refl Hp Hd Hne)
      as [Hmd [Hhd [Hck [Hlen [Hf [Hdn Hoth]]]]]].
    set (f := length (mheap s)) in *. set (s3 := attach s name (new_file name (mclock s)) 0) in *.
    unfold alloc_handle in H. cbn [fst snd] in H. inversion H; subst s1 r; clear H.
    exists f. rewrite Hhd. split; [reflexivity|]. split; [|split].
    + exists (new_file name (mclock s)). unfold lookup, get_node. cbn [bump mdata mheap mhandles].
      fold name. rewrite Hmd, alist_get_set_same. repeat split; try reflexivity.
      * exact Hf.
      * apply nth_error_snoc.
    + intros k x Hk Hkn. unfold lookup. cbn [bump mdata]. rewrite Hmd.
      rewrite alist_get_set_other by exact Hkn. exact Hk.
    + intros x n0 Hx. unfold get_node. cbn [bump mheap]. fold (get_node s3 x).
      destruct (Nat.eq_dec x d) as [->|Hxd]; [eexists; exact Hdn|].
      assert (Hxf : x <> f) by (apply get_node_lt in Hx; unfold f; lia).
      exists n0. rewrite Hoth by assumption. exact Hx.
Qed.

Lemma get_node_of_lt s x : (x < length (mheap s))%nat -> exists n, get_node s x = Some n.
Proof.
  intros H. unfold get_node. destruct (nth_error (mheap s) x) eqn:E; [now eexists|].
  apply nth_error_None in E. lia.
Qed.

Lemma m_mkdir_attach s D perm : lookup s (normalize_path D) = None -> below_file s (normalize_path D) = false ->
  m_mkdir s D perm =
  set_file_mode (attach s (normalize_path D)
                   (with_mode (Z.lor mode_dir (Z.land perm chmod_bits)) (new_dir (normalize_path D) (mclock s)))
                   (Z.land perm chmod_bits))
                (normalize_path D) (Z.lor (Z.land perm chmod_bits) mode_dir).
Proof. intros H Hb. unfold m_mkdir. rewrite H, Hb. reflexivity. Qed.

(* MemMapFs.MkdirAll(D): nil, afterwards D is present and nothing that was present is lost — or
   ENOTDIR (D is absent and its nearest existing ancestor is a regular file).
   (On an existing path — directory or not — nothing changes at all: see mkdirall_existing.) *)
Lemma mkdirall_result s D perm s1 r :
  mem_wf s -> m_step s (MkdirAll D perm) = (s1, r) ->
  (r = ROk /\ (exists d dn, lookup s1 (normalize_path D) = Some d /\ get_node s1 d = Some dn) /\
   (forall k x, lookup s k = Some x -> lookup s1 k = Some x) /\
   (length (mheap s) <= length (mheap s1))%nat) \/
  r = RErr (EW KENOTDIR).
Proof.
  intros Hwf H. rewrite m_step_bump in H. cbn [m_step_raw] in H. unfold m_mkdirall in H.
  set (name := normalize_path D) in *.
  destruct (lookup s name) as [d|] eqn:El.
  - left. unfold m_mkdir in H. fold name in H. rewrite El in H. cbn [ek EW errk_eqb fst snd] in H. inversion H; subst s1 r; clear H.
    split; [reflexivity|]. split; [|split; [now intros | reflexivity]].
    destruct (get_node_of_lt s d (Hwf _ _ El)) as [dn Hdn]. exists d, dn. now split.
  - fold name in El. destruct (below_file s name) eqn:Hbf.
    { right. unfold m_mkdir in H. fold name in H. rewrite El, Hbf in H. cbn [ek EW errk_eqb fst snd] in H. now inversion H. }
    left. rewrite (m_mkdir_attach s D perm El Hbf) in H. fold name in H.
    set (nd := with_mode _ _) in H.
    destruct (attach_general s name nd (Z.land perm chmod_bits)) as [Hl [Hlt [Hoth [Hhd Hck]]]].
    set (s3 := attach s name nd (Z.land perm chmod_bits)) in *. set (f := length (mheap s)) in *.
    rewrite (set_file_mode_found s3 name _ f) in H by (unfold name; rewrite normalize_idempotent; exact Hl).
    cbn [fst snd] in H. inversion H; subst s1 r; clear H.
    split; [reflexivity|]. split; [|split].
    + destruct (get_node_of_lt s3 f Hlt) as [n Hn]. exists f. eexists.
      unfold lookup, get_node. cbn [bump mdata mheap]. rewrite upd_node_data. split; [exact Hl|].
      exact (get_upd_same _ _ _ _ Hn).
    + intros k x Hk. unfold lookup. cbn [bump mdata]. rewrite upd_node_data. apply Hoth; [|exact Hk].
      intros ->. congruence.
    + cbn [bump mheap]. rewrite upd_node_heap_length. lia.
Qed.

(* MkdirAll on a path that exists changes nothing the filesystem holds *)
Lemma mkdirall_existing s D perm : lookup s (normalize_path D) <> None ->
  snd (m_step s (MkdirAll D perm)) = ROk /\ fs_view (fst (m_step s (MkdirAll D perm))) = fs_view s.
Proof.
  intros H. rewrite m_step_bump. cbn [m_step_raw fst snd]. unfold m_mkdirall, m_mkdir.
  destruct (lookup s (normalize_path D)); [|congruence]. cbn [ek EW errk_eqb fst snd]. now split.
Qed.

Theorem write_reader_roundtrip s p chunks s' :
  mem_wf s -> lookup s s_slash <> None -> good_seg (snd (path_split p)) ->
  write_reader m_step s p chunks = (s', ROk) ->
  snd (read_file m_step s' p) = RData (concat chunks) None /\
  exists d dn, lookup s' (normalize_path (fst (path_split p))) = Some d /\ get_node s' d = Some dn.
Proof.
  intros Hwf Hroot Hb H. unfold write_reader in H.
  destruct (parent_key_by_split p Hb) as [Hpk Hpne].
  set (D := fst (path_split p)) in *. set (name := normalize_path p) in *.
  (* the state after the optional MkdirAll: the directory part is present *)
  assert (Hpre : exists s1, io_create_copy m_step s1 p chunks = (s', ROk) /\
                 exists d dn, lookup s1 (normalize_path D) = Some d /\ get_node s1 d = Some dn).
  { destruct (is_empty D) eqn:ED.
    - apply is_empty_true in ED. exists s. split; [exact H|]. rewrite ED.
      change (normalize_path []) with s_slash. destruct (lookup s s_slash) as [r0|] eqn:Er; [|congruence].
      destruct (get_node_of_lt s r0 (Hwf _ _ Er)) as [rn Hrn]. now exists r0, rn.
    - destruct (m_step s (MkdirAll D 511)) as [s1 r1] eqn:E1.
      destruct (mkdirall_result _ _ _ _ _ Hwf E1) as [[-> [Hd _]] | ->]; [exists s1; now split | discriminate H]. }
  clear H. destruct Hpre as [s1 [H [d [dn [Hd Hdn]]]]]. unfold io_create_copy in H.
  destruct (m_step s1 (Create p)) as [s2 r2] eqn:E2.
  assert (Hpp : parent_present s1 name).
  { exists d, dn. rewrite Hpk. split; [exact Hd|]. split; [exact Hdn|]. rewrite <- Hpk. exact Hpne. }
  destruct (create_for_write _ _ _ _ Hpp E2) as [[f [-> [Hw [Hlk Hval]]]] | ->]; [|discriminate H].
  destruct (io_copy_mem p _ f (io_reads chunks) _ _ Hw) as [s3 [E3 [Hw3 [Hl3 Hh3]]]].
  rewrite E3 in H. cbn [app] in Hw3. rewrite io_reads_concat in Hw3.
  destruct (hclose_rw _ _ _ _ _ _ Hw3) as [s4 [E4 [Hh4 [Hl4 Hlen4]]]]. rewrite E4 in H.
  inversion H; subst s'. split; [now apply read_file_holds|].
  assert (Hd2 : lookup s2 (normalize_path D) = Some d) by (apply Hlk; [exact Hd | rewrite <- Hpk; exact Hpne]).
  destruct (Hval _ _ Hdn) as [dn2 Hdn2].
  exists d. destruct (get_node_of_lt s4 d) as [dn4 Hdn4].
  { rewrite Hlen4, Hh3. now apply get_node_lt in Hdn2. }
  exists dn4. split; [|exact Hdn4]. now rewrite Hl4, Hl3.
Qed.

(* ------------------------------------------------------------------------------------ *)
(** * SafeWriteReader *)

Definition exists_at (s : mst) (p : str) : Prop :=
  exists f n, lookup s (normalize_path p) = Some f /\ get_node s f = Some n.

Lemma stat_succeeds_iff s p : (exists fi, snd (m_step s (Stat p)) = RInfo fi) <-> exists_at s p.
Proof.
  rewrite m_step_bump. cbn [m_step_raw snd]. unfold m_stat, exists_at. split.
  - intros [fi H]. destruct (lookup s (normalize_path p)) as [f|]; [|discriminate].
    destruct (get_node s f) as [n|] eqn:En; [|discriminate]. now exists f, n.
  - intros [f [n [-> ->]]]. now eexists.
Qed.

Lemma exists_at_view s t p : fs_view s = fs_view t -> exists_at s p -> exists_at t p.
Proof.
  unfold fs_view, exists_at, lookup, get_node. intros E. inversion E as [[E1 E2]]. now rewrite E1, E2.
Qed.

Lemma stat_view s p : fs_view (fst (m_step s (Stat p))) = fs_view s.
Proof.
  rewrite m_step_bump. cbn [m_step_raw fst]. unfold m_stat.
  destruct (lookup s (normalize_path p)) as [f|]; [|reflexivity]. now destruct (get_node s f).
Qed.

Theorem safe_write_preserves s p chunks :
  exists_at s p ->
  (fst (path_split p) = [] \/ lookup s (normalize_path (fst (path_split p))) <> None) ->
  (exists e, snd (safe_write_reader m_step s p chunks) = RErr e) /\
  fs_view (fst (safe_write_reader m_step s p chunks)) = fs_view s.
Proof.
  intros Hex Hdir. unfold safe_write_reader.
  set (D := fst (path_split p)) in *.
  assert (Hpre : exists s1, (if is_empty D then (s, None)
                    else match m_step s (MkdirAll D 511) with
                         | (s1, ROk) => (s1, None)
                         | (s1, RErr e) => (s1, Some (RErr e))
                         | (s1, _) => (s1, Some RPanic)
                         end) = (s1, None) /\ fs_view s1 = fs_view s).
  { destruct (is_empty D) eqn:ED; [exists s; now split|].
    destruct Hdir as [Hd|Hd]; [rewrite Hd in ED; discriminate|].
    destruct (mkdirall_existing s D 511 Hd) as [Hr Hv].
    destruct (m_step s (MkdirAll D 511)) as [s1 r1]. cbn [fst snd] in Hr, Hv. subst r1. now exists s1. }
  destruct Hpre as [s1 [-> Hv1]].
  assert (Hex1 : exists_at s1 p) by (eapply exists_at_view; [symmetry; exact Hv1 | exact Hex]).
  unfold io_exists. pose proof (stat_view s1 p) as Hv2.
  apply stat_succeeds_iff in Hex1 as [fi Hfi].
  destruct (m_step s1 (Stat p)) as [s2 r2]. cbn [fst snd] in Hv2, Hfi. subst r2. cbn [fst snd].
  split; [now eexists | now rewrite Hv2].
Qed.
