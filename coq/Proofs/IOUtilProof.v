(* Proofs/IOUtilProof.v — C17, write/read round trips on MemMapFs (m_step):
   WriteFile / WriteReader followed by ReadFile return exactly the bytes given, for every size;
   SafeWriteReader never alters a path that exists. *)
From AF Require Import Lib.Bytes Lib.Path Lib.Ops Gen.Consts Model.MemFile Model.MemFs Model.IOUtil
  Proofs.BytesLemmas Proofs.PathProof Proofs.MemFsBasics Proofs.MemCreate.
Local Open Scope Z_scope.

(* ------------------------------------------------------------------------------------ *)
(** * the abstract read loop: a reader that returns min(len buf, remaining) yields its content *)

Lemma firstn_add {A} (l : list A) n m : firstn (n + m) l = firstn n l ++ firstn m (skipn n l).
Proof.
  revert l; induction n as [|n IH]; intros l; [reflexivity|].
  destruct l as [|x l]; cbn [Nat.add firstn skipn app]; [now rewrite firstn_nil | now rewrite IH].
Qed.

Lemma zlen_nonneg {A} (l : list A) : 0 <= zlen l.
Proof. unfold zlen. lia. Qed.

Lemma zlen_firstn {A} (l : list A) a : 0 <= a <= zlen l -> zlen (firstn (Z.to_nat a) l) = a.
Proof. intros H. unfold zlen in *. rewrite firstn_length. lia. Qed.

Lemma zlen_zero_nil {A} (l : list A) : zlen l = 0 -> l = [].
Proof. unfold zlen. destruct l; cbn; [reflexivity | lia]. Qed.

(* the request sizes of bytes.Buffer.ReadFrom are always at least MinRead *)
Lemma read_chunk_pos cap len :
  io_min_read <= (if io_min_read <=? cap - len then cap else Z.max (len + io_min_read) (2 * cap)) - len.
Proof. destruct (io_min_read <=? cap - len) eqn:E; [apply Z.leb_le in E; lia | lia]. Qed.

(* ------------------------------------------------------------------------------------ *)
(** * m_step: one API call = the raw step, then the clock ticks *)

Definition bump (s : mst) : mst := mkM (mdata s) (mheap s) (mhandles s) (mclock s + 1).

Lemma m_step_bump s o : m_step s o = (bump (fst (m_step_raw s o)), snd (m_step_raw s o)).
Proof. unfold m_step. now destruct (m_step_raw s o). Qed.

Lemma lookup_bump s k : lookup (bump s) k = lookup s k. Proof. reflexivity. Qed.
Lemma get_node_bump s x : get_node (bump s) x = get_node s x. Proof. reflexivity. Qed.
Lemma handles_bump s : mhandles (bump s) = mhandles s. Proof. reflexivity. Qed.
Lemma view_bump s : fs_view (bump s) = fs_view s. Proof. reflexivity. Qed.

(* the file p is a regular file holding [data] *)
Definition holds (s : mst) (p : str) (data : bytes) : Prop :=
  exists f n, lookup s (normalize_path p) = Some f /\ get_node s f = Some n /\ ndata n = data /\ ndir n = false.

(* handle h is open on node f, at offset a; f holds [data] *)
Definition rd_inv (s : mst) (h f : nat) (data : bytes) (a : Z) : Prop :=
  exists hd n, nth_error (mhandles s) h = Some hd /\ hclosed hd = false /\ href hd = f /\ hat hd = a /\
               get_node s f = Some n /\ ndata n = data.

Lemma read_loop_mem fuel : forall s h f data a acc cap,
  rd_inv s h f data a -> 0 <= a <= zlen data -> acc = firstn (Z.to_nat a) data ->
  (Z.to_nat (zlen data - a) < fuel)%nat ->
  snd (io_read_loop m_step fuel s h acc cap) = RData data None.
Proof.
  induction fuel as [|fuel IH]; intros s h f data a acc cap Hinv Ha Hacc Hfuel; [lia|].
  cbn [io_read_loop].
  assert (Hlen : zlen acc = a) by (subst acc; now apply zlen_firstn).
  rewrite Hlen. pose proof (read_chunk_pos cap a) as Hc.
  set (cap1 := if io_min_read <=? cap - a then cap else Z.max (a + io_min_read) (2 * cap)) in *.
  set (c := cap1 - a) in *. unfold io_min_read in Hc.
  destruct Hinv as [hd [n [Hh [Hcl [Hrf [Hat [Hn Hd]]]]]]].
  rewrite m_step_bump. cbn [m_step_raw]. unfold m_hop. rewrite Hh, Hrf, Hn. rewrite Hd.
  unfold f_read. rewrite Hcl, Hat.
  assert (Hc0 : (0 <? c) = true) by (apply Z.ltb_lt; lia). rewrite Hc0. cbn [andb].
  destruct (a =? zlen data) eqn:Eeq.
  - (* at the end: io.EOF *)
    apply Z.eqb_eq in Eeq. cbn [fst snd]. cbn [io_is_eof ek ewrapped errk_eqb andb negb snd].
    rewrite app_nil_r. subst acc. rewrite Eeq. unfold zlen. rewrite Nat2Z.id. now rewrite firstn_all.
  - apply Z.eqb_neq in Eeq.
    assert (E1 : (zlen data <? a) = false) by (apply Z.ltb_ge; lia). rewrite E1.
    assert (E2 : (a <? 0) = false) by (apply Z.ltb_ge; lia). rewrite E2.
    set (k := if c <=? zlen data - a then c else zlen data - a).
    assert (Hk : 1 <= k <= zlen data - a).
    { unfold k. destruct (c <=? zlen data - a) eqn:E; [apply Z.leb_le in E|apply Z.leb_gt in E]; lia. }
    cbn [fst snd].
    eapply (IH _ h f data (a + k)).
    + exists (set_at hd (a + k)), n. rewrite handles_bump. unfold set_handle. cbn [mhandles].
      repeat split; try assumption.
      * apply nth_error_list_set_same. now apply nth_error_some_lt in Hh.
    + lia.
    + subst acc. unfold slice. replace (a + k - a) with k by lia.
      replace (Z.to_nat (a + k)) with (Z.to_nat a + Z.to_nat k)%nat by lia. now rewrite firstn_add.
    + lia.
Qed.

(* ReadFile of a regular file returns its content: Open, Stat (size hint), the loop, Close *)
Theorem read_file_holds s p data : holds s p data -> snd (read_file m_step s p) = RData data None.
Proof.
  intros [f [n [Hl [Hn [Hd Hnd]]]]]. unfold read_file.
  rewrite m_step_bump. cbn [m_step_raw]. unfold m_open. rewrite Hl. unfold alloc_handle. cbn [fst snd].
  set (h := length (mhandles s)). set (hd := mkH f 0 0 false true).
  set (s1 := bump _).
  assert (Hh1 : nth_error (mhandles s1) h = Some hd) by (unfold s1; cbn [bump mhandles]; apply nth_error_snoc).
  assert (Hn1 : get_node s1 f = Some n) by exact Hn.
  rewrite m_step_bump. cbn [m_step_raw]. unfold m_hop. rewrite Hh1. cbn [href hd]. rewrite Hn1. cbn [fst snd].
  unfold finfo_of. rewrite Hnd. cbn [fi_size]. rewrite Hd.
  set (hint := if zlen data <? io_size_cap then zlen data else 0).
  set (s2 := bump s1).
  assert (Hloop : snd (io_read_loop m_step (Z.to_nat (zlen data) + 2) s2 h [] (hint + io_min_read)) = RData data None).
  { apply (read_loop_mem _ s2 h f data 0).
    - exists hd, n. repeat split; try assumption; reflexivity.
    - pose proof (zlen_nonneg data). lia.
    - reflexivity.
    - pose proof (zlen_nonneg data). lia. }
  destruct (io_read_loop m_step (Z.to_nat (zlen data) + 2) s2 h [] (hint + io_min_read)) as [s3 r].
  cbn [snd] in Hloop. subst r. now destruct (m_step s3 (HClose h)).
Qed.

(* ------------------------------------------------------------------------------------ *)
(** * writing *)

(* a handle open for writing on node f at offset a; f is a regular file holding [data] *)
Definition wr_inv (s : mst) (p : str) (h f : nat) (data : bytes) (a : Z) : Prop :=
  exists n, lookup s (normalize_path p) = Some f /\ get_node s f = Some n /\ ndata n = data /\ ndir n = false /\
            nth_error (mhandles s) h = Some (mkH f a 0 false false).

(* sane state for WriteFile(p): p is a regular file, or p is absent and its parent directory is present *)
Definition sane_for (s : mst) (p : str) : Prop :=
  match lookup s (normalize_path p) with
  | Some f => exists n, get_node s f = Some n /\ ndir n = false
  | None => exists d dn, lookup s (parent_key (normalize_path p)) = Some d /\ get_node s d = Some dn
  end.

Lemma wflags_excl : flag_has io_write_flags o_excl = false. Proof. reflexivity. Qed.
Lemma wflags_create : flag_has io_write_flags o_create = true. Proof. reflexivity. Qed.
Lemma wflags_append : flag_has io_write_flags o_append = false. Proof. reflexivity. Qed.
Lemma wflags_trunc : flag_has io_write_flags o_trunc && flag_has io_write_flags (Z.lor o_rdwr o_wronly) = true.
Proof. reflexivity. Qed.
Lemma wflags_ro : (Z.land io_write_flags memfs_access_mask =? 0) = false. Proof. reflexivity. Qed.

Lemma set_file_mode_found st nm m f :
  lookup st (normalize_path nm) = Some f -> set_file_mode st nm m = (upd_node st f (with_mode m), ROk).
Proof. intros H. unfold set_file_mode. now rewrite H. Qed.

Lemma open_for_write s p perm s1 r :
  sane_for s p -> m_step s (OpenFile p io_write_flags perm) = (s1, r) ->
  exists f, r = RHandle (length (mhandles s)) /\ wr_inv s1 p (length (mhandles s)) f [] 0 /\
            (forall k x, lookup s k = Some x -> k <> normalize_path p -> lookup s1 k = Some x).
Proof.
  intros Hs H. rewrite m_step_bump in H. cbn [m_step_raw] in H. unfold m_openfile in H.
  rewrite wflags_excl, wflags_create, wflags_append, wflags_trunc, wflags_ro in H. cbn [andb negb] in H.
  unfold sane_for in Hs. set (name := normalize_path p) in *.
  destruct (lookup s name) as [f|] eqn:El.
  - destruct Hs as [n [Hn Hnd]]. unfold alloc_handle in H. cbn [fst snd] in H.
    inversion H; subst s1 r; clear H. exists f. rewrite upd_node_handles. split; [reflexivity|]. split.
    + exists (with_mtime (mclock s) (with_data [] n)).
      unfold lookup, get_node. cbn [bump mdata mheap mhandles]. rewrite upd_node_data.
      repeat split; try assumption.
      * exact (get_upd_same _ _ _ _ Hn).
      * apply nth_error_snoc.
    + intros k x Hk _. cbn [bump lookup mdata]. unfold lookup. cbn [mdata]. now rewrite upd_node_data.
  - destruct Hs as [d [dn [Hp Hd]]].
    assert (Hne : parent_key name <> name) by (intros E; rewrite E in Hp; congruence).
    rewrite m_create_node_attach in H.
    destruct (attach_parent_present s name (new_file name (mclock s)) 0 d dn eq_refl Hp Hd Hne)
      as [Hmd [Hhd [Hck [Hlen [Hf [Hdn Hoth]]]]]].
    set (f := length (mheap s)) in *. set (s3 := attach s name (new_file name (mclock s)) 0) in *.
    unfold alloc_handle in H. cbn [fst snd] in H.
    match type of H with context [set_file_mode ?st ?nm ?m] =>
      rewrite (set_file_mode_found st nm m f) in H end.
    2:{ unfold name. rewrite normalize_idempotent. fold name. unfold lookup. cbn [mdata].
        rewrite upd_node_data, Hmd. apply alist_get_set_same. }
    cbn [fst snd] in H. inversion H; subst s1 r; clear H. exists f.
    rewrite upd_node_handles, Hhd. split; [reflexivity|]. split.
    + eexists. unfold lookup, get_node. cbn [bump mdata mheap mhandles].
      rewrite upd_node_data. cbn [mdata]. rewrite upd_node_data, Hmd, alist_get_set_same.
      rewrite upd_node_handles. cbn [mhandles].
      split; [reflexivity|]. split.
      * refine (get_upd_same _ _ _ _ _). unfold get_node. cbn [mheap].
        exact (get_upd_same _ _ _ _ Hf).
      * repeat split. apply nth_error_snoc.
    + intros k x Hk Hkn. unfold lookup. cbn [bump mdata]. rewrite upd_node_data. cbn [mdata].
      rewrite upd_node_data, Hmd. rewrite alist_get_set_other by exact Hkn. exact Hk.
Qed.

Lemma go_write_append data b : go_write data b (zlen data) = data ++ b.
Proof.
  unfold go_write. rewrite Z.sub_diag. cbn [Z.ltb Z.compare].
  assert (E : (zlen b + zlen data <? zlen data) = false) by (apply Z.ltb_ge; pose proof (zlen_nonneg b); lia).
  rewrite E, app_nil_r. unfold zlen. now rewrite Nat2Z.id, firstn_all.
Qed.

Lemma zlen_app {A} (a b : list A) : zlen (a ++ b) = zlen a + zlen b.
Proof. unfold zlen. rewrite app_length. lia. Qed.

(* File.Write at the end of the file appends *)
Lemma hwrite_append s p h f data b :
  wr_inv s p h f data (zlen data) ->
  exists s2, m_step s (HWrite h b) = (s2, RCount (zlen b) None) /\
             wr_inv s2 p h f (data ++ b) (zlen (data ++ b)) /\
             (forall k, lookup s2 k = lookup s k) /\ length (mheap s2) = length (mheap s).
Proof.
  intros [n [Hl [Hn [Hd [Hnd Hh]]]]]. rewrite m_step_bump. cbn [m_step_raw]. unfold m_hop.
  rewrite Hh. cbn [href]. rewrite Hn. unfold f_write. cbn [hclosed hro hat]. rewrite Hd.
  assert (Hhlt : (h < length (mhandles s))%nat) by now apply nth_error_some_lt in Hh.
  destruct (zlen b =? 0) eqn:Eb.
  - apply Z.eqb_eq in Eb. pose proof (zlen_zero_nil _ Eb) as ->. rewrite app_nil_r. cbn [fst snd put_data].
    eexists. split; [reflexivity|]. split; [|split; [reflexivity | reflexivity || (cbn [bump set_handle mheap]; reflexivity)]].
    exists n. unfold lookup, get_node. cbn [bump set_handle mdata mheap mhandles].
    repeat split; try assumption. now apply nth_error_list_set_same.
  - assert (E0 : (zlen data <? 0) = false) by (apply Z.ltb_ge; apply zlen_nonneg). rewrite E0.
    cbn [fst snd put_data]. rewrite go_write_append.
    eexists. split; [reflexivity|]. split; [|split].
    + eexists. unfold lookup, get_node. cbn [bump mdata mheap mhandles].
      rewrite upd_node_data, upd_node_handles. cbn [set_handle mdata mhandles].
      split; [exact Hl|]. split.
      * refine (get_upd_same _ _ _ _ _). exact Hn.
      * cbn [ndata ndir with_mtime with_data]. repeat split; [exact Hnd|].
        rewrite zlen_app. unfold set_at. cbn [href hrdc hclosed hro].
        now apply nth_error_list_set_same.
    + intros k. unfold lookup. cbn [bump mdata]. now rewrite upd_node_data.
    + cbn [bump mheap]. now rewrite upd_node_heap_length.
Qed.

(* File.Close of an open read-write handle *)
Lemma hclose_rw s p h f data a :
  wr_inv s p h f data a ->
  exists s2, m_step s (HClose h) = (s2, ROk) /\ holds s2 p data /\
             (forall k, lookup s2 k = lookup s k) /\ length (mheap s2) = length (mheap s).
Proof.
  intros [n [Hl [Hn [Hd [Hnd Hh]]]]]. rewrite m_step_bump. cbn [m_step_raw]. unfold m_hop.
  rewrite Hh. cbn [href hclosed hro]. rewrite Hn. cbn [fst snd].
  eexists. split; [reflexivity|]. split; [|split].
  - exists f. eexists. unfold lookup, get_node. cbn [bump mdata mheap]. rewrite upd_node_data.
    cbn [set_handle mdata]. split; [exact Hl|]. split; [refine (get_upd_same _ _ _ _ _); exact Hn|].
    now split.
  - intros k. unfold lookup. cbn [bump mdata]. now rewrite upd_node_data.
  - cbn [bump mheap]. now rewrite upd_node_heap_length.
Qed.

(* WriteFile leaves a regular file holding exactly the bytes given *)
Theorem write_file_holds s p b perm s' :
  sane_for s p -> write_file m_step s p b perm = (s', ROk) -> holds s' p b.
Proof.
  intros Hs H. unfold write_file in H.
  destruct (m_step s (OpenFile p io_write_flags perm)) as [s1 r1] eqn:E1.
  destruct (open_for_write _ _ _ _ _ Hs E1) as [f [-> [Hw _]]].
  destruct (hwrite_append _ _ _ _ _ b Hw) as [s2 [E2 [Hw2 _]]]. rewrite E2 in H.
  destruct (hclose_rw _ _ _ _ _ _ Hw2) as [s3 [E3 [Hh _]]]. rewrite E3 in H.
  rewrite Z.ltb_irrefl in H. inversion H; subst. exact Hh.
Qed.

Theorem write_read_roundtrip s p b perm s' :
  sane_for s p -> write_file m_step s p b perm = (s', ROk) ->
  snd (read_file m_step s' p) = RData b None.
Proof. intros Hs H. apply read_file_holds. eapply write_file_holds; eassumption. Qed.
