(* Proofs/IOFSGlobProof.v — C15, IOFS.Glob and malformed patterns.  Model/IOFS.v [io_glob_f] is match.go's
   Glob over the calls of an ARBITRARY inner filesystem; it follows the same two switches read from
   match.go as Model/Glob.v.  With the values /repo has now (hasMeta counts the backslash, Glob checks the
   pattern first) a pattern that is malformed at any level of Glob's recursion ([glob_accepts], e.g.
   "[a/b]": path.Match accepts it as a whole, its directory part "[a" is malformed) is answered with
   ErrBadPattern and no matches, and the inner filesystem is not consulted at all. *)
From AF Require Import Lib.Bytes Lib.Path Lib.Ops Gen.Consts Model.Walk Model.Glob Model.IOFS
  Proofs.GlobProof Proofs.GlobAllProof.

Section IOGlob.
Context {St : Type} (step : St -> op -> St * res).

Lemma io_glob_rejects_f : forall fuel (s : St) pat,
  glob_accepts_f fuel pat = false -> io_glob_f step fuel s pat = (s, ([], GBadPattern)).
Proof.
  induction fuel as [|f IH]; intros s pat Hacc; [discriminate Hacc|].
  cbn [io_glob_f glob_accepts_f] in *.
  unfold sw_checks_pattern_first, sw_hasmeta_backslash, pattern_check_fails.
  rewrite glob_hasmeta_backslash_fact, glob_checks_pattern_first_fact.
  change (Z.eqb 1 1) with true. cbn [andb afero_has_meta].
  destruct (match_seg pat []) as [b|]; [|reflexivity].
  rewrite (has_meta_bs_std pat).
  destruct (std_has_meta pat) eqn:Hm; cbn [negb] in *; [|discriminate Hacc].
  rewrite (surjective_pairing (path_split pat)). rewrite afero_dir_is_clean_glob_path.
  set (dir := clean_glob_path (fst (path_split pat))) in *.
  rewrite (has_meta_bs_std dir).
  destruct (std_has_meta dir) eqn:Hmd; cbn [negb] in *; [|discriminate Hacc].
  rewrite (IH s dir Hacc). reflexivity.
Qed.

Theorem iofs_glob_rejects : forall (s : St) pat,
  glob_accepts pat = false -> iofs_glob step s pat = (s, ([], GBadPattern)).
Proof.
  intros s pat H. unfold iofs_glob. destruct (match_seg pat []); [|reflexivity].
  unfold afero_glob_fs. apply io_glob_rejects_f. exact H.
Qed.
End IOGlob.
