(* Proofs/GlobAllProof.v — C16/C15, Glob for ALL patterns (escapes and malformed ones included).
   When match.go's hasMeta counts the backslash and Glob starts with the pattern check of
   path/filepath.Glob — the values the translator reads from /repo now, [glob_hasmeta_backslash_fact]
   and [glob_checks_pattern_first_fact] — afero.Glob IS path/filepath.Glob on every tree and every
   pattern below filepath's recursion limit:
     - [afero_glob_eq_std_all]; [afero_glob_repo_eq_std_iff]: ... and only then (each of the three
       other combinations of the switches is refuted by a concrete tree and pattern);
     - [afero_glob_malformed], [afero_glob_rejects]: a malformed pattern is answered with
       ErrBadPattern whatever the tree; [glob_accepts_iff]: and these are exactly the patterns that
       are answered so on every tree;
     - [afero_glob_fixed_eq_pinned]: on escape-free accepted patterns the repaired Glob is the pinned
       one, so everything proved for escape-free patterns carries over. *)
From AF Require Import Lib.Bytes Lib.Path Gen.Consts Model.Walk Model.Glob Proofs.GlobProof.

(* ---------- the switches as read from /repo/match.go (Gen/Consts.v is regenerated on every check) ---------- *)
Lemma glob_hasmeta_backslash_fact : glob_hasmeta_backslash = 1%Z.
Proof. reflexivity. Qed.

Lemma glob_checks_pattern_first_fact : glob_checks_pattern_first = 1%Z.
Proof. reflexivity. Qed.

Lemma afero_glob_is_fixed : afero_glob = afero_glob_fixed.
Proof.
  unfold afero_glob, afero_glob_fixed, sw_hasmeta_backslash, sw_checks_pattern_first.
  rewrite glob_hasmeta_backslash_fact, glob_checks_pattern_first_fact. reflexivity.
Qed.

(* ---------- equality with path/filepath.Glob on every pattern ---------- *)
Lemma glob_fixed_eq_f : forall fuel depth t pat,
  (N.of_nat (length pat) + depth < path_separators_limit)%N ->
  afero_glob_gen_f true true fuel t pat = std_glob_f fuel depth t pat.
Proof.
  induction fuel as [|f IH]; intros depth t pat Hlen; [reflexivity|].
  cbn [afero_glob_gen_f std_glob_f afero_has_meta andb]. unfold pattern_check_fails.
  assert (Hd : N.eqb depth path_separators_limit = false) by (apply N.eqb_neq; lia).
  rewrite Hd.
  destruct (match_seg pat []) as [b|]; [|reflexivity].
  rewrite (has_meta_bs_std pat).
  destruct (std_has_meta pat) eqn:Hm; cbn [negb].
  2:{ destruct (tree_lookup t pat); reflexivity. }
  rewrite (surjective_pairing (path_split pat)).
  rewrite afero_dir_is_clean_glob_path.
  set (dir := clean_glob_path (fst (path_split pat))) in *.
  rewrite (has_meta_bs_std dir).
  destruct (std_has_meta dir) eqn:Hmd; cbn [negb].
  2:{ apply glob1_eq. }
  pose proof (dir_shorter_gen true pat Hmd) as Hsh. fold dir in Hsh.
  assert (Hb : beqb dir pat = false).
  { destruct (beqb dir pat) eqn:E; [|reflexivity]. apply beqb_length in E. lia. }
  rewrite Hb.
  rewrite (IH (N.succ depth) t dir) by lia.
  destruct (std_glob_f f (N.succ depth) t dir) as [m e].
  destruct e; try reflexivity. apply glob_over_eq.
Qed.

Theorem afero_glob_fixed_eq_std : forall t pat,
  (N.of_nat (length pat) < path_separators_limit)%N ->
  afero_glob_fixed t pat = std_glob t pat.
Proof.
  intros t pat Hlen. unfold afero_glob_fixed, afero_glob_gen, std_glob. apply glob_fixed_eq_f. lia.
Qed.

(* match.go as it is in /repo now *)
Theorem afero_glob_eq_std_all : forall t pat,
  (N.of_nat (length pat) < path_separators_limit)%N ->
  afero_glob t pat = std_glob t pat.
Proof. rewrite afero_glob_is_fixed. exact afero_glob_fixed_eq_std. Qed.

(* ---------- ... and only then: the three other combinations are refuted ---------- *)
(* D["a" = F], pattern `\a`: hasMeta without the backslash lstat's the name `\a` literally *)
Definition gx_tree : tree := D [([97%N], F)].
Definition gx_escape : str := [92; 97]%N.
(* D[], pattern `[`: without the check nothing is ever matched, so nothing reports the pattern *)
Definition gx_malformed : str := [91]%N.

Lemma gx_escape_short : (N.of_nat (length gx_escape) < path_separators_limit)%N.
Proof. vm_compute. reflexivity. Qed.
Lemma gx_malformed_short : (N.of_nat (length gx_malformed) < path_separators_limit)%N.
Proof. vm_compute. reflexivity. Qed.

Theorem afero_glob_gen_eq_std_iff : forall bs chk,
  (forall t pat, (N.of_nat (length pat) < path_separators_limit)%N -> afero_glob_gen bs chk t pat = std_glob t pat)
  <-> (bs = true /\ chk = true).
Proof.
  intros bs chk. split.
  - intros H. destruct bs, chk; try (split; reflexivity); exfalso.
    + specialize (H (D []) gx_malformed gx_malformed_short). vm_compute in H. discriminate H.
    + specialize (H gx_tree gx_escape gx_escape_short). vm_compute in H. discriminate H.
    + specialize (H gx_tree gx_escape gx_escape_short). vm_compute in H. discriminate H.
  - intros [-> ->]. exact afero_glob_fixed_eq_std.
Qed.

Theorem afero_glob_repo_eq_std_iff :
  (forall t pat, (N.of_nat (length pat) < path_separators_limit)%N -> afero_glob t pat = std_glob t pat)
  <-> (glob_hasmeta_backslash = 1%Z /\ glob_checks_pattern_first = 1%Z).
Proof.
  unfold afero_glob. rewrite afero_glob_gen_eq_std_iff. unfold sw_hasmeta_backslash, sw_checks_pattern_first.
  rewrite !Z.eqb_eq. reflexivity.
Qed.

Theorem afero_glob_pinned_refuted :
  (exists t pat, (N.of_nat (length pat) < path_separators_limit)%N /\ no_escape pat = false
                 /\ std_glob t pat = ([[97%N]], GNil) /\ afero_glob_pinned t pat = ([], GNil))
  /\ (exists t pat, (N.of_nat (length pat) < path_separators_limit)%N /\ no_escape pat = true
                    /\ std_glob t pat = ([], GBadPattern) /\ afero_glob_pinned t pat = ([], GNil)).
Proof.
  split.
  - exists gx_tree, gx_escape. repeat split; vm_compute; reflexivity.
  - exists (D []), gx_malformed. repeat split; vm_compute; reflexivity.
Qed.

(* ---------- malformed patterns: ErrBadPattern whatever the tree ---------- *)
(* with the check in place (whatever hasMeta counts): Match(pattern, "") fails -> nil, ErrBadPattern *)
Lemma afero_glob_gen_check : forall bs t pat,
  match_seg pat [] = None -> afero_glob_gen bs true t pat = ([], GBadPattern).
Proof.
  intros bs t pat H. unfold afero_glob_gen. cbn [afero_glob_gen_f andb]. unfold pattern_check_fails.
  rewrite H. reflexivity.
Qed.

Theorem afero_glob_malformed : forall t pat,
  match_seg pat [] = None -> afero_glob t pat = ([], GBadPattern).
Proof. rewrite afero_glob_is_fixed. intros t pat. apply afero_glob_gen_check. Qed.

(* ... also when the malformed part is a directory part Glob recurses into: [glob_accepts] *)
Lemma fixed_rejects_f : forall fuel t pat,
  glob_accepts_f fuel pat = false -> afero_glob_gen_f true true fuel t pat = ([], GBadPattern).
Proof.
  induction fuel as [|f IH]; intros t pat Hacc; [discriminate Hacc|].
  cbn [afero_glob_gen_f glob_accepts_f afero_has_meta andb] in *. unfold pattern_check_fails.
  destruct (match_seg pat []) as [b|]; [|reflexivity].
  rewrite (has_meta_bs_std pat).
  destruct (std_has_meta pat) eqn:Hm; cbn [negb] in *; [|discriminate Hacc].
  rewrite (surjective_pairing (path_split pat)). rewrite afero_dir_is_clean_glob_path.
  set (dir := clean_glob_path (fst (path_split pat))) in *.
  rewrite (has_meta_bs_std dir).
  destruct (std_has_meta dir) eqn:Hmd; cbn [negb] in *; [|discriminate Hacc].
  rewrite (IH t dir Hacc). reflexivity.
Qed.

Theorem afero_glob_fixed_rejects : forall t pat,
  glob_accepts pat = false -> afero_glob_fixed t pat = ([], GBadPattern).
Proof. intros t pat H. apply fixed_rejects_f. exact H. Qed.

Theorem afero_glob_rejects : forall t pat,
  glob_accepts pat = false -> afero_glob t pat = ([], GBadPattern).
Proof. rewrite afero_glob_is_fixed. exact afero_glob_fixed_rejects. Qed.

Lemma glob_accepts_check : forall pat, match_seg pat [] = None -> glob_accepts pat = false.
Proof. intros pat H. unfold glob_accepts. cbn [glob_accepts_f]. rewrite H. reflexivity. Qed.

(* conversely an accepted pattern is NOT answered with an error on every tree: on the tree that is a
   single file nothing is ever listed, so nothing is ever matched *)
Lemma descend_F : forall segs, descend F segs = Some F \/ descend F segs = None.
Proof. intros [|s r]; [left|right]; reflexivity. Qed.

Lemma glob1_F : forall d file m, afero_glob1 F d file m = (m, GNil).
Proof.
  intros d file m. unfold afero_glob1, tree_lookup.
  destruct (descend_F (clean_segs (normalize_path d))) as [-> | ->]; reflexivity.
Qed.

Lemma glob_over_F : forall file ds m, afero_glob_over F file ds m = (m, GNil).
Proof.
  intros file ds. induction ds as [|d r IH]; intros m; cbn [afero_glob_over]; [reflexivity|].
  rewrite glob1_F. apply IH.
Qed.

Lemma fixed_accepts_F_f : forall fuel pat, length pat < fuel ->
  glob_accepts_f fuel pat = true -> snd (afero_glob_gen_f true true fuel F pat) = GNil.
Proof.
  induction fuel as [|f IH]; intros pat Hlen Hacc; [lia|].
  cbn [afero_glob_gen_f glob_accepts_f afero_has_meta andb] in *. unfold pattern_check_fails.
  destruct (match_seg pat []) as [b|]; [|discriminate Hacc].
  rewrite (has_meta_bs_std pat).
  destruct (std_has_meta pat) eqn:Hm; cbn [negb] in *.
  2:{ destruct (tree_lookup F pat); reflexivity. }
  rewrite (surjective_pairing (path_split pat)). rewrite afero_dir_is_clean_glob_path.
  set (dir := clean_glob_path (fst (path_split pat))) in *.
  rewrite (has_meta_bs_std dir).
  destruct (std_has_meta dir) eqn:Hmd; cbn [negb] in *.
  2:{ rewrite glob1_F. reflexivity. }
  pose proof (dir_shorter_gen true pat Hmd) as Hsh. fold dir in Hsh.
  assert (Hr : snd (afero_glob_gen_f true true f F dir) = GNil) by (apply IH; [lia|exact Hacc]).
  destruct (afero_glob_gen_f true true f F dir) as [m e]. cbn [snd] in Hr. subst e.
  rewrite glob_over_F. reflexivity.
Qed.

Theorem glob_accepts_iff : forall pat,
  glob_accepts pat = false <-> (forall t, afero_glob t pat = ([], GBadPattern)).
Proof.
  intros pat. split.
  - intros H t. apply afero_glob_rejects. exact H.
  - intros H. destruct (glob_accepts pat) eqn:E; [|reflexivity]. exfalso.
    specialize (H F). rewrite afero_glob_is_fixed in H.
    assert (Hn : snd (afero_glob_fixed F pat) = GNil) by (apply fixed_accepts_F_f; [lia|exact E]).
    rewrite H in Hn. discriminate Hn.
Qed.

(* ---------- escape-free patterns: nothing changed ---------- *)
(* the character sets agree on a pattern without backslash *)
Theorem has_meta_bs_no_escape : forall p, no_escape p = true -> has_meta_bs p = has_meta p.
Proof. intros p H. rewrite has_meta_bs_std. apply has_meta_std. exact H. Qed.

(* [glob_accepts] is [std_accepts] on them *)
Lemma glob_accepts_ne_f : forall fuel pat, no_escape pat = true ->
  glob_accepts_f fuel pat = std_accepts_f fuel pat.
Proof.
  induction fuel as [|f IH]; intros pat Hne; [reflexivity|].
  cbn [glob_accepts_f std_accepts_f].
  destruct (match_seg pat []); [|reflexivity].
  rewrite (has_meta_std pat Hne). destruct (has_meta pat); cbn [negb]; [|reflexivity].
  pose proof (no_escape_dir pat Hne) as Hned.
  rewrite (has_meta_std _ Hned). destruct (has_meta _); cbn [negb]; [|reflexivity].
  apply IH. exact Hned.
Qed.

Theorem glob_accepts_no_escape : forall pat, no_escape pat = true -> glob_accepts pat = std_accepts pat.
Proof. intros pat H. apply glob_accepts_ne_f. exact H. Qed.

(* the repaired Glob and the pinned Glob are the same function on accepted escape-free patterns
   (and so is every combination of the switches) *)
Theorem afero_glob_fixed_eq_pinned : forall t pat,
  no_escape pat = true -> std_accepts pat = true ->
  (N.of_nat (length pat) < path_separators_limit)%N ->
  afero_glob_fixed t pat = afero_glob_pinned t pat.
Proof.
  intros t pat Hne Hacc Hlen. unfold afero_glob_fixed, afero_glob_pinned.
  rewrite !afero_glob_gen_eq_std by assumption. reflexivity.
Qed.

(* without the length bound (filepath's recursion limit plays no role between the two) *)
Lemma gen_eq_pinned_f : forall bs chk fuel t pat,
  no_escape pat = true -> std_accepts_f fuel pat = true ->
  afero_glob_gen_f bs chk fuel t pat = afero_glob_gen_f false false fuel t pat.
Proof.
  intros bs chk. induction fuel as [|f IH]; intros t pat Hne Hacc; [reflexivity|].
  cbn [afero_glob_gen_f std_accepts_f andb] in *. unfold pattern_check_fails.
  destruct (match_seg pat []) as [b|]; [|discriminate Hacc]. rewrite andb_false_r.
  rewrite (afero_has_meta_ne bs pat Hne), (afero_has_meta_ne false pat Hne).
  destruct (has_meta pat) eqn:Hm; cbn [negb] in *; [|reflexivity].
  rewrite (surjective_pairing (path_split pat)). rewrite afero_dir_is_clean_glob_path.
  set (dir := clean_glob_path (fst (path_split pat))) in *.
  assert (Hned : no_escape dir = true) by (apply no_escape_dir; exact Hne).
  rewrite (afero_has_meta_ne bs dir Hned), (afero_has_meta_ne false dir Hned).
  destruct (has_meta dir) eqn:Hmd; cbn [negb] in *; [|reflexivity].
  rewrite (IH t dir Hned Hacc). reflexivity.
Qed.

Theorem afero_glob_eq_pinned : forall t pat,
  no_escape pat = true -> std_accepts pat = true -> afero_glob t pat = afero_glob_pinned t pat.
Proof. intros t pat Hne Hacc. apply gen_eq_pinned_f; assumption. Qed.
