(* Proofs/CacheInvOps2.v — C11, part B: states that differ only by the clock, cacheStatus over two MemMapFs layers
   related by the invariant, and the copy of a regular base file into the layer as a step of the invariant. *)
From AF Require Import Lib.Bytes Lib.Path Lib.Ops Gen.Consts Model.MemFile Model.MemFs Model.WfOps Model.Union Model.Cow
  Model.Cache Proofs.MemFsBasics Proofs.MemFsPath Proofs.MemFsWF Proofs.MemFsStep Proofs.MemFsInv Proofs.MemFsRename
  Proofs.CacheProof Proofs.CacheReady Proofs.CacheInv Proofs.CacheFrames Proofs.CacheHandles Proofs.CacheInvOps Proofs.CacheCopy.
Local Open Scope Z_scope.

(* ---------- states with the same path map, heap and handles ---------- *)
Definition same3 (s s' : mst) : Prop := mdata s' = mdata s /\ mheap s' = mheap s /\ mhandles s' = mhandles s.
Lemma same3_refl s : same3 s s. Proof. repeat split. Qed.
Lemma same3_bump s : same3 s (bump s). Proof. repeat split. Qed.
Lemma same3_trans a b c : same3 a b -> same3 b c -> same3 a c.
Proof. intros (A & B & C) (D & E & F). repeat split; congruence. Qed.

Definition same2 (s s' : mst) : Prop := mdata s' = mdata s /\ mheap s' = mheap s.
Lemma same3_2 s s' : same3 s s' -> same2 s s'. Proof. intros (A & B & _). now split. Qed.
Lemma same2_refl s : same2 s s. Proof. now split. Qed.
Lemma same2_trans a b c : same2 a b -> same2 b c -> same2 a c.
Proof. intros (A & B) (D & E). split; congruence. Qed.
Lemma same2_lookup s s' k : same2 s s' -> lookup s' k = lookup s k.
Proof. intros (A & _). unfold lookup. now rewrite A. Qed.
Lemma same2_node s s' r : same2 s s' -> get_node s' r = get_node s r.
Proof. intros (_ & A). unfold get_node. now rewrite A. Qed.
Lemma same3_lookup s s' k : same3 s s' -> lookup s' k = lookup s k.
Proof. intros H. apply same2_lookup. now apply same3_2. Qed.
Lemma same3_node s s' r : same3 s s' -> get_node s' r = get_node s r.
Proof. intros H. apply same2_node. now apply same3_2. Qed.
Lemma same2_WF s s' : same2 s s' -> WF s -> WF s'.
Proof. intros (A & B) W. eapply WF_view; [| |exact W]; congruence. Qed.

Lemma TreeShape_view2 sb sl phi sb' sl' : same2 sb sb' -> same2 sl sl' -> TreeShape sb sl phi -> TreeShape sb' sl' phi.
Proof.
  intros Sb Sl [A B C D E F G].
  split.
  - now apply (same2_WF sb).
  - now apply (same2_WF sl).
  - intros k rl. rewrite (same2_lookup _ _ _ Sl). intros H. destruct (C k rl H) as (rb & H1 & H2). exists rb. now rewrite (same2_lookup _ _ _ Sb).
  - intros rl rb H. destruct (D rl rb H) as (nl & nb & H1 & H2 & H3). exists nl, nb. now rewrite (same2_node _ _ _ Sl), (same2_node _ _ _ Sb).
  - intros rl rb k H. rewrite (same2_lookup _ _ _ Sb), (same2_lookup _ _ _ Sl). now apply E.
  - exact F.
  - intros k r n. rewrite (same2_lookup _ _ _ Sb), (same2_node _ _ _ Sb). apply G.
Qed.
Lemma TreeShape_view sb sl phi sb' sl' : same3 sb sb' -> same3 sl sl' -> TreeShape sb sl phi -> TreeShape sb' sl' phi.
Proof. intros A B. apply TreeShape_view2; now apply same3_2. Qed.

Lemma TreeInv_view2 sb sl phi sb' sl' : same2 sb sb' -> same2 sl sl' -> TreeInv sb sl phi -> TreeInv sb' sl' phi.
Proof.
  intros Sb Sl T. destruct (TreeShape_view2 sb sl phi sb' sl' Sb Sl (TreeInv_shape _ _ _ T)) as [A B C D E F G].
  split; auto. intros rl rb H. destruct (ti_pair _ _ _ T rl rb H) as (nl & nb & H1 & H2 & H3 & H4).
  exists nl, nb. now rewrite (same2_node _ _ _ Sl), (same2_node _ _ _ Sb).
Qed.
Lemma TreeInv_view sb sl phi sb' sl' : same3 sb sb' -> same3 sl sl' -> TreeInv sb sl phi -> TreeInv sb' sl' phi.
Proof. intros A B. apply TreeInv_view2; now apply same3_2. Qed.

Lemma TblInv_view sb sl tbl phi sb' sl' : same3 sb sb' -> same3 sl sl' -> TblInv sb sl tbl phi -> TblInv sb' sl' tbl phi.
Proof.
  intros (_ & _ & Hb) (_ & Hlh & Hl) [H1 H2 H3]. split; [|exact H2 | exact H3].
  intros i c Hc. specialize (H1 i c Hc). destruct c as [h|h|u]; cbn [EntOK] in *.
  - now rewrite Hb.
  - now rewrite Hl.
  - destruct H1 as (bh & lh & hb & hl & A & B & C & D & E & F & G). exists bh, lh, hb, hl. rewrite Hb, Hl.
    repeat split; auto; try apply E. intros nl. unfold get_node. rewrite Hlh. apply G.
Qed.

Lemma CInvP_view sb sl tbl phi sb' sl' : same3 sb sb' -> same3 sl sl' -> CInvP sb sl tbl phi -> CInvP sb' sl' tbl phi.
Proof. intros Sb Sl [T B]. split; [now apply (TreeInv_view sb sl) | now apply (TblInv_view sb sl)]. Qed.

(* ---------- consequences of the invariant used everywhere ---------- *)
Section Facts.
Variables (sb sl : mst) (phi : nat -> option nat).
Hypothesis T : TreeShape sb sl phi.

(* a name of the layer is a name of the base, of the same kind *)
Lemma layer_kind_base k b : kind_at sl k = Some b -> kind_at sb k = Some b.
Proof.
  intros H. apply kind_at_some in H as (rl & nl & Hl & Hn & Hd). destruct (ts_key _ _ _ T k rl Hl) as (rb & Hp & Hb).
  destruct (ts_pair _ _ _ T rl rb Hp) as (nl' & nb & Hnl & Hnb & Hk). rewrite Hn in Hnl. inversion Hnl; subst nl'.
  unfold kind_at. rewrite Hb, Hnb. congruence.
Qed.
Lemma layer_lookup_base k rl : lookup sl k = Some rl -> exists rb, lookup sb k = Some rb.
Proof. intros H. destruct (ts_key _ _ _ T k rl H) as (rb & _ & Hb). now exists rb. Qed.
Lemma base_none_layer_none k : lookup sb k = None -> lookup sl k = None.
Proof. intros H. destruct (lookup sl k) as [rl|] eqn:E; [|reflexivity]. destruct (layer_lookup_base k rl E) as (rb & Hb). congruence. Qed.

(* no regular file on the way in the base: none in the layer *)
Lemma nfp_base_layer k : no_file_prefix sb k = true -> no_file_prefix sl k = true.
Proof.
  intros H. unfold no_file_prefix in *. rewrite forallb_forall in *. intros [a ra] Hin. cbn [fst].
  assert (Hla : lookup sl a = Some ra) by (apply in_aget; [exact (g_nodup _ _ _ _ (ts_wfl _ _ _ T)) | exact Hin]).
  destruct (below a k) eqn:Eb; [|reflexivity]. cbn [andb]. destruct (is_file_at sl a) eqn:Ef; [|reflexivity]. exfalso.
  unfold is_file_at in Ef. destruct (kind_at sl a) as [[|]|] eqn:Ek; try discriminate Ef.
  pose proof (layer_kind_base a false Ek) as Ekb. destruct (layer_lookup_base a ra Hla) as (rb & Hb).
  specialize (H (a, rb) (aget_in _ _ _ Hb)). cbn [fst] in H. rewrite Eb in H. unfold is_file_at in H. rewrite Ekb in H. discriminate H.
Qed.

(* every existing prefix is a directory in the base: the same in the layer *)
Lemma prefixes_base_layer k : prefixes_dirs sb k = true -> prefixes_dirs sl k = true.
Proof.
  intros H. unfold prefixes_dirs in *. rewrite forallb_forall in *. intros [a ra] Hin. cbn [fst].
  assert (Hla : lookup sl a = Some ra) by (apply in_aget; [exact (g_nodup _ _ _ _ (ts_wfl _ _ _ T)) | exact Hin]).
  destruct (beqb a k || below a k) eqn:Eb; [|reflexivity]. cbn [negb orb].
  destruct (layer_lookup_base a ra Hla) as (rb & Hb). specialize (H (a, rb) (aget_in _ _ _ Hb)). cbn [fst] in H. rewrite Eb in H. cbn [negb orb] in H.
  unfold is_dir_at in *. destruct (kind_at sl a) as [b|] eqn:Ek.
  - rewrite (layer_kind_base a b Ek) in H. exact H.
  - exfalso. unfold kind_at in Ek. rewrite Hla in Ek. destruct (GWF_lookup_node _ _ _ _ _ _ (ts_wfl _ _ _ T) Hla) as (n & Hn). rewrite Hn in Ek. discriminate.
Qed.

Lemma has_kids_layer_base k : has_kids sl k = true -> has_kids sb k = true.
Proof.
  unfold has_kids. rewrite !existsb_exists. intros ([a ra] & Hin & Hb). cbn [fst] in Hb.
  assert (Hla : lookup sl a = Some ra) by (apply in_aget; [exact (g_nodup _ _ _ _ (ts_wfl _ _ _ T)) | exact Hin]).
  destruct (layer_lookup_base a ra Hla) as (rb & Hlb). exists (a, rb). split; [now apply aget_in | exact Hb].
Qed.
End Facts.

(* ---------- states with the same path map and the same kinds of nodes ---------- *)
Definition kind_same (s s' : mst) : Prop :=
  mdata s' = mdata s /\ forall r, option_map ndir (get_node s' r) = option_map ndir (get_node s r).
Lemma kind_same_refl s : kind_same s s. Proof. now split. Qed.
Lemma kind_same_trans a b c : kind_same a b -> kind_same b c -> kind_same a c.
Proof. intros (A & B) (D & E). split; [congruence|]. intros r. now rewrite E, B. Qed.
Lemma kind_same_of_same2 s s' : same2 s s' -> kind_same s s'.
Proof. intros (A & B). split; [exact A|]. intros r. unfold get_node. now rewrite B. Qed.
Lemma kind_same_lookup s s' k : kind_same s s' -> lookup s' k = lookup s k.
Proof. intros (A & _). unfold lookup. now rewrite A. Qed.
Lemma kind_same_kind s s' k : kind_same s s' -> kind_at s' k = kind_at s k.
Proof.
  intros K. unfold kind_at. rewrite (kind_same_lookup _ _ k K). destruct (lookup s k) as [r|]; [|reflexivity].
  destruct K as (_ & K). specialize (K r). destruct (get_node s' r), (get_node s r); cbn in K; congruence.
Qed.

(* ---------- the copy of a regular base file into the layer ---------- *)
(* The base file is open through bh (a handle the table does not use) at offset 0; the two trees have the
   shape of the invariant and the bytes of every pair other than the one of this file agree.  Then copyFile
   succeeds and, the base handle closed, the invariant holds — the layer binds the name to a regular file. *)
Theorem cinv_copy sb1 sl tbl phi p bh fb nb :
  TreeShape sb1 sl phi -> TblInv sb1 sl tbl phi ->
  (forall rl rb nl nb', phi rl = Some rb -> rb <> fb -> get_node sl rl = Some nl -> get_node sb1 rb = Some nb' -> ndata nl = ndata nb') ->
  wf_name p = true -> lookup sb1 (normalize_path p) = Some fb -> BaseAt' sb1 bh fb nb 0 -> ndir nb = false ->
  (forall i c, nth_error tbl i = Some c -> ~ In bh (bhs c)) ->
  exists sb2 sl' phi', copy_file m_step m_step sb1 sl p bh = (sb2, sl', None) /\
    CInvP (fst (m_step sb2 (HClose bh))) sl' tbl phi' /\
    (forall rl rb, phi rl = Some rb -> phi' rl = Some rb) /\
    is_file_at sl' (normalize_path p) = true /\
    kind_same sb1 (fst (m_step sb2 (HClose bh))).
Proof.
  intros T B Hdata Hw Hlb Hb Hnd Hfree. set (key := normalize_path p) in *.
  pose proof (ts_wfb _ _ _ T) as Wb. pose proof (ts_wfl _ _ _ T) as Wl.
  assert (Hc : canon key) by (apply canon_normalize; exact Hw).
  destruct Hb as (hb & Hhb & Hfb & Hcb & Hab & Hnb).
  assert (Hr : key <> s_slash) by exact (regular_not_root sb1 key fb nb Wb Hlb Hnb Hnd).
  assert (Hnfp : no_file_prefix sl key = true).
  { apply (nfp_base_layer sb1 sl phi T). exact (existing_nfp sb1 key fb Wb Hlb). }
  assert (Hkind : kind_at sl key <> Some true).
  { intros E. pose proof (layer_kind_base sb1 sl phi T key true E) as Eb. unfold kind_at in Eb. rewrite Hlb, Hnb, Hnd in Eb. discriminate. }
  destruct (copy_file_full sb1 sl p bh fb nb (ex_intro _ hb (conj Hhb (conj Hfb (conj Hcb (conj Hab Hnb))))) Hnd Wl Hw Hr Hnfp Hkind)
    as (sb2 & sl' & fl & nl & Hcf & (Hv & Hhl & Hho) & Hb2 & Wl' & Fl & Dl & Kl & Hl' & Hnl' & Hdl' & Hdat' & _ & Hold & Hch).
  fold key in Hl', Hold, Hch.
  exists sb2, sl'. set (sb3 := fst (m_step sb2 (HClose bh))).
  (* the base *)
  assert (Wb2 : WF sb2) by (unfold fs_view in Hv; inversion Hv; eapply WF_view; [| |exact Wb]; congruence).
  destruct Hb2 as (hb2 & Hhb2 & Hfb2 & Hcb2 & _ & Hnb2).
  destruct (meta_step sb2 (HClose bh) bh hb2 nb eq_refl eq_refl Hhb2) as (Fb3 & Db3 & Ho3 & Hlen3 & Hlk3); [now rewrite Hfb2|].
  fold sb3 in Fb3, Db3, Ho3, Hlen3, Hlk3.
  assert (Wb3 : WF sb3) by (apply WF_step_ord; [exact Wb2 | reflexivity]).
  assert (Fb : Frame Some sb1 sb3).
  { eapply frame_comp_id; [|exact Fb3]. unfold fs_view in Hv. inversion Hv. now apply frame_view. }
  assert (Db : dkeep nobody sb1 sb3).
  { intros r n n' Hn Hn' HX. apply (Db3 r n n'); auto. unfold fs_view in Hv. inversion Hv. unfold get_node in *. congruence. }
  (* the invariant *)
  destruct (TreeShape_step phi sb1 sl sb3 sl' Some T Wb3 Wl' Fb Fl) as [T' Hext].
  { (* bytes of the pairs *)
    intros rl rb nl2 nb9 Hp Hnl2 Hnb9.
    destruct (ts_pair _ _ _ T rl rb Hp) as (nl0 & nb0 & Hnl0 & Hnb0 & _).
    rewrite (Db rb nb0 nb9 Hnb0 Hnb9 (fun H => H)).
    destruct (Nat.eq_dec rb fb) as [->|Hne].
    - pose proof (ts_live _ _ _ T rl fb key Hp Hlb) as Hlk. destruct Hold as [Ho|[Ho _]]; [|congruence].
      assert (rl = fl) by congruence. subst rl. rewrite Hnl' in Hnl2. inversion Hnl2; subst nl2. rewrite Hnb in Hnb0. inversion Hnb0; subst nb0. exact Hdat'.
    - assert (Hrl : rl <> fl).
      { intros ->. destruct Hold as [Ho|[_ Hf]].
        - destruct (ts_key _ _ _ T key fl Ho) as (rb' & Hp' & Hb'). rewrite Hp in Hp'. inversion Hp'; subst rb'. congruence.
        - exact (fresh_not_old sl fl nl0 Hf Hnl0). }
      rewrite (Dl rl nl0 nl2 Hnl0 Hnl2 Hrl). exact (Hdata rl rb nl0 nb0 Hp Hne Hnl0 Hnb0). }
  { (* the fresh bindings of the layer *)
    intros k' rl Hk Hf. destruct (Hch k' rl Hk Hf) as [[-> ->]|(Hbel & n & Hn & Hdn & Hen)].
    - destruct (fr_nodes _ _ _ Fb fb nb Hnb) as (nb3 & Hnb3 & Hd3 & _).
      exists fb, nl, nb3. split; [apply (frame_keep Some sb1 sb3 key fb Fb); exact Hlb|]. split; [exact Hnl'|]. split; [exact Hnb3|].
      split; [congruence|]. rewrite (Db fb nb nb3 Hnb Hnb3 (fun H => H)). exact Hdat'.
    - destruct (anc_live sb1 key fb k' Wb Hlb (g_canon _ _ _ _ Wl' k' rl Hk) Hbel) as (ra & na & Hla & Hna & Hda).
      destruct (fr_nodes _ _ _ Fb ra na Hna) as (na3 & Hna3 & Hd3 & Hk3).
      exists ra, n, na3. split; [apply (frame_keep Some sb1 sb3 k' ra Fb); exact Hla|]. split; [exact Hn|]. split; [exact Hna3|].
      split; [congruence|]. rewrite Hk3 by exact Hda. rewrite (ts_dirs _ _ _ T k' ra na Hla Hna Hda). exact Hen. }
  exists (phi_next phi sl sb3 sl'). split; [exact Hcf|]. split; [split; [exact T'|]|].
  - destruct B as [Bok Bsb Bsl]. split; [|exact Bsb | exact Bsl].
    intros i c Hic. apply (EntOK_other sb1 sl phi sb3 sl'); [exact (Bok i c Hic) | | | exact (frame_kkeep _ _ _ Fl) | exact Hext |].
    + intros x Hx. assert (x <> bh) by (intros ->; exact (Hfree i c Hic Hx)). rewrite Ho3, Hho; auto.
    + intros x Hx. destruct (EntOK_bounds sb1 sl phi c x (Bok i c Hic)) as [_ Hlt]. specialize (Hlt Hx).
      destruct (nth_error (mhandles sl) x) as [hx|] eqn:E; [now apply Kl | apply nth_error_None in E; lia].
    + intros rl rb Hp. destruct (ts_pair _ _ _ T rl rb Hp) as (x & _ & Hx & _). now exists x.
  - split; [exact Hext|]. split; [unfold is_file_at, kind_at; now rewrite Hl', Hnl', Hdl'|].
    destruct (hop_eff sb2 (HClose bh) bh hb2 nb eq_refl Hhb2) as (h' & E & _); [now rewrite Hfb2|]. fold sb3 in E.
    unfold fs_view in Hv. inversion Hv as [[Hv1 Hv2]]. split; [rewrite (he_data _ _ _ _ _ E); exact Hv1|].
    intros r. destruct (get_node sb1 r) as [n|] eqn:Hn.
    + destruct (fr_nodes _ _ _ Fb r n Hn) as (n' & Hn' & Hd' & _). rewrite Hn'. cbn. now rewrite Hd'.
    + destruct (get_node sb3 r) as [n'|] eqn:Hn'; [|reflexivity]. exfalso.
      apply get_some_lt in Hn'. rewrite (he_heap _ _ _ _ _ E), Hv2 in Hn'. unfold get_node in Hn. apply nth_error_None in Hn. lia.
Qed.

(* ---------- cacheStatus over two layers related by the invariant ---------- *)
Lemma step_stat_full s p : WF s ->
  m_step s (Stat p) = (bump s, match lookup s (normalize_path p) with
                               | Some f => match get_node s f with Some n => RInfo (finfo_of n) | None => RPanic end
                               | None => RErr (EW KNotExist)
                               end).
Proof. intros W. rewrite <- (step_stat s p), <- (stat_res_wf s p W). now destruct (m_step s (Stat p)). Qed.

Lemma status_mem dur now sb sl phi p :
  TreeShape sb sl phi ->
  exists sb1 sl1 cs fi, cache_status m_step m_step dur now sb sl p = (sb1, sl1, cs, fi, None) /\ same3 sb sb1 /\ same3 sl sl1 /\
    match cs with
    | CMiss => lookup sl (normalize_path p) = None
    | CLocal => False
    | CHit | CStale => exists rl nl f, lookup sl (normalize_path p) = Some rl /\ get_node sl rl = Some nl /\ fi = Some f /\ fi_dir f = ndir nl
    end.
Proof.
  intros T. unfold cache_status. rewrite (step_stat_full sl p (ts_wfl _ _ _ T)).
  destruct (lookup sl (normalize_path p)) as [rl|] eqn:Hl.
  - destruct (GWF_lookup_node _ _ _ _ _ _ (ts_wfl _ _ _ T) Hl) as (nl & Hnl). rewrite Hnl.
    destruct (ts_key _ _ _ T _ rl Hl) as (rb & Hp & Hb). destruct (ts_pair _ _ _ T rl rb Hp) as (nl' & nb & Hnl' & Hnb & Hk).
    rewrite Hnl in Hnl'. inversion Hnl'; subst nl'.
    destruct (dur =? 0).
    + exists sb, (bump sl), CHit, (Some (finfo_of nl)). split; [reflexivity|]. split; [apply same3_refl|]. split; [apply same3_bump|].
      exists rl, nl, (finfo_of nl). auto.
    + destruct (fi_mtime (finfo_of nl) + dur <? now).
      * rewrite (step_stat_full sb p (ts_wfb _ _ _ T)), Hb, Hnb.
        destruct (fi_mtime (finfo_of nl) <? fi_mtime (finfo_of nb)).
        -- exists (bump sb), (bump sl), CStale, (Some (finfo_of nb)). split; [reflexivity|]. split; [apply same3_bump|]. split; [apply same3_bump|].
           exists rl, nl, (finfo_of nb). split; [reflexivity|]. split; [exact Hnl|]. split; [reflexivity|]. cbn [fi_dir finfo_of]. now symmetry.
        -- exists (bump sb), (bump sl), CHit, (Some (finfo_of nl)). split; [reflexivity|]. split; [apply same3_bump|]. split; [apply same3_bump|].
           exists rl, nl, (finfo_of nl). auto.
      * exists sb, (bump sl), CHit, (Some (finfo_of nl)). split; [reflexivity|]. split; [apply same3_refl|]. split; [apply same3_bump|].
        exists rl, nl, (finfo_of nl). auto.
  - exists sb, (bump sl), CMiss, None. split; [reflexivity|]. split; [apply same3_refl|]. split; [apply same3_bump | reflexivity].
Qed.

(* ---------- the common case: both sides evolve by frames that keep all bytes and all handles ---------- *)
Lemma cinv_frames sb sl tbl phi sb' sl' rho :
  CInvP sb sl tbl phi -> WF sb' -> WF sl' -> Frame rho sb sb' -> Frame rho sl sl' ->
  dkeep nobody sb sb' -> dkeep nobody sl sl' -> hkeep sb sb' -> hkeep sl sl' ->
  (forall k' rl, lookup sl' k' = Some rl -> fresh_in sl rl ->
     exists rb nl nb, lookup sb' k' = Some rb /\ get_node sl' rl = Some nl /\ get_node sb' rb = Some nb /\
                      ndir nl = ndir nb /\ ndata nl = ndata nb) ->
  exists phi', CInvP sb' sl' tbl phi' /\ (forall rl rb, phi rl = Some rb -> phi' rl = Some rb).
Proof.
  intros [T B] Wb Wl Fb Fl Db Dl Kb Kl H5.
  destruct (TreeInv_step phi sb sl sb' sl' rho T Wb Wl Fb Fl (pairs_data_kept phi sb sl sb' sl' T Db Dl) H5) as [T' Hext].
  exists (phi_next phi sl sb' sl'). split; [split; [exact T'|] | exact Hext].
  apply (TblInv_mono sb sl tbl phi); auto; [exact (frame_kkeep _ _ _ Fl) | exact (phi_has_node phi sb sl T)].
Qed.

Lemma no_fresh_of_lookup sl sl' : WF sl -> (forall k, lookup sl' k = lookup sl k) ->
  forall k' rl, lookup sl' k' = Some rl -> fresh_in sl rl -> False.
Proof. intros W Hl k' rl Hk Hf. rewrite Hl in Hk. destruct (WF_bound_ok sl W k' rl Hk) as (x & Hx). exact (fresh_not_old sl rl x Hf Hx). Qed.

(* ---------- CacheOnReadFs.copyToLayer ---------- *)
(* whatever the base holds under the name: nothing (an error, nothing changes), a directory (made in the layer,
   with its missing ancestors), a regular file (copied) *)
Theorem cinv_cache_copy sb sl tbl phi p :
  CInvP sb sl tbl phi -> wf_name p = true ->
  exists sb' sl' oe phi', cache_copy_to_layer m_step m_step sb sl p = (sb', sl', oe) /\
    CInvP sb' sl' tbl phi' /\ (forall rl rb, phi rl = Some rb -> phi' rl = Some rb) /\
    kind_same sb sb' /\
    (oe = None -> lookup sb (normalize_path p) <> None /\ lookup sl' (normalize_path p) <> None) /\
    (lookup sb (normalize_path p) <> None -> oe = None).
Proof.
  intros [T B] Hw. set (key := normalize_path p) in *.
  pose proof (ti_wfb _ _ _ T) as Wb. pose proof (ti_wfl _ _ _ T) as Wl.
  assert (Hc : canon key) by (apply canon_normalize; exact Hw).
  unfold cache_copy_to_layer. rewrite cache_copy_dir_mkdir_is_1. cbn [Z.eqb Pos.eqb].
  rewrite (step_stat_full sb p Wb). fold key.
  destruct (lookup sb key) as [fb|] eqn:Hlb.
  - destruct (GWF_lookup_node _ _ _ _ _ _ Wb Hlb) as (nb & Hnb). rewrite Hnb. cbn [fi_dir finfo_of].
    destruct (ndir nb) eqn:Hnd.
    + (* a directory *)
      assert (Hpre : prefixes_dirs sl key = true).
      { apply (prefixes_base_layer sb sl phi (TreeInv_shape _ _ _ T)). apply (dir_prefixes_dirs sb key Wb Hc).
        unfold is_dir_at, kind_at. now rewrite Hlb, Hnb, Hnd. }
      set (pm := Z.land (fi_mode (finfo_of nb)) 511).
      destruct (mkdirall_step sl p pm Wl Hw Hpre) as (Hres & Wl' & Fl & Dl & Hhl & Hdl & Hch). fold key in Hdl, Hch.
      destruct (m_step sl (MkdirAll p pm)) as [sl' r]. cbn [fst snd] in *. subst r.
      destruct (cinv_frames sb sl tbl phi (bump sb) sl' Some (conj T B) (WF_bump sb Wb) Wl' (frame_bump sb) Fl) as (phi' & C' & Hext).
      { now apply dkeep_view. } { exact Dl. } { intros i h H; exact H. } { intros i h H. now rewrite Hhl. }
      { intros k' rl Hk Hf. destruct (Hch k' rl Hk Hf) as (Hwhere & n & Hn & Hdn & Hen).
        assert (Hbk : exists ra na, lookup sb k' = Some ra /\ get_node sb ra = Some na /\ ndir na = true).
        { destruct Hwhere as [->|Hbel]; [now exists fb, nb|]. exact (anc_live sb key fb k' Wb Hlb (g_canon _ _ _ _ Wl' k' rl Hk) Hbel). }
        destruct Hbk as (ra & na & Hla & Hna & Hda). exists ra, n, na. repeat split; auto; try congruence.
        now rewrite (ti_dirs _ _ _ T k' ra na Hla Hna Hda). }
      exists (bump sb), sl', None, phi'. split; [reflexivity|]. split; [exact C'|]. split; [exact Hext|].
      split; [apply kind_same_of_same2; now split|]. split.
      * intros _. split; [congruence|]. apply is_dir_at_true in Hdl as (r & n & Hl & _). congruence.
      * reflexivity.
    + (* a regular file: copied *)
      unfold copy_to_layer, copy_to_layer_with. rewrite (open_step (bump sb) p). change (lookup (bump sb) (normalize_path p)) with (lookup sb key). rewrite Hlb.
      set (sb1 := bump (fst (alloc_handle (bump sb) (mkH fb 0 0 false true)))). set (bh := length (mhandles (bump sb))).
      assert (S2 : same2 sb sb1) by (split; reflexivity).
      assert (Kb1 : hkeep sb sb1) by (intros i h H; unfold sb1, bump, alloc_handle; cbn [fst mhandles]; rewrite nth_error_app1; [exact H | now apply nth_error_lt in H]).
      assert (T1 : TreeShape sb1 sl phi) by (apply (TreeShape_view2 sb sl phi sb1 sl S2 (same2_refl sl)); now apply TreeInv_shape).
      assert (B1 : TblInv sb1 sl tbl phi).
      { apply (TblInv_mono sb sl tbl phi sb1 sl phi B Kb1); [intros i h H; exact H | intros r n Hn; now exists n | auto | exact (phi_has_node phi sb sl T)]. }
      destruct (cinv_copy sb1 sl tbl phi p bh fb nb T1 B1) as (sb2 & sl' & phi' & Hcf & C' & Hext & Hfile & Hks).
      { intros rl rb nl nb' Hp _ Hnl Hnb'. destruct (ti_pair _ _ _ T rl rb Hp) as (x & y & Hx & Hy & _ & Hxy).
        rewrite (same2_node _ _ _ S2) in Hnb'. congruence. }
      { exact Hw. } { fold key. rewrite (same2_lookup _ _ _ S2). exact Hlb. }
      { exists (mkH fb 0 0 false true). repeat split; [unfold sb1, bh; apply (hnew_alloc (bump sb)) | rewrite (same2_node _ _ _ S2); exact Hnb]. }
      { exact Hnd. }
      { intros i c Hic Hin. destruct B as [Bok _ _]. destruct (EntOK_bounds sb sl phi c bh (Bok i c Hic)) as [Hlt _]. specialize (Hlt Hin). unfold bh in Hlt. cbn [bump mhandles] in Hlt. lia. }
      rewrite Hcf. exists (fst (m_step sb2 (HClose bh))), sl', None, phi'. split; [reflexivity|]. split; [exact C'|]. split; [exact Hext|].
      split; [eapply kind_same_trans; [apply (kind_same_of_same2 _ _ S2) | exact Hks]|].
      split.
      * intros _. split; [congruence|]. fold key in Hfile. unfold is_file_at, kind_at in Hfile. destruct (lookup sl' key); [discriminate | discriminate Hfile].
      * reflexivity.
  - (* the base lacks the name: Open fails *)
    unfold copy_to_layer, copy_to_layer_with. rewrite (open_step (bump sb) p). change (lookup (bump sb) (normalize_path p)) with (lookup sb key). rewrite Hlb.
    cbn [res_err]. exists (bump (bump sb)), sl, (Some (EW KNotExist)), phi. split; [reflexivity|].
    split; [apply (CInvP_view sb sl tbl phi); [repeat split | apply same3_refl | exact (conj T B)]|].
    split; [auto|]. split; [apply kind_same_of_same2; now split|].
    split; [discriminate | congruence].
Qed.
