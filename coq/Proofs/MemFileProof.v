(* Proofs/MemFileProof.v — C02: the Go-level model of mem.File (Model/MemFile.v) refines the flat
   byte-array specification (Model/ByteFile.v) for ALL contents, handle sets and op sequences. *)
From AF Require Import Lib.Bytes Lib.Path Lib.Ops Model.MemFile Model.ByteFile Proofs.BytesLemmas.
Local Open Scope Z_scope.

(* ------------------------------------------------------------------------------------------ *)
(* well-formed operations: a Go slice (the read buffer) cannot have a negative length          *)
Definition wf_op (o : op) : bool :=
  match o with
  | HRead _ n => 0 <=? n
  | HReadAt _ n _ => 0 <=? n
  | _ => true
  end.

(* the handle slot an operation goes through *)
Definition op_handle (o : op) : option nat :=
  match o with
  | HRead i _ | HReadAt i _ _ | HWrite i _ | HWriteAt i _ _ | HWriteString i _
  | HSeek i _ _ | HTruncate i _ | HClose i | HReaddir i _ | HReaddirnames i _
  | HStat i | HName i | HSync i => Some i
  | _ => None
  end.

(* ------------------------------------------------------------------------------------------ *)
(* generic list facts                                                                          *)

Lemma zlen_nonneg {A} (l : list A) : 0 <= zlen l.
Proof. unfold zlen. lia. Qed.

Lemma list_set_same {A} (l : list A) i a : nth_error l i = Some a -> list_set i a l = l.
Proof.
  revert i; induction l as [|x l IH]; intros [|i] Hn; cbn in *; try discriminate.
  - now inversion Hn.
  - now rewrite IH.
Qed.

Lemma list_set_length {A} (l : list A) i a : length (list_set i a l) = length l.
Proof. revert i; induction l as [|x l IH]; intros [|i]; cbn; auto. Qed.

Lemma F2_nth {A B} (R : A -> B -> Prop) l1 l2 i a :
  Forall2 R l1 l2 -> nth_error l1 i = Some a -> exists b, nth_error l2 i = Some b /\ R a b.
Proof.
  intros HF; revert i; induction HF as [|x y l1 l2 Hxy HF IH]; intros [|i] Hn; cbn in *; try discriminate.
  - inversion Hn; subst. now exists y.
  - now apply IH.
Qed.

Lemma F2_nth_none {A B} (R : A -> B -> Prop) l1 l2 i :
  Forall2 R l1 l2 -> nth_error l1 i = None -> nth_error l2 i = None.
Proof.
  intros HF; revert i; induction HF as [|x y l1 l2 Hxy HF IH]; intros [|i] Hn; cbn in *; try discriminate; auto.
Qed.

Lemma F2_set {A B} (R : A -> B -> Prop) l1 l2 i a b :
  Forall2 R l1 l2 -> R a b -> Forall2 R (list_set i a l1) (list_set i b l2).
Proof.
  intros HF Hab; revert i; induction HF as [|x y l1 l2 Hxy HF IH]; intros [|i]; cbn; auto.
Qed.

Lemma firstn_firstn_length {A} (l : list A) n : firstn (length (firstn n l)) l = firstn n l.
Proof.
  rewrite firstn_length. destruct (Nat.le_gt_cases n (length l)) as [Hle|Hgt].
  - now rewrite Nat.min_l.
  - rewrite Nat.min_r by lia. now rewrite firstn_all, firstn_all2 by lia.
Qed.

Lemma nth_zeros n j d : (j < n)%nat -> nth j (zeros n) d = 0%N.
Proof.
  intros Hj. unfold zeros. apply (repeat_spec n 0%N). apply nth_In. now rewrite repeat_length.
Qed.

Lemma nth_firstn_lt {A} (l : list A) n j d : (j < n)%nat -> nth j (firstn n l) d = nth j l d.
Proof.
  revert n j; induction l as [|x l IH]; intros [|n] [|j] Hj; cbn; try lia; auto.
  apply IH. lia.
Qed.

(* ------------------------------------------------------------------------------------------ *)
(* the specification functions, by themselves                                                  *)

Lemma pread_length data off n : length (pread data off n) = Nat.min n (length data - off).
Proof. unfold pread. now rewrite firstn_length, skipn_length. Qed.

Lemma pread_nil data off n : (length data <= off)%nat -> pread data off n = [].
Proof. intros H. unfold pread. rewrite skipn_all2 by lia. apply firstn_nil. Qed.

(* pwrite on a non-empty payload, written out; a zero-length write is the identity *)
Definition pwrite_raw (data : bytes) (off : nat) (b : bytes) : bytes :=
  firstn off (data ++ zeros (off - length data)) ++ b ++ skipn (off + length b) data.

Lemma pwrite_nil data off : pwrite data off [] = data.
Proof. reflexivity. Qed.

Lemma pwrite_nonempty data off b : b <> [] -> pwrite data off b = pwrite_raw data off b.
Proof. intros Hb. destruct b; [congruence | reflexivity]. Qed.

(* within the file (off <= length) the written-out form is also the identity on [] *)
Lemma pwrite_raw_nil_within data off : (off <= length data)%nat -> pwrite_raw data off [] = data.
Proof.
  intros H. unfold pwrite_raw. replace (off - length data)%nat with 0%nat by lia.
  cbn [zeros repeat length app]. rewrite app_nil_r, Nat.add_0_r. apply firstn_skipn.
Qed.

Lemma pwrite_raw_length data off b :
  length (pwrite_raw data off b) = Nat.max (length data) (off + length b).
Proof.
  unfold pwrite_raw. rewrite !app_length, firstn_length, skipn_length, app_length, zeros_length. lia.
Qed.

Lemma pwrite_length data off b : b <> [] ->
  length (pwrite data off b) = Nat.max (length data) (off + length b).
Proof. intros Hb. rewrite pwrite_nonempty by assumption. apply pwrite_raw_length. Qed.

(* both cases at once *)
Lemma pwrite_length_gen data off b :
  length (pwrite data off b) =
  match b with [] => length data | _ => Nat.max (length data) (off + length b) end.
Proof. destruct b as [|x b]; [reflexivity|]. apply pwrite_length. discriminate. Qed.

(* a write never shrinks the file *)
Lemma pwrite_length_ge data off b : (length data <= length (pwrite data off b))%nat.
Proof. rewrite pwrite_length_gen. destruct b; lia. Qed.

Lemma pwrite_raw_before data off b :
  firstn (Nat.min off (length data)) (pwrite_raw data off b) = firstn (Nat.min off (length data)) data.
Proof.
  unfold pwrite_raw. rewrite firstn_app, firstn_firstn.
  rewrite firstn_length, app_length, zeros_length.
  replace (Nat.min off (length data) - Nat.min off (length data + (off - length data)))%nat with 0%nat by lia.
  cbn [firstn]. rewrite app_nil_r.
  replace (Nat.min (Nat.min off (length data)) off) with (Nat.min off (length data)) by lia.
  rewrite firstn_app.
  replace (Nat.min off (length data) - length data)%nat with 0%nat by lia.
  cbn [firstn]. now rewrite app_nil_r.
Qed.

(* holds for every payload, the empty one included *)
Lemma pwrite_before data off b :
  firstn (Nat.min off (length data)) (pwrite data off b) = firstn (Nat.min off (length data)) data.
Proof. destruct b as [|x b]; [reflexivity|]. rewrite pwrite_nonempty by discriminate. apply pwrite_raw_before. Qed.

Lemma pwrite_prefix_len (data : bytes) off :
  length (firstn off (data ++ zeros (off - length data))) = off.
Proof. rewrite firstn_length, app_length, zeros_length. lia. Qed.

(* holds for every payload: for [] both sides are [] *)
Lemma pwrite_at data off b : pread (pwrite data off b) off (length b) = b.
Proof.
  destruct b as [|x b]; [reflexivity|]. rewrite pwrite_nonempty by discriminate.
  unfold pread, pwrite_raw.
  rewrite <- (pwrite_prefix_len data off) at 1.
  rewrite skipn_app_exact. apply firstn_app_exact.
Qed.

(* holds for every payload *)
Lemma pwrite_after data off b :
  skipn (off + length b) (pwrite data off b) = skipn (off + length b) data.
Proof.
  destruct b as [|x b]; [reflexivity|]. rewrite pwrite_nonempty by discriminate.
  unfold pwrite_raw. rewrite app_assoc.
  set (bb := x :: b).
  set (pre := firstn off (data ++ zeros (off - length data)) ++ bb).
  assert (Hl : length pre = (off + length bb)%nat).
  { unfold pre. now rewrite app_length, pwrite_prefix_len. }
  rewrite <- Hl at 1. apply skipn_app_exact.
Qed.

(* only a write that writes something fills the gap (a zero-length write past EOF leaves the
   file as it is: there is no position j with length data <= j in it) *)
Lemma pwrite_gap_zero data off b j d : b <> [] ->
  (length data <= j < off)%nat -> nth j (pwrite data off b) d = 0%N.
Proof.
  intros Hb Hj. rewrite pwrite_nonempty by assumption. unfold pwrite_raw.
  rewrite app_nth1 by (rewrite pwrite_prefix_len; lia).
  rewrite nth_firstn_lt by lia.
  rewrite app_nth2 by lia. apply nth_zeros. lia.
Qed.

Lemma ptrunc_length data n : length (ptrunc data n) = n.
Proof. unfold ptrunc. rewrite firstn_length, app_length, zeros_length. lia. Qed.

Lemma ptrunc_prefix data n :
  firstn (Nat.min n (length data)) (ptrunc data n) = firstn (Nat.min n (length data)) data.
Proof.
  unfold ptrunc. rewrite firstn_firstn.
  replace (Nat.min (Nat.min n (length data)) n) with (Nat.min n (length data)) by lia.
  rewrite firstn_app.
  replace (Nat.min n (length data) - length data)%nat with 0%nat by lia.
  cbn [firstn]. now rewrite app_nil_r.
Qed.

Lemma ptrunc_ext_zero data n j d :
  (length data <= j < n)%nat -> nth j (ptrunc data n) d = 0%N.
Proof.
  intros Hj. unfold ptrunc. rewrite nth_firstn_lt by lia.
  rewrite app_nth2 by lia. apply nth_zeros. lia.
Qed.

Lemma ptrunc_shrink data n : (n <= length data)%nat -> ptrunc data n = firstn n data.
Proof.
  intros H. unfold ptrunc. replace (n - length data)%nat with 0%nat by lia.
  cbn [zeros repeat]. now rewrite app_nil_r.
Qed.

Lemma ptrunc_grow data n : (length data <= n)%nat -> ptrunc data n = data ++ zeros (n - length data).
Proof.
  intros H. unfold ptrunc. apply firstn_all2. rewrite app_length, zeros_length. lia.
Qed.

(* ------------------------------------------------------------------------------------------ *)
(* the Go slice arithmetic of mem/file.go equals the specification functions                   *)

Lemma slice_pread data a k : 0 <= a -> 0 <= k ->
  slice data a (a + k) = pread data (Z.to_nat a) (Z.to_nat k).
Proof. intros Ha Hk. unfold slice, pread. do 2 f_equal. lia. Qed.

(* both branches of File.Write, for any payload: the written-out form *)
Lemma go_write_raw data b cur : 0 <= cur -> go_write data b cur = pwrite_raw data (Z.to_nat cur) b.
Proof.
  intros Hcur. unfold go_write, pwrite_raw, zlen.
  assert (Htail : (if Z.of_nat (length b) + cur <? Z.of_nat (length data)
                   then skipn (Z.to_nat (Z.of_nat (length b) + cur)) data else [])
                  = skipn (Z.to_nat cur + length b) data).
  { destruct (Z.of_nat (length b) + cur <? Z.of_nat (length data)) eqn:E.
    - f_equal. lia.
    - apply Z.ltb_ge in E. symmetry. apply skipn_all2. lia. }
  rewrite Htail.
  destruct (0 <? cur - Z.of_nat (length data)) eqn:E.
  - apply Z.ltb_lt in E.
    replace (Z.to_nat (cur - Z.of_nat (length data))) with (Z.to_nat cur - length data)%nat by lia.
    rewrite firstn_all2 by (rewrite app_length, zeros_length; lia).
    now rewrite <- !app_assoc.
  - apply Z.ltb_ge in E.
    replace (Z.to_nat cur - length data)%nat with 0%nat by lia.
    cbn [zeros repeat]. rewrite app_nil_r. now rewrite <- app_assoc.
Qed.

(* File.Write only reaches the slice arithmetic with a non-empty payload, and there it is pwrite *)
Lemma go_write_pwrite data b cur : 0 <= cur -> b <> [] ->
  go_write data b cur = pwrite data (Z.to_nat cur) b.
Proof. intros Hcur Hb. rewrite pwrite_nonempty by assumption. now apply go_write_raw. Qed.

(* on an empty payload the slice arithmetic agrees with pwrite exactly when cur is within the file;
   past EOF it would zero-extend (which is why f_write returns before reaching it) *)
Lemma go_write_nil_within data cur : 0 <= cur <= zlen data ->
  go_write data [] cur = pwrite data (Z.to_nat cur) [].
Proof.
  intros H. rewrite go_write_raw by lia. rewrite pwrite_nil. apply pwrite_raw_nil_within.
  unfold zlen in H. lia.
Qed.

Lemma go_write_nil_beyond data cur : zlen data < cur ->
  go_write data [] cur = data ++ zeros (Z.to_nat cur - length data) /\
  go_write data [] cur <> pwrite data (Z.to_nat cur) [].
Proof.
  intros H. unfold zlen in H.
  assert (Hg : go_write data [] cur = data ++ zeros (Z.to_nat cur - length data)).
  { rewrite go_write_raw by lia. unfold pwrite_raw.
    rewrite firstn_all2 by (rewrite app_length, zeros_length; lia).
    rewrite skipn_all2 by (cbn [length]; lia). now rewrite !app_nil_r. }
  split; [exact Hg|]. rewrite Hg, pwrite_nil. intros Heq.
  apply (f_equal (@length _)) in Heq. rewrite app_length, zeros_length in Heq. lia.
Qed.

Lemma zlen_zero_iff {A} (l : list A) : zlen l =? 0 = true <-> l = [].
Proof.
  unfold zlen. rewrite Z.eqb_eq. destruct l; cbn [length]; split; intros H; try reflexivity; try discriminate; lia.
Qed.

(* the content after a step that reports "unchanged" as None *)
Definition dflt (d : option bytes) (data : bytes) : bytes :=
  match d with Some d' => d' | None => data end.

Lemma upd_d_dflt s d : upd_d s d = mkFS (dflt d (fdata s)) (fhandles s).
Proof. destruct d; [reflexivity|]. now destruct s. Qed.

(* both branches of File.Truncate *)
Lemma go_truncate_ptrunc data size : 0 <= size ->
  (if zlen data <? size then data ++ zeros (Z.to_nat (size - zlen data))
   else firstn (Z.to_nat size) data) = ptrunc data (Z.to_nat size).
Proof.
  intros Hs. unfold zlen. destruct (Z.of_nat (length data) <? size) eqn:E.
  - apply Z.ltb_lt in E. rewrite ptrunc_grow by lia. do 2 f_equal. lia.
  - apply Z.ltb_ge in E. now rewrite ptrunc_shrink by lia.
Qed.

Lemma set_at_same h : set_at h (hat h) = h.
Proof. now destruct h. Qed.

Lemma set_at_set_at h a c : set_at (set_at h a) c = set_at h c.
Proof. now destruct h. Qed.

(* the error File.Read reports next to the bytes *)
Definition read_err (data : bytes) (at_ n : Z) : option err :=
  if (0 <? n) && (at_ =? zlen data) then Some (E KEOF)
  else if zlen data <? at_ then Some (E KUnexpectedEOF)
  else None.

(* closed form of File.Read on an open handle with a non-negative offset *)
Lemma f_read_char data h n :
  hclosed h = false -> 0 <= hat h -> 0 <= n ->
  let p := pread data (Z.to_nat (hat h)) (Z.to_nat n) in
  f_read data h n = (set_at h (hat h + zlen p), RData p (read_err data (hat h) n)).
Proof.
  intros Hcl Hat Hn p. unfold f_read, read_err. rewrite Hcl.
  destruct ((0 <? n) && (hat h =? zlen data)) eqn:E1.
  - apply andb_true_iff in E1 as [_ E2]. apply Z.eqb_eq in E2.
    assert (Hp : p = []) by (apply pread_nil; unfold zlen in E2; lia).
    rewrite Hp. cbn [zlen length Z.of_nat]. now rewrite Z.add_0_r, set_at_same.
  - destruct (zlen data <? hat h) eqn:E2.
    + apply Z.ltb_lt in E2.
      assert (Hp : p = []) by (apply pread_nil; unfold zlen in E2; lia).
      rewrite Hp. cbn [zlen length Z.of_nat]. now rewrite Z.add_0_r, set_at_same.
    + apply Z.ltb_ge in E2.
      destruct (hat h <? 0) eqn:E3; [apply Z.ltb_lt in E3; lia|].
      assert (Hk : (if n <=? zlen data - hat h then n else zlen data - hat h) = zlen p).
      { unfold zlen in *. unfold p. rewrite pread_length.
        destruct (n <=? Z.of_nat (length data) - hat h) eqn:E4;
          [apply Z.leb_le in E4 | apply Z.leb_gt in E4]; lia. }
      rewrite Hk. do 2 f_equal.
      rewrite slice_pread by (auto using zlen_nonneg).
      unfold zlen. rewrite Nat2Z.id. unfold p, pread. apply firstn_firstn_length.
Qed.

Lemma read_err_nil data at_ n : 0 <= at_ -> read_err data at_ n <> None ->
  pread data (Z.to_nat at_) (Z.to_nat n) = [] /\
  (read_err data at_ n = Some (E KEOF) \/ read_err data at_ n = Some (E KUnexpectedEOF)).
Proof.
  intros Hat. unfold read_err.
  destruct ((0 <? n) && (at_ =? zlen data)) eqn:E1.
  - apply andb_true_iff in E1 as [_ E2]. apply Z.eqb_eq in E2. intros _. split; [|now left].
    apply pread_nil. unfold zlen in E2. lia.
  - destruct (zlen data <? at_) eqn:E2; [|congruence].
    apply Z.ltb_lt in E2. intros _. split; [|now right]. apply pread_nil. unfold zlen in E2. lia.
Qed.

Lemma read_err_none data at_ n : 0 <= at_ -> 0 <= n -> read_err data at_ n = None ->
  (0 <? n) && Nat.eqb (length (pread data (Z.to_nat at_) (Z.to_nat n))) 0 = false.
Proof.
  intros Hat Hn. unfold read_err.
  destruct ((0 <? n) && (at_ =? zlen data)) eqn:E1; [discriminate|].
  destruct (zlen data <? at_) eqn:E2; [discriminate|]. intros _.
  apply Z.ltb_ge in E2. rewrite pread_length.
  destruct (0 <? n) eqn:E3; [|reflexivity]. cbn [andb] in *.
  apply Z.ltb_lt in E3. apply Z.eqb_neq in E1. apply Nat.eqb_neq. unfold zlen in *. lia.
Qed.

(* ------------------------------------------------------------------------------------------ *)
(* the simulation relation and one lemma per method                                            *)

Definition hrel (h : hnd) (b : bh) : Prop :=
  hat h = Z.of_nat (bpos b) /\ hclosed h = bclosed b /\ hro h = bro b.

Definition Rel (s : fstate) (t : bstate) : Prop :=
  fdata s = bdata t /\ Forall2 hrel (fhandles s) (bhs t).

Lemma sim_read data h b n i : hrel h b -> 0 <= n ->
  snd (f_read data h n) <> RPanic /\
  if bclosed b
  then fst (f_read data h n) = h /\ proj (HRead i n) (snd (f_read data h n)) = PErr C_CLOSED
  else let p := pread data (bpos b) (Z.to_nat n) in
       hrel (fst (f_read data h n)) (mkBH (bpos b + length p)%nat false (bro b)) /\
       proj (HRead i n) (snd (f_read data h n)) = PBytes p ((0 <? n) && Nat.eqb (length p) 0).
Proof.
  intros [Ha [Hc Hr]] Hn. destruct (bclosed b) eqn:Ecl.
  - unfold f_read. rewrite Hc. cbn. repeat split; discriminate.
  - rewrite f_read_char by (auto; lia). cbn [fst snd]. rewrite Ha, Nat2Z.id.
    split; [discriminate|]. cbn zeta. split.
    + unfold hrel. destruct h; cbn in *. unfold zlen. repeat split; auto; lia.
    + destruct (read_err data (Z.of_nat (bpos b)) n) as [e|] eqn:Ee.
      * destruct (read_err_nil data (Z.of_nat (bpos b)) n) as [Hp He]; [lia | congruence |].
        rewrite Nat2Z.id in Hp. rewrite Hp. cbn [length Nat.eqb]. rewrite andb_true_r.
        rewrite Ee in He. destruct He as [He|He]; inversion He; subst e; reflexivity.
      * pose proof (read_err_none data (Z.of_nat (bpos b)) n) as Hnone.
        rewrite Nat2Z.id in Hnone. rewrite Hnone by (auto; lia). reflexivity.
Qed.

Lemma sim_readat data h b n off i : hrel h b -> 0 <= n ->
  snd (f_readat data h n off) <> RPanic /\
  fst (f_readat data h n off) = h /\
  proj (HReadAt i n off) (snd (f_readat data h n off)) =
    if off <? 0 then PErr C_INVALID
    else if bclosed b then PErr C_CLOSED
    else let p := pread data (Z.to_nat off) (Z.to_nat n) in PBytes p (zlen p <? n).
Proof.
  intros [Ha [Hc Hr]] Hn. unfold f_readat. destruct (off <? 0) eqn:Eo.
  - cbn. repeat split; discriminate.
  - apply Z.ltb_ge in Eo. destruct (bclosed b) eqn:Ecl.
    + unfold f_read. cbn [hclosed set_at]. rewrite Hc. cbn [fst snd].
      rewrite set_at_set_at, set_at_same. cbn. repeat split; discriminate.
    + pose proof (f_read_char data (set_at h off) n) as Hrd. cbn [hclosed hat set_at] in Hrd.
      rewrite Hrd by (auto; congruence). clear Hrd.
      set (p := pread data (Z.to_nat off) (Z.to_nat n)).
      rewrite !set_at_set_at, set_at_same.
      destruct (read_err data off n) as [e|] eqn:Ee.
      * cbn [fst snd]. destruct (read_err_nil data off n) as [Hp He]; [lia | congruence |].
        fold p in Hp. rewrite Ee in He.
        split; [discriminate|]. split; [reflexivity|].
        rewrite Hp. destruct He as [He|He]; inversion He; subst e; reflexivity.
      * destruct (zlen p <? n) eqn:El; cbn [fst snd]; (split; [discriminate|]); (split; [reflexivity|]).
        -- cbn [proj is_eof ek E]. apply Z.ltb_lt in El. pose proof (zlen_nonneg p).
           replace (0 <? n) with true by (symmetry; apply Z.ltb_lt; lia). reflexivity.
        -- reflexivity.
Qed.

Lemma sim_write data h b bs o : hrel h b -> 0 <= hat h ->
  let x := f_write data h bs in
  snd x <> RPanic /\
  if bclosed b then fst (fst x) = None /\ snd (fst x) = h /\ proj o (snd x) = PErr C_CLOSED
  else if bro b then fst (fst x) = None /\ snd (fst x) = h /\ proj o (snd x) = PErr C_READONLY
  else dflt (fst (fst x)) data = pwrite data (Z.to_nat (hat h)) bs /\
       snd (fst x) = set_at h (hat h + zlen bs) /\
       proj o (snd x) = PCount (length bs).
Proof.
  intros [Ha [Hc Hr]] Hat. unfold f_write. rewrite Hc, Hr.
  destruct (bclosed b); [cbn; repeat split; discriminate|].
  destruct (bro b); [cbn; repeat split; discriminate|].
  destruct (zlen bs =? 0) eqn:Ez.
  - (* n == 0: content and handle stay, as in the specification *)
    apply zlen_zero_iff in Ez. subst bs. cbn [fst snd dflt zlen length Z.of_nat].
    rewrite Z.add_0_r, set_at_same, pwrite_nil. repeat split. discriminate.
  - assert (Hne : bs <> []) by (intros ->; discriminate Ez).
    destruct (hat h <? 0) eqn:E; [apply Z.ltb_lt in E; lia|].
    cbn [fst snd dflt]. split; [discriminate|]. rewrite go_write_pwrite by assumption.
    repeat split. cbn [proj]. unfold zlen. now rewrite Nat2Z.id.
Qed.

Lemma sim_writeat data h b bs off o : hrel h b ->
  let x := f_writeat data h bs off in
  snd x <> RPanic /\ snd (fst x) = h /\
  if off <? 0 then fst (fst x) = None /\ proj o (snd x) = PErr C_INVALID
  else if bclosed b then fst (fst x) = None /\ proj o (snd x) = PErr C_CLOSED
  else if bro b then fst (fst x) = None /\ proj o (snd x) = PErr C_READONLY
  else dflt (fst (fst x)) data = pwrite data (Z.to_nat off) bs /\ proj o (snd x) = PCount (length bs).
Proof.
  intros [Ha [Hc Hr]]. unfold f_writeat. destruct (off <? 0) eqn:Eo.
  - cbn. repeat split; discriminate.
  - apply Z.ltb_ge in Eo.
    assert (Hrel : hrel (set_at h off) (mkBH (Z.to_nat off) (bclosed b) (bro b))).
    { unfold hrel. cbn. repeat split; auto; lia. }
    pose proof (sim_write data (set_at h off) _ bs o Hrel) as Hw.
    cbn [hat set_at bclosed bro] in Hw. specialize (Hw Eo). cbn zeta in Hw.
    destruct (f_write data (set_at h off) bs) as [[d h1] r]. cbn [fst snd] in *.
    destruct Hw as [Hnp Hw]. split; [exact Hnp|].
    destruct (bclosed b); [destruct Hw as [-> [-> Hp]]; rewrite set_at_set_at, set_at_same; auto|].
    destruct (bro b); [destruct Hw as [-> [-> Hp]]; rewrite !set_at_set_at, set_at_same; auto|].
    destruct Hw as [Hd [-> Hp]]. rewrite !set_at_set_at, set_at_same. auto.
Qed.

Lemma sim_seek data h b off wh o : hrel h b ->
  let x := f_seek data h off wh in
  snd x <> RPanic /\
  if bclosed b then fst x = h /\ proj o (snd x) = PErr C_CLOSED
  else
    let target := if wh =? 0 then off else if wh =? 1 then Z.of_nat (bpos b) + off
                  else if wh =? 2 then zlen data + off else Z.of_nat (bpos b) in
    if target <? 0 then fst x = h /\ proj o (snd x) = PErr C_INVALID
    else hrel (fst x) (mkBH (Z.to_nat target) false (bro b)) /\ proj o (snd x) = PPos (Z.to_nat target).
Proof.
  intros [Ha [Hc Hr]]. unfold f_seek. rewrite Hc, Ha.
  destruct (bclosed b); [cbn; repeat split; discriminate|]. cbn zeta.
  set (target := if wh =? 0 then off else if wh =? 1 then Z.of_nat (bpos b) + off
                  else if wh =? 2 then zlen data + off else Z.of_nat (bpos b)).
  destruct (target <? 0) eqn:Et; [cbn; repeat split; discriminate|].
  apply Z.ltb_ge in Et. cbn [fst snd]. split; [discriminate|]. split; [|reflexivity].
  unfold hrel. destruct h; cbn in *. repeat split; auto; lia.
Qed.

Lemma sim_truncate data h b size o : hrel h b ->
  let x := f_truncate data h size in
  snd x <> RPanic /\
  if bclosed b then fst x = None /\ proj o (snd x) = PErr C_CLOSED
  else if bro b then fst x = None /\ proj o (snd x) = PErr C_READONLY
  else if size <? 0 then fst x = None /\ proj o (snd x) = PErr C_INVALID
  else fst x = Some (ptrunc data (Z.to_nat size)) /\ proj o (snd x) = POk.
Proof.
  intros [Ha [Hc Hr]]. unfold f_truncate. rewrite Hc, Hr.
  destruct (bclosed b); [cbn; repeat split; discriminate|].
  destruct (bro b); [cbn; repeat split; discriminate|].
  destruct (size <? 0) eqn:Es; [cbn; repeat split; discriminate|].
  apply Z.ltb_ge in Es. rewrite <- go_truncate_ptrunc by assumption.
  destruct (zlen data <? size); cbn; repeat split; discriminate.
Qed.

(* ------------------------------------------------------------------------------------------ *)
(* one step of the two machines                                                                *)

Lemma Rel_same_h d hs bs i h b :
  Forall2 hrel hs bs -> nth_error bs i = Some b -> hrel h b ->
  Rel (mkFS d (list_set i h hs)) (mkBS d bs).
Proof.
  intros HF Eb Hh. split; [reflexivity|]. cbn [fhandles bhs].
  rewrite <- (list_set_same bs i b Eb). now apply F2_set.
Qed.

Lemma step_sim s t o : Rel s t -> wf_op o = true ->
  Rel (fst (mf_step s o)) (fst (bf_step t o)) /\
  proj o (snd (mf_step s o)) = snd (bf_step t o) /\
  snd (mf_step s o) <> RPanic.
Proof.
  destruct s as [d hs], t as [d' bs]. intros [Hd HF] Hwf. cbn [fdata bdata fhandles bhs] in *. subst d'.
  assert (Hsame : Rel (mkFS d hs) (mkBS d bs)) by (split; auto).
  destruct o as [p|p perm|p perm|p|p flag perm|p|p|p q|p|p m|p u g|p tm
                 |i n|i n off|i bb|i bb off|i bb|i off wh|i n|i|i n|i n|i|i|i];
    try (cbn; repeat split; auto; discriminate);
    unfold mf_step, bf_step; cbn [fdata bdata fhandles bhs];
    (destruct (nth_error hs i) as [h|] eqn:Eh;
     [destruct (F2_nth _ _ _ _ _ HF Eh) as [b [Eb Hhb]]; rewrite Eb
     |rewrite (F2_nth_none _ _ _ _ HF Eh); cbn; repeat split; auto; discriminate]).
  - (* Read *)
    cbn [wf_op] in Hwf. apply Z.leb_le in Hwf.
    destruct (sim_read d h b n i Hhb Hwf) as [Hnp Hs].
    destruct (f_read d h n) as [h' r]. cbn [fst snd] in *.
    split; [|split; [|exact Hnp]].
    + destruct (bclosed b); cbn [fst].
      * destruct Hs as [-> _]. unfold upd_h. cbn [fdata fhandles]. now apply Rel_same_h with (b := b).
      * destruct Hs as [Hh' _]. split; [reflexivity|]. cbn [fhandles bhs upd_h]. now apply F2_set.
    + destruct (bclosed b); cbn [snd]; tauto.
  - (* ReadAt *)
    cbn [wf_op] in Hwf. apply Z.leb_le in Hwf.
    destruct (sim_readat d h b n off i Hhb Hwf) as [Hnp [Hh' Hs]].
    destruct (f_readat d h n off) as [h' r]. cbn [fst snd] in *. subst h'.
    split; [|split; [|exact Hnp]].
    + unfold upd_h. cbn [fdata fhandles].
      destruct (off <? 0); [|destruct (bclosed b)]; cbn [fst]; now apply Rel_same_h with (b := b).
    + rewrite Hs. destruct (off <? 0); [|destruct (bclosed b)]; reflexivity.
  - (* Write *)
    assert (Hat : 0 <= hat h) by (destruct Hhb as [Ha _]; lia).
    pose proof (sim_write d h b bb (HWrite i bb) Hhb Hat) as Hs. cbn zeta in Hs.
    destruct (f_write d h bb) as [[dd h'] r]. cbn [fst snd] in *.
    destruct Hs as [Hnp Hs]. split; [|split; [|exact Hnp]].
    + destruct (bclosed b) eqn:Ecl; [|destruct (bro b) eqn:Ero]; cbn [fst].
      * destruct Hs as [-> [-> _]]. cbn [upd_d upd_h fdata fhandles]. now apply Rel_same_h with (b := b).
      * destruct Hs as [-> [-> _]]. cbn [upd_d upd_h fdata fhandles]. now apply Rel_same_h with (b := b).
      * destruct Hs as [Hdd [-> _]]. rewrite upd_d_dflt. cbn [upd_h fdata fhandles]. rewrite Hdd.
        destruct Hhb as [Ha [Hc Hr]]. rewrite Ha, Nat2Z.id. split; [reflexivity|].
        cbn [fhandles bhs]. apply F2_set; [exact HF|].
        unfold hrel. destruct h; cbn in *. unfold zlen. repeat split; try lia; congruence.
    + destruct (bclosed b); [|destruct (bro b)]; cbn [snd]; tauto.
  - (* WriteAt *)
    pose proof (sim_writeat d h b bb off (HWriteAt i bb off) Hhb) as Hs. cbn zeta in Hs.
    destruct (f_writeat d h bb off) as [[dd h'] r]. cbn [fst snd] in *.
    destruct Hs as [Hnp [-> Hs]]. split; [|split; [|exact Hnp]].
    + destruct (off <? 0); [|destruct (bclosed b); [|destruct (bro b)]]; cbn [fst];
        try (destruct Hs as [-> _]; cbn [upd_d upd_h fdata fhandles]; now apply Rel_same_h with (b := b)).
      destruct Hs as [Hdd _]. rewrite upd_d_dflt. cbn [upd_h fdata fhandles]. rewrite Hdd.
      split; [reflexivity|]. cbn [fhandles bhs]. now apply F2_set.
    + destruct (off <? 0); [|destruct (bclosed b); [|destruct (bro b)]]; cbn [snd]; tauto.
  - (* WriteString *)
    assert (Hat : 0 <= hat h) by (destruct Hhb as [Ha _]; lia).
    pose proof (sim_write d h b bb (HWriteString i bb) Hhb Hat) as Hs. cbn zeta in Hs.
    destruct (f_write d h bb) as [[dd h'] r]. cbn [fst snd] in *.
    destruct Hs as [Hnp Hs]. split; [|split; [|exact Hnp]].
    + destruct (bclosed b) eqn:Ecl; [|destruct (bro b) eqn:Ero]; cbn [fst].
      * destruct Hs as [-> [-> _]]. cbn [upd_d upd_h fdata fhandles]. now apply Rel_same_h with (b := b).
      * destruct Hs as [-> [-> _]]. cbn [upd_d upd_h fdata fhandles]. now apply Rel_same_h with (b := b).
      * destruct Hs as [Hdd [-> _]]. rewrite upd_d_dflt. cbn [upd_h fdata fhandles]. rewrite Hdd.
        destruct Hhb as [Ha [Hc Hr]]. rewrite Ha, Nat2Z.id. split; [reflexivity|].
        cbn [fhandles bhs]. apply F2_set; [exact HF|].
        unfold hrel. destruct h; cbn in *. unfold zlen. repeat split; try lia; congruence.
    + destruct (bclosed b); [|destruct (bro b)]; cbn [snd]; tauto.
  - (* Seek *)
    pose proof (sim_seek d h b off wh (HSeek i off wh) Hhb) as Hs. cbn zeta in Hs.
    destruct (f_seek d h off wh) as [h' r]. cbn [fst snd] in *.
    destruct Hs as [Hnp Hs]. split; [|split; [|exact Hnp]].
    + destruct (bclosed b); cbn [fst].
      * destruct Hs as [-> _]. unfold upd_h. cbn [fdata fhandles]. now apply Rel_same_h with (b := b).
      * match goal with |- context [if ?c <? 0 then _ else _] => destruct (c <? 0) end; cbn [fst].
        -- destruct Hs as [-> _]. unfold upd_h. cbn [fdata fhandles]. now apply Rel_same_h with (b := b).
        -- destruct Hs as [Hh' _]. split; [reflexivity|]. cbn [fhandles bhs upd_h]. now apply F2_set.
    + destruct (bclosed b); cbn [snd]; [tauto|].
      match goal with |- context [if ?c <? 0 then _ else _] => destruct (c <? 0) end; cbn [snd]; tauto.
  - (* Truncate *)
    pose proof (sim_truncate d h b n (HTruncate i n) Hhb) as Hs. cbn zeta in Hs.
    destruct (f_truncate d h n) as [dd r]. cbn [fst snd] in *.
    destruct Hs as [Hnp Hs]. split; [|split; [|exact Hnp]].
    + destruct (bclosed b); [|destruct (bro b); [|destruct (n <? 0)]]; cbn [fst];
        destruct Hs as [-> _]; cbn [upd_d fdata fhandles]; try exact Hsame.
      split; [reflexivity|exact HF].
    + destruct (bclosed b); [|destruct (bro b); [|destruct (n <? 0)]]; cbn [snd]; tauto.
  - (* Close: a second Close reports the closed error and changes nothing *)
    destruct Hhb as [Ha [Hc Hr]]. rewrite Hc. destruct (bclosed b) eqn:Ecl; cbn [fst snd].
    + split; [exact Hsame|]. split; [reflexivity|discriminate].
    + split; [|split; [reflexivity|discriminate]].
      split; [reflexivity|]. cbn [fhandles bhs upd_h]. apply F2_set; [exact HF|].
      unfold hrel. destruct h; cbn in *. auto.
  - (* Stat *)
    cbn [fst snd]. split; [exact Hsame|]. split; [|discriminate].
    cbn. unfold zlen. now rewrite Nat2Z.id.
  - (* Sync *)
    cbn [fst snd]. split; [exact Hsame|]. split; [reflexivity|discriminate].
Qed.

(* ------------------------------------------------------------------------------------------ *)
(* whole runs                                                                                  *)

Definition proj_all (ops : list op) (outs : list res) : list pres :=
  map (fun '(o, r) => proj o r) (combine ops outs).

Lemma run_sim ops : forall s t, Rel s t -> Forall (fun o => wf_op o = true) ops ->
  let '(s', outs) := run_steps mf_step s ops in
  let '(t', pouts) := bf_run t ops in
  proj_all ops outs = pouts /\ Rel s' t' /\ ~ In RPanic outs.
Proof.
  induction ops as [|o ops IH]; intros s t HR Hwf.
  - cbn. auto.
  - inversion Hwf as [|o' ops' Ho Hops]; subst o' ops'.
    cbn [run_steps bf_run].
    destruct (step_sim s t o HR Ho) as [HR1 [Hp Hnp]].
    destruct (mf_step s o) as [s1 x]. destruct (bf_step t o) as [t1 px]. cbn [fst snd] in *.
    specialize (IH s1 t1 HR1 Hops).
    destruct (run_steps mf_step s1 ops) as [s2 xs]. destruct (bf_run t1 ops) as [t2 pxs].
    destruct IH as [IHp [IHR IHnp]].
    split; [|split; [exact IHR|]].
    + unfold proj_all in *. cbn [combine map]. now rewrite Hp, IHp.
    + intros [Hx|Hin]; [now apply Hnp | now apply IHnp].
Qed.

Lemma Rel_init content spec : Rel (mf_init content spec) (bf_init content spec).
Proof.
  unfold mf_init, bf_init, mk_handles. split; [reflexivity|]. cbn [fhandles bhs].
  induction spec as [|[ro cl] spec IH]; cbn [map]; constructor; [|exact IH].
  unfold hrel. cbn. auto.
Qed.

(* the invariant that makes Write's slice expressions safe *)
Lemma Rel_hat_nonneg s t : Rel s t -> Forall (fun h => 0 <= hat h) (fhandles s).
Proof.
  intros [_ HF]. induction HF as [|h b hs bs [Ha _] HF IH]; constructor; [lia | exact IH].
Qed.

Theorem memfile_refines (content : bytes) (spec : list (bool * bool)) (ops : list op) :
  Forall (fun o => wf_op o = true) ops ->
  let '(s, outs) := run_steps mf_step (mf_init content spec) ops in
  let '(t, pouts) := bf_run (bf_init content spec) ops in
  map (fun '(o, r) => proj o r) (combine ops outs) = pouts /\ fdata s = bdata t.
Proof.
  intros Hwf. pose proof (run_sim ops _ _ (Rel_init content spec) Hwf) as H.
  destruct (run_steps mf_step (mf_init content spec) ops) as [s outs].
  destruct (bf_run (bf_init content spec) ops) as [t pouts].
  destruct H as [Hp [[Hd _] _]]. split; [exact Hp | exact Hd].
Qed.

Theorem memfile_never_panics (content : bytes) (spec : list (bool * bool)) (ops : list op) :
  Forall (fun o => wf_op o = true) ops ->
  ~ In RPanic (snd (run_steps mf_step (mf_init content spec) ops)).
Proof.
  intros Hwf. pose proof (run_sim ops _ _ (Rel_init content spec) Hwf) as H.
  destruct (run_steps mf_step (mf_init content spec) ops) as [s outs].
  destruct (bf_run (bf_init content spec) ops) as [t pouts].
  destruct H as [_ [_ Hnp]]. exact Hnp.
Qed.

(* the handle offsets agree as well, and are never negative *)
Theorem memfile_offsets (content : bytes) (spec : list (bool * bool)) (ops : list op) :
  Forall (fun o => wf_op o = true) ops ->
  let s := fst (run_steps mf_step (mf_init content spec) ops) in
  let t := fst (bf_run (bf_init content spec) ops) in
  map hat (fhandles s) = map (fun b => Z.of_nat (bpos b)) (bhs t) /\
  map hclosed (fhandles s) = map bclosed (bhs t) /\
  map hro (fhandles s) = map bro (bhs t).
Proof.
  intros Hwf. pose proof (run_sim ops _ _ (Rel_init content spec) Hwf) as H.
  destruct (run_steps mf_step (mf_init content spec) ops) as [s outs].
  destruct (bf_run (bf_init content spec) ops) as [t pouts].
  destruct H as [_ [[_ HF] _]]. cbn [fst].
  induction HF as [|h b hs bs [Ha [Hc Hr]] HF [IH1 [IH2 IH3]]]; cbn [map]; [auto|].
  now rewrite Ha, Hc, Hr, IH1, IH2, IH3.
Qed.

(* ------------------------------------------------------------------------------------------ *)
(* read-only and closed handles are inert (no well-formedness needed, any state)               *)

Theorem memfile_inert_handles (s : fstate) (o : op) (i : nat) :
  op_handle o = Some i ->
  (forall h, nth_error (fhandles s) i = Some h -> hro h = true \/ hclosed h = true) ->
  fdata (fst (mf_step s o)) = fdata s.
Proof.
  intros Ho Hin.
  destruct o as [p|p perm|p perm|p|p flag perm|p|p|p q|p|p m|p u g|p tm
                 |j n|j n off|j bb|j bb off|j bb|j off wh|j n|j|j n|j n|j|j|j];
    try discriminate Ho; try reflexivity;
    cbn [op_handle] in Ho; inversion Ho; subst j; clear Ho;
    unfold mf_step; destruct (nth_error (fhandles s) i) as [h|] eqn:Eh; try reflexivity;
    specialize (Hin h eq_refl).
  - destruct (f_read (fdata s) h n); reflexivity.
  - destruct (f_readat (fdata s) h n off); reflexivity.
  - unfold f_write. destruct (hclosed h) eqn:Ec; [reflexivity|].
    destruct (hro h) eqn:Er; [reflexivity|]. destruct Hin; discriminate.
  - unfold f_writeat. destruct (off <? 0); [reflexivity|].
    unfold f_write. cbn [hclosed hro set_at]. destruct (hclosed h) eqn:Ec; [reflexivity|].
    destruct (hro h) eqn:Er; [reflexivity|]. destruct Hin; discriminate.
  - unfold f_write. destruct (hclosed h) eqn:Ec; [reflexivity|].
    destruct (hro h) eqn:Er; [reflexivity|]. destruct Hin; discriminate.
  - destruct (f_seek (fdata s) h off wh); reflexivity.
  - unfold f_truncate. destruct (hclosed h) eqn:Ec; [reflexivity|].
    destruct (hro h) eqn:Er; [reflexivity|]. destruct Hin; discriminate.
  - destruct (hclosed h); reflexivity.
Qed.

(* the same for the specification *)
Theorem bytefile_inert_handles (t : bstate) (o : op) (i : nat) :
  op_handle o = Some i ->
  (forall b, nth_error (bhs t) i = Some b -> bro b = true \/ bclosed b = true) ->
  bdata (fst (bf_step t o)) = bdata t.
Proof.
  intros Ho Hin.
  destruct o as [p|p perm|p perm|p|p flag perm|p|p|p q|p|p m|p u g|p tm
                 |j n|j n off|j bb|j bb off|j bb|j off wh|j n|j|j n|j n|j|j|j];
    try discriminate Ho; try reflexivity;
    cbn [op_handle] in Ho; inversion Ho; subst j; clear Ho;
    unfold bf_step; destruct (nth_error (bhs t) i) as [b|] eqn:Eb; try reflexivity;
    specialize (Hin b eq_refl).
  - destruct (bclosed b); reflexivity.
  - destruct (off <? 0); [reflexivity|]. destruct (bclosed b); reflexivity.
  - destruct (bclosed b) eqn:Ec; [reflexivity|]. destruct (bro b) eqn:Er; [reflexivity|].
    destruct Hin; discriminate.
  - destruct (off <? 0); [reflexivity|].
    destruct (bclosed b) eqn:Ec; [reflexivity|]. destruct (bro b) eqn:Er; [reflexivity|].
    destruct Hin; discriminate.
  - destruct (bclosed b) eqn:Ec; [reflexivity|]. destruct (bro b) eqn:Er; [reflexivity|].
    destruct Hin; discriminate.
  - destruct (bclosed b); [reflexivity|].
    match goal with |- context [if ?c <? 0 then _ else _] => destruct (c <? 0) end; reflexivity.
  - destruct (bclosed b) eqn:Ec; [reflexivity|]. destruct (bro b) eqn:Er; [reflexivity|].
    destruct Hin; discriminate.
  - destruct (bclosed b); reflexivity.
Qed.

(* ------------------------------------------------------------------------------------------ *)
(* positional operations leave every handle (offset included) as it was                        *)

Theorem bytefile_readat_pure (t : bstate) i n off : fst (bf_step t (HReadAt i n off)) = t.
Proof.
  unfold bf_step. destruct (nth_error (bhs t) i) as [b|]; [|reflexivity].
  destruct (off <? 0); [reflexivity|]. destruct (bclosed b); reflexivity.
Qed.

Theorem bytefile_writeat_handles (t : bstate) i bb off :
  bhs (fst (bf_step t (HWriteAt i bb off))) = bhs t.
Proof.
  unfold bf_step. destruct (nth_error (bhs t) i) as [b|] eqn:Eb; [|reflexivity].
  destruct (off <? 0); [reflexivity|]. destruct (bclosed b); [reflexivity|].
  destruct (bro b); [reflexivity|]. cbn [fst bhs]. now apply list_set_same.
Qed.

Lemma f_readat_handle data h n off : fst (f_readat data h n off) = h.
Proof.
  unfold f_readat. destruct (off <? 0); [reflexivity|].
  assert (Hh : exists a, fst (f_read data (set_at h off) n) = set_at h a).
  { unfold f_read. cbn [hclosed hat set_at].
    repeat match goal with |- context [if ?c then _ else _] => destruct c end; cbn [fst];
      try rewrite set_at_set_at; eauto. }
  destruct Hh as [a Ha]. destruct (f_read data (set_at h off) n) as [h1 r]. cbn [fst] in Ha. subst h1.
  assert (Hs : set_at (set_at h a) (hat h) = h) by (rewrite set_at_set_at; apply set_at_same).
  destruct r as [| | | | | |bb [e|]| | | | |]; cbn [fst]; auto.
  destruct (zlen bb <? n); cbn [fst]; auto.
Qed.

Lemma f_writeat_handle data h bb off : snd (fst (f_writeat data h bb off)) = h.
Proof.
  unfold f_writeat. destruct (off <? 0); [reflexivity|].
  unfold f_write. cbn [hclosed hro hat set_at].
  repeat match goal with |- context [if ?c then _ else _] => destruct c end; cbn [fst snd];
    rewrite ?set_at_set_at; apply set_at_same.
Qed.

(* the same for the Go-level model: ReadAt/WriteAt restore the offset, whatever happens *)
Theorem memfile_positional_handles (s : fstate) (o : op) :
  (match o with HReadAt _ _ _ | HWriteAt _ _ _ => True | _ => False end) ->
  fhandles (fst (mf_step s o)) = fhandles s.
Proof.
  destruct o; try contradiction; intros _; unfold mf_step;
    destruct (nth_error (fhandles s) h) as [hh|] eqn:Eh; try reflexivity.
  - pose proof (f_readat_handle (fdata s) hh n off) as H.
    destruct (f_readat (fdata s) hh n off) as [h' r]. cbn [fst] in *. subst h'.
    cbn [upd_h fhandles]. now apply list_set_same.
  - pose proof (f_writeat_handle (fdata s) hh b off) as H.
    destruct (f_writeat (fdata s) hh b off) as [[dd h'] r]. cbn [fst snd] in *. subst h'.
    destruct dd; cbn [upd_d upd_h fhandles fst]; now apply list_set_same.
Qed.

(* ------------------------------------------------------------------------------------------ *)
(* the statements of Props/C02.v in their published form                                       *)

Lemma wf_op_meaning o :
  wf_op o = true <-> match o with HRead _ n | HReadAt _ n _ => 0 <= n | _ => True end.
Proof. destruct o; cbn [wf_op]; try tauto; apply Z.leb_le. Qed.

Lemma op_handle_meaning o i :
  op_handle o = Some i <->
  match o with
  | HRead j _ | HReadAt j _ _ | HWrite j _ | HWriteAt j _ _ | HWriteString j _
  | HSeek j _ _ | HTruncate j _ | HClose j | HReaddir j _ | HReaddirnames j _
  | HStat j | HName j | HSync j => j = i
  | _ => False
  end.
Proof. destruct o; cbn [op_handle]; split; intros H; try discriminate; try contradiction; congruence. Qed.

Lemma c02_refines (content : bytes) (spec : list (bool * bool)) (ops : list op) :
  (forall o, In o ops -> wf_op o = true) ->
  let '(s, outs) := run_steps mf_step (mf_init content spec) ops in
  let '(t, pouts) := bf_run (bf_init content spec) ops in
  map (fun '(o, r) => proj o r) (combine ops outs) = pouts /\ fdata s = bdata t.
Proof. intros H. apply memfile_refines. now apply Forall_forall. Qed.

Lemma c02_never_panics (content : bytes) (spec : list (bool * bool)) (ops : list op) :
  (forall o, In o ops -> wf_op o = true) ->
  ~ In RPanic (snd (run_steps mf_step (mf_init content spec) ops)).
Proof. intros H. apply memfile_never_panics. now apply Forall_forall. Qed.

Lemma c02_offsets (content : bytes) (spec : list (bool * bool)) (ops : list op) :
  (forall o, In o ops -> wf_op o = true) ->
  let s := fst (run_steps mf_step (mf_init content spec) ops) in
  let t := fst (bf_run (bf_init content spec) ops) in
  map hat (fhandles s) = map (fun b => Z.of_nat (bpos b)) (bhs t) /\
  map hclosed (fhandles s) = map bclosed (bhs t) /\
  map hro (fhandles s) = map bro (bhs t).
Proof. intros H. apply memfile_offsets. now apply Forall_forall. Qed.

Lemma c02_inert_handles (s : fstate) (o : op) (i : nat) (h : hnd) :
  nth_error (fhandles s) i = Some h ->
  hro h = true \/ hclosed h = true ->
  op_handle o = Some i ->
  fdata (fst (mf_step s o)) = fdata s.
Proof.
  intros Eh Hin Ho. apply (memfile_inert_handles s o i Ho).
  intros h' Eh'. rewrite Eh in Eh'. now inversion Eh'; subst.
Qed.

(* an operation through a slot that holds no handle changes nothing at all *)
Lemma c02_missing_handle (s : fstate) (o : op) (i : nat) :
  op_handle o = Some i -> nth_error (fhandles s) i = None ->
  mf_step s o = (s, RNoSlot).
Proof.
  intros Ho En. destruct o; try discriminate Ho; try reflexivity;
    cbn [op_handle] in Ho; inversion Ho; subst; unfold mf_step; now rewrite En.
Qed.

(* closing a closed handle is an error and changes nothing — model and specification *)
Lemma c02_close_closed (s : fstate) (i : nat) (h : hnd) :
  nth_error (fhandles s) i = Some h -> hclosed h = true ->
  mf_step s (HClose i) = (s, RErr (E KClosed)).
Proof. intros Eh Hc. unfold mf_step. now rewrite Eh, Hc. Qed.

Lemma c02_spec_close_closed (t : bstate) (i : nat) (b : bh) :
  nth_error (bhs t) i = Some b -> bclosed b = true ->
  bf_step t (HClose i) = (t, PErr C_CLOSED).
Proof. intros Eb Hc. unfold bf_step. now rewrite Eb, Hc. Qed.
