(* Proofs/CopyFailedCreate.v — the error branch of copyFile's `lfh, err := layer.Create(name)` in today's source:
   the switch copyfile_removes_after_failed_create (Gen/Consts.v, read from the AST of copyFile by
   harness/cmd/afcheck/c12_consts.go) is 1, so copy_file calls the layer's Remove(name) before it returns the
   error.  With the branch in its old shape the constant is 0 and the first lemma stops compiling. *)
From AF Require Import Lib.Bytes Lib.Path Lib.Ops Gen.Consts Model.Union.
Local Open Scope Z_scope.

Lemma copyfile_removes_after_failed_create_is_1 : copyfile_removes_after_failed_create = 1.
Proof. reflexivity. Qed.

Lemma after_failed_create_today {L : Type} (lstep : L -> op -> L * res) sl name :
  after_failed_create lstep sl name = fst (lstep sl (Remove name)).
Proof. unfold after_failed_create, after_failed_create_gen. now rewrite copyfile_removes_after_failed_create_is_1. Qed.

(* either shape, spelled out *)
Lemma after_failed_create_gen_on {L : Type} (lstep : L -> op -> L * res) sl name :
  after_failed_create_gen lstep 1 sl name = fst (lstep sl (Remove name)).
Proof. reflexivity. Qed.
Lemma after_failed_create_gen_off {L : Type} (lstep : L -> op -> L * res) rm sl name : rm <> 1 ->
  after_failed_create_gen lstep rm sl name = sl.
Proof. intros H. unfold after_failed_create_gen. destruct (Z.eqb_spec rm 1); [contradiction | reflexivity]. Qed.
