(* C13 — RegexpFs (pattern decided by the final path element): non-matching regular files are
   never reported, created, opened, written, renamed to or from, chmod-ed/chown-ed/chtimes-ed or
   individually removed; matching files are transparent; directories are never hidden.
   Statements only; proofs in Proofs/RegexpProof.v.  Every theorem is for ANY inner filesystem
   [inner : St -> op -> St * res] and ANY matcher [m]; the model is Model/Regexp.v [re_step]
   (state = inner state + the handles that are RegexpFiles).
   The one statement that depends on a fact about the source ("OpenFile wraps its result in a
   RegexpFile", constant regexp_openfile_wraps regenerated from regexpfs.go) carries that fact as a
   hypothesis here; Props/C13Wraps.v discharges it by reflexivity and compiles iff it holds. *)
From AF Require Import Lib.Bytes Lib.Path Lib.Ops Gen.Consts Model.MemFile Model.MemFs Model.ReadOnly
  Model.Regexp Model.Stack Proofs.MemFsBasics Proofs.RegexpProof Proofs.MemBelowRefused Proofs.RegexpBelowFile.
Local Open Scope Z_scope.

(* 1. A call whose name argument is a non-matching non-directory — the inner Stat reports a
   regular file or fails, and m says no; for Create: m says no; for Rename: the old name is not a
   directory and the old OR the new name does not match — is answered by an error, returns no
   handle, and the inner filesystem sees nothing but (at most) the filter's Stat probe:
     names_hidden inner m s o :=
       Create p => m p = false | Rename p q => not_dir s p /\ (m p = false \/ m q = false)
       | OpenFile/Open/Remove/RemoveAll/Chmod/Chown/Chtimes/Stat p => m p = false /\ not_dir s p
     refusal inner s w o := Create: ((s, w), ENOENT)
                            otherwise: ((state after inner Stat p, w), the Stat error, else ENOENT) *)
Theorem C13_hidden_never_forwarded :
  forall (St : Type) (inner : St -> op -> St * res) (m : str -> bool) s w o,
  names_hidden inner m s o ->
  re_step inner m (s, w) o = refusal inner s w o /\
  (exists e, snd (refusal inner s w o) = RErr e /\
             (e = E KENOENT \/ e = E KOther \/ exists p, snd (inner s (Stat p)) = RErr e)) /\
  snd (fst (refusal inner s w o)) = w /\
  (fst (fst (refusal inner s w o)) = s \/ exists p, fst (fst (refusal inner s w o)) = fst (inner s (Stat p))).
Proof.
  intros St inner m s w o H. split; [now apply re_step_hidden_refused|].
  split; [apply refusal_is_error | apply refusal_state].
Qed.
Print Assumptions C13_hidden_never_forwarded.

(* the same in predicate-preservation form (as C05/C07): whatever Stat preserves of the inner
   filesystem, a call on a hidden name preserves *)
Theorem C13_hidden_preserves_whatever_stat_preserves :
  forall (St : Type) (inner : St -> op -> St * res) (m : str -> bool) (P : St -> Prop),
  (forall s p, P s -> P (fst (inner s (Stat p)))) ->
  forall s w o, names_hidden inner m s o -> P s -> P (fst (fst (re_step inner m (s, w) o))).
Proof. exact @re_step_hidden_preserves. Qed.
Print Assumptions C13_hidden_preserves_whatever_stat_preserves.

(* 2. Every existing matching file (and every directory) is visible: Stat/Open/OpenFile/Remove/
   RemoveAll/Chmod/Chown/Chtimes are the inner filesystem's own answer (state and result) to the
   same call made right after the Stat probe — same metadata, and (handle operations being
   forwarded, C13_handles_transparent) same content *)
Theorem C13_matching_transparent :
  forall (St : Type) (inner : St -> op -> St * res) (m : str -> bool) s w o p,
  gated_path o = Some p ->
  (exists fi, snd (inner s (Stat p)) = RInfo fi /\ (fi_dir fi = true \/ m p = true)) ->
  fst (fst (re_step inner m (s, w) o)) = fst (inner (fst (inner s (Stat p))) o) /\
  snd (re_step inner m (s, w) o) = snd (inner (fst (inner s (Stat p))) o).
Proof. exact @re_step_visible_forwarded. Qed.
Print Assumptions C13_matching_transparent.

Theorem C13_handles_transparent :
  forall (St : Type) (inner : St -> op -> St * res) (m : str -> bool) s w o,
  plain_handle_op o = true ->      (* Read ReadAt Write WriteAt WriteString Seek Truncate Close Stat Name Sync *)
  re_step inner m (s, w) o = (let '(s', r) := inner s o in ((s', w), r)).
Proof. intros. rewrite re_step_is_sw. now apply re_handle_ops_transparent. Qed.
Print Assumptions C13_handles_transparent.

(* 3. Directories are never hidden, whatever m says about their names *)
Theorem C13_dirs_never_hidden :
  forall (St : Type) (inner : St -> op -> St * res) (m : str -> bool) s w o p,
  gated_path o = Some p ->
  (exists fi, snd (inner s (Stat p)) = RInfo fi /\ fi_dir fi = true) ->
  fst (fst (re_step inner m (s, w) o)) = fst (inner (fst (inner s (Stat p))) o) /\
  snd (re_step inner m (s, w) o) = snd (inner (fst (inner s (Stat p))) o).
Proof. exact @re_step_dirs_never_hidden. Qed.
Print Assumptions C13_dirs_never_hidden.

(* 4. Listings.  listing_filtered m r := every info of an RInfos is a directory or has a matching
   name; every name of an RNames is the name of such an info.
   (a) unconditional: a handle returned by Open lists only directories and matching names *)
Theorem C13_listing_filtered_open :
  forall (St : Type) (inner : St -> op -> St * res) (m : str -> bool) s w p s' w' h o,
  readdir_shape inner ->            (* the inner Readdir answers with infos or an error *)
  re_step inner m (s, w) (Open p) = ((s', w'), RHandle h) ->
  op_handle_of o = Some h ->
  match o with HReaddir _ _ | HReaddirnames _ _ => True | _ => False end ->
  forall s2, listing_filtered m (snd (re_step inner m (s2, w') o)).
Proof. exact @re_step_open_listing_filtered. Qed.
Print Assumptions C13_listing_filtered_open.

(* (b) the property's sentence, over whole runs: after ANY sequence of calls through the filter,
   Readdir and Readdirnames on ANY handle that Open or OpenFile returned during the run list only
   directories and matching names — GIVEN that OpenFile wraps (Props/C13Wraps.v: by reflexivity) *)
Theorem C13_listing_filtered :
  forall (St : Type) (inner : St -> op -> St * res) (m : str -> bool),
  regexp_openfile_wraps = 1 -> readdir_shape inner ->
  forall ops s w h n,
  let x := run_steps (re_step inner m) (s, w) ops in
  In h (opened_by ops (snd x)) ->
  listing_filtered m (snd (re_step inner m (fst x) (HReaddir h n))) /\
  listing_filtered m (snd (re_step inner m (fst x) (HReaddirnames h n))).
Proof. exact @re_step_listing_filtered_run. Qed.
Print Assumptions C13_listing_filtered.

(* the filter removes nothing but non-matching non-directories from a listing.  RegexpFile.Readdir(n)
   may read several pages of the inner directory (it re-reads while a page of n > 0 entries was
   filtered down to nothing: Model/Regexp.v re_readdir), so the statement is about the concatenation
   of the pages read:  pages_read inner h n s pages s'  :=  [pages] are the consecutive nil-error
   answers of the inner Readdir(n) on h, leading from state s to state s'.  A nil-error listing [out] of
   a RegexpFile handle is the filter applied to those pages: every entry that is a directory or
   matches stays (and, by (a)/(b), nothing else does) *)
Theorem C13_listing_keeps_visible :
  forall (St : Type) (inner : St -> op -> St * res) (m : str -> bool) s w h n s' w' out,
  In h w ->
  re_step inner m (s, w) (HReaddir h n) = ((s', w'), RInfos out None) ->
  w' = w /\
  exists pages, pages_read inner h n s pages s' /\ out = filter_infos m (concat pages) /\
    forall fi, In fi (concat pages) -> (fi_dir fi = true \/ m (fi_name fi) = true) -> In fi out.
Proof. exact @re_step_listing_pages. Qed.
Print Assumptions C13_listing_keeps_visible.

(* the filter itself, on one list (the statement above before Readdir became a loop) *)
Theorem C13_filter_keeps_visible :
  forall (m : str -> bool) l fi, In fi l -> (fi_dir fi = true \/ m (fi_name fi) = true) -> In fi (filter_infos m l).
Proof. exact filter_infos_keeps. Qed.
Print Assumptions C13_filter_keeps_visible.

(* Readdirnames of a RegexpFile handle is the names of its Readdir (same state, same error) *)
Theorem C13_readdirnames_of_readdir :
  forall (St : Type) (inner : St -> op -> St * res) (m : str -> bool) s w h n,
  In h w ->
  fst (re_step inner m (s, w) (HReaddirnames h n)) = fst (re_step inner m (s, w) (HReaddir h n)) /\
  snd (re_step inner m (s, w) (HReaddirnames h n)) =
    match snd (re_step inner m (s, w) (HReaddir h n)) with RInfos l e => RNames (map fi_name l) e | r => r end.
Proof. exact @re_step_readdirnames_of_readdir. Qed.
Print Assumptions C13_readdirnames_of_readdir.

(* the refill loop — GIVEN the fact about the source regexp_readdir_refills = 1 (Props/C13Wraps.v: by
   reflexivity): for n > 0, a RegexpFile answers "no entries, no error" only when the inner directory's
   own last page was empty (or re_fuel + 1 = 4097 pages in a row held nothing but hidden files: the
   model's bound on the loop).  dropped_pages inner m h n s ps s1 := consecutive nil-error pages, each
   filtered to nothing, from s to s1 *)
Theorem C13_listing_refills :
  forall (St : Type) (inner : St -> op -> St * res) (m : str -> bool) s w h n s' w',
  regexp_readdir_refills = 1 -> In h w -> 0 < n ->
  re_step inner m (s, w) (HReaddir h n) = ((s', w'), RInfos [] None) ->
  exists ps s1 l, dropped_pages inner m h n s ps s1 /\ inner s1 (HReaddir h n) = (s', RInfos l None) /\
    (l = [] \/ (length ps = re_fuel /\ filter_infos m l = [])).
Proof. exact @re_step_listing_refills. Qed.
Print Assumptions C13_listing_refills.

(* 5. The property's restriction "decided by the final path element": then the listing filter
   (applied to entry names) and the gate (applied to whole names) agree on every entry n of every
   directory d; the three patterns of the harness satisfy the restriction *)
Theorem C13_listing_agrees_with_gate :
  forall (m : str -> bool) d n, (forall p, m p = m (last_elem p)) -> no_slash n = true -> m (d ++ SLASH :: n) = m n.
Proof. exact base_decided_listing_agrees. Qed.
Print Assumptions C13_listing_agrees_with_gate.

Theorem C13_harness_patterns_base_decided :
  forall pat p, (pat <= 2)%nat -> re_match pat p = re_match pat (last_elem p).
Proof. intros pat p H. now apply re_match_base_decided. Qed.
Print Assumptions C13_harness_patterns_base_decided.

(* 6. Instance: MemMapFs underneath.  The Stat probe leaves what MemMapFs holds untouched, so a
   call through the filter on a hidden name leaves every path, content, mode and mtime of the
   underlying filesystem as it was, and fails *)
Theorem C13_hidden_files_protected_mem :
  forall (m : str -> bool) s w o,
  names_hidden m_step m s o ->
  fs_view (fst (fst (re_step m_step m (s, w) o))) = fs_view s /\
  snapshot (fst (fst (re_step m_step m (s, w) o))) = snapshot s /\
  exists e, snd (re_step m_step m (s, w) o) = RErr e.
Proof. exact re_mem_hidden_protected. Qed.
Print Assumptions C13_hidden_files_protected_mem.

(* 7. ... and no call through the filter reaches BELOW a regular file of MemMapFs (hidden or not).
   The filter looks at the name it is given, never at the name's ancestors: Create of a matching name,
   Mkdir, MkdirAll and Rename to a matching name are forwarded.  When, walking up from the (free) name
   with filepath.Dir, the first existing name is a regular file (nearest_is_file, Proofs/MemBelowRefused.v)
   MemMapFs answers ENOTDIR and holds exactly what it held: every path, kind, content, mode, mtime.
   Before memmap.go got that check (Gen/Consts.v memfs_refuses_below_file, C01_below_file_switch) the
   entry was created and the hidden regular file /x.dat BECAME A DIRECTORY: the four known findings
   hidden-became-dir:{Create,Mkdir,MkdirAll,Rename}. *)
Theorem C13_nothing_created_below_a_file_mem :
  forall (m : str -> bool) s w p,
  let k := normalize_path p in
  lookup s k = None -> nearest_is_file s (path_dir k) ->
  (forall o, o = Create p \/ (exists perm, o = Mkdir p perm) \/ (exists perm, o = MkdirAll p perm) ->
     fs_view (fst (fst (re_step m_step m (s, w) o))) = fs_view s /\
     snapshot (fst (fst (re_step m_step m (s, w) o))) = snapshot s /\
     exists e, snd (re_step m_step m (s, w) o) = RErr e) /\
  (forall q, fs_view (fst (fst (re_step m_step m (s, w) (Rename q p)))) = fs_view s /\
             snapshot (fst (fst (re_step m_step m (s, w) (Rename q p)))) = snapshot s).
Proof. exact re_mem_nothing_below_a_file. Qed.
Print Assumptions C13_nothing_created_below_a_file_mem.

Theorem C13_memfs_readdir_shape : readdir_shape m_step.
Proof. exact m_step_readdir_shape. Qed.
Print Assumptions C13_memfs_readdir_shape.

(* ---- non-vacuity and the model at work (pattern 0 = \.txt$) ---- *)
Definition c13_p (s : list N) : str := s.
Definition c13_xdat : str := [47;120;46;100;97;116]%N.     (* /x.dat *)
Definition c13_atxt : str := [47;97;46;116;120;116]%N.     (* /a.txt *)
Definition c13_dir : str := [47;99]%N.                     (* /c : a directory with a non-matching name *)
Definition c13_demo : mst :=
  fst (run_steps m_step m_init
    [Create c13_xdat; HWrite 0 [1;2;3]%N; HClose 0; Create c13_atxt; HWrite 1 [7]%N; HClose 1; Mkdir c13_dir 493]).

Example C13_ex_hidden : names_hidden m_step (re_match 0) c13_demo (Chmod c13_xdat 511)
                     /\ names_hidden m_step (re_match 0) c13_demo (Rename c13_atxt c13_xdat)
                     /\ names_hidden m_step (re_match 0) c13_demo (Create c13_xdat).
Proof.
  repeat split; try reflexivity; try (left; reflexivity); try (right; reflexivity);
    intros fi H; vm_compute in H; inversion H; reflexivity.
Qed.

(* refusals, then a directory with a non-matching name and a matching file going through *)
Example C13_ex_steps : snd (run_steps (re_step m_step (re_match 0)) (c13_demo, [])
    [Stat c13_xdat; Open c13_xdat; OpenFile c13_xdat 66 420; Create c13_xdat; Remove c13_xdat; Chmod c13_xdat 511;
     Rename c13_atxt c13_xdat; Rename c13_xdat c13_atxt; Stat c13_dir; Open c13_atxt; HRead 2 5])
  = [RErr (E KENOENT); RErr (E KENOENT); RErr (E KENOENT); RErr (E KENOENT); RErr (E KENOENT); RErr (E KENOENT);
     RErr (E KENOENT); RErr (E KENOENT); RInfo (mkFi [99]%N true 42 (Z.lor mode_dir 493) (BIG + 6));
     RHandle 2; RData [7]%N None].
Proof. vm_compute. reflexivity. Qed.

(* corpus/C13 d1-d4: the four calls below the hidden regular file /x.dat are refused (ENOTDIR from
   MemMapFs) and /x.dat is still the regular file holding 1 2 3 *)
Example C13_ex_below_hidden_file :
  let below (t : list N) : str := (c13_xdat ++ t)%list in
  nearest_is_file c13_demo (path_dir (below [47;97;46;116;120;116]%N)) /\
  map (fun o => let x := re_step m_step (re_match 0) (c13_demo, []) o in
                (snd x, beqb (concat (map e_data (snapshot (fst (fst x))))) (concat (map e_data (snapshot c13_demo))),
                 map e_dir (filter (fun e => beqb (e_path e) c13_xdat) (snapshot (fst (fst x))))))
    [Create (below [47;97;46;116;120;116]%N);                    (* /x.dat/a.txt *)
     Mkdir (below [47;99]%N) 493;                                (* /x.dat/c *)
     MkdirAll (below [47;99;47;99]%N) 493;                       (* /x.dat/c/c *)
     Rename c13_atxt (below [47;97;46;116;120;116]%N)]           (* /a.txt -> /x.dat/a.txt *)
  = repeat (RErr (EW KENOTDIR), true, [false]) 4.
Proof. split; [eapply nif_here; vm_compute; reflexivity | vm_compute; reflexivity]. Qed.

(* the listing through Open is filtered whatever the switch; through OpenFile it leaks /x.dat when
   OpenFile does not wrap (switch off = regexpfs.go before the fix) and is filtered when it does *)
Example C13_ex_open_listing : snd (run_steps (re_step_sw m_step (re_match 0) false) (c13_demo, [])
    [Open [47]%N; HReaddirnames 2 (-1)]) = [RHandle 2; RNames [[97;46;116;120;116]; [99]]%N None].
Proof. vm_compute. reflexivity. Qed.
Example C13_ex_openfile_leak : snd (run_steps (re_step_sw m_step (re_match 0) false) (c13_demo, [])
    [OpenFile [47]%N 0 0; HReaddirnames 2 (-1)])
  = [RHandle 2; RNames [[97;46;116;120;116]; [99]; [120;46;100;97;116]]%N None].
Proof. vm_compute. reflexivity. Qed.
Example C13_ex_openfile_fixed : snd (run_steps (re_step_sw m_step (re_match 0) true) (c13_demo, [])
    [OpenFile [47]%N 0 0; HReaddirnames 2 (-1)]) = [RHandle 2; RNames [[97;46;116;120;116]; [99]]%N None].
Proof. vm_compute. reflexivity. Qed.

(* paging with n = 1 over /: a.txt, c, then the page holding the hidden x.dat is dropped and the next
   read reports the end of the directory (before the fix: an empty page with a nil error) *)
Example C13_ex_refill : snd (run_steps (re_step m_step (re_match 0)) (c13_demo, [])
    [Open [47]%N; HReaddirnames 2 1; HReaddirnames 2 1; HReaddirnames 2 1])
  = [RHandle 2; RNames [[97;46;116;120;116]]%N None; RNames [[99]]%N None; RNames [] (Some (E KEOF))].
Proof. vm_compute. reflexivity. Qed.

(* the three patterns on sample names *)
Example C13_ex_patterns :
  map (fun pat => map (re_match pat) [c13_xdat; c13_atxt; [47;100;47;97;98]; [47;97;98;47;99]; [47;97;46;116;120;116;47]]%N) [0;1;2]%nat
  = [[false; true; false; false; false]; [false; false; true; false; false]; [false; true; true; false; false]].
Proof. vm_compute. reflexivity. Qed.
