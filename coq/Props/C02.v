(* C02 — in-memory file contents equal a flat byte-array model.  Statements only; proofs are in
   Proofs/MemFileProof.v.  Go-level model: Model/MemFile.v (mem/file.go, path by path, a slice
   expression out of range is RPanic).  Specification: Model/ByteFile.v (pwrite / pread / ptrunc over
   one flat byte array with per-handle offsets, written without reference to the Go code). *)
From AF Require Import Lib.Bytes Lib.Path Lib.Ops Model.MemFile Model.ByteFile Proofs.MemFileProof.
Local Open Scope Z_scope.

(* the only hypothesis on operations: the buffer handed to Read / ReadAt has a length >= 0
   (a Go slice cannot have a negative length).  Everything else is arbitrary: negative offsets,
   offsets beyond EOF, empty payloads, handle slots that do not exist, non-handle operations. *)
Theorem C02_wf_op_meaning : forall o,
  wf_op o = true <-> match o with HRead _ n | HReadAt _ n _ => 0 <= n | _ => True end.
Proof. exact wf_op_meaning. Qed.
Print Assumptions C02_wf_op_meaning.

(* 1. Refinement: for EVERY initial content, EVERY set of handles (read-only?, closed?) on it and
   EVERY sequence of operations, the mem.File model answers each operation as the byte-array
   specification does (after projection to what the property speaks about: bytes, counts,
   positions, sizes, error class, end-of-file flag) and ends with the same content. *)
Theorem C02_refines : forall (content : bytes) (spec : list (bool * bool)) (ops : list op),
  (forall o, In o ops -> wf_op o = true) ->
  let '(s, outs) := run_steps mf_step (mf_init content spec) ops in
  let '(t, pouts) := bf_run (bf_init content spec) ops in
  map (fun '(o, r) => proj o r) (combine ops outs) = pouts /\ fdata s = bdata t.
Proof. exact c02_refines. Qed.
Print Assumptions C02_refines.

(* ... and the handles agree too: offset (never negative), closed flag, read-only flag *)
Theorem C02_offsets : forall (content : bytes) (spec : list (bool * bool)) (ops : list op),
  (forall o, In o ops -> wf_op o = true) ->
  let s := fst (run_steps mf_step (mf_init content spec) ops) in
  let t := fst (bf_run (bf_init content spec) ops) in
  map hat (fhandles s) = map (fun b => Z.of_nat (bpos b)) (bhs t) /\
  map hclosed (fhandles s) = map bclosed (bhs t) /\
  map hro (fhandles s) = map bro (bhs t).
Proof. exact c02_offsets. Qed.
Print Assumptions C02_offsets.

(* 2. No slice expression of mem/file.go ever goes out of range *)
Theorem C02_never_panics : forall (content : bytes) (spec : list (bool * bool)) (ops : list op),
  (forall o, In o ops -> wf_op o = true) ->
  ~ In RPanic (snd (run_steps mf_step (mf_init content spec) ops)).
Proof. exact c02_never_panics. Qed.
Print Assumptions C02_never_panics.

(* 3. A step through a read-only or a closed handle never changes the content — in ANY state
   (reachable or not) and for ANY operation (well-formed or not) *)
Theorem C02_op_handle_meaning : forall o i,
  op_handle o = Some i <->
  match o with
  | HRead j _ | HReadAt j _ _ | HWrite j _ | HWriteAt j _ _ | HWriteString j _
  | HSeek j _ _ | HTruncate j _ | HClose j | HReaddir j _ | HReaddirnames j _
  | HStat j | HName j | HSync j => j = i
  | _ => False
  end.
Proof. exact op_handle_meaning. Qed.
Print Assumptions C02_op_handle_meaning.

Theorem C02_inert_handles : forall (s : fstate) (o : op) (i : nat) (h : hnd),
  nth_error (fhandles s) i = Some h ->
  hro h = true \/ hclosed h = true ->
  op_handle o = Some i ->
  fdata (fst (mf_step s o)) = fdata s.
Proof. exact c02_inert_handles. Qed.
Print Assumptions C02_inert_handles.

Theorem C02_missing_handle : forall (s : fstate) (o : op) (i : nat),
  op_handle o = Some i -> nth_error (fhandles s) i = None -> mf_step s o = (s, RNoSlot).
Proof. exact c02_missing_handle. Qed.
Print Assumptions C02_missing_handle.

(* closing a closed handle is an error (the closed one) and changes nothing, on both sides *)
Theorem C02_close_closed : forall (s : fstate) (i : nat) (h : hnd),
  nth_error (fhandles s) i = Some h -> hclosed h = true ->
  mf_step s (HClose i) = (s, RErr (E KClosed)).
Proof. exact c02_close_closed. Qed.
Print Assumptions C02_close_closed.

Theorem C02_spec_close_closed : forall (t : bstate) (i : nat) (b : bh),
  nth_error (bhs t) i = Some b -> bclosed b = true ->
  bf_step t (HClose i) = (t, PErr C_CLOSED).
Proof. exact c02_spec_close_closed. Qed.
Print Assumptions C02_spec_close_closed.

(* the specification has the same property *)
Theorem C02_spec_inert_handles : forall (t : bstate) (o : op) (i : nat),
  op_handle o = Some i ->
  (forall b, nth_error (bhs t) i = Some b -> bro b = true \/ bclosed b = true) ->
  bdata (fst (bf_step t o)) = bdata t.
Proof. exact bytefile_inert_handles. Qed.
Print Assumptions C02_spec_inert_handles.

(* 4. What the specification means ------------------------------------------------------------ *)

(* the slice arithmetic of File.Write (both branches) is pwrite for every payload it is reached
   with, i.e. a non-empty one (File.Write returns before it when len(b) == 0); of File.Truncate,
   ptrunc *)
Theorem C02_go_write_is_pwrite : forall (data b : bytes) (cur : Z),
  0 <= cur -> b <> [] -> go_write data b cur = pwrite data (Z.to_nat cur) b.
Proof. exact go_write_pwrite. Qed.
Print Assumptions C02_go_write_is_pwrite.

(* on the empty payload the slice arithmetic alone agrees with pwrite exactly up to EOF; past EOF
   it zero-extends (the behaviour the early return in File.Write removed) *)
Theorem C02_go_write_nil_within : forall (data : bytes) (cur : Z),
  0 <= cur <= zlen data -> go_write data [] cur = pwrite data (Z.to_nat cur) [].
Proof. exact go_write_nil_within. Qed.
Print Assumptions C02_go_write_nil_within.

Theorem C02_go_write_nil_beyond : forall (data : bytes) (cur : Z),
  zlen data < cur ->
  go_write data [] cur = data ++ zeros (Z.to_nat cur - length data) /\
  go_write data [] cur <> pwrite data (Z.to_nat cur) [].
Proof. exact go_write_nil_beyond. Qed.
Print Assumptions C02_go_write_nil_beyond.

Theorem C02_slice_is_pread : forall (data : bytes) (a k : Z),
  0 <= a -> 0 <= k -> slice data a (a + k) = pread data (Z.to_nat a) (Z.to_nat k).
Proof. exact slice_pread. Qed.
Print Assumptions C02_slice_is_pread.

(* a zero-length write changes nothing, wherever it is *)
Theorem C02_pwrite_nil : forall (data : bytes) (off : nat), pwrite data off [] = data.
Proof. exact pwrite_nil. Qed.
Print Assumptions C02_pwrite_nil.

Theorem C02_pwrite_length : forall (data : bytes) (off : nat) (b : bytes),
  b <> [] -> length (pwrite data off b) = Nat.max (length data) (off + length b).
Proof. exact pwrite_length. Qed.
Print Assumptions C02_pwrite_length.

(* both cases in one statement; and a write never shrinks the file *)
Theorem C02_pwrite_length_gen : forall (data : bytes) (off : nat) (b : bytes),
  length (pwrite data off b) =
  match b with [] => length data | _ => Nat.max (length data) (off + length b) end.
Proof. exact pwrite_length_gen. Qed.
Print Assumptions C02_pwrite_length_gen.

Theorem C02_pwrite_length_ge : forall (data : bytes) (off : nat) (b : bytes),
  (length data <= length (pwrite data off b))%nat.
Proof. exact pwrite_length_ge. Qed.
Print Assumptions C02_pwrite_length_ge.

(* bytes before off are untouched (any payload, the empty one included) *)
Theorem C02_pwrite_before : forall (data : bytes) (off : nat) (b : bytes),
  firstn (Nat.min off (length data)) (pwrite data off b) = firstn (Nat.min off (length data)) data.
Proof. exact pwrite_before. Qed.
Print Assumptions C02_pwrite_before.

(* a gap between the old end of file and off is zero-filled — by a write that writes something;
   a zero-length write past EOF creates no gap (C02_pwrite_nil) *)
Theorem C02_pwrite_gap_zero : forall (data : bytes) (off : nat) (b : bytes) (j : nat) (d : N),
  b <> [] -> (length data <= j < off)%nat -> nth j (pwrite data off b) d = 0%N.
Proof. exact pwrite_gap_zero. Qed.
Print Assumptions C02_pwrite_gap_zero.

(* the payload is there (any payload) *)
Theorem C02_pwrite_at : forall (data : bytes) (off : nat) (b : bytes),
  pread (pwrite data off b) off (length b) = b.
Proof. exact pwrite_at. Qed.
Print Assumptions C02_pwrite_at.

(* bytes from off + |b| on are untouched (any payload) *)
Theorem C02_pwrite_after : forall (data : bytes) (off : nat) (b : bytes),
  skipn (off + length b) (pwrite data off b) = skipn (off + length b) data.
Proof. exact pwrite_after. Qed.
Print Assumptions C02_pwrite_after.

Theorem C02_pread_length : forall (data : bytes) (off n : nat),
  length (pread data off n) = Nat.min n (length data - off).
Proof. exact pread_length. Qed.
Print Assumptions C02_pread_length.

(* ptrunc cuts or zero-extends *)
Theorem C02_ptrunc_length : forall (data : bytes) (n : nat), length (ptrunc data n) = n.
Proof. exact ptrunc_length. Qed.
Print Assumptions C02_ptrunc_length.

Theorem C02_ptrunc_prefix : forall (data : bytes) (n : nat),
  firstn (Nat.min n (length data)) (ptrunc data n) = firstn (Nat.min n (length data)) data.
Proof. exact ptrunc_prefix. Qed.
Print Assumptions C02_ptrunc_prefix.

Theorem C02_ptrunc_ext_zero : forall (data : bytes) (n j : nat) (d : N),
  (length data <= j < n)%nat -> nth j (ptrunc data n) d = 0%N.
Proof. exact ptrunc_ext_zero. Qed.
Print Assumptions C02_ptrunc_ext_zero.

(* positional operations leave every handle — its offset in particular — as it was *)
Theorem C02_spec_readat_pure : forall (t : bstate) (i : nat) (n off : Z),
  fst (bf_step t (HReadAt i n off)) = t.
Proof. exact bytefile_readat_pure. Qed.
Print Assumptions C02_spec_readat_pure.

Theorem C02_spec_writeat_handles : forall (t : bstate) (i : nat) (b : bytes) (off : Z),
  bhs (fst (bf_step t (HWriteAt i b off))) = bhs t.
Proof. exact bytefile_writeat_handles. Qed.
Print Assumptions C02_spec_writeat_handles.

(* and so does the Go code: ReadAt / WriteAt restore the offset on every path *)
Theorem C02_positional_handles : forall (s : fstate) (o : op),
  (match o with HReadAt _ _ _ | HWriteAt _ _ _ => True | _ => False end) ->
  fhandles (fst (mf_step s o)) = fhandles s.
Proof. exact memfile_positional_handles. Qed.
Print Assumptions C02_positional_handles.

(* 5. non-vacuity / sanity ------------------------------------------------------------------- *)

(* handle 0 read-write, handle 1 read-only, both on the content 01 02 03: seek past EOF, write
   (zero-filled gap), read everything back through the other handle, refused write, truncate,
   reads up to and at EOF, close, write on closed, stat, missing slot, negative offsets,
   SEEK_END, zero-length read, non-handle op *)
Definition C02_ops1 : list op :=
  [HSeek 0 5 0; HWrite 0 [9;9]%N; HReadAt 1 10 0; HWrite 1 [7]%N; HTruncate 0 2; HRead 1 4;
   HRead 1 4; HClose 0; HWrite 0 [1]%N; HStat 1; HRead 5 1; HWriteAt 0 [4]%N (-1);
   HSeek 1 (-1) 2; HRead 1 0; HRead 1 8; Stat []].

Example C02_ex1_wf : forallb wf_op C02_ops1 = true.
Proof. vm_compute. reflexivity. Qed.

Example C02_ex1_model :
  let '(s, outs) := run_steps mf_step (mf_init [1;2;3]%N [(false,false);(true,false)]) C02_ops1 in
  fdata s = [1;2]%N /\ map hat (fhandles s) = [7; 2] /\
  nth 2 outs ROk = RData [1;2;3;0;0;9;9]%N (Some (E KEOF)) /\
  map (fun '(o, r) => proj o r) (combine C02_ops1 outs) =
    [PPos 5; PCount 2; PBytes [1;2;3;0;0;9;9]%N true; PErr C_READONLY; POk; PBytes [1;2]%N false;
     PBytes [] true; POk; PErr C_CLOSED; PSize 2; PNone; PErr C_INVALID; PPos 1; PBytes [] false;
     PBytes [2]%N false; PNone].
Proof. vm_compute. repeat split; reflexivity. Qed.

Example C02_ex1_spec :
  let '(t, pouts) := bf_run (bf_init [1;2;3]%N [(false,false);(true,false)]) C02_ops1 in
  bdata t = [1;2]%N /\ map bpos (bhs t) = [7; 2]%nat /\
  pouts =
    [PPos 5; PCount 2; PBytes [1;2;3;0;0;9;9]%N true; PErr C_READONLY; POk; PBytes [1;2]%N false;
     PBytes [] true; POk; PErr C_CLOSED; PSize 2; PNone; PErr C_INVALID; PPos 1; PBytes [] false;
     PBytes [2]%N false; PNone].
Proof. vm_compute. repeat split; reflexivity. Qed.

(* write past EOF then read back, at the level of the specification functions *)
Example C02_ex2 : pwrite [1;2]%N 4 [8;9]%N = [1;2;0;0;8;9]%N /\
                  pread (pwrite [1;2]%N 4 [8;9]%N) 1 4 = [2;0;0;8]%N /\
                  go_write [1;2]%N [8;9]%N 4 = [1;2;0;0;8;9]%N /\
                  go_write [1;2;3;4]%N [8;9]%N 1 = [1;8;9;4]%N /\
                  ptrunc [1;2]%N 4 = [1;2;0;0]%N /\ ptrunc [1;2;3]%N 1 = [1]%N.
Proof. vm_compute. repeat split; reflexivity. Qed.

(* the hypothesis wf_op is needed FOR THE MODEL (not for Go, where len(buf) < 0 cannot be written):
   a "buffer of length -1" would move the offset to -1, and the next Write would evaluate
   data[:-1] *)
Example C02_ex3_wf_needed :
  snd (run_steps mf_step (mf_init [1;2;3]%N [(false,false)]) [HRead 0 (-1); HWrite 0 [7]%N])
  = [RData [] None; RPanic].
Proof. vm_compute. reflexivity. Qed.

(* zero-length writes past EOF (Write after a seek, WriteString, WriteAt) change neither the
   content nor the size nor an offset, in the model and in the specification; a second Close
   reports the closed error and changes nothing *)
Definition C02_ops4 : list op :=
  [HSeek 0 5 0; HWrite 0 []; HStat 0; HWriteString 0 []; HWriteAt 0 [] 9; HStat 0; HRead 1 8;
   HWrite 0 [9]%N; HStat 0; HClose 0; HClose 0; HWrite 0 []; HWriteAt 0 [] (-1)].

Example C02_ex4_model :
  let '(s, outs) := run_steps mf_step (mf_init [1;2;3]%N [(false,false);(false,false)]) C02_ops4 in
  fdata s = [1;2;3;0;0;9]%N /\ map hat (fhandles s) = [6; 3] /\
  nth 10 outs ROk = RErr (E KClosed) /\
  map (fun '(o, r) => proj o r) (combine C02_ops4 outs) =
    [PPos 5; PCount 0; PSize 3; PCount 0; PCount 0; PSize 3; PBytes [1;2;3]%N false;
     PCount 1; PSize 6; POk; PErr C_CLOSED; PErr C_CLOSED; PErr C_INVALID].
Proof. vm_compute. repeat split; reflexivity. Qed.

Example C02_ex4_spec :
  let '(t, pouts) := bf_run (bf_init [1;2;3]%N [(false,false);(false,false)]) C02_ops4 in
  bdata t = [1;2;3;0;0;9]%N /\ map bpos (bhs t) = [6; 3]%nat /\
  pouts =
    [PPos 5; PCount 0; PSize 3; PCount 0; PCount 0; PSize 3; PBytes [1;2;3]%N false;
     PCount 1; PSize 6; POk; PErr C_CLOSED; PErr C_CLOSED; PErr C_INVALID].
Proof. vm_compute. repeat split; reflexivity. Qed.

(* the hypothesis b <> [] of C02_go_write_is_pwrite is needed: the slice arithmetic by itself
   zero-extends on an empty payload past EOF, the specification does not *)
Example C02_ex5_nonempty_needed :
  go_write [1;2]%N [] 4 = [1;2;0;0]%N /\ pwrite [1;2]%N 4 [] = [1;2]%N /\
  go_write [1;2]%N [] 1 = [1;2]%N.
Proof. vm_compute. repeat split; reflexivity. Qed.
