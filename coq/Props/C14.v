(* C14 — zipfs and tarfs expose archive contents faithfully and immutably.
   Statements only; proofs are in Proofs/ (ZipReadProof, TarReadProof, ArchiveIndexProof,
   PathCleanIdem, TarOrderProof, ArchiveProof).

   Models: Model/Zip.v (zipfs/fs.go, zipfs/file.go), Model/Tar.v (tarfs/fs.go, tarfs/file.go); the
   theorems are about legacy = false, i.e. the code with the patches Z1, Z2, T1, T2 of
   REPORT-c14.md applied.  The *_refuted statements at the end show what legacy = true (the code
   before the patches) does instead.

   An archive is a list of entries (raw header name, directory flag, bytes).  wf_archive a: the
   entries' cleaned paths are pairwise different and none of them is the root.  A name p
   "addresses" an entry when it cleans to the entry's cleaned path (splitpath p = ekey e). *)
From AF Require Import Lib.Bytes Lib.Path Lib.Ops Gen.Consts Model.ByteFile Model.Archive Model.Zip Model.Tar
  Proofs.ArchiveLemmas Proofs.ZipReadProof Proofs.TarReadProof Proofs.ArchiveIndexProof Proofs.PathCleanIdem
  Proofs.TarOrderProof Proofs.ArchiveProof.
From Coq Require Import Permutation Sorted.
Local Open Scope Z_scope.

(* ------------------------------------------------------------------ (a) reads are exact
   For EVERY well-formed archive, EVERY file entry e of it and EVERY program made of
   Open / Read / ReadAt / Seek / Close — any number of handles opened at any time under any names
   that address e, any chunk sizes, offsets and whence values — the projected results
   (bytes delivered, end-of-file reports, positions, error classes; Archive.proj14) are those of the
   flat byte array econtent e with read-only handles (ByteFile.bf_step via Archive.aspec_step). *)
Theorem C14_reads_exact_zip : forall (a : archive) (e : aentry) (prog : list op),
  wf_archive a -> In e a -> eisdir e = false ->
  (forall o, In o prog -> is_read_op o = true) ->
  (forall q, In (Open q) prog -> splitpath q = ekey e) ->
  proj14_all prog (zip_run false a prog) = snd (aspec_run true (mkBS (econtent e) []) prog).
Proof. exact zip_reads_exact. Qed.
Print Assumptions C14_reads_exact_zip.

Theorem C14_reads_exact_tar : forall (a : archive) (e : aentry) (prog : list op),
  wf_archive a -> In e a -> eisdir e = false ->
  (forall o, In o prog -> is_read_op o = true) ->
  (forall q, In (Open q) prog -> splitpath q = ekey e) ->
  proj14_all prog (tar_run false a prog) = snd (aspec_run false (mkBS (econtent e) []) prog).
Proof. exact tar_reads_exact. Qed.
Print Assumptions C14_reads_exact_tar.

(* the same for ANY archive (duplicate names, odd names): whichever entry the opened names
   resolve to in the index, exactly its bytes are read *)
Theorem C14_reads_exact_resolved_zip : forall (a : archive) (e : aentry) (prog : list op),
  eisdir e = false ->
  (forall o, In o prog -> is_read_op o = true) ->
  (forall q, In (Open q) prog -> zip_resolves (zip_new false a) q e) ->
  proj14_all prog (zip_run false a prog) = snd (aspec_run true (mkBS (econtent e) []) prog).
Proof. exact zip_reads_exact_resolved. Qed.
Print Assumptions C14_reads_exact_resolved_zip.

Theorem C14_reads_exact_resolved_tar : forall (a : archive) (e : aentry) (prog : list op),
  eisdir e = false ->
  (forall o, In o prog -> is_read_op o = true) ->
  (forall q, In (Open q) prog -> tar_resolves e (tar_new false a) q) ->
  proj14_all prog (tar_run false a prog) = snd (aspec_run false (mkBS (econtent e) []) prog).
Proof. exact tar_reads_exact_resolved. Qed.
Print Assumptions C14_reads_exact_resolved_tar.

(* proj14 does not compare the EOF flag of a Read that delivers bytes (io.Reader allows data
   together with io.EOF, zipfs does that).  It is never early: after a Read that reported EOF the
   handle's offset is the entry's size.  (tarfs reports EOF only with zero bytes, which (a) compares.) *)
Theorem C14_eof_only_at_end_zip : forall (a : archive) (prog : list op) (i : nat) (n : Z) x er,
  let s := fst (arun (zip_step false) (zip_init false a) prog) in
  snd (zip_step false s (HRead i n)) = RData x (Some er) -> is_eof er = true ->
  exists h e, nth_error (zhs (fst (zip_step false s (HRead i n)))) i = Some h /\
              zfile h = Some e /\ zoff h = esize e.
Proof. exact zip_eof_only_at_end. Qed.
Print Assumptions C14_eof_only_at_end_zip.

(* ------------------------------------------------------------------ (b) no panics
   EVERY archive (no well-formedness needed), EVERY program over the whole operation language of
   Lib/Ops.v, any number of handles on any entries, any sizes/offsets/whence/count values. *)
Theorem C14_never_panics_zip : forall (a : archive) (prog : list op), ~ In RPanic (zip_run false a prog).
Proof. exact zip_never_panics. Qed.
Print Assumptions C14_never_panics_zip.

(* tarfs: File.Stat and File.Name after Close dereference the header Close has cleared; the property
   speaks of read positions, those two calls on a closed handle are outside it (tar_scope excludes
   HStat / HName; see REPORT-c14.md, observation O1) *)
Theorem C14_never_panics_tar : forall (a : archive) (prog : list op),
  (forall o, In o prog -> tar_scope o = true) -> ~ In RPanic (tar_run false a prog).
Proof. exact tar_never_panics. Qed.
Print Assumptions C14_never_panics_tar.

(* ------------------------------------------------------------------ (c) entries are found
   In every well-formed archive every entry is found by Stat and by Open under every name that
   addresses it — in particular its cleaned path and its raw header name —, whatever handles are
   open; Stat reports the entry's directory flag and size; Open yields a fresh handle at offset 0. *)
Theorem C14_entries_found_zip : forall (a : archive) (e : aentry) (p : str) (hs : list zh),
  wf_archive a -> In e a -> addresses p e ->
  exists fi,
    zip_step false (mkZS (zip_new false a) hs) (Stat p) = (mkZS (zip_new false a) hs, RInfo fi) /\
    fi_dir fi = eisdir e /\ fi_size fi = esize e /\
    zip_step false (mkZS (zip_new false a) hs) (Open p) =
      (mkZS (zip_new false a) (hs ++ [mkZH (Some e) (eisdir e) false 0 [] None]), RHandle (length hs)).
Proof. exact zip_entry_found. Qed.
Print Assumptions C14_entries_found_zip.

Theorem C14_entries_found_tar : forall (a : archive) (e : aentry) (p : str) (hs : list th) (sh : shared),
  wf_archive a -> In e a -> addresses p e ->
  exists fi,
    tar_step false (mkTS (tar_new false a) hs sh) (Stat p) = (mkTS (tar_new false a) hs sh, RInfo fi) /\
    fi_dir fi = eisdir e /\ fi_size fi = esize e /\
    tar_step false (mkTS (tar_new false a) hs sh) (Open p) =
      (mkTS (tar_new false a) (hs ++ [mkTH (Some e) (ekey e) false 0]) sh, RHandle (length hs)).
Proof. exact tar_entry_found. Qed.
Print Assumptions C14_entries_found_tar.

Theorem C14_cleaned_path_addresses : forall e : aentry, addresses (cpath (ename e)) e /\ addresses (ename e) e.
Proof. intros e. split; [apply addresses_cleaned|apply addresses_raw]. Qed.
Print Assumptions C14_cleaned_path_addresses.

(* ------------------------------------------------------------------ (d) listings are exact
   h is the handle Open returns for a directory entry (see C14_entries_found_zip, _tar) or for the root.
   Readdir and Readdirnames answer from one list l that is a permutation of the entries stored
   directly under that directory (Archive.spec_children); count > 0 returns the first count of l,
   count <= 0 all of it.  zipfs iterates a Go map: the order of l is unspecified. *)
Theorem C14_listing_exact_zip : forall (a : archive) (h : zh) (d : str),
  wf_archive a ->
  (h = mkZH None true false 0 [] None /\ d = s_slash \/
   exists e, In e a /\ eisdir e = true /\ h = mkZH (Some e) true false 0 [] None /\ d = joined (ename e)) ->
  exists l, Permutation l (spec_children a d) /\
    forall count,
      z_readdir (zip_new false a) h count = RInfos (map zinfo (take_count count l)) None /\
      z_readdirnames (zip_new false a) h count = RNames (map (fun x => snd (ekey x)) (take_count count l)) None.
Proof. exact zip_listing_exact. Qed.
Print Assumptions C14_listing_exact_zip.

Theorem C14_listing_exact_tar : forall (a : archive) (h : th) (e : aentry) (k : str * str) (pos : Z),
  wf_archive a ->
  h = mkTH (Some e) k false pos -> eisdir e = true -> (e = tar_root \/ In e a) ->
  exists l, Permutation l (spec_children a (joined (ename e))) /\
    forall count,
      t_readdir (tar_new false a) h count = RInfos (map tinfo (take_count count l)) None /\
      t_readdirnames (tar_new false a) h count = RNames (map (fun x => fi_name (tinfo x)) (take_count count l)) None.
Proof. exact tar_listing_exact. Qed.
Print Assumptions C14_listing_exact_tar.

(* order (tarfs sorts): the names of a listing ascend *)
Theorem C14_listing_sorted_tar : forall (m : list (str * aentry)),
  StronglySorted (fun k1 k2 => bltb k2 k1 = false)
    (map fst (filter (fun fe => negb (is_empty (fst fe))) (sort_by key_lt m))).
Proof. exact tar_listing_sorted. Qed.
Print Assumptions C14_listing_sorted_tar.

(* ------------------------------------------------------------------ (e) immutability
   Every mutating call (Create, Mkdir, MkdirAll, Remove, RemoveAll, Rename, Chmod, Chown, Chtimes,
   OpenFile with any flag other than O_RDONLY, Write, WriteAt, WriteString, Truncate), in every
   state, is refused with EPERM / EROFS and returns the state unchanged; the index is never written
   by any call; and deleting the mutating calls from a program changes neither the final state nor
   the result of any other call. *)
Theorem C14_immutable_zip : forall legacy (s : zst) (o : op),
  is_mutator o = true -> fst (zip_step legacy s o) = s /\ refused (snd (zip_step legacy s o)).
Proof. exact zip_mutators_refused. Qed.
Print Assumptions C14_immutable_zip.

Theorem C14_immutable_tar : forall legacy (s : tst) (o : op),
  is_mutator o = true -> fst (tar_step legacy s o) = s /\ refused (snd (tar_step legacy s o)).
Proof. exact tar_mutators_refused. Qed.
Print Assumptions C14_immutable_tar.

Theorem C14_index_constant_zip : forall legacy s o, zix (fst (zip_step legacy s o)) = zix s.
Proof. exact zip_index_constant. Qed.
Print Assumptions C14_index_constant_zip.

Theorem C14_index_constant_tar : forall s o, tix (fst (tar_step false s o)) = tix s.
Proof. exact tar_index_constant. Qed.
Print Assumptions C14_index_constant_tar.

Theorem C14_view_unchanged_zip : forall (a : archive) (prog : list op),
  let full := arun (zip_step false) (zip_init false a) prog in
  let pure := arun (zip_step false) (zip_init false a) (filter keeps prog) in
  fst pure = fst full /\
  snd pure = map snd (filter (fun x => keeps (fst x)) (combine prog (snd full))).
Proof. exact zip_view_unchanged. Qed.
Print Assumptions C14_view_unchanged_zip.

Theorem C14_view_unchanged_tar : forall (a : archive) (prog : list op),
  let full := arun (tar_step false) (tar_init false a) prog in
  let pure := arun (tar_step false) (tar_init false a) (filter keeps prog) in
  fst pure = fst full /\
  snd pure = map snd (filter (fun x => keeps (fst x)) (combine prog (snd full))).
Proof. exact tar_view_unchanged. Qed.
Print Assumptions C14_view_unchanged_tar.

(* ------------------------------------------------------------------ examples / non-vacuity *)
Definition ex_f : aentry := mkEntry [102]%N false [97; 98; 99]%N.                     (* "f" = "abc" *)
Definition ex_ab : aentry := mkEntry [97; 47; 47; 98]%N false [120; 121]%N.             (* "a//b" = "xy" *)
Definition ex_d : aentry := mkEntry [100; 47]%N true [].                                 (* "d/" *)
Definition ex_arch : archive := [ex_f; ex_ab; ex_d].

Example C14_ex_wf : wf_archive ex_arch.
Proof.
  split.
  - vm_compute. repeat constructor; cbn; intuition discriminate.
  - intros e [<-|[<-|[<-|[]]]]; vm_compute; discriminate.
Qed.

(* two handles on "f", interleaved: each reads "abc" from its own offset *)
Example C14_ex_two_handles :
  tar_run false ex_arch [Open [102]; HRead 0 2; Open [47; 102]; HRead 1 9; HRead 0 9; HRead 0 1]%N
  = [RHandle 0; RData [97; 98]%N None; RHandle 1; RData [97; 98; 99]%N None; RData [99]%N None;
     RData [] (Some (E KEOF))].
Proof. vm_compute. reflexivity. Qed.

Example C14_ex_zip_beyond_end :
  zip_run false ex_arch [Open [102]; HReadAt 0 2 7; HReadAt 0 2 (-1); HReadAt 0 5 1]%N
  = [RHandle 0; RData [] (Some (E KEOF)); RData [] (Some (EW KNegative)); RData [98; 99]%N (Some (E KEOF))].
Proof. vm_compute. reflexivity. Qed.

(* the root of an archive without top-level entries lists as empty; "a" is an implicit directory *)
Example C14_ex_zip_root_listing :
  zip_run false [ex_ab] [Open [47]; HReaddirnames 0 (-1); Stat [97]]%N
  = [RHandle 0; RNames [] None; RErr (EW KENOENT)].
Proof. vm_compute. reflexivity. Qed.

(* ------------------------------------------------------------------ the code before the patches *)
(* D7 (T1): tarfs handles of one entry share their offset — the second Open reads nothing *)
Theorem C14_reads_exact_tar_legacy_refuted : exists (a : archive) (e : aentry) (prog : list op),
  wf_archive a /\ In e a /\ eisdir e = false /\
  (forall o, In o prog -> is_read_op o = true) /\
  (forall q, In (Open q) prog -> splitpath q = ekey e) /\
  proj14_all prog (tar_run true a prog) <> snd (aspec_run false (mkBS (econtent e) []) prog).
Proof.
  exists ex_arch, ex_f, [Open [102]; HRead 0 9; Open [102]; HRead 1 9]%N.
  split; [exact C14_ex_wf|]. split; [now left|]. split; [reflexivity|].
  split; [intros o [<-|[<-|[<-|[<-|[]]]]]; reflexivity|].
  split; [intros q [E|[E|[E|[E|[]]]]]; inversion E; reflexivity|].
  vm_compute. discriminate.
Qed.

(* D8 (Z1): zipfs ReadAt panics beyond the end and at negative offsets *)
Theorem C14_never_panics_zip_legacy_refuted : exists (a : archive) (prog : list op),
  In RPanic (zip_run true a prog).
Proof. exists ex_arch, [Open [102]; HReadAt 0 1 4]%N. vm_compute. auto. Qed.

Theorem C14_never_panics_zip_legacy_refuted_negative : exists (a : archive) (prog : list op),
  In RPanic (zip_run true a prog).
Proof. exists ex_arch, [Open [102]; HReadAt 0 1 (-1)]%N. vm_compute. auto. Qed.

(* Z2: the root of a zip archive without top-level entries cannot be listed *)
Theorem C14_listing_exact_zip_legacy_refuted : exists (a : archive),
  wf_archive a /\ z_readdir (zip_new true a) (mkZH None true false 0 [] None) (-1) = RErr (EW KENOENT).
Proof.
  exists [ex_ab]. split; [|vm_compute; reflexivity]. split.
  - vm_compute. repeat constructor; cbn; intuition discriminate.
  - intros e [<-|[]]; vm_compute; discriminate.
Qed.

(* T2: an empty directory entry of a tar archive cannot be listed *)
Theorem C14_listing_exact_tar_legacy_refuted : exists (a : archive) (e : aentry),
  wf_archive a /\ In e a /\ eisdir e = true /\
  t_readdir (tar_new true a) (mkTH (Some e) (ekey e) false 0) (-1) = RErr (EW KENOENT).
Proof.
  exists ex_arch, ex_d. split; [exact C14_ex_wf|]. split; [cbn; auto|]. split; [reflexivity|].
  vm_compute. reflexivity.
Qed.
