(* C11 — CacheOnReadFs, the write path.
   "When all modifications go through the caching filesystem, then after every call each file present in the
    cache layer exists in the base with identical content, and reading any file through the caching filesystem
    returns what the base holds.  Creating, writing at any offset, truncating, renaming and removing through
    the union reach the base as well as the cache."
   Statements only; proofs in Proofs/CacheProof.v.  Models: Model/Cache.v, Model/Union.v (UnionFile), MemMapFs
   layers (Model/MemFs.v, Model/MemFile.v). *)
From AF Require Import Lib.Bytes Lib.Path Lib.Ops Gen.Consts Model.MemFile Model.MemFs Model.Union Model.Cow
  Model.Cache Model.Stack Proofs.MemFsBasics Proofs.CacheProof.
Local Open Scope Z_scope.

(* The two handles of a UnionFile are coherent [PairCoh]: equal offset, equal closed / read-only flags, and the
   files they refer to hold equal bytes.  One method of the UnionFile — Read (buffer length >= 0), Write,
   WriteString, WriteAt, Seek (any whence), Truncate, at ALL offsets and sizes, failing or not — leaves them
   coherent.  ReadAt: under the hypothesis that unionFile.go's ReadAt does not seek the base handle
   (constant union_readat_seeks_base, regenerated from the Go source on every run). *)
Theorem C11_union_handle_coherent :
  forall (sb sl : mst) (bh lh : nat) (off : Z) (files : list finfo) (o : op),
  coh_op o = true ->
  (forall i n k, o = HReadAt i n k -> union_readat_seeks_base = 0) ->
  PairCoh sb sl bh lh ->
  exists sb' sl' r,
    uf_op m_step m_step sb sl (mkUF (Some bh) (Some lh) off files) o = (sb', sl', mkUF (Some bh) (Some lh) off files, r) /\
    PairCoh sb' sl' bh lh.
Proof. exact pair_coh_preserved. Qed.
Print Assumptions C11_union_handle_coherent.

(* The invariant over the whole handle table of the caching filesystem: every UnionFile with both handles is
   coherent.  A handle method through the cache on slot i preserves it for EVERY slot, provided the other
   UnionFiles are [Aligned] with slot i: other inner handles, and "same base file iff same cached file".
   Full strength (not proved): Aligned is itself an invariant of cache_step from the empty table (Open /
   Create / OpenFile hand out fresh inner handles on the nodes the same name denotes in both layers; Rename /
   Remove keep node identities) — a simulation between the two path maps. *)
Theorem C11_table_coherent_partial :
  forall (dur now : Z) (sb sl : mst) (tbl : list chandle) (i : nat) (u : ufile) (bh lh : nat) (o : op),
  Coh (sb, sl, tbl) -> Aligned (sb, sl, tbl) i ->
  nth_error tbl i = Some (HU u) -> ubase u = Some bh -> ulayer u = Some lh ->
  op_handle_of o = Some i -> coh_op o = true ->
  (forall i n k, o = HReadAt i n k -> union_readat_seeks_base = 0) ->
  Coh (fst (cache_step m_step m_step dur now (sb, sl, tbl) o)).
Proof. exact Coh_preserved_partial. Qed.
Print Assumptions C11_table_coherent_partial.

(* Mutators through the cache call the base first and, unless it failed, the layer with the same call.
   [base_then_layer]: the base's error (or panic) is the result and the layer is not called; otherwise the
   layer's result is the result. *)
Theorem C11_mutators_reach_both :
  forall (B L : Type) (bstep : B -> op -> B * res) (lstep : L -> op -> L * res) (dur now : Z) (sb : B) (sl : L)
         (tbl : list chandle),
  (* Chtimes, Chmod, Chown, Rename, Remove, RemoveAll on a cached name *)
  (forall o sb1 sl1 fi, both_op o = true ->
     cache_status bstep lstep dur now sb sl (op_path o) = (sb1, sl1, CHit, fi, None) ->
     cache_step bstep lstep dur now (sb, sl, tbl) o = base_then_layer bstep lstep sb1 sl1 tbl o) /\
  (* ... on a name not cached / cached stale: Chtimes, Chmod, Chown, Rename copy the file into the layer first
     (CacheOnReadFs.copyToLayer = cache_copy_to_layer); RemoveAll and Remove do not.
     Remove on a MISS [miss_base_only o cs: o = Remove _, cs = CMiss] — the layer is known not to hold the
     name — calls the base only (since the fix, cache_remove_miss_base_only = 1) and returns its result as it is *)
  (forall o sb1 sl1 cs fi, both_op o = true -> cs = CMiss \/ cs = CStale ->
     cache_status bstep lstep dur now sb sl (op_path o) = (sb1, sl1, cs, fi, None) ->
     cache_step bstep lstep dur now (sb, sl, tbl) o =
     if miss_base_only o cs then let '(sb2, r) := bstep sb1 o in ((sb2, sl1, tbl), r)
     else if copies_first o then
       match cache_copy_to_layer bstep lstep sb1 sl1 (op_path o) with
       | (sb2, sl2, Some ce) => ((sb2, sl2, tbl), RErr ce)
       | (sb2, sl2, None) => base_then_layer bstep lstep sb2 sl2 tbl o
       end
     else base_then_layer bstep lstep sb1 sl1 tbl o) /\
  (forall p sb1 sl1 fi,
     cache_status bstep lstep dur now sb sl p = (sb1, sl1, CMiss, fi, None) ->
     cache_step bstep lstep dur now (sb, sl, tbl) (Remove p) =
     let '(sb2, r) := bstep sb1 (Remove p) in ((sb2, sl1, tbl), r)) /\
  (* Mkdir (MkdirAll on the layer), MkdirAll *)
  (forall p perm,
     cache_step bstep lstep dur now (sb, sl, tbl) (Mkdir p perm) =
     match bstep sb (Mkdir p perm) with
     | (sb1, ROk) => let '(sl1, r) := lstep sl (MkdirAll p perm) in ((sb1, sl1, tbl), r)
     | (sb1, r) => ((sb1, sl, tbl), r)
     end) /\
  (forall p perm,
     cache_step bstep lstep dur now (sb, sl, tbl) (MkdirAll p perm) =
     match bstep sb (MkdirAll p perm) with
     | (sb1, ROk) => let '(sl1, r) := lstep sl (MkdirAll p perm) in ((sb1, sl1, tbl), r)
     | (sb1, r) => ((sb1, sl, tbl), r)
     end) /\
  (* Create: both layers, the handle is a UnionFile over both *)
  (forall p,
     cache_step bstep lstep dur now (sb, sl, tbl) (Create p) =
     match bstep sb (Create p) with
     | (sb1, RHandle bh) =>
       match lstep sl (Create p) with
       | (sl1, RHandle lh) => ((sb1, sl1, tbl ++ [HU (mkUF (Some bh) (Some lh) 0 [])]), RHandle (length tbl))
       | (sl1, r) => ((fst (bstep sb1 (HClose bh)), sl1, tbl), RErr (err_of r))
       end
     | (sb1, r) => ((sb1, sl, tbl), RErr (err_of r))
     end) /\
  (* OpenFile with a write flag on a cached name: both layers, a UnionFile over both *)
  (forall p flag perm sb1 sl1 fi, Z.land flag cache_mask <> 0 ->
     cache_status bstep lstep dur now sb sl p = (sb1, sl1, CHit, fi, None) ->
     cache_step bstep lstep dur now (sb, sl, tbl) (OpenFile p flag perm) =
     match bstep sb1 (OpenFile p flag perm) with
     | (sb3, RHandle bh) =>
       match lstep sl1 (OpenFile p flag perm) with
       | (sl3, RHandle lh) => ((sb3, sl3, tbl ++ [HU (mkUF (Some bh) (Some lh) 0 [])]), RHandle (length tbl))
       | (sl3, r) => ((fst (bstep sb3 (HClose bh)), sl3, tbl), RErr (err_of r))
       end
     | (sb3, r) => ((sb3, sl1, tbl), RErr (err_of r))
     end).
Proof.
  intros. split; [|split; [|split; [|split; [|split; [|split]]]]]; intros.
  - now apply mutator_hit with (fi := fi).
  - now apply mutator_miss_or_stale with (cs := cs) (fi := fi).
  - now apply remove_miss with (fi := fi).
  - apply mkdir_both.
  - apply mkdirall_both.
  - apply create_both.
  - now apply openfile_write_hit with (fi := fi).
Qed.
Print Assumptions C11_mutators_reach_both.

(* ---- the ReadAt clause is refuted for unionFile.go as long as its ReadAt seeks the base (D10) ---- *)
Definition p_f : str := [47; 102]%N.                                        (* /f *)
Definition hello : bytes := [104;101;108;108;111;32;119;111;114;108;100]%N. (* "hello world" *)
Definition d10_items : list item :=
  [IOp [0%nat] (Some 9%nat) (Create p_f); IOp [0%nat] None (HWrite 9 hello); IOp [0%nat] None (HClose 9);
   IOp [1%nat] (Some 8%nat) (Create p_f); IOp [1%nat] None (HWrite 8 hello); IOp [1%nat] None (HClose 8);
   IOp [] (Some 0%nat) (OpenFile p_f 2 0);            (* O_RDWR through the cache: a UnionFile *)
   IOp [] None (HReadAt 0 1 0);                       (* ReadAt(1 byte, offset 0) *)
   IOp [] None (HWrite 0 [88;89]%N);                  (* Write("XY") *)
   IOp [] None (HClose 0); ISnap [0%nat]; ISnap [1%nat]].
Fixpoint datas_eqb (a b : list entry) : bool :=
  match a, b with
  | [], [] => true
  | x :: a', y :: b' => beqb (e_path x) (e_path y) && beqb (e_data x) (e_data y) && datas_eqb a' b'
  | _, _ => false
  end.
Definition layers_differ (l : list tres) : bool :=
  match rev l with TSnap l1 :: TSnap l0 :: _ => negb (datas_eqb l0 l1) | _ => false end.
(* with today's unionFile.go (constant = 1): base "hXYlo world", cache "XYllo world"; with ReadAt that
   does not seek the base (constant = 0): both "XYllo world" *)
Example C11_readat_refuted :
  layers_differ (run_case (SCache 0 SMem SMem) d10_items) = (union_readat_seeks_base =? 1).
Proof. vm_compute. reflexivity. Qed.

(* ---- non-vacuity: a reachable state with a UnionFile in the table satisfies Coh and Aligned ---- *)
Definition c11_demo : mst * mst * list chandle :=
  Eval vm_compute in
  fst (run_steps (cache_step m_step m_step 0 BIG) (m_init, m_init, [])
         [Create p_f; HWrite 0 hello; HSeek 0 3 0]).
Example C11_ex_coh : Coh c11_demo /\ Aligned c11_demo 0.
Proof.
  split.
  - intros i u bh lh Hn Hb Hl. destruct i as [|[|i]]; cbn in Hn; try discriminate Hn.
    inversion Hn; subst u. cbn in Hb, Hl. inversion Hb; inversion Hl; subst.
    unfold PairCoh, hproj_eq. repeat eexists; vm_compute; reflexivity.
  - intros u bh lh hb hl Hn Hb Hl Hhb Hhl j u2 bh2 lh2 hb2 hl2 Hj Hn2.
    destruct j as [|[|j]]; [contradiction | discriminate Hn2 | discriminate Hn2].
Qed.
(* and the theorem's conclusion computes on it: Write("XY") at offset 3 reaches both layers at offset 3 *)
Example C11_ex_write_both :
  let '((sb, sl, _), r) := cache_step m_step m_step 0 BIG c11_demo (HWrite 0 [88;89]%N) in
  (r, map e_data (snapshot sb), map e_data (snapshot sl)) =
  (RCount 2 None, [[]; [104;101;108;88;89;32;119;111;114;108;100]%N], [[]; [104;101;108;88;89;32;119;111;114;108;100]%N]).
Proof. vm_compute. reflexivity. Qed.
