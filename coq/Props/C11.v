(* C11 — CacheOnReadFs, the write path.
   "When all modifications go through the caching filesystem, then after every call each file present in the
    cache layer exists in the base with identical content, and reading any file through the caching filesystem
    returns what the base holds.  Creating, writing at any offset, truncating, renaming and removing through
    the union reach the base as well as the cache."
   Statements only; proofs in Proofs/CacheProof.v.  Models: Model/Cache.v, Model/Union.v (UnionFile), MemMapFs
   layers (Model/MemFs.v, Model/MemFile.v). *)
From AF Require Import Lib.Bytes Lib.Path Lib.Ops Gen.Consts Model.MemFile Model.MemFs Model.WfOps Model.Union Model.Cow
  Model.Cache Model.Stack Proofs.MemFsBasics Proofs.MemFsWF Proofs.CacheProof Proofs.CacheInv Proofs.CacheInvPath Proofs.CacheInvMain.
Local Open Scope Z_scope.

(* The two handles of a UnionFile are coherent [PairCoh]: equal offset, equal closed / read-only flags, and the
   files they refer to hold equal bytes.  One method of the UnionFile — Read (buffer length >= 0), Write,
   WriteString, WriteAt, Seek (any whence), Truncate, at ALL offsets and sizes, failing or not — leaves them
   coherent.  ReadAt: under the hypothesis that unionFile.go's ReadAt does not seek the base handle
   (constant union_readat_seeks_base, regenerated from the Go source on every run). *)
Theorem C11_union_handle_coherent :
  forall (sb sl : mst) (bh lh : nat) (off : Z) (files : list finfo) (o : op),
  coh_op o = true ->
  (forall i n k, o = HReadAt i n k -> union_readat_seeks_base = 0) ->
  PairCoh sb sl bh lh ->
  exists sb' sl' r,
    uf_op m_step m_step sb sl (mkUF (Some bh) (Some lh) off files) o = (sb', sl', mkUF (Some bh) (Some lh) off files, r) /\
    PairCoh sb' sl' bh lh.
Proof. exact pair_coh_preserved. Qed.
Print Assumptions C11_union_handle_coherent.

(* ---- THE INVARIANT (Proofs/CacheInv.v).  [CInv (sb, sl, tbl)]: both MemMapFs layers satisfy the invariant WF of
   MemMapFs (C01) and there is a pairing of layer nodes with base nodes — a partial injection — such that
     * every name of the cache layer denotes, in the base, the partner of the layer's node, and a base name
       whose node has a partner denotes that partner in the layer (a simulation between the two path maps:
       the layer's tree is part of the base's tree);
     * partners are of the same kind and hold the same bytes; directories of the base are empty;
     * every UnionFile of the handle table has a base handle and a layer handle with equal offset / closed /
       read-only flags on partners (handles on directories cannot write); base-only and layer-only handles
       are read-only or closed; different table slots use different inner handles.
   It gives [Coh] (every UnionFile coherent), [Aligned] for every slot — the hypothesis of the former
   C11_table_coherent_partial — and [LayerInBase]: "each file present in the cache layer exists in the base with
   identical content". ---- *)
Theorem C11_invariant_gives :
  forall st, CInv st -> Coh st /\ (forall i, Aligned st i) /\ LayerInBase st.
Proof. intros st C. split; [now apply CInv_Coh|]. split; [intros i; now apply CInv_Aligned | now apply CInv_layer_in_base]. Qed.
Print Assumptions C11_invariant_gives.

(* the empty pair satisfies it *)
Theorem C11_invariant_initial : CInv (m_init, m_init, []).
Proof. exact CInv_init. Qed.
Print Assumptions C11_invariant_initial.

(* ... and so does every COHERENT PAIR under an empty handle table ("starting from any coherent (base, cache) pair"):
   both layers well-formed (WF: reachable by well-formed programs, C01), the directories of the base empty
   [dirs_empty_b, computable], each name of the cache layer a name of the base of the same kind with the same
   content [LayerInBase] *)
Theorem C11_invariant_coherent_pair :
  forall sb sl : mst, WF sb -> WF sl -> dirs_empty_b sb = true -> LayerInBase (sb, sl, []) -> CInv (sb, sl, []).
Proof. exact CInv_of_coherent. Qed.
Print Assumptions C11_invariant_coherent_pair.

(* EVERY well-formed call through the cache preserves it: all 25 operations (Create, Mkdir, MkdirAll, Open, OpenFile
   with every well-formed flag word, Remove, RemoveAll, Rename incl. whole subtrees and into directories the
   cache does not hold yet, Stat, Chmod, Chown, Chtimes, and the 13 handle methods on every kind of slot), every
   cache duration, every value of time.Now(), every outcome of cacheStatus (miss / stale / hit; "local" cannot
   arise), every file size.  [cwf_op dur now st o] (Proofs/CacheInvMain.v, computable): o is in the portable class
   of C01 for the BASE's current tree (WfOps.wf_op = wf_op_ord || wf_below: the ordinary POSIX preconditions —
   Read/ReadAt buffer length >= 0, flag words without O_APPEND — OR a creating call whose name passes through a
   regular file of the base: the base answers ENOTDIR; Create / Mkdir / MkdirAll / OpenFile(O_CREATE) then
   leave both layers as they are, Rename may first have copied its source into the layer, which keeps the
   invariant: C11_ex_below_file).  Nothing else: the call that used to be outside the class — OpenFile of a base
   directory that is not a cache hit, copied like a file (EIO) — is repaired (switch cache_openfile_dir_mkdir = 1,
   CacheInvPath.cache_openfile_dir_mkdir_fact; C11_openfile_uncached_dir_before_fix). *)
Theorem C11_invariant_step :
  forall (dur now : Z) (st : mst * mst * list chandle) (o : op),
  CInv st -> cwf_op dur now st o = true -> CInv (fst (cache_step m_step m_step dur now st o)).
Proof. exact CInv_step. Qed.
Print Assumptions C11_invariant_step.

(* FULL STRENGTH of the table clause (formerly C11_table_coherent_partial, whose hypothesis Aligned is now a
   consequence of the invariant): after EVERY call of EVERY well-formed sequence of calls through the cache
   (each call with its own time.Now()), from ANY pair that satisfies the invariant — in particular from the
   empty pair — every UnionFile of the table is coherent, every slot is aligned with every other, and each file
   (each name) of the cache layer exists in the base with the same kind and identical content.
   Nothing is missing. *)
Theorem C11_table_coherent :
  forall (dur : Z) (steps1 steps2 : list (Z * op)) (st : mst * mst * list chandle),
  CInv st -> cwf_seq dur st (steps1 ++ steps2) = true ->
  Coh (crun dur st steps1) /\ (forall i, Aligned (crun dur st steps1) i) /\ LayerInBase (crun dur st steps1).
Proof.
  intros dur steps1 steps2 st C Hwf. pose proof (CInv_run_prefix dur steps1 steps2 st C Hwf) as C'.
  split; [now apply CInv_Coh|]. split; [intros i; now apply CInv_Aligned | now apply CInv_layer_in_base].
Qed.
Print Assumptions C11_table_coherent.

Theorem C11_coherent_from_empty :
  forall (dur : Z) (steps : list (Z * op)),
  cwf_seq dur (m_init, m_init, []) steps = true ->
  Coh (crun dur (m_init, m_init, []) steps) /\ (forall i, Aligned (crun dur (m_init, m_init, []) steps) i) /\
  LayerInBase (crun dur (m_init, m_init, []) steps).
Proof. exact cache_coherent_from_empty. Qed.
Print Assumptions C11_coherent_from_empty.

(* the second clause of the property: "reading any file through the caching filesystem returns what the base
   holds".  In every state of the invariant, for every name (any spelling) that denotes a regular file of the
   base, every cache duration and every time: Open through the cache returns a fresh slot holding a layer-only,
   read-only handle at offset 0 on a regular file of the layer whose bytes are the base's (served from the cache
   on a hit, copied first on a miss or a stale entry — the copy cannot fail) ... *)
Theorem C11_read_returns_base :
  forall (dur now : Z) (sb sl : mst) (tbl : list chandle) (p : str) (fb : nat) (nb : node),
  CInv (sb, sl, tbl) ->
  lookup sb (normalize_path p) = Some fb -> get_node sb fb = Some nb -> ndir nb = false ->
  serves (fst (cache_step m_step m_step dur now (sb, sl, tbl) (Open p)))
         (snd (cache_step m_step m_step dur now (sb, sl, tbl) (Open p))) tbl (ndata nb).
Proof. exact read_through_cache. Qed.
Print Assumptions C11_read_returns_base.
(* ... and the first Read on that slot returns the base's bytes, as many as the buffer takes *)
Theorem C11_read_after_open :
  forall (dur now : Z) (st' : mst * mst * list chandle) (r : res) (tbl : list chandle) (d : bytes) (n : Z),
  serves st' r tbl d -> d <> [] -> 0 < n ->
  snd (cache_step m_step m_step dur now st' (HRead (length tbl) n)) = RData (slice d 0 (Z.min n (zlen d))) None.
Proof. exact read_after_open. Qed.
Print Assumptions C11_read_after_open.

(* the one-step lemma the partial theorem consisted of, for ANY state (not necessarily one that satisfies the
   invariant): Coh is preserved by a handle method on slot i when the other slots are aligned with it *)
Theorem C11_table_coherent_step :
  forall (dur now : Z) (sb sl : mst) (tbl : list chandle) (i : nat) (u : ufile) (bh lh : nat) (o : op),
  Coh (sb, sl, tbl) -> Aligned (sb, sl, tbl) i ->
  nth_error tbl i = Some (HU u) -> ubase u = Some bh -> ulayer u = Some lh ->
  op_handle_of o = Some i -> coh_op o = true ->
  (forall i n k, o = HReadAt i n k -> union_readat_seeks_base = 0) ->
  Coh (fst (cache_step m_step m_step dur now (sb, sl, tbl) o)).
Proof. exact Coh_preserved_partial. Qed.
Print Assumptions C11_table_coherent_step.

(* Mutators through the cache call the base first and, unless it failed, the layer with the same call.
   [base_then_layer]: the base's error (or panic) is the result and the layer is not called; otherwise the
   layer's result is the result. *)
Theorem C11_mutators_reach_both :
  forall (B L : Type) (bstep : B -> op -> B * res) (lstep : L -> op -> L * res) (dur now : Z) (sb : B) (sl : L)
         (tbl : list chandle),
  (* Chtimes, Chmod, Chown, Rename, Remove, RemoveAll on a cached name *)
  (forall o sb1 sl1 fi, both_op o = true ->
     cache_status bstep lstep dur now sb sl (op_path o) = (sb1, sl1, CHit, fi, None) ->
     cache_step bstep lstep dur now (sb, sl, tbl) o = base_then_layer bstep lstep sb1 sl1 tbl o) /\
  (* ... on a name not cached / cached stale: Chtimes, Chmod, Chown, Rename copy the file into the layer first
     (CacheOnReadFs.copyToLayer = cache_copy_to_layer); RemoveAll and Remove do not.
     Remove on a MISS [miss_base_only o cs: o = Remove _, cs = CMiss] — the layer is known not to hold the
     name — calls the base only (since the fix, cache_remove_miss_base_only = 1) and returns its result as it is *)
  (forall o sb1 sl1 cs fi, both_op o = true -> cs = CMiss \/ cs = CStale ->
     cache_status bstep lstep dur now sb sl (op_path o) = (sb1, sl1, cs, fi, None) ->
     cache_step bstep lstep dur now (sb, sl, tbl) o =
     if miss_base_only o cs then let '(sb2, r) := bstep sb1 o in ((sb2, sl1, tbl), r)
     else if copies_first o then
       match cache_copy_to_layer bstep lstep sb1 sl1 (op_path o) with
       | (sb2, sl2, Some ce) => ((sb2, sl2, tbl), RErr ce)
       | (sb2, sl2, None) => base_then_layer bstep lstep sb2 sl2 tbl o
       end
     else base_then_layer bstep lstep sb1 sl1 tbl o) /\
  (forall p sb1 sl1 fi,
     cache_status bstep lstep dur now sb sl p = (sb1, sl1, CMiss, fi, None) ->
     cache_step bstep lstep dur now (sb, sl, tbl) (Remove p) =
     let '(sb2, r) := bstep sb1 (Remove p) in ((sb2, sl1, tbl), r)) /\
  (* Mkdir (MkdirAll on the layer), MkdirAll *)
  (forall p perm,
     cache_step bstep lstep dur now (sb, sl, tbl) (Mkdir p perm) =
     match bstep sb (Mkdir p perm) with
     | (sb1, ROk) => let '(sl1, r) := lstep sl (MkdirAll p perm) in ((sb1, sl1, tbl), r)
     | (sb1, r) => ((sb1, sl, tbl), r)
     end) /\
  (forall p perm,
     cache_step bstep lstep dur now (sb, sl, tbl) (MkdirAll p perm) =
     match bstep sb (MkdirAll p perm) with
     | (sb1, ROk) => let '(sl1, r) := lstep sl (MkdirAll p perm) in ((sb1, sl1, tbl), r)
     | (sb1, r) => ((sb1, sl, tbl), r)
     end) /\
  (* Create: both layers, the handle is a UnionFile over both *)
  (forall p,
     cache_step bstep lstep dur now (sb, sl, tbl) (Create p) =
     match bstep sb (Create p) with
     | (sb1, RHandle bh) =>
       match lstep sl (Create p) with
       | (sl1, RHandle lh) => ((sb1, sl1, tbl ++ [HU (mkUF (Some bh) (Some lh) 0 [])]), RHandle (length tbl))
       | (sl1, r) => ((fst (bstep sb1 (HClose bh)), sl1, tbl), RErr (err_of r))
       end
     | (sb1, r) => ((sb1, sl, tbl), RErr (err_of r))
     end) /\
  (* OpenFile with a write flag on a cached name: both layers, a UnionFile over both *)
  (forall p flag perm sb1 sl1 fi, Z.land flag cache_mask <> 0 ->
     cache_status bstep lstep dur now sb sl p = (sb1, sl1, CHit, fi, None) ->
     cache_step bstep lstep dur now (sb, sl, tbl) (OpenFile p flag perm) =
     match bstep sb1 (OpenFile p flag perm) with
     | (sb3, RHandle bh) =>
       match lstep sl1 (OpenFile p flag perm) with
       | (sl3, RHandle lh) => ((sb3, sl3, tbl ++ [HU (mkUF (Some bh) (Some lh) 0 [])]), RHandle (length tbl))
       | (sl3, r) => ((fst (bstep sb3 (HClose bh)), sl3, tbl), RErr (err_of r))
       end
     | (sb3, r) => ((sb3, sl1, tbl), RErr (err_of r))
     end).
Proof.
  intros. split; [|split; [|split; [|split; [|split; [|split]]]]]; intros.
  - now apply mutator_hit with (fi := fi).
  - now apply mutator_miss_or_stale with (cs := cs) (fi := fi).
  - now apply remove_miss with (fi := fi).
  - apply mkdir_both.
  - apply mkdirall_both.
  - apply create_both.
  - now apply openfile_write_hit with (fi := fi).
Qed.
Print Assumptions C11_mutators_reach_both.

(* ---- the ReadAt clause, as a function of the source: the two layers end up different exactly when unionFile.go's
   ReadAt seeks the base handle (D10).  Today's source (fix d073084) does not: the constant is 0, the right-hand
   side is false, the layers agree — and the invariant theorems above use union_readat_fixed.  The Example is a
   regression sentinel: it holds for either value of the constant; with the old ReadAt it says "refuted". ---- *)
Definition p_f : str := [47; 102]%N.                                        (* /f *)
Definition hello : bytes := [104;101;108;108;111;32;119;111;114;108;100]%N. (* "hello world" *)
Definition d10_items : list item :=
  [IOp [0%nat] (Some 9%nat) (Create p_f); IOp [0%nat] None (HWrite 9 hello); IOp [0%nat] None (HClose 9);
   IOp [1%nat] (Some 8%nat) (Create p_f); IOp [1%nat] None (HWrite 8 hello); IOp [1%nat] None (HClose 8);
   IOp [] (Some 0%nat) (OpenFile p_f 2 0);            (* O_RDWR through the cache: a UnionFile *)
   IOp [] None (HReadAt 0 1 0);                       (* ReadAt(1 byte, offset 0) *)
   IOp [] None (HWrite 0 [88;89]%N);                  (* Write("XY") *)
   IOp [] None (HClose 0); ISnap [0%nat]; ISnap [1%nat]].
Fixpoint datas_eqb (a b : list entry) : bool :=
  match a, b with
  | [], [] => true
  | x :: a', y :: b' => beqb (e_path x) (e_path y) && beqb (e_data x) (e_data y) && datas_eqb a' b'
  | _, _ => false
  end.
Definition layers_differ (l : list tres) : bool :=
  match rev l with TSnap l1 :: TSnap l0 :: _ => negb (datas_eqb l0 l1) | _ => false end.
(* with today's unionFile.go (constant = 1): base "hXYlo world", cache "XYllo world"; with ReadAt that
   does not seek the base (constant = 0): both "XYllo world" *)
Example C11_readat_refuted :
  layers_differ (run_case (SCache 0 SMem SMem) d10_items) = (union_readat_seeks_base =? 1).
Proof. vm_compute. reflexivity. Qed.

(* ---- non-vacuity: a reachable state with a UnionFile in the table satisfies Coh and Aligned ---- *)
Definition c11_demo : mst * mst * list chandle :=
  Eval vm_compute in
  fst (run_steps (cache_step m_step m_step 0 BIG) (m_init, m_init, [])
         [Create p_f; HWrite 0 hello; HSeek 0 3 0]).
Example C11_ex_coh : Coh c11_demo /\ Aligned c11_demo 0.
Proof.
  split.
  - intros i u bh lh Hn Hb Hl. destruct i as [|[|i]]; cbn in Hn; try discriminate Hn.
    inversion Hn; subst u. cbn in Hb, Hl. inversion Hb; inversion Hl; subst.
    unfold PairCoh, hproj_eq. repeat eexists; vm_compute; reflexivity.
  - intros u bh lh hb hl Hn Hb Hl Hhb Hhl j u2 bh2 lh2 hb2 hl2 Hj Hn2.
    destruct j as [|[|j]]; [contradiction | discriminate Hn2 | discriminate Hn2].
Qed.
(* and the theorem's conclusion computes on it: Write("XY") at offset 3 reaches both layers at offset 3 *)
Example C11_ex_write_both :
  let '((sb, sl, _), r) := cache_step m_step m_step 0 BIG c11_demo (HWrite 0 [88;89]%N) in
  (r, map e_data (snapshot sb), map e_data (snapshot sl)) =
  (RCount 2 None, [[]; [104;101;108;88;89;32;119;111;114;108;100]%N], [[]; [104;101;108;88;89;32;119;111;114;108;100]%N]).
Proof. vm_compute. reflexivity. Qed.

(* ---- the invariant theorems are not vacuous: a base built by a well-formed program (a directory /d with a file,
   an empty directory /e, a file /g) under an EMPTY cache satisfies CInv; a sequence of 20 calls through the
   cache — first read of an uncached file, an O_RDWR UnionFile, writes at offsets, the rename of the directory
   /d into /e (which the cache does not hold: the layer creates /e on the way), O_CREATE, Chmod on an uncached
   file (copied first), Remove, RemoveAll, MkdirAll, Create below new directories, Truncate — is well-formed
   [cwf_seq, by computation], so C11_table_coherent applies to it and to each of its prefixes ---- *)
Definition p_d : str := [47; 100]%N.                                   (* /d *)
Definition p_df : str := [47; 100; 47; 102]%N.                         (* /d/f *)
Definition p_e : str := [47; 101]%N.                                   (* /e *)
Definition p_g : str := [47; 103]%N.                                   (* /g *)
Definition p_ed : str := [47; 101; 47; 100; 50]%N.                     (* /e/d2 *)
Definition p_edf : str := [47; 101; 47; 100; 50; 47; 102]%N.           (* /e/d2/f *)
Definition p_new : str := [47; 110]%N.                                 (* /n *)
Definition p_xyz : str := [47; 120; 47; 121; 47; 122]%N.               (* /x/y/z *)
Definition p_xyzw : str := [47; 120; 47; 121; 47; 122; 47; 119]%N.     (* /x/y/z/w *)
Definition c11_base_prog : list op :=
  [Mkdir p_d 493; Create p_df; HWrite 0 hello; HClose 0; Mkdir p_e 493; Create p_g; HWrite 1 [120; 121]%N; HClose 1].
Definition c11_base : mst := Eval vm_compute in fst (run_steps m_step m_init c11_base_prog).
Definition c11_steps : list (Z * op) :=
  [(BIG, Open p_df); (BIG + 1, HRead 0 100); (BIG + 2, HClose 0);
   (BIG + 3, OpenFile p_df 2 0); (BIG + 4, HWriteAt 1 [88; 89]%N 3); (BIG + 5, HSeek 1 0 2); (BIG + 6, HWrite 1 [33]%N);
   (BIG + 7, Rename p_d p_ed); (BIG + 8, Stat p_edf); (BIG + 9, HReadAt 1 5 0);
   (BIG + 10, OpenFile p_new 66 420); (BIG + 11, HWrite 2 [97; 98; 99]%N);
   (BIG + 12, Chmod p_g 384); (BIG + 13, Remove p_g); (BIG + 14, MkdirAll p_xyz 493); (BIG + 15, Create p_xyzw);
   (BIG + 16, HTruncate 3 10); (BIG + 17, RemoveAll p_e); (BIG + 18, HWrite 1 [90]%N); (BIG + 19, HClose 1)].

Example C11_ex_start : CInv (c11_base, m_init, []).
Proof. apply CInv_fresh_cache; [exact (MemFsInv.index_mirrors_map c11_base_prog eq_refl) | vm_compute; reflexivity]. Qed.
Example C11_ex_sequence_wf : cwf_seq 0 (c11_base, m_init, []) c11_steps = true /\ cwf_seq 1000 (c11_base, m_init, []) c11_steps = true.
Proof. vm_compute. split; reflexivity. Qed.
(* ... and what the two layers hold at the end: the base everything, the cache layer what went through it; the
   file /e/d2/f was removed with /e while the UnionFile on it stayed open and was written once more *)
Example C11_ex_sequence_result :
  let '(sb, sl, tbl) := crun 0 (c11_base, m_init, []) c11_steps in
  (map e_path (snapshot sb), map e_path (snapshot sl), length tbl) =
  ([[47]; [47;110]; [47;120]; [47;120;47;121]; [47;120;47;121;47;122]; [47;120;47;121;47;122;47;119]]%N,
   [[47]; [47;110]; [47;120]; [47;120;47;121]; [47;120;47;121;47;122]; [47;120;47;121;47;122;47;119]]%N, 4%nat).
Proof. vm_compute. reflexivity. Qed.

(* ---- the defect this proof found, repaired since (corpus/C11/openfile-uncached-dir.case are regression cases now):
   OpenFile(O_RDONLY) of a DIRECTORY the cache does not hold.  CacheOnReadFs.OpenFile sent every miss / stale
   name through copyFileToLayer, which copies a directory like a file: 0 bytes read, Size() of the directory
   differs, EIO (and for a stale cached directory the layer was damaged).  On the base alone the same call
   returns a handle.  Since the fix OpenFile Stats the base first and makes a directory in the layer with
   MkdirAll (what CacheOnReadFs.copyToLayer does since e325f56): the switch cache_openfile_dir_mkdir, read
   from the source, is 1 and the call returns a handle.  The Example holds for either value of the switch. ---- *)
Example C11_openfile_uncached_dir_before_fix :
  exists (st : mst * mst * list chandle) (o : op),
    CInv st /\ WfOps.wf_op (fst (fst st)) o = true /\
    snd (cache_step m_step m_step 0 BIG st o) = (if cache_openfile_dir_mkdir =? 1 then RHandle 0 else RErr (E KEIO)) /\
    snd (m_step (fst (fst st)) o) = RHandle 2.
Proof.
  exists (c11_base, m_init, []), (OpenFile p_d 0 0). split; [exact C11_ex_start|]. vm_compute. repeat split; reflexivity.
Qed.

(* ---- the calls below a regular file of the base are in the class: /g is a regular file; Create(/g/x) through the
   cache answers ENOTDIR and nothing changes; Rename(/d/f, /g/x) answers ENOTDIR after /d/f has been copied into
   the cache layer (copyToLayer comes before the base's Rename) ---- *)
Definition p_gx : str := [47; 103; 47; 120]%N.                          (* /g/x *)
Example C11_ex_below_file :
  cwf_seq 0 (c11_base, m_init, []) [(BIG, Create p_gx); (BIG + 1, Mkdir p_gx 493); (BIG + 2, OpenFile p_gx 66 420); (BIG + 3, Rename p_df p_gx)] = true /\
  snd (cache_step m_step m_step 0 BIG (c11_base, m_init, []) (Create p_gx)) = RErr (EW KENOTDIR) /\
  (let '((sb, sl, _), r) := cache_step m_step m_step 0 BIG (c11_base, m_init, []) (Rename p_df p_gx) in
   (r, map e_path (snapshot sb), map e_path (snapshot sl))) =
  (RErr (EW KENOTDIR), [[47]; [47;100]; [47;100;47;102]; [47;101]; [47;103]]%N, [[47]; [47;100]; [47;100;47;102]]%N).
Proof. vm_compute. repeat split; reflexivity. Qed.

(* ---- tie of repair 98178ad to the source: copyFileToLayer opens the handle the copy READS from with O_RDWR
   where the caller asked for O_WRONLY (a write-only descriptor cannot be read on the operating system: WriteFile
   and OpenFile(O_WRONLY) through a cache over an OsFs base failed with EBADF on every name not yet cached).
   MemMapFs lets a write-only handle read, so no step of the model can tell the two source shapes apart; the
   theorem states what the translator read from today's source, the operating-system scenario of the C11 harness
   (c11refresh.go, signatures call-fails-through-cache:OpenFile:os-base:...) exercises the behaviour itself *)
Theorem C11_today_copy_reads_through_readable_handle : copyfiletolayer_reads_through_rdwr = 1.
Proof. exact copyfiletolayer_reads_through_rdwr_is_1. Qed.
Print Assumptions C11_today_copy_reads_through_readable_handle.
