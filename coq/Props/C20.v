(* Props/C20.v — gcsfs stores and returns object data exactly, with virtual folders.
   Models: Model/Gcs.v + GcsFs.v (gcsfs on the object store of overlay/gcsfake.go), specification
   side: Model/ByteFile.v (flat byte array) and Model/GcsSpec.v (class of calls, agreement of results).
   The theorems about listings / Remove / RemoveAll are about the PATCHED code (cfg_patched: D17, D19, D20
   of REPORT-c20.md repaired, = the configuration cfg_src of the current sources, C20_source_configuration);
   the _refuted Examples show the same statements failing for the code before the repairs. *)
From Coq Require Import List ZArith.
From AF Require Import Lib.Bytes Lib.Path Lib.Ops Gen.Consts Model.ByteFile Model.Gcs Model.GcsFs Model.GcsSpec.
From AF Require Import Proofs.GcsProof Proofs.GcsFolderProof Proofs.GcsRemoveAllProof.
Local Open Scope Z_scope.

(* Data path.  For EVERY sequence of calls of the property's class (in_class: sequential reads and
   writes with the position inside the object, positional reads/writes at offsets inside the object,
   Seek to a position inside the object — required after a positional call before the next sequential
   one —, shrinking Truncate, Stat, Sync) on one open handle of an existing object, for every content,
   every payload, every other content of the bucket, today's code and the patched code alike
   (c : cfg is arbitrary): followed by Close,
   - every call returns what the flat byte array of ByteFile returns (reads: the same bytes),
   - after Close the bucket holds under that name exactly the flat array's content (pwrite/ptrunc),
   - every other object is untouched, no reader or writer is left open. *)
Theorem C20_data_exact : forall c bkt fuel (objs : gstore) r h (d0 : bytes) p0 ro ops,
  rvalid bkt r -> r_reader r = None -> r_writer r = None ->
  alist_get (r_path r) objs = Some d0 ->
  h_closed h = false -> h_off h = Z.of_nat p0 -> (ro = false -> (h_flags h =? o_rdonly) = false) ->
  in_class ro d0 p0 false ops = true ->
  exists objs' r' h' outs bs pouts,
    h_run c bkt fuel objs r h (ops ++ [HClose 0]) = (objs', r', h', outs) /\
    bf_run (bs1 d0 p0 ro) (ops ++ [HClose 0]) = (bs, pouts) /\
    Forall2 res_agrees outs pouts /\
    alist_get (r_path r) objs' = Some (bdata bs) /\
    (forall k, k <> r_path r -> alist_get k objs' = alist_get k objs) /\
    r_reader r' = None /\ r_writer r' = None /\ h_closed h' = true.
Proof. exact data_exact. Qed.
Print Assumptions C20_data_exact.

(* Fs.OpenFile(name, O_RDWR) on an existing object establishes the hypotheses of C20_data_exact (fresh
   resource, nothing pending, position 0, writable) and leaves the bucket as it was; after the closing
   of C20_data_exact the resource is again without reader and writer, so a reopen (which may reuse the
   cached resource) starts from the same situation: "closes and reopens". *)
Theorem C20_open_establishes_session : forall bkt g name path (d : bytes),
  norm_name name = name -> name <> [] -> split_name name = (bkt, path) -> path <> [] ->
  alist_get name (g_raw g) = None -> alist_get path (g_objs g) = Some d ->
  exists g' h r,
    fs_open_file bkt g name o_rdwr = (g', inr h) /\ g_objs g' = g_objs g /\
    nth_error (g_res g') (h_res h) = Some r /\
    rvalid bkt r /\ r_reader r = None /\ r_writer r = None /\ r_path r = path /\
    h_closed h = false /\ h_off h = 0 /\ (h_flags h =? o_rdonly) = false.
Proof. exact open_establishes_session. Qed.
Print Assumptions C20_open_establishes_session.

(* The tie of the configuration: the switches regenerated from gcsfs/file.go and gcsfs/fs.go say that
   the current sources are the repaired code; the theorems below about [cfg_patched] are therefore
   about the configuration [cfg_src] that the correspondence check runs against the implementation.
   Reverting one of the repairs makes this obligation fail. *)
Theorem C20_source_configuration : cfg_src = cfg_patched.
Proof. exact cfg_src_is_patched. Qed.
Print Assumptions C20_source_configuration.

(* A name that is not itself an object is a folder exactly when objects exist under it
   (Stat / newFileInfo).  For EVERY bucket layout: no prefix-freeness is needed at this name since
   the folder probe lists with the prefix path+"/" (gcs_fileinfo_prefix_sep, regenerated from
   gcsfs/file_info.go; before the fix the probe used the bare path and "d.txt" made "d" a folder). *)
Theorem C20_folder_iff_objects_below : forall bkt (objs : gstore) name path,
  split_name name = (bkt, path) -> path <> [] ->
  alist_get path objs = None ->
  ((exists i, new_file_info bkt objs name = inr i /\ gi_dir i = true) <->
   (exists k, In k (map fst objs) /\ prefixb (ensure_trailing path) k = true)) /\
  ((exists i, new_file_info bkt objs name = inr i) -> exists i, new_file_info bkt objs name = inr i /\ gi_dir i = true).
Proof. exact folder_iff_objects_below. Qed.
Print Assumptions C20_folder_iff_objects_below.

(* Listing a folder (Readdir(count <= 0) on a freshly opened handle, patched code) returns its
   immediate children, once each. *)
Theorem C20_listing_once_each : forall bkt (objs : gstore) name path own count,
  let bpath := path ++ [SLASH] in
  let r := mkR name bkt path 0 0 None None in
  new_file_info bkt objs name = inr own -> gi_dir own = true ->
  split_name (ensure_trailing name) = (bkt, bpath) ->
  layout_ok objs bpath -> count <= 0 ->
  exists l, gf_readdir cfg_patched bkt objs r count = (objs, r, LList l None) /\
            (forall c, In c (map gi_base l) <-> is_child objs bpath c) /\ NoDup (map gi_base l).
Proof. exact listing_once_each. Qed.
Print Assumptions C20_listing_once_each.

(* A folder that has a child cannot be removed by Remove: ENOTEMPTY, the bucket unchanged (patched code). *)
Theorem C20_remove_nonempty_refused : forall bkt g name path own c,
  let bpath := path ++ [SLASH] in
  norm_name name = name -> name <> [] -> split_name name = (bkt, path) ->
  new_file_info bkt (g_objs g) name = inr own -> gi_dir own = true ->
  split_name (ensure_trailing name) = (bkt, bpath) ->
  layout_ok (g_objs g) bpath -> is_child (g_objs g) bpath c ->
  exists g', fs_remove cfg_patched bkt g name = (g', UErr GENOTEMPTY) /\ g_objs g' = g_objs g.
Proof. exact remove_refused_when_child. Qed.
Print Assumptions C20_remove_nonempty_refused.

(* ... and for either code: whenever the folder's own listing is non-empty, Remove refuses. *)
Theorem C20_remove_refused_when_listing_nonempty : forall c bkt g name path info l,
  norm_name name = name -> name <> [] -> split_name name = (bkt, path) ->
  new_file_info bkt (g_objs g) name = inr info -> gi_dir info = true ->
  (let r := mkR name bkt path 0 0 None None in
   readdir_impl c bkt (g_objs g) r 0 = (g_objs g, r, l, None)) -> l <> [] ->
  exists g', fs_remove c bkt g name = (g', UErr GENOTEMPTY) /\ g_objs g' = g_objs g.
Proof. exact remove_nonempty_refused. Qed.
Print Assumptions C20_remove_refused_when_listing_nonempty.

(* RemoveAll removes the whole subtree and nothing else — for EVERY store of the layout class, explicit
   (placeholder object "d/") and implicit folders nested arbitrarily deep, no bound on depth or size.

   The layout class is ONE boolean predicate on the object list (Proofs/GcsRemoveAllProof.v):
     layout_class objs = the names are pairwise distinct (nodupb),
                         every name is key_ok: not empty, no empty path segment (no leading "/", no "//";
                           a single trailing "/" is the placeholder of an explicit folder), no backslash,
                         and prefix-free: no name k such that k ++ "/" is a prefix of a name
                           (no name is both a file and a folder; "d/" next to "d/x" is allowed).
   It is hereditary (layout_class_filter: deleting objects stays in the class; the theorem re-establishes
   it for the store afterwards).  bucket_ok: the bucket name is not empty and has no "/" or "\";
   path_ok: the object path is not empty, has no leading or trailing "/" and no "\"; the call is
   RemoveAll(bucket ++ "/" ++ path).  The path may be an object, a folder, or absent.
   raw_ok: no name cached in rawGcsObjects (filled by Create) is the name of a folder — otherwise Open
   reuses that cached resource and Stat commits its pending writer (C20_removeall_needs_raw_ok).

   Fuel (the recursion depth of Fs.RemoveAll; UFuel is excluded by the hypothesis, not by luck):
     removeall_fuel objs path = 1 + max over the objects k under path ++ "/" of (1 + number of "/" in k
     after that prefix); the bound is attained (C20_removeall_nested_instance: one less gives UFuel).

   Conclusion: the result is nil; the store afterwards is EXACTLY the filter (everything at or under the
   name is gone, including the placeholder path ++ "/"; every other entry — name and bytes — is still
   there, in the same order); the heap of resources only grows, by idle resources (one per Open of a
   folder, never closed by RemoveAll: no reader, no writer, offset 0); rawGcsObjects only loses entries:
   entries of names outside the subtree are unchanged, the entry of every removed object whose name does
   not end in "/" is dropped (the entry of a placeholder created by Create("b/d/") stays: stale).
   Proof: induction on the fuel, inner induction over the folder's listing (ra_step / ra_loop). *)
Theorem C20_removeall_exactly_subtree : forall bkt fuel g path,
  bucket_ok bkt = true -> path_ok path = true ->
  layout_class (g_objs g) = true -> raw_ok bkt g = true ->
  (removeall_fuel (g_objs g) path <= fuel)%nat ->
  let name := full_name bkt path in
  exists g' rs,
    fs_remove_all cfg_patched bkt fuel g name = (g', UOk) /\
    g_objs g' = filter (fun kv => negb (beqb (fst kv) path || prefixb (path ++ [SLASH]) (fst kv))) (g_objs g) /\
    g_res g' = g_res g ++ rs /\ Forall (idle_res bkt) rs /\
    incl (map fst (g_raw g')) (map fst (g_raw g)) /\
    (forall n, n <> name -> prefixb (name ++ [SLASH]) n = false -> alist_get n (g_raw g') = alist_get n (g_raw g)) /\
    (forall k, In k (map fst (g_objs g)) -> k = path \/ prefixb (path ++ [SLASH]) k = true ->
               last_is_slash k = false -> alist_get (full_name bkt k) (g_raw g') = None) /\
    layout_class (g_objs g') = true /\ raw_ok bkt g' = true.
Proof. exact removeall_exactly_subtree. Qed.
Print Assumptions C20_removeall_exactly_subtree.

(* the case "the name is an object", for either code and without any layout hypothesis *)
Theorem C20_removeall_object : forall c bkt fuel g name path (d : bytes),
  norm_name name = name -> name <> [] -> split_name name = (bkt, path) -> path <> [] ->
  alist_get path (g_objs g) = Some d ->
  exists g', fs_remove_all c bkt (S fuel) g name = (g', UOk) /\ g_objs g' = alist_del path (g_objs g).
Proof. exact removeall_file. Qed.
Print Assumptions C20_removeall_object.

(* The same class serves the listing and the Remove theorem: for a folder (some object under path ++ "/")
   of a store of the class, Readdir(count <= 0) returns the immediate children once each, and Remove of a
   folder with a child is refused. *)
Theorem C20_listing_once_each_class : forall bkt (objs : gstore) path k count,
  bucket_ok bkt = true -> path_ok path = true -> layout_class objs = true ->
  In k (map fst objs) -> prefixb (path ++ [SLASH]) k = true -> count <= 0 ->
  let r := mkR (full_name bkt path) bkt path 0 0 None None in
  exists l, gf_readdir cfg_patched bkt objs r count = (objs, r, LList l None) /\
            (forall c, In c (map gi_base l) <-> is_child objs (path ++ [SLASH]) c) /\ NoDup (map gi_base l).
Proof. exact listing_once_each_class. Qed.
Print Assumptions C20_listing_once_each_class.

Theorem C20_remove_nonempty_refused_class : forall bkt g path c,
  bucket_ok bkt = true -> path_ok path = true -> layout_class (g_objs g) = true ->
  is_child (g_objs g) (path ++ [SLASH]) c ->
  exists g', fs_remove cfg_patched bkt g (full_name bkt path) = (g', UErr GENOTEMPTY) /\ g_objs g' = g_objs g.
Proof. exact remove_nonempty_refused_class. Qed.
Print Assumptions C20_remove_nonempty_refused_class.

(* the class is hereditary: the steps of the recursion (deletions) stay inside *)
Theorem C20_layout_class_hereditary : forall (objs : gstore) f,
  layout_class objs = true -> layout_class (filter f objs) = true.
Proof. exact layout_class_filter. Qed.
Print Assumptions C20_layout_class_hereditary.

(* ------------------------------------------------------------------ non-vacuity, computed instances *)
Definition B : str := [98]%N.                        (* bucket "b" *)
Definition n_f : str := [102]%N.                     (* "f" *)
Definition digits : bytes := [48;49;50;51;52;53;54;55;56;57]%N.
Definition ops1 : list op :=
  [HSeek 0 3 0; HWrite 0 [65;66]%N; HWrite 0 [67]%N; HRead 0 2; HWriteAt 0 [90]%N 9; HSeek 0 (-1) 2;
   HRead 0 5; HTruncate 0 8; HStat 0].
Definition r1 : resource := mkR (B ++ [SLASH] ++ n_f) B n_f 0 0 None None.
Definition h1 : ghandle := mkGH 2 0 false 0.

(* the class is inhabited by a mid-object write, a positional write, reads and a shrinking truncate *)
Example C20_in_class_nonvacuous : in_class false digits 0 false ops1 = true.
Proof. vm_compute. reflexivity. Qed.

(* ... and on it the model leaves "012ABC67" in the bucket, the other object untouched *)
Example C20_data_instance :
  let '(objs', _, _, _) := h_run cfg_today B 8 [(n_f, digits); ([104]%N, [1]%N)] r1 h1 (ops1 ++ [HClose 0]) in
  objs' = [(n_f, [48;49;50;65;66;67;54;55]%N); ([104]%N, [1]%N)].
Proof. vm_compute. reflexivity. Qed.

(* a bucket with an explicit folder d/ holding a child with the folder's own name, a nested implicit
   folder d/e, and an unrelated object h *)
Definition n_d : str := [100]%N.
Definition S1 : gstore :=
  [([100;47]%N, []); ([100;47;100]%N, [1]%N); ([100;47;101;47;102]%N, [2]%N); ([104]%N, [3]%N)].
Definition name_d : str := [98;47;100]%N.            (* "b/d" *)
Definition rdir : resource := mkR name_d B n_d 0 0 None None.

Example C20_folder_hyps_satisfiable :
  norm_name name_d = name_d /\ split_name name_d = (B, n_d) /\
  split_name (ensure_trailing name_d) = (B, n_d ++ [SLASH]) /\
  new_file_info B S1 name_d = inr (mkGI (name_d ++ [SLASH]) true 42) /\
  ensure_trailing n_d = n_d ++ [SLASH] /\ alist_get n_d S1 = None /\ layout_ok S1 (n_d ++ [SLASH]).
Proof.
  repeat split; try (vm_compute; reflexivity).
  - cbn. repeat constructor; cbn; intuition discriminate.
  - intros k Hk Hp Hne. cbn in Hk. repeat destruct Hk as [<-|Hk]; try contradiction; vm_compute in Hp |- *;
      try discriminate; try (exfalso; apply Hne; reflexivity).
  - intros k1 k2 H1 H2 P1 P2 Q1 Q2. cbn in H1, H2.
    repeat destruct H1 as [<-|H1]; try contradiction; repeat destruct H2 as [<-|H2]; try contradiction;
      vm_compute in P1, P2, Q1, Q2 |- *; try discriminate.
Qed.

(* a look-alike sibling does not make a name a folder: only "d.txt" exists, Stat("b/d") = ENOENT *)
Example C20_look_alike_sibling_is_no_folder :
  new_file_info B [([100;46;116;120;116]%N, [1]%N)] name_d = inl GENOENT.
Proof. exact look_alike_sibling_is_no_folder. Qed.

(* patched: the listing of d has the child named d and the folder e, once each *)
Example C20_listing_instance :
  gf_readdirnames cfg_patched B S1 rdir 0 = (S1, rdir, NList [[100]%N; [101]%N] None) /\
  gf_readdirnames cfg_patched B S1 rdir 5 = (S1, rdir, NList [[100]%N; [101]%N] None).
Proof. split; vm_compute; reflexivity. Qed.

(* today (D19): the child with the folder's own name is missing from the listing *)
Example C20_listing_once_each_refuted_today :
  gf_readdirnames cfg_today B S1 rdir 0 = (S1, rdir, NList [[101]%N] None) /\ is_child S1 (n_d ++ [SLASH]) n_d.
Proof.
  split; [vm_compute; reflexivity|].
  exists [100;47;100]%N. repeat split; try (vm_compute; reflexivity); [cbn; auto | discriminate].
Qed.

(* today (D17): a count above the number of entries panics *)
Example C20_readdir_count_refuted_today : gf_readdir cfg_today B S1 rdir 5 = (S1, rdir, LPanic).
Proof. vm_compute. reflexivity. Qed.

(* Remove on the non-empty folder d: refused by the patched code; today (D19) it "succeeds" when the only
   child carries the folder's name and deletes the placeholder *)
Definition S2 : gstore := [([100;47]%N, []); ([100;47;100]%N, [1]%N)].
Example C20_remove_instance :
  fs_remove cfg_patched B (mkG S2 [] []) name_d = (mkG S2 [rdir] [], UErr GENOTEMPTY).
Proof. vm_compute. reflexivity. Qed.
Example C20_remove_nonempty_refuted_today :
  let '(g', u) := fs_remove cfg_today B (mkG S2 [] []) name_d in
  u = UOk /\ g_objs g' = [([100;47;100]%N, [1]%N)].
Proof. vm_compute. split; reflexivity. Qed.

(* RemoveAll(b/d) on S1: exactly the subtree goes (patched); today (D19, bucket S4) d/d stays *)
Example C20_removeall_instance :
  let '(g', u) := fs_remove_all cfg_patched B 8 (mkG S1 [] []) name_d in
  u = UOk /\ g_objs g' = [([104]%N, [3]%N)].
Proof. vm_compute. split; reflexivity. Qed.
Definition S4 : gstore := [([100;47]%N, []); ([100;47;100]%N, [1]%N); ([100;47;103]%N, [4]%N); ([104]%N, [3]%N)].
Example C20_removeall_refuted_today_d19 :
  let '(g', u) := fs_remove_all cfg_today B 8 (mkG S4 [] []) name_d in
  u = UOk /\ g_objs g' = [([100;47;100]%N, [1]%N); ([104]%N, [3]%N)].
Proof. vm_compute. split; reflexivity. Qed.

(* implicit folders only: d/e/f, d/g, h.  Patched: the subtree goes.  Today (D20): after emptying the
   implicit folder d/e its Remove fails with ENOENT, the walk stops, d/g stays *)
Definition S3 : gstore := [([100;47;101;47;102]%N, [2]%N); ([100;47;103]%N, [4]%N); ([104]%N, [3]%N)].
Example C20_removeall_implicit_instance :
  let '(g', u) := fs_remove_all cfg_patched B 8 (mkG S3 [] []) name_d in
  u = UOk /\ g_objs g' = [([104]%N, [3]%N)].
Proof. vm_compute. split; reflexivity. Qed.
Example C20_removeall_refuted_today_d20 :
  let '(g', u) := fs_remove_all cfg_today B 8 (mkG S3 [] []) name_d in
  u = UErr GENOENT /\ g_objs g' = [([100;47;103]%N, [4]%N); ([104]%N, [3]%N)].
Proof. vm_compute. split; reflexivity. Qed.

(* ------------------------------------------------------------------ the layout class, computed *)
(* explicit folder d/ with a child named like the folder (d/d), an implicit folder d/e holding a file and
   an explicit folder d/e/g/ with a file, the look-alike siblings d.txt and dd next to d/, and h *)
Definition S5 : gstore :=
  [([100;47]%N, []); ([100;47;100]%N, [1]%N); ([100;47;101;47;102]%N, [2]%N); ([100;47;101;47;103;47]%N, []);
   ([100;47;101;47;103;47;120]%N, [5]%N);
   ([100;46;116;120;116]%N, [6]%N); ([100;100]%N, [7]%N); ([104]%N, [3]%N)].
Example C20_layout_class_nonvacuous :
  layout_class S5 = true /\ bucket_ok B = true /\ path_ok n_d = true /\ raw_ok B (mkG S5 [] []) = true /\
  full_name B n_d = name_d /\ removeall_fuel S5 n_d = 4%nat.
Proof. vm_compute. repeat split; reflexivity. Qed.

(* RemoveAll(b/d) on it with the fuel of the bound: exactly d.txt, dd and h stay; with one unit less the
   recursion runs out of fuel, so the bound is attained *)
Example C20_removeall_nested_instance :
  (let '(g', u) := fs_remove_all cfg_patched B 4 (mkG S5 [] []) name_d in
   u = UOk /\ g_objs g' = [([100;46;116;120;116]%N, [6]%N); ([100;100]%N, [7]%N); ([104]%N, [3]%N)]) /\
  snd (fs_remove_all cfg_patched B 3 (mkG S5 [] []) name_d) = UFuel.
Proof. vm_compute. repeat split; reflexivity. Qed.

(* OUTSIDE the class, and necessarily so: an object with a backslash in its name (d/a\b).  gcsfs turns
   "\" into "/" in every name it is given and in the names it lists, so RemoveAll(b/d) asks for b/d/a/b,
   finds nothing, and the final Remove refuses the still non-empty folder: ENOTEMPTY, the object stays.
   (All other conditions of the class hold for the witness.  Replayed against the implementation:
   corpus/C20/removeall-backslash.case, implementation = model.) *)
Definition S6 : gstore := [([100;47;97;92;98]%N, [1]%N); ([104]%N, [3]%N)].
Example C20_removeall_backslash_refuted :
  exists objs path,
    nodupb (map fst objs) = true /\ prefix_free (map fst objs) = true /\
    forallb (fun k => negb (is_empty k) && negb (prefixb s_slash k) && negb (infixb s_2slash k)) (map fst objs) = true /\
    layout_class objs = false /\ path_ok path = true /\ raw_ok B (mkG objs [] []) = true /\
    let '(g', u) := fs_remove_all cfg_patched B 8 (mkG objs [] []) (full_name B path) in
    u = UErr GENOTEMPTY /\ g_objs g' = objs.
Proof. exists S6, n_d. vm_compute. repeat split; reflexivity. Qed.

(* raw_ok is needed: with a cached resource under the folder's own name that still has a pending writer
   (possible only if the object b/d was deleted behind the Fs's back), Open reuses it, Stat commits the
   writer — the object d appears — and RemoveAll stops with ENOTDIR *)
Example C20_removeall_needs_raw_ok :
  let g := mkG [([100;47;102]%N, [1]%N)] [mkR name_d B n_d 0 0 None (Some [9]%N)] [(name_d, O)] in
  layout_class (g_objs g) = true /\ raw_ok B g = false /\
  let '(g', u) := fs_remove_all cfg_patched B 8 g name_d in
  u = UErr GENOTDIR /\ g_objs g' = [([100;47;102]%N, [1]%N); ([100]%N, [9]%N)].
Proof. vm_compute. repeat split; reflexivity. Qed.

(* the cache entry of a placeholder object created through Create("b/d/") survives RemoveAll("b/d") *)
Example C20_removeall_stale_placeholder_entry :
  let g := mkG [([100;47]%N, []); ([100;47;102]%N, [1]%N)]
               [mkR [98;47;100;47]%N B [100;47]%N 0 0 None None; mkR [98;47;100;47;102]%N B [100;47;102]%N 0 0 None None]
               [([98;47;100;47]%N, O); ([98;47;100;47;102]%N, 1%nat)] in
  raw_ok B g = true /\
  let '(g', u) := fs_remove_all cfg_patched B 8 g name_d in
  u = UOk /\ g_objs g' = [] /\ g_raw g' = [([98;47;100;47]%N, O)].
Proof. vm_compute. repeat split; reflexivity. Qed.
