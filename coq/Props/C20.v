(* Props/C20.v — stub, replaced once Proofs/GcsProof.v is in place *)
From AF Require Import Lib.Bytes Lib.Path Lib.Ops Gen.Consts Model.Gcs Model.GcsFs.
Example C20_model_computes :
  g_run cfg_patched [98%N] 8 (g_init [([102%N], [1;2;3]%N)]) [GISnap] = [GSnap [([102%N], [1;2;3]%N)]].
Proof. vm_compute. reflexivity. Qed.
