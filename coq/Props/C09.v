(* C09 — BasePathFs is a faithful re-rooting of the underlying filesystem.
   Statements only; proofs in Proofs/BasePathProof.v and Proofs/PathProof.v. *)
From AF Require Import Lib.Bytes Lib.Path Lib.Ops Gen.Consts Model.BasePath Proofs.PathProof Proofs.BasePathProof.

(* For every name that stays inside the root D, each operation through the wrapper is exactly
   the same operation on the underlying filesystem with D prepended (Clean(Join(D, name))):
   same state change, same result (only File.Name is re-labelled, see C09_name_relative). *)
Theorem C09_commutes : forall (St : Type) (inner : St -> op -> St * res) base s o,
  is_rooted (clean base) = true -> (forall p, In p (op_paths o) -> stays_inside base p) ->
  bp_step inner base s o =
  (let '(s', r) := inner s (map_paths (prepend base) o) in (s', bp_relabel base o r)).
Proof. exact @bp_commutes. Qed.
Print Assumptions C09_commutes.

Theorem C09_results_unchanged_except_name : forall base o r,
  (forall h, o <> HName h) -> bp_relabel base o r = r.
Proof. exact bp_relabel_only_name. Qed.
Print Assumptions C09_results_unchanged_except_name.

(* in-root names are accepted, and resolve to the join *)
Theorem C09_inside_accepted : forall base name, is_rooted (clean base) = true ->
  stays_inside base name -> real_path base name = Some (clean (join2 (clean base) name)).
Proof. exact real_path_inside. Qed.
Print Assumptions C09_inside_accepted.

(* files report their names relative to D: the real path is D's segments followed by r, and
   Name() (BasePathFile.Name = bp_name) is "/"-joined r; for D = "/" it is the path itself *)
Theorem C09_name_relative : forall base name p, is_rooted (clean base) = true ->
  real_path base name = Some p ->
  exists r, clean_segs p = clean_segs base ++ r /\
    bp_name base p =
      match clean_segs base, r with
      | [], _ => p
      | _ :: _, [] => []
      | _ :: _, _ :: _ => SLASH :: join_slash r
      end.
Proof. exact bp_name_shape_fixed. Qed.
Print Assumptions C09_name_relative.

(* Stacking base-path filesystems = one base-path filesystem on the joined roots, for every call
   whose names never step up ('..' above their start) and an inner root that never steps up *)
Theorem C09_stacking : forall a b o,
  (is_rooted a = false -> clean_segs a <> []) -> (is_rooted b = false -> clean_segs b <> []) ->
  no_up b -> (forall p, In p (op_paths o) -> no_up p) ->
  match bp_translate b o with Some o2 => bp_translate a o2 | None => None end = bp_translate (join2 a b) o.
Proof. exact bp_stack_translate. Qed.
Print Assumptions C09_stacking.

(* the hypothesis is needed: with '..' in the name the two differ (a stacked wrapper clamps '..'
   at the inner root, the joined one refuses the name) *)
Example C09_stacking_needs_no_up :
  (match real_path [47;98]%N [46;46;47;46;46;47;98;47;120]%N with Some q => real_path [47;97]%N q | None => None end)
    = Some [47;97;47;98;47;120]%N
  /\ real_path (join2 [47;97]%N [47;98]%N) [46;46;47;46;46;47;98;47;120]%N = None.
Proof. vm_compute. split; reflexivity. Qed.

(* FullBaseFsPath composes the roots from the innermost wrapper outwards ... *)
Theorem C09_full_path : forall b1 b2 rel, full_base_path [b2; b1] rel = join2 b1 (join2 b2 rel).
Proof. exact full_base_path_two. Qed.
Print Assumptions C09_full_path.
(* ... which is the path on the joined roots *)
Theorem C09_full_path_joined : forall b1 b2 rel, b1 <> [] -> b2 <> [] -> rel <> [] ->
  is_rooted b2 = false \/ (no_up b2 /\ no_up rel) ->
  full_base_path [b2; b1] rel = join2 (join2 b1 b2) rel.
Proof. exact full_base_path_joined. Qed.
Print Assumptions C09_full_path_joined.

Example C09_ex : bp_translate [47;100]%N (Rename [97]%N [47;98;47;46;46;47;99]%N)
  = Some (Rename [47;100;47;97]%N [47;100;47;99]%N).
Proof. vm_compute. reflexivity. Qed.
