(* C15 — io/fs adapters.  Statements only; proofs are in Proofs/IOFSProof.v.
   Go-level model: Model/IOFS.v (/repo/iofs.go: IOFS, readDirFile, FromIOFS, fromIOFSFile; ioutil.go ReadFile;
   match.go Glob; io/fs.ValidPath), written over an ARBITRARY inner filesystem step : St -> op -> St * res.
   The constants iofs_*_validates, iofs_sub_dot_self, fromiofs_openfile_mask are regenerated from the
   current text of /repo/iofs.go on every check: statements of the form "<-> constant = 1" say exactly
   which code satisfies the clause. *)
From Coq Require Import Sorting.Sorted Sorting.Permutation.
From AF Require Import Lib.Bytes Lib.Path Lib.Ops Gen.Consts Model.MemFile Model.ByteFile Model.MemFs Model.BasePath
  Model.Stack Model.Walk Model.Glob Model.IOFS Model.IOFSRun Proofs.MemFileProof Proofs.IOFSProof Proofs.IOFSGlobProof.
Local Open Scope Z_scope.

(* 1. io/fs.ValidPath ------------------------------------------------------------------------- *)
(* the transcription of the loop in io/fs/fs.go accepts exactly "." and the non-empty '/'-separated lists
   of elements none of which is "", "." or ".." (and, being elements, none contains '/') *)
Theorem C15_valid_path_spec : forall name : str,
  valid_path name = true <->
  (name = s_dot \/
   exists elems, elems <> [] /\ name = join_slash elems /\
     Forall (fun e => e <> [] /\ e <> s_dot /\ e <> s_dotdot /\ ~ In SLASH e) elems).
Proof. exact valid_path_spec. Qed.
Print Assumptions C15_valid_path_spec.

(* 2. invalid names ---------------------------------------------------------------------------- *)
(* Open and ReadFile answer a name that is not a valid path with the invalid-argument error, whatever the
   inner filesystem is (it is not consulted: the result does not depend on it, the state is untouched) *)
Theorem C15_invalid_rejected : forall St (step : St -> op -> St * res) (s : St) (name : str) (fuel : nat),
  valid_path name = false ->
  iofs_open step s name = (s, RErr (EW KInvalid)) /\
  iofs_readfile step fuel s name = (s, RErr (EW KInvalid)).
Proof. exact @iofs_invalid_rejected. Qed.
Print Assumptions C15_invalid_rejected.

(* valid names are handed to the inner filesystem unchanged *)
Theorem C15_valid_forwarded : forall St (step : St -> op -> St * res) (s : St) (name : str),
  valid_path name = true -> iofs_open step s name = step s (Open name).
Proof. exact @iofs_open_valid. Qed.
Print Assumptions C15_valid_forwarded.

(* ReadDir, Stat and Sub reject invalid names exactly when the code validates them (today: it does not;
   testing/fstest only probes Open and ReadFile) *)
Theorem C15_invalid_rejected_readdir_iff :
  (forall St (step : St -> op -> St * res) s name, valid_path name = false ->
     iofs_readdir step s name = (s, RErr (EW KInvalid)))
  <-> iofs_readdir_validates = 1.
Proof. exact iofs_readdir_invalid_iff. Qed.
Print Assumptions C15_invalid_rejected_readdir_iff.

Theorem C15_invalid_rejected_stat_iff :
  (forall St (step : St -> op -> St * res) s name, valid_path name = false ->
     iofs_stat step s name = (s, RErr (EW KInvalid)))
  <-> iofs_stat_validates = 1.
Proof. exact iofs_stat_invalid_iff. Qed.
Print Assumptions C15_invalid_rejected_stat_iff.

Theorem C15_invalid_rejected_sub_iff :
  (forall dir, valid_path dir = false -> iofs_sub_ok dir = false) <-> iofs_sub_validates = 1.
Proof. exact iofs_sub_invalid_iff. Qed.
Print Assumptions C15_invalid_rejected_sub_iff.

(* 3. ReadDir is sorted -------------------------------------------------------------------------- *)
(* whenever IOFS.ReadDir returns a listing: no error comes with it, it is sorted by name in Go's string
   order, and it is a permutation of what Readdir(-1) of the opened file returned *)
Theorem C15_readdir_sorted : forall St (step : St -> op -> St * res) s name s' l e,
  iofs_readdir step s name = (s', RInfos l e) ->
  e = None /\
  Sorted (fun a b => bleb (fi_name a) (fi_name b) = true) l /\
  exists h s1 s2 l0,
    step s (Open name) = (s1, RHandle h) /\
    step s1 (HReaddir h (-1)) = (s2, RInfos l0 None) /\
    s' = fst (step s2 (HClose h)) /\
    Permutation l0 l.
Proof. exact @iofs_readdir_sorted. Qed.
Print Assumptions C15_readdir_sorted.

(* 4. paging ------------------------------------------------------------------------------------- *)
(* a MemMapFs directory handle (any state, any handle i on a directory node, any value of its counter) served
   ANY sequence of Readdir(n) calls, nothing else happening in between: the results are those of the
   declarative [page_spec] on what is left of the listing *)
Theorem C15_readdir_paging : forall (ns : list Z) (s : mst) (i : nat) (h : hnd) (nd : node),
  nth_error (mhandles s) i = Some h -> get_node s (href h) = Some nd -> ndir nd = true -> 0 <= hrdc h ->
  snd (run_steps m_step s (map (HReaddir i) ns)) =
  map page_res (page_spec (skipn (Z.to_nat (hrdc h)) (dir_infos s nd)) ns).
Proof. exact m_readdir_pages. Qed.
Print Assumptions C15_readdir_paging.

(* ... and page_spec says: positive page sizes concatenate to the listing, *)
Theorem C15_pages_concat : forall (A : Type) (ns : list Z) (rest : list A), Forall (fun n => 0 < n) ns ->
  concat (map fst (page_spec rest ns)) = firstn (Z.to_nat (fold_right Z.add 0 ns)) rest.
Proof. exact @page_spec_concat_pos. Qed.
Print Assumptions C15_pages_concat.

(* end-of-directory is reported by the k-th call exactly when the calls before it have handed out
   everything, and then the page is empty, *)
Theorem C15_pages_eof : forall (A : Type) (ns : list Z) (rest : list A) k page eof,
  nth_error (page_spec rest ns) k = Some (page, eof) -> Forall (fun n => 0 < n) ns ->
  (eof = true <-> skipn (Z.to_nat (fold_right Z.add 0 (firstn k ns))) rest = []) /\
  (eof = true -> page = []).
Proof. exact @page_spec_eof_iff. Qed.
Print Assumptions C15_pages_eof.

(* n <= 0 returns everything that is left without an error and leaves nothing: the next call returns the
   empty list (n <= 0) or end-of-directory (n > 0) *)
Theorem C15_pages_rest : forall (A : Type) (rest : list A) n m, n <= 0 ->
  page_spec rest [n; m] = [(rest, false); ([], 0 <? m)].
Proof. exact @page_spec_rest. Qed.
Print Assumptions C15_pages_rest.

(* fs.ReadDirFile.ReadDir(n) over such a handle: the page, or (nil, io.EOF) *)
Theorem C15_readdirfile_page : forall s i h nd n,
  nth_error (mhandles s) i = Some h -> get_node s (href h) = Some nd -> ndir nd = true -> 0 <= hrdc h ->
  let rest := skipn (Z.to_nat (hrdc h)) (dir_infos s nd) in
  snd (readdirfile_readdir m_step s i n) =
    if 0 <? n then match rest with [] => RErr (E KEOF) | _ => RInfos (firstn (Z.to_nat n) rest) None end
    else RInfos rest None.
Proof. exact readdirfile_page. Qed.
Print Assumptions C15_readdirfile_page.

(* 5. Read, Seek, ReadAt, ReadFile agree ------------------------------------------------------------ *)
(* (via C02's refinement) reading an in-memory file through one handle with ANY buffer sizes is reading
   the byte array: the projected results are [read_chunks], *)
Theorem C15_read_chunks : forall (content : bytes) (ro : bool) (ns : list Z), Forall (fun n => 0 <= n) ns ->
  proj_all (map (HRead 0) ns) (snd (run_steps mf_step (mf_init content [(ro, false)]) (map (HRead 0) ns)))
  = read_chunks content 0 ns.
Proof. exact mem_read_chunks. Qed.
Print Assumptions C15_read_chunks.

(* whose bytes concatenate to the file (its first sum-of-sizes bytes), *)
Theorem C15_read_chunks_bytes : forall (ns : list Z) (data : bytes) (pos : nat), Forall (fun n => 0 <= n) ns ->
  concat (map pres_bytes (read_chunks data pos ns)) = pread data pos (Z.to_nat (fold_right Z.add 0 ns)).
Proof. exact read_chunks_bytes. Qed.
Print Assumptions C15_read_chunks_bytes.

(* and which report end of file exactly when the offset has reached the end *)
Theorem C15_read_chunks_eof : forall (ns : list Z) (data : bytes) (pos k : nat) p n,
  nth_error (read_chunks data pos ns) k = Some p -> nth_error ns k = Some n -> 0 < n ->
  (pres_eof p = true <-> (length data <= chunk_pos data pos ns k)%nat).
Proof. exact read_chunks_eof. Qed.
Print Assumptions C15_read_chunks_eof.

(* ReadAt(0, size) returns the whole file and no error, and leaves the handle alone *)
Theorem C15_readat_whole : forall (data : bytes) (h : hnd), hclosed h = false ->
  f_readat data h (zlen data) 0 = (h, RData data None).
Proof. exact mem_readat_whole. Qed.
Print Assumptions C15_readat_whole.

(* ReadAt returns the bytes at the offset; fewer bytes than asked for always come with an end-of-file
   error (io.EOF exactly at the end of the file); no error means the buffer was filled *)
Theorem C15_readat_short : forall (data : bytes) (h : hnd) (n off : Z), hclosed h = false -> 0 <= off -> 0 <= n ->
  exists e, f_readat data h n off = (h, RData (pread data (Z.to_nat off) (Z.to_nat n)) e) /\
    (zlen (pread data (Z.to_nat off) (Z.to_nat n)) < n -> exists e', e = Some e' /\ is_eof e' = true) /\
    (0 < n -> off = zlen data -> e = Some (E KEOF)) /\
    (e = None -> zlen (pread data (Z.to_nat off) (Z.to_nat n)) = n).
Proof. exact mem_readat_short. Qed.
Print Assumptions C15_readat_short.

(* Seek(off, io.SeekStart) then Read(n) returns the bytes ReadAt(n, off) returns *)
Theorem C15_seek_read_is_readat : forall (data : bytes) (h : hnd) (n off : Z), hclosed h = false -> 0 <= off -> 0 <= n ->
  snd (f_seek data h off 0) = RPos off None /\
  res_bytes (snd (f_read data (fst (f_seek data h off 0)) n)) = res_bytes (snd (f_readat data h n off)) /\
  res_bytes (snd (f_readat data h n off)) = pread data (Z.to_nat off) (Z.to_nat n).
Proof. exact mem_seek_read_is_readat. Qed.
Print Assumptions C15_seek_read_is_readat.

(* the loop of afero.ReadFile (bytes.Buffer.ReadFrom) over a fresh handle returns exactly the content and a
   nil error, for every initial capacity *)
Theorem C15_readfile_loop : forall (content : bytes) (ro : bool) (cap : Z) (fuel : nat), (length content < fuel)%nat ->
  exists s', io_read_from mf_step fuel (mf_init content [(ro, false)]) 0 cap [] = (s', content, None).
Proof. exact mem_readfrom_is_content. Qed.
Print Assumptions C15_readfile_loop.

(* 6. FromIOFS -------------------------------------------------------------------------------------- *)
(* Create, Mkdir, MkdirAll, Remove, RemoveAll, Rename, Chmod, Chown, Chtimes and the file methods Write,
   WriteAt, WriteString, Truncate: a permission error; the wrapped filesystem is not called, its state
   and the wrapper's own table are unchanged *)
Theorem C15_fromiofs_rejects_mutations : forall St (step : St -> op -> St * res) (st : St * list (nat * str)) (o : op),
  io_plain_mutator o = true ->
  fst (fromiofs_step step st o) = st /\ io_denied (snd (fromiofs_step step st o)) = true.
Proof. exact @fromiofs_rejects. Qed.
Print Assumptions C15_fromiofs_rejects_mutations.

(* OpenFile with a write flag (O_WRONLY, O_RDWR, O_APPEND, O_CREATE, O_TRUNC) is refused for every such flag
   exactly when the mask the code tests contains all five bits (today the code tests nothing: mask 0) *)
Theorem C15_fromiofs_openfile_iff :
  (forall St (step : St -> op -> St * res) st p flag perm, io_write_flag flag = true ->
     fromiofs_step step st (OpenFile p flag perm) = (st, RErr (EW KPermission)))
  <-> fromiofs_mask_complete = true.
Proof. exact fromiofs_openfile_iff. Qed.
Print Assumptions C15_fromiofs_openfile_iff.

(* the full clause "every mutation is rejected", under the condition the code decides *)
Theorem C15_fromiofs_rejects_all : forall St (step : St -> op -> St * res) st o,
  fromiofs_mask_complete = true -> io_mutator o = true ->
  fst (fromiofs_step step st o) = st /\ io_denied (snd (fromiofs_step step st o)) = true.
Proof. exact @fromiofs_rejects_all. Qed.
Print Assumptions C15_fromiofs_rejects_all.

(* reads are delegated: Open to IOFS.Open (the name is remembered), Stat to IOFS's Stat, Read / ReadAt /
   Seek / Close / Stat of a file to the wrapped file, Readdir to ReadDir *)
Theorem C15_fromiofs_reads_delegate : forall St (step : St -> op -> St * res) s names,
  (forall p, fromiofs_step step (s, names) (Open p) =
     match iofs_open step s p with
     | (s', RHandle h) => ((s', (h, p) :: names), RHandle h)
     | (s', r) => ((s', names), r)
     end) /\
  (forall p, fromiofs_step step (s, names) (Stat p) = ((fst (iofs_stat step s p), names), snd (iofs_stat step s p))) /\
  (forall o, io_delegated o = true -> fromiofs_step step (s, names) o = ((fst (step s o), names), snd (step s o))) /\
  (forall h n, fromiofs_step step (s, names) (HReaddir h n) =
     ((fst (readdirfile_readdir step s h n), names), snd (readdirfile_readdir step s h n))).
Proof. exact @fromiofs_reads_delegate. Qed.
Print Assumptions C15_fromiofs_reads_delegate.

(* 7. what the code does where it does not check (conditional on the regenerated constants) ------------ *)
Theorem C15_sub_dot_rejects_names : forall St (step : St -> op -> St * res) (s : St), iofs_sub_dot_self = 0 ->
  iofs_open (iofs_sub_step step s_dot) s [97%N] = (s, RErr (EW KNotExist)) /\
  iofs_open (iofs_sub_step step s_dot) s s_dot = step s (Open s_dot).
Proof. exact @sub_dot_rejects. Qed.
Print Assumptions C15_sub_dot_rejects_names.

Theorem C15_fromiofs_openfile_ignores_flags : forall St (step : St -> op -> St * res) st p flag perm,
  fromiofs_openfile_mask = 0 ->
  fromiofs_step step st (OpenFile p flag perm) = fromiofs_step step st (Open p).
Proof. exact @fromiofs_openfile_ignores_flags. Qed.
Print Assumptions C15_fromiofs_openfile_ignores_flags.

(* Glob: malformed patterns ------------------------------------------------------------------------ *)
(* IOFS.Glob answers a pattern that is malformed at ANY level of Glob's recursion ([glob_accepts] of
   Model/Glob.v: Match(q, "") reports ErrBadPattern for the pattern or for a directory part Glob recurses
   into — "[a/b]" passes IOFS.Glob's own path.Match check as a whole, its directory part "[a" does not)
   with ErrBadPattern and no matches, whatever the inner filesystem is: it is not consulted, the state is
   untouched.  This is fs.Glob's behaviour; it holds for match.go as it is NOW (Glob checks the pattern
   first and hasMeta counts the backslash — constants regenerated from match.go on every check, see
   C16_glob_repo_iff for what the other values do) *)
Theorem C15_glob_malformed_rejected : forall St (step : St -> op -> St * res) (s : St) (pat : str),
  glob_accepts pat = false -> iofs_glob step s pat = (s, ([], GBadPattern)).
Proof. exact @iofs_glob_rejects. Qed.
Print Assumptions C15_glob_malformed_rejected.

(* non-vacuity: the models compute ------------------------------------------------------------------ *)
Example C15_ex_valid : map valid_path [[46]; [97]; [97;47;98]; []; [47;97]; [97;47]; [97;47;47;98]; [46;47;97];
                                        [97;47;46;46;47;98]; [46;46]; [97;47;46]; [46;46;46]]%N
                       = [true; true; true; false; false; false; false; false; false; false; false; true].
Proof. vm_compute. reflexivity. Qed.

(* a tree /b (file "xy"), /a (directory) on bp:/(mem): ReadDir(".") is sorted, paging 1,1,1 ends with EOF *)
Definition c15_ex_setup : list item :=
  [IOp [0%nat] (Some 0%nat) (OpenFile [47;98]%N 578 420); IOp [0%nat] None (HWrite 0 [120;121]%N);
   IOp [0%nat] None (HClose 0); IOp [0%nat] None (MkdirAll [47;97]%N 493)].
Example C15_ex_readdir :
  map (map (fun r => match r with RInfos l e => (map fi_name l, e) | _ => ([], Some (E KOther)) end))
      (io_run_all (SBasePath [47]%N SMem) c15_ex_setup [TBasic (QReadDir [46]%N)])
  = [[([[97]; [98]]%N, None)]].
Proof. vm_compute. reflexivity. Qed.
Example C15_ex_page :
  map (map (fun r => match r with RInfos l None => Some (length l) | ROk => Some 99%nat | _ => None end))
      (io_run_all (SBasePath [47]%N SMem) c15_ex_setup [TBasic (QPage [46]%N [1; 1; 1])])
  = [[Some 99%nat; Some 1%nat; Some 1%nat; None]].
Proof. vm_compute. reflexivity. Qed.
Example C15_ex_readfile :
  io_run_all (SBasePath [47]%N SMem) c15_ex_setup [TBasic (QReadFile [98]%N); TBasic (QReadFile [47;98]%N);
                                                   TFromMut (Remove [98]%N); TFromReadFile [98]%N]
  = [[RData [120;121]%N None]; [RErr (EW KInvalid)]; [RErr (EW KPermission)]; [RData [120;121]%N None]].
Proof. vm_compute. reflexivity. Qed.

(* the two former findings, on bp:/(mem) with /b and /a as above: Glob("\\b") finds b (an escape is the only
   meta character), Glob("[a/b]") is malformed in its directory part; "[a/b]" passes path.Match as a whole *)
Example C15_ex_glob :
  io_run_all (SBasePath [47]%N SMem) c15_ex_setup [TBasic (QGlob [92;98]%N); TBasic (QGlob [91;97;47;98;93]%N)]
  = [[RNames [[98]%N] None]; [io_glob_res ([], GBadPattern)]]
  /\ match_seg [91;97;47;98;93]%N [] = Some false /\ glob_accepts [91;97;47;98;93]%N = false.
Proof. repeat split; vm_compute; reflexivity. Qed.
