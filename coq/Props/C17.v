(* C17 — content helpers are exact.  Statements only; proofs are in Proofs/. *)
From AF Require Import Lib.Bytes Gen.Consts Model.Search Proofs.SearchProof.
From AF Require Import Model.SearchChunked Proofs.SearchChunkedProof.

(* FileContainsBytes / FileContainsAnyBytes: for EVERY content and EVERY list of needles the
   windowed search of util.go (window factor and half divisor read from the source) returns
   true exactly when the content contains one of the non-empty needles. *)
Theorem C17_contains_exact : forall (content : bytes) (needles : list bytes),
  reader_contains_any content needles = contains_spec content needles.
Proof. exact reader_contains_any_exact. Qed.
Print Assumptions C17_contains_exact.

(* the same for every even window factor >= 2 (a harmless change of the factor keeps the property) *)
Theorem C17_contains_exact_any_factor : forall factor content needles,
  2 <= factor -> Nat.even factor = true ->
  go_contains_any factor 2 content needles = contains_spec content needles.
Proof. exact go_contains_any_exact. Qed.
Print Assumptions C17_contains_exact_any_factor.

(* non-vacuity / sanity: the model is executable and the spec is bytes.Contains *)
Example C17_ex1 : reader_contains_any [97;98;99;100;101;102;103;104;105;88]%N [[88;103]%N] = false.
Proof. vm_compute. reflexivity. Qed.
Example C17_ex2 : reader_contains_any [97;98;99;100;101;102;103;104;105;88]%N [[105;88]%N; []] = true.
Proof. vm_compute. reflexivity. Qed.

(* ------------------------------------------------------------------------------------ *)
(* The same for EVERY io.Reader behaviour (Model/SearchChunked.v).  The reader is the content plus
   a chunking oracle [calls]: entry k says how many bytes the k-th call of Read may deliver at most
   (any number >= 1; 0 = the call returns (0, nil)) and whether io.EOF comes together with the last
   bytes or on the next call; calls beyond the list fill their buffer.  io.ReadAtLeast and
   readerContainsAny are transcribed on top of that.  For every content, every needle list and every
   oracle the answer is bytes.Contains on the whole content.  `Some`: the fuel
   (length content + length calls + 2, for the rounds and for the Read calls of one ReadAtLeast) is
   never exhausted — every Read delivers a byte, uses up an oracle entry, or reports io.EOF.
   Excluded: Read errors other than io.EOF; a reader that answers (0, nil) for ever (io.ReadAtLeast
   then does not return). *)
Theorem C17_contains_exact_chunked : forall (content : bytes) (calls : list rcall) (needles : list bytes),
  reader_contains_any_chunked content calls needles = Some (contains_spec content needles).
Proof. exact reader_contains_any_chunked_exact. Qed.
Print Assumptions C17_contains_exact_chunked.

Theorem C17_contains_exact_chunked_any_factor : forall factor content calls needles,
  2 <= factor -> Nat.even factor = true ->
  go_contains_any_chunked factor 2 content calls needles = Some (contains_spec content needles).
Proof. exact go_contains_any_chunked_exact. Qed.
Print Assumptions C17_contains_exact_chunked_any_factor.

(* The model of Model/Search.v (used by C17_contains_exact, the extracted runner and the
   correspondence check) is the instance "every Read fills its buffer" of the chunked model: the
   empty oracle, or any oracle whose entries are (c, false) with c >= bufflen.  Proved by a
   round-by-round simulation for EVERY window factor and half divisor with 1 <= hdiv <= factor
   (halflen >= the longest needle), so it does not depend on the exactness of either model. *)
Theorem C17_full_read_is_instance : forall content needles,
  reader_contains_any_chunked content [] needles = Some (reader_contains_any content needles).
Proof. exact reader_contains_any_is_fill_instance. Qed.
Print Assumptions C17_full_read_is_instance.

Theorem C17_full_read_is_instance_any_factor : forall factor hdiv content calls needles,
  1 <= hdiv -> hdiv <= factor ->
  Forall (fills (factor * largest needles)) calls ->
  go_contains_any_chunked factor hdiv content calls needles = Some (go_contains_any factor hdiv content needles).
Proof. exact chunked_fill_is_full. Qed.
Print Assumptions C17_full_read_is_instance_any_factor.

(* ... and with the source's constants (even factor, halflen = bufflen/2) every other oracle computes
   the same, round by round: readerContainsAny only ever calls io.ReadAtLeast with len(buf) = min. *)
Theorem C17_chunking_irrelevant : forall factor content calls needles,
  2 <= factor -> Nat.even factor = true ->
  go_contains_any_chunked factor 2 content calls needles = Some (go_contains_any factor 2 content needles).
Proof. exact chunked_eq_full. Qed.
Print Assumptions C17_chunking_irrelevant.

(* what io.ReadAtLeast guarantees for an arbitrary reader (the lemma the above rests on): the bytes
   placed are a prefix of what was left, at most len(buf), at least min unless the input ended *)
Theorem C17_read_at_least_spec : forall fuel rd buf n m,
  n <= length buf -> m <= length buf -> measure rd < fuel ->
  exists data eof rd',
    ral_loop fuel rd buf n m
      = Some (firstn n buf ++ copy_into (skipn n buf) data, n + length data, eof, rd') /\
    r_rest rd = data ++ r_rest rd' /\
    n + length data <= length buf /\
    (eof = false -> m <= n + length data) /\
    (eof = true -> r_rest rd' = []) /\
    (exists used, r_calls rd = used ++ r_calls rd').
Proof. exact ral_loop_spec. Qed.
Print Assumptions C17_read_at_least_spec.

(* the chunked model computes; 1-byte reads, a (0, nil) read, io.EOF together with the last byte *)
Example C17_ex_chunked1 :
  reader_contains_any_chunked_tr [97;98;99;100;101;102;103;104;105;88]%N
      [(1, false); (0, false); (3, false); (1, false); (2, true); (1, false); (1, false); (5, true)]%nat [[105;88]%N; []]
  = Some (true, 8, 0)%nat.
Proof. vm_compute. reflexivity. Qed.
Example C17_ex_chunked2 :     (* stale bytes of the previous window are not searched, whatever the split *)
  reader_contains_any_chunked [97;98;99;100;101;102;103;104;105;88]%N [(3, false); (1, true); (2, false)]%nat [[88;103]%N]
  = Some false.
Proof. vm_compute. reflexivity. Qed.
(* The oracle does matter as soon as len(buf) > min.  With a window factor of 3 (not the source's 4)
   and a needle of 3 bytes: bufflen 9, halflen 4, the second slice has 5 bytes.  A reader that fills
   it loses the byte at offset 8 in the following shift and misses "XYZ" at offset 7; a reader that
   hands out 4 bytes per call does not.  Hence "even factor" in the theorems. *)
Example C17_ex_odd_factor_chunking_matters :
  let content := [97;97;97;97;97;97;97;88;89;90;97;97;97;97]%N in
  (go_contains_any_chunked 3 2 content [] [[88;89;90]%N],
   go_contains_any_chunked 3 2 content (repeat (4, false)%nat 6) [[88;89;90]%N],
   contains_spec content [[88;89;90]%N]) = (Some false, Some true, true).
Proof. vm_compute. reflexivity. Qed.

(* ==================================================================================== *)
(* C17, remaining clauses: WriteFile, WriteReader and SafeWriteReader followed by ReadFile.
   Models: Model/IOUtil.v (ioutil.go ReadFile/readAll/WriteFile, util.go WriteReader /
   SafeWriteReader / Exists over an arbitrary filesystem), instantiated with MemMapFs (m_step).
   The same models run on bp:/d(mem), cow(mem,mem), cache:0(mem,mem) in the harness (c17b.go). *)
From AF Require Import Lib.Path Lib.Ops Model.MemFile Model.MemFs Model.IOUtil
  Proofs.PathProof Proofs.MemFsBasics Proofs.MemCreate Proofs.IOUtilProof.

(* WriteFile then ReadFile: for EVERY payload b (every size: the read loop is proved by induction on
   what is left to read, the size hint and the 1e9 cap play no role) and every permission, in every
   state where p is a regular file, or p is absent and its parent entry is present ([sane_for]).
   When that parent is a directory the open succeeds; when it is a regular file MemMapFs refuses
   with ENOTDIR (memmap.go lockfreeBelowFile), WriteFile returns that error, and the hypothesis
   "WriteFile returned nil" does not hold — before that repair the file was created below the
   regular file, which became a directory. *)
Theorem C17_write_read : forall (s : mst) (p : str) (b : bytes) (perm : Z) (s' : mst),
  sane_for s p ->
  write_file m_step s p b perm = (s', ROk) ->
  exists s'', read_file m_step s' p = (s'', RData b None).
Proof.
  intros s p b perm s' Hs H. pose proof (write_read_roundtrip s p b perm s' Hs H) as E.
  destruct (read_file m_step s' p) as [s'' r]. cbn [snd] in E. subst r. now exists s''.
Qed.
Print Assumptions C17_write_read.

(* the read loop alone: a regular file holding [data] is read back exactly, whatever its length *)
Theorem C17_read_file_exact : forall (s : mst) (p : str) (data : bytes),
  holds s p data -> snd (read_file m_step s p) = RData data None.
Proof. exact read_file_holds. Qed.
Print Assumptions C17_read_file_exact.

(* WriteReader then ReadFile: for every list of chunks the reader hands out (io.Copy's 32 KiB buffer
   splits long ones), every state whose path map points into the heap and has a root, and every path
   whose last element is a proper name (not "", ".", ".."): the bytes come back exactly, and the
   directory part of p (created by MkdirAll when missing; "/" for a bare name) exists afterwards. *)
Theorem C17_write_reader : forall (s : mst) (p : str) (chunks : list bytes) (s' : mst),
  mem_wf s -> lookup s s_slash <> None -> good_seg (snd (path_split p)) ->
  write_reader m_step s p chunks = (s', ROk) ->
  snd (read_file m_step s' p) = RData (concat chunks) None /\
  exists d dn, lookup s' (normalize_path (fst (path_split p))) = Some d /\ get_node s' d = Some dn.
Proof. exact write_reader_roundtrip. Qed.
Print Assumptions C17_write_reader.

(* SafeWriteReader never alters a path that exists: when Stat(p) succeeds ([exists_at], see
   C17_exists_is_stat) and the directory part of p is "" or present, the call returns an error and
   the path map and every node are what they were (fs_view: everything but handles and the clock). *)
Theorem C17_safe_write_preserves : forall (s : mst) (p : str) (chunks : list bytes),
  exists_at s p ->
  (fst (path_split p) = [] \/ lookup s (normalize_path (fst (path_split p))) <> None) ->
  (exists e, snd (safe_write_reader m_step s p chunks) = RErr e) /\
  fs_view (fst (safe_write_reader m_step s p chunks)) = fs_view s.
Proof. exact safe_write_preserves. Qed.
Print Assumptions C17_safe_write_preserves.

Theorem C17_exists_is_stat : forall s p,
  (exists fi, snd (m_step s (Stat p)) = RInfo fi) <-> exists_at s p.
Proof. exact stat_succeeds_iff. Qed.
Print Assumptions C17_exists_is_stat.

(* MkdirAll on a path that exists changes nothing (the lemma behind the previous theorem) *)
Theorem C17_mkdirall_existing_noop : forall s D perm, lookup s (normalize_path D) <> None ->
  snd (m_step s (MkdirAll D perm)) = ROk /\ fs_view (fst (m_step s (MkdirAll D perm))) = fs_view s.
Proof. exact mkdirall_existing. Qed.
Print Assumptions C17_mkdirall_existing_noop.

(* the hypotheses are satisfiable and the models compute *)
Example C17_ex_sane : sane_for m_init [47; 102]%N.     (* "/f" in the initial filesystem *)
Proof. vm_compute. exists 0%nat. eexists. split; reflexivity. Qed.
Example C17_ex_wf : mem_wf m_init /\ lookup m_init s_slash <> None /\ good_seg (snd (path_split [47; 97; 47; 102]%N)).
Proof.
  split; [exact mem_wf_init|]. split; [discriminate|]. vm_compute.
  repeat split; try discriminate. intros [H|[]]. discriminate.
Qed.
Example C17_ex_roundtrip :
  let '(s1, w) := write_file m_step m_init [47; 102]%N (repeat 7%N 1300) 420 in
  (w, snd (read_file m_step s1 [47; 102]%N)) = (ROk, RData (repeat 7%N 1300) None).
Proof. vm_compute. reflexivity. Qed.
Example C17_ex_write_reader :       (* "/a/b/f": both directories are missing; chunks incl. an empty one *)
  let '(s1, w) := write_reader m_step m_init [47; 97; 47; 98; 47; 102]%N [[1; 2]; []; [3]]%N in
  (w, snd (read_file m_step s1 [47; 97; 47; 98; 47; 102]%N), snd (m_step s1 (Stat [47; 97; 47; 98]%N)))
  = (ROk, RData [1; 2; 3]%N None,
     RInfo (mkFi [98]%N true dir_size (Z.lor mode_dir 511) (BIG + 0))).
Proof. vm_compute. reflexivity. Qed.
Example C17_ex_safe :               (* the second SafeWriteReader is refused and changes nothing *)
  let '(s1, _) := write_reader m_step m_init [47; 102]%N [[1]]%N in
  let '(s2, r) := safe_write_reader m_step s1 [47; 102]%N [[9; 9]]%N in
  (r, snd (read_file m_step s2 [47; 102]%N)) = (RErr (E KOther), RData [1]%N None).
Proof. vm_compute. reflexivity. Qed.
