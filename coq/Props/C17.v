(* C17 — content helpers are exact.  Statements only; proofs are in Proofs/. *)
From AF Require Import Lib.Bytes Gen.Consts Model.Search Proofs.SearchProof.

(* FileContainsBytes / FileContainsAnyBytes: for EVERY content and EVERY list of needles the
   windowed search of util.go (window factor and half divisor read from the source) returns
   true exactly when the content contains one of the non-empty needles. *)
Theorem C17_contains_exact : forall (content : bytes) (needles : list bytes),
  reader_contains_any content needles = contains_spec content needles.
Proof. exact reader_contains_any_exact. Qed.
Print Assumptions C17_contains_exact.

(* the same for every even window factor >= 2 (a harmless change of the factor keeps the property) *)
Theorem C17_contains_exact_any_factor : forall factor content needles,
  2 <= factor -> Nat.even factor = true ->
  go_contains_any factor 2 content needles = contains_spec content needles.
Proof. exact go_contains_any_exact. Qed.
Print Assumptions C17_contains_exact_any_factor.

(* non-vacuity / sanity: the model is executable and the spec is bytes.Contains *)
Example C17_ex1 : reader_contains_any [97;98;99;100;101;102;103;104;105;88]%N [[88;103]%N] = false.
Proof. vm_compute. reflexivity. Qed.
Example C17_ex2 : reader_contains_any [97;98;99;100;101;102;103;104;105;88]%N [[105;88]%N; []] = true.
Proof. vm_compute. reflexivity. Qed.
