(* C19 — sftpfs moves file data to and from the server without loss.  Statements only; proofs are
   in Proofs/SftpProof.v; the Go-level model (sftpfs transcribed, pkg/sftp client and in-memory
   server trusted) is Model/Sftp.v, the accounting / flat-array specification is Model/SftpSpec.v
   (pwrite, pread, ptrunc of Model/ByteFile.v). *)
From AF Require Import Lib.Bytes Lib.Path Lib.Ops Gen.Consts Model.ByteFile Model.Sftp Model.SftpSpec
  Proofs.SftpProof.
Local Open Scope Z_scope.

(* No write is silently dropped.  For EVERY start state and EVERY sequence of operations, the
   content of every file object on the server after the run is the fold, over the calls in order,
   of what each call REPORTED (SftpSpec.acct): Write/WriteString reporting (n, e) at the handle's
   position account for pwrite of the first n payload bytes there, WriteAt reporting (n, e) for
   the same at its offset (sftpfs.File.WriteAt always reports 0: nothing), Truncate reporting nil
   for ptrunc, a successful Create/OpenFile for a new empty file or (O_TRUNC) an emptied one;
   every other call, and every call that reported an error with count 0, accounts for nothing. *)
Theorem C19_writes_accounted : forall (items : list sitem) (st : sftp_state),
  sv_objs (sst_srv (fst (sftp_run st items))) = accounted (sftp_trace st items) (sv_objs (sst_srv st)).
Proof. exact writes_accounted. Qed.
Print Assumptions C19_writes_accounted.

(* what the accounting says for the two extreme reports *)
Theorem C19_full_count_stores_all : forall d pos b, b <> [] ->
  acc_seq d pos b (zlen b) None = pwrite d (Z.to_nat pos) b.
Proof. exact acc_seq_full. Qed.
Print Assumptions C19_full_count_stores_all.
Theorem C19_zero_count_stores_nothing : forall d pos off b e, b <> [] ->
  acc_seq d pos b 0 e = d /\ acc_at d off b 0 = d.
Proof. intros; split; [now apply acc_seq_zero | apply acc_at_zero]. Qed.
Print Assumptions C19_zero_count_stores_nothing.

(* an empty payload reported (0, nil): nothing is written; this server zero-extends the file up to
   the position (ptrunc to max(length, position)) and the accounting says so *)
Theorem C19_empty_write_only_extends : forall d pos,
  acc_seq d pos [] 0 None = ptrunc d (Nat.max (length d) (Z.to_nat pos)).
Proof. exact acc_seq_empty. Qed.
Print Assumptions C19_empty_write_only_extends.

(* the trace the accounting folds over carries exactly the results the calls returned *)
Theorem C19_trace_is_reported : forall items st,
  map (fun e => snd e) (sftp_trace st items) = snd (sftp_run st items).
Proof. exact trace_results. Qed.
Print Assumptions C19_trace_is_reported.

(* "the position" of a handle is itself what was reported: after any step that does not rebind the
   slot, the handle is the same handle and its offset moved by the reported count of a
   Read/Write/WriteString through it, or to the reported position of a successful Seek *)
Theorem C19_offsets_track_reports : forall st slot o i f,
  sf_slot_get (sst_slots st) i = Some f -> ~ rebinds slot o i ->
  exists f', sf_slot_get (sst_slots (fst (sftp_step st (slot, o)))) i = Some f' /\
             same_handle f f' /\
             sf_off f' = next_off o i (sf_off f) (snd (sftp_step st (slot, o))).
Proof. exact offsets_track_reports. Qed.
Print Assumptions C19_offsets_track_reports.

(* Reads, positional reads, seeks and Stat return exactly what the server holds: whenever the flat
   byte-array specification speaks (open handle with read access, non-negative offset / target;
   any path for Stat), the call through sftpfs returns exactly its answer — pread of the file's
   bytes with EOF iff the read is short, the new position, the size. *)
Theorem C19_reads_exact : forall st it r,
  spec_read st (sv_objs (sst_srv st)) it = Some r -> snd (sftp_step st it) = r.
Proof. exact reads_exact. Qed.
Print Assumptions C19_reads_exact.

(* the two together, along a whole run: the run the model runner prints as S lines (contents
   ACCOUNTED from the reports, results PREDICTED by the flat-array spec from those accounted
   contents) shows at every step the same server as the model run, and every prediction it makes
   is the result the call returned.  The check compares the implementation with exactly these. *)
Theorem C19_spec_run_agrees : forall items st,
  map fst (sftp_run_spec st (sv_objs (sst_srv st)) items) = map snd (sftp_run_obs st items) /\
  Forall2 pred_ok (map snd (sftp_run_spec st (sv_objs (sst_srv st)) items)) (map fst (sftp_run_obs st items)).
Proof. exact spec_run_agrees. Qed.
Print Assumptions C19_spec_run_agrees.

(* Directory creation.  FULL statement (what the property asks for):
     forall s p s', wf (sv_tree s) -> fs_mkdirall false fuel s p = (s', ROk) ->
       forall a rest, skey p = a ++ rest -> is_dir s' a.
   It is FALSE for the code as it is: C19_mkdirall_on_file_reports_ok below (MkdirAll on an existing
   regular file returns nil and creates nothing).  Proved: the statement for every path that does
   not name a regular file (_partial), and the full statement for the patched code
   (fixed = true: the fast path returns ENOTDIR for a non-directory). *)
Theorem C19_mkdirall_creates_ancestors_partial : forall fuel s p s',
  wf (sv_tree s) -> (forall i, lfetch (sv_tree s) (skey p) <> Some (SfFile i)) ->
  fs_mkdirall false fuel s p = (s', ROk) ->
  forall a rest, skey p = a ++ rest -> is_dir s' a.
Proof. intros fuel s p s' Hwf Hnf. apply mkdirall_creates_ancestors; [exact Hwf | right; exact Hnf]. Qed.
Print Assumptions C19_mkdirall_creates_ancestors_partial.

Theorem C19_mkdirall_creates_ancestors_patched : forall fuel s p s',
  wf (sv_tree s) -> fs_mkdirall true fuel s p = (s', ROk) ->
  forall a rest, skey p = a ++ rest -> is_dir s' a.
Proof. intros fuel s p s' Hwf. apply mkdirall_creates_ancestors; [exact Hwf | left; reflexivity]. Qed.
Print Assumptions C19_mkdirall_creates_ancestors_patched.

(* ... and the code of /repo as it is NOW (the switch is regenerated from sftpfs/sftp.go on every
   check): the full statement, no hypothesis about what the path names.  Reverting the repair makes
   the switch 0 and this obligation fail. *)
Theorem C19_mkdirall_creates_ancestors : forall fuel s p s',
  wf (sv_tree s) -> fs_mkdirall (Z.eqb sftp_mkdirall_enotdir 1) fuel s p = (s', ROk) ->
  forall a rest, skey p = a ++ rest -> is_dir s' a.
Proof.
  intros fuel s p s' Hwf H. change (Z.eqb sftp_mkdirall_enotdir 1) with true in H.
  exact (C19_mkdirall_creates_ancestors_patched fuel s p s' Hwf H).
Qed.
Print Assumptions C19_mkdirall_creates_ancestors.

Theorem C19_mkdirall_on_file_reports_ok : forall fuel s p i,
  lfetch (sv_tree s) (skey p) = Some (SfFile i) -> fs_mkdirall false fuel s p = (s, ROk).
Proof. exact mkdirall_on_file_reports_ok. Qed.
Print Assumptions C19_mkdirall_on_file_reports_ok.

(* the well-formedness assumed above (every entry's parent is a directory) holds in every state
   reachable from the empty server, and MkdirAll never touches file contents *)
Theorem C19_reachable_wf : forall items, wf (sv_tree (sst_srv (fst (sftp_run sftp_init items)))).
Proof. intros items. apply reachable_wf. exact wf_nil. Qed.
Print Assumptions C19_reachable_wf.

(* Stat, Remove and Rename are exactly the server's operations: Stat answers from the entry at the
   cleaned path (size = length of the bytes held); a successful Remove deletes that one name and
   nothing else, a failed one changes nothing; a successful Rename makes the new name (and what
   is below it) hold what the old one held, leaves nothing below the old name and everything else
   where it was, a failed one changes nothing; neither touches file contents. *)
Theorem C19_rename_remove_stat_delegate : forall s,
  (forall p, fs_stat s p = match lfetch (sv_tree s) (skey p) with
                           | None => RErr eNotExist
                           | Some SfDir => RInfo (info_of (path_base p) true 0)
                           | Some (SfFile i) => RInfo (info_of (path_base p) false (zlen (obj_content (sv_objs s) i)))
                           end) /\
  (forall p s' r, fs_remove s p = (s', r) ->
     sv_objs s' = sv_objs s /\
     match r with
     | ROk => (forall q, q <> skey p -> lfetch (sv_tree s') q = lfetch (sv_tree s) q) /\
              (skey p <> [] -> lfetch (sv_tree s') (skey p) = None) /\
              (exists n, lfetch (sv_tree s) (skey p) = Some n)
     | _ => s' = s
     end) /\
  (forall a b s' r, wf (sv_tree s) -> fs_rename s a b = (s', r) ->
     sv_objs s' = sv_objs s /\
     match r with
     | ROk => (exists n, lfetch (sv_tree s) (skey a) = Some n) /\ lfetch (sv_tree s) (skey b) = None /\
              forall q, lfetch (sv_tree s') q =
                        match kstrip (skey a) q with
                        | Some _ => None
                        | None => lfetch (sv_tree s) (rename_src (skey a) (skey b) q)
                        end
     | _ => s' = s
     end).
Proof.
  intros s. split; [intros p; apply stat_delegates|].
  split; [intros p s' r; apply remove_delegates | intros a b s' r; apply rename_delegates].
Qed.
Print Assumptions C19_rename_remove_stat_delegate.

(* non-vacuity: the model computes.  "/f": Create, Write "abc", WriteAt "XY"@1 (reports 0, stores
   nothing), Seek 1, Read 5 -> "bc"+EOF; the server holds "abc". *)
Definition ex_items : list sitem :=
  [(Some 0%nat, Create [47;102]%N); (None, HWrite 0 [97;98;99]%N); (None, HWriteAt 0 [88;89]%N 1);
   (None, HSeek 0 1 0); (None, HRead 0 5)].
Example C19_ex_run : snd (sftp_run sftp_init ex_items) =
  [RHandle 0; RCount 3 None; RCount 0 None; RPos 1 None; RData [98;99]%N (Some eEOF)].
Proof. vm_compute. reflexivity. Qed.
Example C19_ex_server : sftp_snapshot (sst_srv (fst (sftp_run sftp_init ex_items))) = [([47;102]%N, Some [97;98;99]%N)].
Proof. vm_compute. reflexivity. Qed.
(* MkdirAll "/d/e/g" on the empty server creates the three directories *)
Example C19_ex_mkdirall :
  map fst (sftp_snapshot (sst_srv (fst (sftp_run sftp_init [(None, MkdirAll [47;100;47;101;47;103]%N 493)])))) =
  [[47;100]%N; [47;100;47;101]%N; [47;100;47;101;47;103]%N].
Proof. vm_compute. reflexivity. Qed.
(* MkdirAll "/f" on the regular file "/f": an error since the fix of sftpfs/sftp.go (the unfixed
   fast path answered ok: fs_mkdirall false, see C19_mkdirall_on_file_reports_ok) *)
Example C19_ex_mkdirall_on_file :
  snd (sftp_run sftp_init [(Some 0%nat, Create [47;102]%N); (None, MkdirAll [47;102]%N 493)]) = [RHandle 0; RErr (EW KENOTDIR)].
Proof. vm_compute. reflexivity. Qed.
(* a 70001-byte write goes out as three packets and is stored as one pwrite *)
Example C19_ex_big :
  (let b := repeat 7%N 70001 in
   beqb (Sftp.write_chunks (S (length b)) [1;2;3]%N 2 b) (pwrite [1;2;3]%N 2 b)) = true.
Proof. vm_compute. reflexivity. Qed.
