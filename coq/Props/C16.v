(* C16 — Walk and Glob agree with path/filepath on the same tree.  Statements only; proofs in Proofs/.
   Models: Model/Walk.v (afero path.go, path/filepath path.go), Model/Glob.v (afero match.go,
   path/filepath match.go incl. Match).  Results are compared as a whole: final callback state (so, for
   a logging callback, the visited paths, their order and directory flags), and the returned error. *)
From AF Require Import Lib.Bytes Lib.Path Gen.Consts Model.Walk Model.Glob Model.MatchNoEsc
  Proofs.WalkProof Proofs.GlobProof Proofs.GlobAllProof Proofs.MatchNoEscProof.

(* ---- Walk.  For EVERY tree, root (existing directory / file / missing / unclean), callback state
   machine over any state type and initial state: afero.Walk with the final `SkipDir -> nil`
   conversion of the proposed patch computes exactly what path/filepath.Walk computes. *)
Theorem C16_walk_eq : forall (S : Type) (cb : S -> visit -> S * action) (t : tree) (root : str) (s0 : S),
  afero_walk cb t root s0 = std_walk cb t root s0.
Proof. exact afero_walk_eq_std. Qed.
Print Assumptions C16_walk_eq.

(* the code of /repo as it is NOW (the constant is regenerated from path.go on every check):
   it agrees with path/filepath.Walk on all inputs iff Walk converts a final SkipDir into nil *)
Theorem C16_walk_repo_iff :
  (forall (S : Type) (cb : S -> visit -> S * action) t root s0, afero_walk_repo cb t root s0 = std_walk cb t root s0)
  <-> walk_skipdir_to_nil = 1%Z.
Proof. exact afero_walk_repo_eq_std_iff. Qed.
Print Assumptions C16_walk_repo_iff.

(* the pinned code (no conversion) is refuted: D["a"=F], root "/", SkipDir on the file *)
Theorem C16_walk_refuted :
  exists (t : tree) (root : str) (cb : unit -> visit -> unit * action) (s0 : unit),
    afero_walk_current cb t root s0 <> std_walk cb t root s0.
Proof. exact afero_walk_current_refuted. Qed.
Print Assumptions C16_walk_refuted.

(* ... and that is the only difference: same final state (same visits in the same order with the same
   flags) always, same error unless afero returns SkipDir (filepath.Walk never does) *)
Theorem C16_walk_current_diff : forall (S : Type) (cb : S -> visit -> S * action) t root s0,
  fst (afero_walk_current cb t root s0) = fst (std_walk cb t root s0)
  /\ (snd (afero_walk_current cb t root s0) <> SkipDir ->
      afero_walk_current cb t root s0 = std_walk cb t root s0)
  /\ snd (std_walk cb t root s0) <> SkipDir.
Proof.
  intros S cb t root s0. split; [apply afero_walk_current_state|].
  split; [apply afero_walk_current_err|apply std_walk_never_skipdir].
Qed.
Print Assumptions C16_walk_current_diff.

(* ---- Glob.  [afero_glob] is match.go as it is in /repo NOW: [afero_glob_gen bs chk] with the two
   behaviour switches the translator reads from match.go (hasMeta counts the backslash; Glob starts with
   the pattern check of path/filepath.Glob).  The theorems of this first group hold for either value of
   the switches.
   For every tree and every well-formed pattern without escapes (grammar of Match, see
   Model/Glob.v [well_formed]) below filepath.Glob's recursion limit: the same matches in the same
   order and the same (nil) error. *)
Theorem C16_glob_eq : forall (t : tree) (pat : str),
  well_formed pat = true -> (N.of_nat (length pat) < 10000)%N ->
  afero_glob t pat = std_glob t pat.
Proof. exact afero_glob_eq_std_wf. Qed.
Print Assumptions C16_glob_eq.

(* more generally: for every pattern without backslash that filepath.Glob's own pre-check accepts;
   and what it does not accept it rejects with ErrBadPattern before looking at the tree *)
Theorem C16_glob_eq_accepted : forall (t : tree) (pat : str),
  no_escape pat = true -> std_accepts pat = true -> (N.of_nat (length pat) < 10000)%N ->
  afero_glob t pat = std_glob t pat.
Proof. exact afero_glob_eq_std. Qed.
Print Assumptions C16_glob_eq_accepted.

Theorem C16_glob_std_rejects : forall (t : tree) (pat : str),
  no_escape pat = true -> std_accepts pat = false -> std_glob t pat = ([], GBadPattern).
Proof. exact std_glob_rejects. Qed.
Print Assumptions C16_glob_std_rejects.

(* well-formed patterns: Match never reports ErrBadPattern, filepath.Glob accepts them, no Glob error;
   the recursion fuel of the model is never exhausted *)
Theorem C16_glob_wellformed : forall (t : tree) (pat : str), well_formed pat = true ->
  (forall name, match_seg pat name <> None)
  /\ no_escape pat = true /\ std_accepts pat = true
  /\ snd (afero_glob t pat) = GNil.
Proof.
  intros t pat H. split; [intros name; apply match_seg_wf; exact H|].
  destruct (well_formed_accepted pat H) as [H1 H2]. repeat split; try assumption.
  apply afero_glob_wf_no_error. exact H.
Qed.
Print Assumptions C16_glob_wellformed.

(* what both Globs denote for a well-formed pattern: no meta characters -> the path itself if it exists;
   otherwise, for every directory denoted by the directory part (in order), its sorted names that
   match the last element, joined onto the directory (Model/Glob.v [glob_spec]) *)
Theorem C16_glob_denotes : forall (t : tree) (pat : str),
  well_formed pat = true -> (N.of_nat (length pat) < 10000)%N ->
  afero_glob t pat = (glob_spec t pat, GNil) /\ std_glob t pat = (glob_spec t pat, GNil).
Proof.
  intros t pat H L. rewrite <- (afero_glob_eq_std_wf t pat H L).
  split; apply afero_glob_denotes; exact H.
Qed.
Print Assumptions C16_glob_denotes.

Theorem C16_glob_fuel : forall (t : tree) (pat : str), snd (afero_glob t pat) <> GOutOfFuel.
Proof. exact afero_glob_fuel. Qed.
Print Assumptions C16_glob_fuel.

(* ---- Glob, ALL patterns (escapes and malformed patterns included; beyond the statement of C16, this
   is what C15 "Glob agrees with the generic version" needs from match.go).  These depend on the
   switches: the code of /repo as it is NOW (constants regenerated from match.go on every check) agrees
   with path/filepath.Glob on every tree and every pattern below filepath's recursion limit ... *)
Theorem C16_glob_eq_all : forall (t : tree) (pat : str),
  (N.of_nat (length pat) < 10000)%N -> afero_glob t pat = std_glob t pat.
Proof. exact afero_glob_eq_std_all. Qed.
Print Assumptions C16_glob_eq_all.

(* ... iff hasMeta counts the backslash and Glob checks the pattern first *)
Theorem C16_glob_repo_iff :
  (forall (t : tree) (pat : str), (N.of_nat (length pat) < 10000)%N -> afero_glob t pat = std_glob t pat)
  <-> (glob_hasmeta_backslash = 1%Z /\ glob_checks_pattern_first = 1%Z).
Proof. exact afero_glob_repo_eq_std_iff. Qed.
Print Assumptions C16_glob_repo_iff.

(* the pinned code (`*?[`, no check) is refuted twice: D["a"=F] with `\a` (an escape is the only meta
   character: filepath finds "a", afero nothing) and D[] with `[` (filepath: ErrBadPattern, afero: nil) *)
Theorem C16_glob_pinned_refuted :
  (exists t pat, (N.of_nat (length pat) < 10000)%N /\ no_escape pat = false
                 /\ std_glob t pat = ([[97%N]], GNil) /\ afero_glob_pinned t pat = ([], GNil))
  /\ (exists t pat, (N.of_nat (length pat) < 10000)%N /\ no_escape pat = true
                    /\ std_glob t pat = ([], GBadPattern) /\ afero_glob_pinned t pat = ([], GNil)).
Proof. exact afero_glob_pinned_refuted. Qed.
Print Assumptions C16_glob_pinned_refuted.

(* a malformed pattern — Match(pattern, "") reports ErrBadPattern — is answered with ErrBadPattern and
   no matches WHATEVER THE TREE (also when no directory entry is ever matched against it) *)
Theorem C16_glob_malformed : forall (t : tree) (pat : str),
  match_seg pat [] = None -> afero_glob t pat = ([], GBadPattern).
Proof. exact afero_glob_malformed. Qed.
Print Assumptions C16_glob_malformed.

(* the same when the malformed part is a directory part Glob recurses into ([glob_accepts]: the check at
   every level of the recursion); and these are exactly the patterns rejected on every tree *)
Theorem C16_glob_rejects_iff : forall (pat : str),
  glob_accepts pat = false <-> (forall t : tree, afero_glob t pat = ([], GBadPattern)).
Proof. exact glob_accepts_iff. Qed.
Print Assumptions C16_glob_rejects_iff.

(* nothing changed for escape-free patterns.  (1) The matcher with escapes ([match_seg], filepath.Match
   as both Globs call it) agrees with the escape-free matcher (Model/MatchNoEsc.v) on every pattern
   without a backslash and every name: same verdict, same ErrBadPattern *)
Theorem C16_match_no_escape : forall (pat name : str),
  no_escape pat = true -> match_seg pat name = match_seg_ne pat name.
Proof. exact match_seg_no_escape. Qed.
Print Assumptions C16_match_no_escape.

(* (2) hasMeta with the backslash is hasMeta without it, the per-level check is filepath's acceptance
   as C16_glob_eq_accepted uses it, and Glob as it is now is the pinned Glob on every accepted
   escape-free pattern (no bound on the length) *)
Theorem C16_glob_eq_pinned : forall (t : tree) (pat : str),
  no_escape pat = true -> std_accepts pat = true ->
  has_meta_bs pat = has_meta pat /\ glob_accepts pat = true /\ afero_glob t pat = afero_glob_pinned t pat.
Proof.
  intros t pat Hne Hacc. split; [apply has_meta_bs_no_escape; exact Hne|].
  split; [rewrite glob_accepts_no_escape; assumption|]. apply afero_glob_eq_pinned; assumption.
Qed.
Print Assumptions C16_glob_eq_pinned.

(* ---- examples: the models compute, the hypotheses are satisfiable *)
Definition ex_tree : tree :=
  D [([98], D [([120], F); ([97;46;98], F)]); ([97], F); ([97;45;98], D [([120], F)]); ([97;48], F)]%N.

(* order: a, a-b, a-b/x, a0, b, b/a.b, b/x — per directory, not by full path *)
Example C16_ex_walk_order :
  map v_path (fst (run_std ex_tree [47]%N [])) =
  [[47]; [47;97]; [47;97;45;98]; [47;97;45;98;47;120]; [47;97;48]; [47;98]; [47;98;47;97;46;98]; [47;98;47;120]]%N
  /\ run_afero_fixed ex_tree [47]%N [] = run_std ex_tree [47]%N [].
Proof. split; vm_compute; reflexivity. Qed.

(* SkipDir on the directory /a-b (3rd visit) skips /a-b/x; SkipDir on the file /b/a.b skips /b/x *)
Example C16_ex_walk_skip :
  map v_path (fst (run_std ex_tree [47]%N [TCont; TCont; TSkip; TCont; TCont; TSkip])) =
  [[47]; [47;97]; [47;97;45;98]; [47;97;48]; [47;98]; [47;98;47;97;46;98]]%N
  /\ snd (run_std ex_tree [47]%N [TCont; TCont; TSkip; TCont; TCont; TSkip]) = Continue.
Proof. split; vm_compute; reflexivity. Qed.

(* the defect: SkipDir on the file /a directly under the root *)
Example C16_ex_defect :
  snd (run_afero_current ex_tree [47]%N [TCont; TSkip]) = SkipDir
  /\ snd (run_std ex_tree [47]%N [TCont; TSkip]) = Continue
  /\ snd (run_afero_fixed ex_tree [47]%N [TCont; TSkip]) = Continue.
Proof. repeat split; vm_compute; reflexivity. Qed.

(* "/*/x" and "/[a-b]*" *)
Example C16_ex_glob :
  afero_glob ex_tree [47;42;47;120]%N = ([[47;97;45;98;47;120]; [47;98;47;120]]%N, GNil)
  /\ std_glob ex_tree [47;42;47;120]%N = ([[47;97;45;98;47;120]; [47;98;47;120]]%N, GNil)
  /\ well_formed [47;42;47;120]%N = true
  /\ fst (afero_glob ex_tree [47;91;97;45;98;93;42]%N) = [[47;97]; [47;97;45;98]; [47;97;48]; [47;98]]%N.
Proof. repeat split; vm_compute; reflexivity. Qed.

(* malformed "[" on an empty directory: filepath.Glob reports ErrBadPattern; afero.Glob as pinned did
   not, as it is now it does.  "[a/b]" is malformed in its directory part only *)
Example C16_ex_malformed :
  std_glob (D []) [91]%N = ([], GBadPattern) /\ afero_glob_pinned (D []) [91]%N = ([], GNil)
  /\ afero_glob (D []) [91]%N = ([], GBadPattern)
  /\ well_formed [91]%N = false /\ match_seg [91]%N [] = None
  /\ glob_accepts [91;97;47;98;93]%N = false /\ afero_glob ex_tree [91;97;47;98;93]%N = ([], GBadPattern).
Proof. repeat split; vm_compute; reflexivity. Qed.

(* escapes: `/\a` finds /a (pinned: nothing, the name `\a` does not exist); `/a\-b/*` descends into a-b;
   `/\[` is a literal "[" (nothing there), `/a\` is malformed (a trailing backslash) *)
Example C16_ex_escape :
  afero_glob ex_tree [47;92;97]%N = ([[47;97]%N], GNil)
  /\ afero_glob_pinned ex_tree [47;92;97]%N = ([], GNil)
  /\ afero_glob ex_tree [47;97;92;45;98;47;42]%N = ([[47;97;45;98;47;120]%N], GNil)
  /\ afero_glob ex_tree [47;92;91]%N = ([], GNil)
  /\ afero_glob ex_tree [47;97;92]%N = ([], GBadPattern)
  /\ std_glob ex_tree [47;97;92]%N = ([], GBadPattern).
Proof. repeat split; vm_compute; reflexivity. Qed.
