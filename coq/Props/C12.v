(* C12 — an interrupted copy-up never leaves a truncated or mixed copy, and is reported.
   Statements only; proofs in Proofs/FaultyMem.v, FaultyPath.v, FaultyProof.v, FaultyMain.v, UnionWriteShort.v,
   FaultyCreate.v.

   Setting: base = MemMapFs (m_step), layer = MemMapFs behind the fault injector of
   Model/Faulty.v (faulty_step m_step pl: every Fs and file call on the layer is numbered, the
   plan pl says what happens to call i: FltPass | FltFail e (not performed, error e returned)
   | FltShort k (short write / early EOF)), the copy is the transcription of unionFile.go
   copyToLayer / copyFileToLayer / copyFile with io.Copy in 32 KiB chunks (Model/Union.v).
   File contents are arbitrary byte lists (all sizes).

   Hypotheses:  name is in MemMapFs normal form and is not "/";  the base holds a regular file
   `name` with bytes dat (reg_file);  the layer is `layer_sane`: either the parent directory of
   name is registered (a directory node with a child index) and name is absent or a regular file
   whose node carries that name (an older copy) — or neither the parent nor name has an entry and
   the MkdirAll of the parent is not refused (mkdirall_clear: walking up from the parent's own
   parent with filepath.Dir, the first existing name is a directory, or there is none.  Since
   MemMapFs refuses to create below a regular file — ENOTDIR, Gen/Consts.v
   memfs_refuses_below_file = 1 — a regular file among the missing parent's ancestors makes the copy
   fail with that error, the layer untouched, and no fault involved; before that repair the model,
   like the code, turned the regular file into a directory and the copy "succeeded").
   Conclusion (three_way sl sl' name dat r): afterwards the layer's entry for name is
     absent, and an error is returned;  or
     exactly the entry before (same path-map slot, same node), and an error is returned;  or
     a regular file whose bytes are dat. *)
From AF Require Import Lib.Bytes Lib.Path Lib.Ops Gen.Consts Model.MemFile Model.MemFs Model.Union Model.Cow Model.Cache
  Model.Faulty Model.Stack Proofs.MemBelow Proofs.FaultyMem Proofs.FaultyProof Proofs.FaultyMain Proofs.UnionWriteShort
  Proofs.FaultyCreate.
Local Open Scope Z_scope.

(* ANY plan with at most one non-Pass entry, faults on the LAYER side *)
Theorem C12_copy_atomic : forall (name : str) (pl : plan) (sb sl : mst) (dat : bytes),
  normalize_path name = name -> name <> s_slash -> at_most_one_fault pl ->
  reg_file sb name dat -> layer_sane sl name ->
  exists sb' sl' n r,
    copy_to_layer m_step (faulty_step m_step pl) sb (sl, 0%nat) name = (sb', (sl', n), r) /\
    three_way sl sl' name dat r /\ layer_sane sl' name /\ cosmetic sb sb'.
Proof. exact c12_copy_atomic. Qed.
Print Assumptions C12_copy_atomic.

(* the same from any call counter n0 (at most one fault among the calls n0, n0+1, ...), for both
   ways the callers open the source (Open; OpenFile O_RDONLY = CacheOnReadFs.OpenFile), and: an
   error is returned only if a fault was hit during this copy *)
Theorem C12_copy_atomic_general : forall (name : str) (pl : plan) (sb sl : mst) (dat : bytes) (o : op) (n0 : nat),
  normalize_path name = name -> name <> s_slash -> amo_from pl n0 ->
  reg_file sb name dat -> layer_sane sl name -> read_open name o ->
  exists sb' sl' n' r,
    copy_to_layer_with m_step (faulty_step m_step pl) sb (sl, n0) name o = (sb', (sl', n'), r) /\
    three_way sl sl' name dat r /\ layer_sane sl' name /\ cosmetic sb sb' /\
    (r <> None -> exists i, (n0 <= i < n')%nat /\ pl i <> FltPass).
Proof. exact c12_layer. Qed.
Print Assumptions C12_copy_atomic_general.

(* faults on the BASE side (read error, early EOF, failing Stat/Open/Close of the source): same
   conclusion, for EVERY plan — any number of faults *)
Theorem C12_copy_atomic_base_side : forall (name : str) (pl : plan) (sb sl : mst) (dat : bytes) (o : op) (nB : nat),
  normalize_path name = name -> name <> s_slash ->
  reg_file sb name dat -> layer_sane sl name -> read_open name o ->
  exists sb' n' sl' r,
    copy_to_layer_with (faulty_step m_step pl) m_step (sb, nB) sl name o = ((sb', n'), sl', r) /\
    three_way sl sl' name dat r /\ layer_sane sl' name /\ cosmetic sb sb'.
Proof. exact c12_base. Qed.
Print Assumptions C12_copy_atomic_base_side.

(* consequently: after a failed copy the next copy (same layer, counter running on: the single
   fault is spent) succeeds and the layer holds the full base content *)
Theorem C12_next_read_is_full : forall (name : str) (pl : plan) (sb sl : mst) (dat : bytes) (o o2 : op) (n0 : nat)
    (sb' sl' : mst) (n' : nat) (e : err),
  normalize_path name = name -> name <> s_slash -> amo_from pl n0 ->
  reg_file sb name dat -> layer_sane sl name -> read_open name o -> read_open name o2 ->
  copy_to_layer_with m_step (faulty_step m_step pl) sb (sl, n0) name o = (sb', (sl', n'), Some e) ->
  exists sb'' sl'' n'',
    copy_to_layer_with m_step (faulty_step m_step pl) sb' (sl', n') name o2 = (sb'', (sl'', n''), None) /\
    exists nd, fs_entry sl'' name = Some nd /\ ndir nd = false /\ ndata nd = dat.
Proof. exact c12_next. Qed.
Print Assumptions C12_next_read_is_full.

Theorem C12_next_read_is_full_after_base_fault : forall (name : str) (pl : plan) (sb sl : mst) (dat : bytes) (o o2 : op)
    (nB : nat) (sb' : mst) (n' : nat) (sl' : mst) (r : option err),
  normalize_path name = name -> name <> s_slash ->
  reg_file sb name dat -> layer_sane sl name -> read_open name o -> read_open name o2 ->
  copy_to_layer_with (faulty_step m_step pl) m_step (sb, nB) sl name o = ((sb', n'), sl', r) ->
  exists sb'' sl'' k,
    copy_to_layer_with m_step (faulty_step m_step fault_none) sb' (sl', 0%nat) name o2 = (sb'', (sl'', k), None) /\
    exists nd, fs_entry sl'' name = Some nd /\ ndir nd = false /\ ndata nd = dat.
Proof. exact c12_next_after_base_fault. Qed.
Print Assumptions C12_next_read_is_full_after_base_fault.

(* no fault from call n0 on: the copy succeeds, complete *)
Theorem C12_fault_free_copy_complete : forall (name : str) (pl : plan) (sb sl : mst) (dat : bytes) (o : op) (n0 : nat),
  normalize_path name = name -> name <> s_slash -> (forall i, (n0 <= i)%nat -> pl i = FltPass) ->
  reg_file sb name dat -> layer_sane sl name -> read_open name o ->
  exists sb' sl' n',
    copy_to_layer_with m_step (faulty_step m_step pl) sb (sl, n0) name o = (sb', (sl', n'), None) /\
    cosmetic sb sb' /\ layer_sane sl' name /\
    exists nd, fs_entry sl' name = Some nd /\ ndir nd = false /\ ndata nd = dat.
Proof. exact c12_fault_free. Qed.
Print Assumptions C12_fault_free_copy_complete.

(* the callers hand the copy's error to their caller — for ANY two filesystems *)
Theorem C12_cow_openfile_reports : forall (B L : Type) (bstep : B -> op -> B * res) (lstep : L -> op -> L * res)
    sb sl tbl name flag perm sb1 sl1 sb2 sl2 ce,
  is_base_file bstep lstep sb sl name = (sb1, sl1, true, None) ->
  Z.land flag cow_mask <> 0 ->
  copy_to_layer bstep lstep sb1 sl1 name = (sb2, sl2, Some ce) ->
  cow_step bstep lstep (sb, sl, tbl) (OpenFile name flag perm) = ((sb2, sl2, tbl), RErr ce).
Proof. exact @cow_openfile_reports. Qed.
Print Assumptions C12_cow_openfile_reports.

Theorem C12_cow_chmod_chtimes_chown_report : forall (B L : Type) (bstep : B -> op -> B * res) (lstep : L -> op -> L * res)
    sb sl tbl name o sb1 sl1 sb2 sl2 ce,
  meta_op o name ->
  is_base_file bstep lstep sb sl name = (sb1, sl1, true, None) ->
  copy_to_layer bstep lstep sb1 sl1 name = (sb2, sl2, Some ce) ->
  cow_step bstep lstep (sb, sl, tbl) o = ((sb2, sl2, tbl), RErr ce).
Proof. exact @cow_meta_reports. Qed.
Print Assumptions C12_cow_chmod_chtimes_chown_report.

(* CacheOnReadFs: Open on a miss / a stale copy calls CacheOnReadFs.copyToLayer [cache_copy_to_layer]: since
   the fix (cache_copy_dir_mkdir = 1) the base's Stat, a MkdirAll in the layer for a directory, Union's
   copyToLayer otherwise — see C12_cache_copy_is_copy and C12_cache_copy_atomic below *)
Theorem C12_cache_open_miss_reports : forall (B L : Type) (bstep : B -> op -> B * res) (lstep : L -> op -> L * res)
    dur now sb sl tbl name sb1 sl1 fi sb2 bfi sb3 sl2 ce,
  cache_status bstep lstep dur now sb sl name = (sb1, sl1, CMiss, fi, None) ->
  bstep sb1 (Stat name) = (sb2, RInfo bfi) -> fi_dir bfi = false ->
  cache_copy_to_layer bstep lstep sb2 sl1 name = (sb3, sl2, Some ce) ->
  cache_step bstep lstep dur now (sb, sl, tbl) (Open name) = ((sb3, sl2, tbl), RErr ce).
Proof. exact @cache_open_miss_reports. Qed.
Print Assumptions C12_cache_open_miss_reports.

Theorem C12_cache_open_stale_reports : forall (B L : Type) (bstep : B -> op -> B * res) (lstep : L -> op -> L * res)
    dur now sb sl tbl name sb1 sl1 f sb3 sl2 ce,
  cache_status bstep lstep dur now sb sl name = (sb1, sl1, CStale, Some f, None) -> fi_dir f = false ->
  cache_copy_to_layer bstep lstep sb1 sl1 name = (sb3, sl2, Some ce) ->
  cache_step bstep lstep dur now (sb, sl, tbl) (Open name) = ((sb3, sl2, tbl), RErr ce).
Proof. exact @cache_open_stale_reports. Qed.
Print Assumptions C12_cache_open_stale_reports.

(* CacheOnReadFs.OpenFile: the base is Stat-ed first (since the fix, cache_openfile_dir_mkdir = 1: a directory is
   made in the layer with MkdirAll, not copied); for anything that is not a directory copyFileToLayer opens the
   base with the caller's flags less O_APPEND (since the fix, copyfiletolayer_clears_append = 1; O_RDONLY stays
   O_RDONLY, so [read_open] above still covers it); the error of the copy is returned before the (O_EXCL-less)
   final opens *)
Theorem C12_cache_openfile_reports : forall (B L : Type) (bstep : B -> op -> B * res) (lstep : L -> op -> L * res)
    dur now sb sl tbl name flag perm sb1 sl1 cs fi sb1' rs sb2 sl2 ce,
  cache_status bstep lstep dur now sb sl name = (sb1, sl1, cs, fi, None) -> cs = CMiss \/ cs = CStale ->
  bstep sb1 (Stat name) = (sb1', rs) -> (forall bfi, rs = RInfo bfi -> fi_dir bfi = false) ->
  copy_to_layer_with bstep lstep sb1' sl1 name (OpenFile name (Z.land flag (Z.lnot o_append)) perm) = (sb2, sl2, Some ce) ->
  cache_step bstep lstep dur now (sb, sl, tbl) (OpenFile name flag perm) = ((sb2, sl2, tbl), RErr ce).
Proof. exact @cache_openfile_reports. Qed.
Print Assumptions C12_cache_openfile_reports.

Theorem C12_rdonly_clears_append : Z.land o_rdonly (Z.lnot o_append) = o_rdonly.
Proof. exact rdonly_clears_append. Qed.

(* cache_copy_to_layer on a base entry that is not a directory: Union's copyToLayer on the base state the Stat
   left (for ANY two filesystems) ... *)
Theorem C12_cache_copy_is_copy : forall (B L : Type) (bstep : B -> op -> B * res) (lstep : L -> op -> L * res)
    sb sl name sb1 bfi,
  bstep sb (Stat name) = (sb1, RInfo bfi) -> fi_dir bfi = false ->
  cache_copy_to_layer bstep lstep sb sl name = copy_to_layer bstep lstep sb1 sl name.
Proof. exact @cache_copy_nondir. Qed.
Print Assumptions C12_cache_copy_is_copy.

(* ... so, MemMapFs layers, it has the same three-way outcome: faults on the layer side (at most one from call
   n0 on) and on the base side (any plan; a refused Stat does not stop the copy) *)
Theorem C12_cache_copy_atomic : forall (name : str) (pl : plan) (sb sl : mst) (dat : bytes) (n0 : nat),
  normalize_path name = name -> name <> s_slash -> amo_from pl n0 ->
  reg_file sb name dat -> layer_sane sl name ->
  exists sb' sl' n' r,
    cache_copy_to_layer m_step (faulty_step m_step pl) sb (sl, n0) name = (sb', (sl', n'), r) /\
    three_way sl sl' name dat r /\ layer_sane sl' name /\ cosmetic sb sb' /\
    (r <> None -> exists i, (n0 <= i < n')%nat /\ pl i <> FltPass).
Proof. exact c12_cache_copy. Qed.
Print Assumptions C12_cache_copy_atomic.

Theorem C12_cache_copy_atomic_base_side : forall (name : str) (pl : plan) (sb sl : mst) (dat : bytes) (nB : nat),
  normalize_path name = name -> name <> s_slash ->
  reg_file sb name dat -> layer_sane sl name ->
  exists sb' n' sl' r,
    cache_copy_to_layer (faulty_step m_step pl) m_step (sb, nB) sl name = ((sb', n'), sl', r) /\
    three_way sl sl' name dat r /\ layer_sane sl' name /\ cosmetic sb sb'.
Proof. exact c12_cache_copy_base. Qed.
Print Assumptions C12_cache_copy_atomic_base_side.

(* CopyOnWriteFs.OpenFile with a write flag on a file that only the base holds, MemMapFs layers,
   one fault anywhere on the layer side (its own Stat included): the copy's outcome is three-way,
   an incomplete copy makes the call return the error, a complete one continues with the layer's
   OpenFile *)
Theorem C12_cow_openfile_interrupted : forall (name : str) (pl : plan) (sb sl : mst) (tbl : list chandle)
    (flag perm : Z) (dat : bytes),
  normalize_path name = name -> name <> s_slash -> at_most_one_fault pl ->
  reg_file sb name dat -> layer_sane sl name -> lookup sl name = None -> Z.land flag cow_mask <> 0 ->
  exists sb2 sl2 n2 rc,
    three_way sl sl2 name dat rc /\ layer_sane sl2 name /\
    match rc with
    | Some ce => cow_step m_step (faulty_step m_step pl) (sb, (sl, 0%nat), tbl) (OpenFile name flag perm)
                 = ((sb2, (sl2, n2), tbl), RErr ce)
    | None => cow_step m_step (faulty_step m_step pl) (sb, (sl, 0%nat), tbl) (OpenFile name flag perm)
              = open_layer (faulty_step m_step pl) sb2 (sl2, n2) tbl (OpenFile name flag perm)
    end.
Proof. exact c12_cow. Qed.
Print Assumptions C12_cow_openfile_interrupted.

(* ---- a copy target that is itself a union: the two-level cache cache(remote, cache(disk, memory)).  copyFile
   writes through a UnionFile (Layer = memory handle, Base = disk handle).  A disk handle that takes fewer bytes
   than the memory handle and reports no error (fault short:k on D.HWrite) was masked by UnionFile.Write /
   WriteAt / WriteString, which dropped the base's count: the copy "succeeded" and the disk level kept a truncated
   file (found by this property's check: partial-copy:cache2open|cache2openfile|cache2opencreate:D.HWrite).
   Repaired in unionFile.go; the switch unionfile_write_checks_base_count is read from the AST of the three
   methods (harness/cmd/afcheck/c12_consts.go), Model/Union.v union_write_result follows either value. ---- *)

(* today's source, ANY two filesystems under the union handle: after the layer took n bytes without an error and
   the base nb bytes without an error, the union handle answers (nb, io.ErrShortWrite) when nb < n — so io.Copy
   stops, copyFile removes the target and the callers report the error (theorems above) *)
Theorem C12_today_union_write_reports_base_short :
  forall (B L : Type) (bstep : B -> op -> B * res) (lstep : L -> op -> L * res)
    (sb : B) (sl : L) (u : ufile) (o : op) (lh bh : nat) (sl1 : L) (sb1 : B) (n nb : Z),
  is_write_op o = true -> ulayer u = Some lh -> ubase u = Some bh ->
  lstep sl (op_set_handle o lh) = (sl1, RCount n None) ->
  bstep sb (op_set_handle o bh) = (sb1, RCount nb None) ->
  uf_op bstep lstep sb sl u o =
    (sb1, sl1, u, if nb <? n then RCount nb (Some (E KShortWrite)) else RCount n None).
Proof. exact @union_write_reports_base_short. Qed.
Print Assumptions C12_today_union_write_reports_base_short.

(* the source before the repair (the switch at any value but 1): whatever count the base returns, the union
   handle answers the layer's count and no error; witness: Write of 5 bytes, the base takes 3 *)
Theorem C12_refuted_union_write_masks_base_short_before_fix :
  (forall (chk : Z) (o : op) (n nb : Z), chk <> 1 ->
     union_write_result_gen chk o (RCount n None) (RCount nb None) = RCount n None) /\
  exists (o : op) (r rb : res),
    is_write_op o = true /\ res_err r = None /\ res_err rb = None /\
    union_write_result_gen 0 o r rb = r /\
    union_write_result_gen 1 o r rb = RCount 3 (Some (E KShortWrite)).
Proof. exact (conj union_write_masks_base_short_before_fix union_write_masks_witness). Qed.
Print Assumptions C12_refuted_union_write_masks_base_short_before_fix.

(* ---- a copy target whose Create can fail half-way: the inner cache of cache(remote, cache(disk, memory)).
   CacheOnReadFs.Create creates/truncates the file at ITS base (disk) and then at its layer (memory); when the second
   step fails it returns the error and the disk level keeps an empty file.  copyFile returned that error and left
   the file: the outer cache then served an EMPTY /d/f as a hit, for ever (found by this property's check:
   partial-copy:cache2open|cache2openfile|cache2opencreate:L.Create).  Repaired in unionFile.go copyFile: the error
   branch of `lfh, err := layer.Create(name)` calls layer.Remove(name), as every later failure of the copy already
   did.  The switch copyfile_removes_after_failed_create is read from the AST of that branch
   (harness/cmd/afcheck/c12_consts.go); Model/Union.v copy_file_gen follows either value. ---- *)

(* today's source, ANY two filesystems: once the parent directory is there (it existed, or MkdirAll made it) and the
   layer's Create answers anything but a handle, the copy returns that error, the base is not touched, and the
   layer is in the state its Remove(name) leaves *)
Theorem C12_today_failed_create_calls_remove :
  forall (B L : Type) (bstep : B -> op -> B * res) (lstep : L -> op -> L * res)
    (sb : B) (sl : L) (name : str) (bh : nat) (sl1 sl2 : L) (r : res),
  dir_prepared lstep sl name sl1 -> lstep sl1 (Create name) = (sl2, r) -> (forall h, r <> RHandle h) ->
  copy_file bstep lstep sb sl name bh = (sb, fst (lstep sl2 (Remove name)), Some (create_err r)).
Proof. exact @failed_create_calls_remove. Qed.
Print Assumptions C12_today_failed_create_calls_remove.

(* ... and when Remove works as in MemMapFs (layer = MemMapFs behind the injector, the single fault refuses the
   Create — call number create_call sl name n0: after the Stat of the parent, and after the MkdirAll when the parent is
   missing): the caller gets the injected error, exactly two more calls were made on the layer (Create, Remove), and
   the layer has NO entry for the name — an older copy is gone too (first case of three_way), never a half-made
   file *)
Theorem C12_today_failed_create_removes_entry : forall (name : str) (pl : plan) (sb sl : mst) (dat : bytes) (o : op)
    (n0 : nat) (e : err),
  normalize_path name = name -> name <> s_slash -> amo_from pl n0 ->
  reg_file sb name dat -> layer_sane sl name -> read_open name o ->
  pl (create_call sl name n0) = FltFail e ->
  exists sb' sl',
    copy_to_layer_with m_step (faulty_step m_step pl) sb (sl, n0) name o
      = (sb', (sl', S (S (create_call sl name n0))), Some e) /\
    fs_entry sl' name = None /\ layer_sane sl' name /\ cosmetic sb sb'.
Proof. exact failed_create_removes_entry. Qed.
Print Assumptions C12_today_failed_create_removes_entry.

(* the source before the repair (the switch at any value but 1): the layer is left as the failed Create left it.
   Witness, the two-level cache in the model (b1_run rm 2: remote /d/f = 5 bytes, both cache levels empty, memory's
   call 2 — the second half of the inner cache's Create — refused with EIO; then a fault-free Open and Read through
   the outer cache): (error of the copy, /d/f at the disk level, at the memory level, calls memory saw, the next
   Open, the Read on it).  Switch off: the disk level keeps an EMPTY file and the next read returns no bytes and
   EOF.  Switch on: neither level has an entry and the next read returns the 5 bytes. *)
Theorem C12_refuted_failed_create_leaves_half_made_file_before_fix :
  (forall (B L : Type) (bstep : B -> op -> B * res) (lstep : L -> op -> L * res) (rm : Z)
      (sb : B) (sl : L) (name : str) (bh : nat) (sl1 sl2 : L) (r : res), rm <> 1 ->
     dir_prepared lstep sl name sl1 -> lstep sl1 (Create name) = (sl2, r) -> (forall h, r <> RHandle h) ->
     copy_file_gen bstep lstep rm sb sl name bh = (sb, sl2, Some (create_err r))) /\
  b1_run 0 2 = Some (Some (E KEIO), Some [], None, 3%nat, RHandle 0, RData [] (Some (E KEOF))) /\
  b1_run 1 2 = Some (Some (E KEIO), None, None, 4%nat, RHandle 0, RData [1;2;3;4;5]%N None) /\
  b1_run copyfile_removes_after_failed_create 2 = b1_run 1 2.
Proof. exact (conj (@failed_create_before_fix) (conj two_level_before_fix (conj two_level_today two_level_source))). Qed.
Print Assumptions C12_refuted_failed_create_leaves_half_made_file_before_fix.

(* ---- non-vacuity: the hypotheses are satisfiable, and the three outcomes occur ---- *)
Definition c12_f : str := [47;100;47;102]%N.                    (* "/d/f" *)
Definition c12_base : mst :=
  fst (run_steps m_step m_init [MkdirAll [47;100]%N 493; Create c12_f; HWrite 0 [1;2;3;4;5]%N; HClose 0]).
Definition c12_old : mst :=                                      (* a layer holding an older copy *)
  fst (run_steps m_step m_init [MkdirAll [47;100]%N 493; Create c12_f; HWrite 0 [9;9]%N; HClose 0]).

Example C12_ex_hypotheses :
  normalize_path c12_f = c12_f /\ c12_f <> s_slash /\ reg_file c12_base c12_f [1;2;3;4;5]%N /\
  layer_sane m_init c12_f /\ layer_sane c12_old c12_f /\
  at_most_one_fault (fault_single 3 (FltShort 2)) /\ at_most_one_fault fault_none.
Proof.
  split; [vm_compute; reflexivity|]. split; [discriminate|].
  split. { exists 2%nat. eexists. split; [vm_compute; reflexivity|]. split; [vm_compute; reflexivity|].
           split; vm_compute; reflexivity. }
  split. { right. split; [vm_compute; reflexivity|]. split; [vm_compute; reflexivity|].
           apply (cc_dir m_init _ 0%nat root_node); vm_compute; reflexivity. }
  split. { left. split.
           - exists 1%nat. eexists. split; [vm_compute; reflexivity|]. split; [vm_compute; reflexivity|].
             split; vm_compute; reflexivity.
           - right. exists [9;9]%N, 2%nat. eexists. split; [vm_compute; reflexivity|].
             split; [vm_compute; reflexivity|]. split; [vm_compute; reflexivity|]. split; vm_compute; reflexivity. }
  split; [apply amo_single | apply amo_none].
Qed.

(* (layer entry's bytes afterwards, calls made on the layer, result) *)
Definition c12_run (sl : mst) (pl : plan) : option bytes * nat * option err :=
  let '(sb', (sl', n), r) := copy_to_layer m_step (faulty_step m_step pl) c12_base (sl, 0%nat) c12_f in
  (option_map ndata (fs_entry sl' c12_f), n, r).
Definition c12_run_base (sl : mst) (pl : plan) : option bytes * nat * option err :=
  let '((sb', n), sl', r) := copy_to_layer (faulty_step m_step pl) m_step (c12_base, 0%nat) sl c12_f in
  (option_map ndata (fs_entry sl' c12_f), n, r).

Example C12_ex_short_write_leaves_nothing :          (* Stat MkdirAll Create Write(short) Remove Close *)
  c12_run m_init (fault_single 3 (FltShort 2)) = (None, 6%nat, Some (E KShortWrite)).
Proof. vm_compute. reflexivity. Qed.
Example C12_ex_stat_refused_keeps_old_copy :         (* Stat(refused): nothing else is called *)
  c12_run c12_old (fault_single 0 (FltFail (E KEIO))) = (Some [9;9]%N, 1%nat, Some (E KEIO)).
Proof. vm_compute. reflexivity. Qed.
(* Stat Create(refused) Remove: since the repair of copyFile the older copy is removed (before it: kept, 2 calls) *)
Example C12_ex_create_refused_removes_old_copy :
  c12_run c12_old (fault_single 1 (FltFail (E KEIO))) =
    if copyfile_removes_after_failed_create =? 1 then (None, 3%nat, Some (E KEIO))
    else (Some [9;9]%N, 2%nat, Some (E KEIO)).
Proof. vm_compute. reflexivity. Qed.
Example C12_ex_create_call_numbers :
  create_call c12_old c12_f 0 = 1%nat /\ create_call m_init c12_f 0 = 2%nat /\
  c12_run m_init (fault_single 2 (FltFail (E KEIO))) =
    (None, if copyfile_removes_after_failed_create =? 1 then 4%nat else 3%nat, Some (E KEIO)).
Proof. vm_compute. repeat split; reflexivity. Qed.
Example C12_ex_old_copy_truncated_then_removed :
  c12_run c12_old (fault_single 2 (FltShort 2)) = (None, 5%nat, Some (E KShortWrite)).
Proof. vm_compute. reflexivity. Qed.
Example C12_ex_chtimes_refused_copy_complete :
  c12_run c12_old (fault_single 4 (FltFail (E KEIO))) = (Some [1;2;3;4;5]%N, 5%nat, Some (E KEIO)).
Proof. vm_compute. reflexivity. Qed.
Example C12_ex_no_fault :
  c12_run m_init fault_none = (Some [1;2;3;4;5]%N, 6%nat, None).
Proof. vm_compute. reflexivity. Qed.
Example C12_ex_early_eof_on_base :                   (* Open Stat Read(3 bytes, EOF) Stat: 3 <> 5 -> EIO *)
  c12_run_base c12_old (fault_single 2 (FltShort 3)) = (None, 5%nat, Some (E KEIO)).
Proof. vm_compute. reflexivity. Qed.

(* The hypothesis "name in normal form" cannot be dropped while copyFile computes the parent
   directory from the spelling it is given (Gen/Consts.v copyfile_cleans_name = 0, regenerated from
   unionFile.go on every run): for "/d/f/" the parent is "/d/f", MkdirAll creates a DIRECTORY of
   that name, and a refused Create leaves it there — neither absent, nor old, nor a copy. *)
Definition c12_f_slash : str := [47;100;47;102;47]%N.            (* "/d/f/" *)
Example C12_ex_trailing_separator_witness : copyfile_cleans_name = 0 ->
  let '(sb', (sl', n), r) :=
    copy_to_layer m_step (faulty_step m_step (fault_single 2 (FltFail (E KEIO)))) c12_base (m_init, 0%nat) c12_f_slash in
  option_map ndir (fs_entry sl' c12_f) = Some true /\ r = Some (E KEIO).
Proof. intros H. first [ (vm_compute in H; discriminate H) | (vm_compute; split; reflexivity) ]. Qed.

(* The whole stack of the harness case cache2open-none-s5-D4-short3, in the model: remote /d/f = 5 bytes, both cache
   levels empty, Open through the outer cache, the disk level's call 4 (HWrite) takes k = 3 bytes and says nothing.
   (result of Open, bytes of /d/f at the disk level, at the memory level).  Today: ErrShortWrite, nothing left at
   either level.  Before the repair (switch 0): a handle, 3 bytes on disk under 5 bytes in memory. *)
Definition c12_two_level (k : nat) : stack :=
  SCache 100 (SFaulty [] SMem) (SCache 100 (SFaulty [(4%nat, FltShort k)] SMem) (SFaulty [] SMem)).
Definition c12_snap_data (l : list entry) (p : str) : option bytes :=
  option_map e_data (find (fun e => beqb (e_path e) p) l).
Definition c12_two_level_run (k : nat) : option (res * option bytes * option bytes) :=
  match run_case (c12_two_level k)
          [IOp [0;0]%nat None (MkdirAll [47;100]%N 493); IOp [0;0]%nat (Some 0%nat) (Create c12_f);
           IOp [0;0]%nat None (HWrite 0 [1;2;3;4;5]%N); IOp [0;0]%nat None (HClose 0);
           IOp [] (Some 2%nat) (Open c12_f); ISnap [1;0;0]%nat; ISnap [1;1;0]%nat] with
  | [_; _; _; _; TRes r; TSnap d; TSnap m] => Some (r, c12_snap_data d c12_f, c12_snap_data m c12_f)
  | _ => None
  end.
Example C12_ex_two_level_short_disk_write :
  c12_two_level_run 3 =
    if unionfile_write_checks_base_count =? 1 then Some (RErr (E KShortWrite), None, None)
    else Some (RHandle 0, Some [1;2;3]%N, Some [1;2;3;4;5]%N).
Proof. vm_compute. reflexivity. Qed.
Example C12_ex_two_level_no_fault :
  c12_two_level_run 5 = Some (RHandle 0, Some [1;2;3;4;5]%N, Some [1;2;3;4;5]%N).
Proof. vm_compute. reflexivity. Qed.
