(* C03 — concurrent use of one MemMapFs: no race, panic, fatal error or deadlock; consistent tree at
   quiescence.  PARTIAL: the Go memory model, the scheduler and runtime fatal errors live outside
   any Gallina model.  What is stated here is about the model of the LOCK DISCIPLINE in
   Model/Conc.v (sections between lock operations, bodies = the pieces of Model/MemFs.v, access
   annotations per section), for ALL programs, thread counts and schedules.  Statements only;
   proofs in Proofs/ConcProof.v.  The harness (harness-conc) ties the section table to the source
   and searches for failing executions of the real code.

   FULL statements that are NOT theorems, with their refutations below:
     C03_lockset       : every annotated access is protected by a lock all conflicting accesses hold
                         (today: true up to happens-before, C03_lockset_hb; the pure common-lock form
                         fails only for the sort of a listing; refuted before cbef301: error paths of
                         mem.File read fileData.name unlocked)
   C03_quiescent_consistent (was a FULL statement without a theorem: "forall well-typed progs sched,
                         quiescent -> consistent") is a theorem now, for the class cc_wtq of
                         Model/ConcClass.v; it was refuted before ce143d9
   C03_no_deadlock / C03_no_unlock_error / C03_panic_keeps_locks_balanced hold for TODAY's table;
   they were refuted (witnesses kept below, `cf_legacy`) for RemoveAll as it was before commit
   ce143d9 "RemoveAll removes the subtree in one critical section". *)
From Coq Require Import String.
From AF Require Import Lib.Bytes Lib.Path Lib.Ops Gen.Consts Model.MemFile Model.MemFs Model.Conc
  Model.ConcStatic Model.ConcClass Gen.ConcTab Proofs.MemFsWF Proofs.MemFsStep Proofs.ConcProof Proofs.ConcQuiescent.

(* ================================================================== lockset *)
(* TODAY'S TABLE (after commits cbef301 and 2d6ed35).  Every pair of conflicting annotated accesses
   of any two sections — well-typed or not, MemMapFs.List included — is ordered: both sides hold the
   accessed FileData's own mutex, or both hold mu with at least one writer, or one is a read under
   the LISTING directory's mutex and the other Rename's write made while the object is listed
   nowhere (the unregister before it and the register after it synchronise on that mutex). *)
Theorem C03_lockset_hb :
  forall a1 a2 x y, In x (cc_acc a1) -> In y (cc_acc a2) ->
    cc_conflict x y = true -> cc_protected_hb a1 x a2 y = true.
Proof.
  intros a1 a2 x y. apply (cc_table_dec_spec _ _ conc_lockset_hb_table); apply cc_all_aids_complete.
Qed.
Print Assumptions C03_lockset_hb.

(* the pure lockset criterion (a COMMON lock) holds for every pair except one family *)
Theorem C03_lockset_partial :
  forall a1 a2 x y, In x (cc_acc a1) -> In y (cc_acc a2) -> cc_conflict x y = true ->
    cc_protected a1 x a2 y || cc_exc_sort a1 x a2 y = true.
Proof.
  intros a1 a2 x y. apply (cc_table_dec_spec _ _ conc_lockset_table); apply cc_all_aids_complete.
Qed.
Print Assumptions C03_lockset_partial.

(* ... REFUTED as a lockset statement, but ordered by happens-before: File.Readdir -> DirMap.Files()
   sorts the children by f.name holding only the DIRECTORY's mutex; ChangeFileName writes name under
   the CHILD's mutex and mu.  No common lock; yet Rename unregisters the child from its directory
   (under that directory's mutex) before the write and registers it (under the new directory's
   mutex) after it, so the detector cannot report it — and never did. *)
Theorem C03_lockset_refuted_readdir_sort :
  exists x y, In x (cc_acc (AHBody HkReaddir)) /\ In y (cc_acc ARename) /\
    cc_conflict x y = true /\ ac_wt x = true /\ ac_wt y = true /\
    cc_protected (AHBody HkReaddir) x ARename y = false /\
    cc_protected_hb (AHBody HkReaddir) x ARename y = true.
Proof. exists (mkAcc FName false false true false true), (mkAcc FName true true false true true). vm_compute. tauto. Qed.
Print Assumptions C03_lockset_refuted_readdir_sort.

(* the error paths of mem.File (read-only handle, negative offset, negative position) and Readdir's
   directory test now read name / dir through fileData.Name() / Info().IsDir(): under the file's mutex *)
Theorem C03_error_paths_read_name_under_lock :
  forall k x, In x (cc_acc (AHPre k)) -> ac_own x = true.
Proof. intros k x. destruct k; vm_compute; intuition (subst; reflexivity). Qed.
Print Assumptions C03_error_paths_read_name_under_lock.

(* BEFORE cbef301 (annotations cc_acc_before_cbef301): for well-typed accesses the same statement
   held up to the error-path family ... *)
Theorem C03_lockset_hb_before_cbef301_partial :
  forall a1 a2 x y, In x (cc_acc_before_cbef301 a1) -> In y (cc_acc_before_cbef301 a2) ->
    cc_conflict x y = true -> ac_wt x = true -> ac_wt y = true ->
    cc_protected_hb a1 x a2 y || cc_exc_errpath a1 x a2 y = true.
Proof.
  intros a1 a2 x y. apply (cc_table_dec_spec_wt _ _ conc_lockset_hb_table_before_cbef301); apply cc_all_aids_complete.
Qed.
Print Assumptions C03_lockset_hb_before_cbef301_partial.

(* ... which was a real data race, reported by the race detector on well-typed programs
   (signature race:mem.File.Write|mem.ChangeFileName and four more): File.Write / WriteAt / ReadAt /
   Seek / Truncate built their *os.PathError from f.fileData.name WITHOUT any lock while
   Rename -> mem.ChangeFileName writes name under the file's mutex and mu. *)
Theorem C03_lockset_refuted_before_cbef301_name_error_paths :
  exists x y, In x (cc_acc_before_cbef301 (AHPre HkWrite)) /\ In y (cc_acc_before_cbef301 ARename) /\
    cc_conflict x y = true /\ ac_wt x = true /\ ac_wt y = true /\
    cc_protected_hb (AHPre HkWrite) x ARename y = false.
Proof. exists (rd FName), (mkAcc FName true true false true true). vm_compute. tauto. Qed.
Print Assumptions C03_lockset_refuted_before_cbef301_name_error_paths.

(* ... and, outside the property's class, File.Readdir read fileData.dir unlocked while
   mem.InitializeDir writes it when a FILE is used as a parent *)
Theorem C03_lockset_refuted_before_cbef301_dirflag_illtyped :
  exists x y, In x (cc_acc_before_cbef301 (AHPre HkReaddir)) /\ In y (cc_acc_before_cbef301 ACreate) /\
    cc_conflict x y = true /\ cc_protected_hb (AHPre HkReaddir) x ACreate y = false /\ ac_wt y = false.
Proof. exists (rd FDirFlag), (mkAcc FDirFlag true true false false false). vm_compute. tauto. Qed.
Print Assumptions C03_lockset_refuted_before_cbef301_dirflag_illtyped.

(* the lock context the annotations assume IS the one every execution has: whenever a thread is
   about to run section a, it holds exactly cc_ctx a (mu mode, a file mutex or not, pending defers) *)
Theorem C03_sections_hold_declared_locks :
  forall s progs sched t th a,
    nth_error (cf_threads (cc_run_from s progs sched)) t = Some th ->
    cc_next_of th = NxInstr (CcAct a) ->
    cc_ctx a = (th_mu th, cc_hasf th, th_defers th).
Proof. intros s progs sched t th a. apply conc_sections_hold_declared_locks, conc_no_leak. Qed.
Print Assumptions C03_sections_hold_declared_locks.

(* ================================================================== deadlock *)
(* TODAY'S TABLE.  For all initial states, programs (any number of threads, any calls, any
   arguments) and schedules the configuration is never stuck: some unfinished thread can move. *)
Theorem C03_no_deadlock :
  forall s progs sched, cc_stuckb (cc_run_from s progs sched) = false.
Proof. intros s progs sched. apply conc_no_deadlock, conc_no_leak. Qed.
Print Assumptions C03_no_deadlock.

(* the lock order behind it: a thread that waits for mu holds nothing; a thread that waits for a
   file mutex does not hold that mutex, and it holds another file mutex only together with mu
   WRITE-locked.  (Ranks: mu, then directory mutexes - Rename holds the two parents of the entry
   and, inside them, the directory whose children it re-keys -, then the mutex of the entry whose
   name changes.  Only the holder of mu write-locked nests, so there is one such thread at a time,
   and every other holder of a file mutex releases it without waiting.) *)
Theorem C03_lock_order :
  forall s progs sched t th l r,
    nth_error (cf_threads (cc_run_from s progs sched)) t = Some th ->
    cc_next_of th = NxInstr (CcAcq l r) ->
    (l <> LkF -> th_mu th = HNone /\ th_f th = []) /\
    (l = LkF -> cc_heldb r (th_f th) = false /\ (th_f th = [] \/ th_mu th = HW)).
Proof. intros s progs sched t th l r. apply conc_lock_order, conc_no_leak. Qed.
Print Assumptions C03_lock_order.

(* THE TABLE BEFORE COMMIT ce143d9 (RemoveAll: unregister under mu without defer, then one critical
   section per deleted key): never stuck as long as no panic has leaked a lock, and a lock leaks
   only through RemoveAll. *)
Theorem C03_no_deadlock_legacy_partial :
  forall s progs sched,
    cc_noleakb (run_sched_from (cc_init_gen true s progs) sched) = true ->
    cc_stuckb (run_sched_from (cc_init_gen true s progs) sched) = false.
Proof.
  intros s progs sched H. apply cc_noleakb_iff in H. destruct (cc_inv_init_gen true s progs) as [Hi Hb].
  apply cc_inv_not_stuck. exact (proj1 (cc_inv_run _ sched Hi Hb H)).
Qed.
Print Assumptions C03_no_deadlock_legacy_partial.

Theorem C03_no_deadlock_legacy_without_removeall :
  forall s progs sched, cc_progs_nora progs = true ->
    cc_stuckb (run_sched_from (cc_init_gen true s progs) sched) = false.
Proof.
  intros s progs sched H. apply C03_no_deadlock_legacy_partial. now apply conc_legacy_no_removeall_no_leak.
Qed.
Print Assumptions C03_no_deadlock_legacy_without_removeall.

Local Open Scope string_scope.
Definition nm := cc_bytes.

(* REFUTED before ce143d9, by WELL-TYPED programs: RemoveAll("/d1") deletes the key "/d1" and releases
   mu; RemoveAll("/d1/f1") of another goroutine then runs `m.mu.Lock(); m.unRegisterWithParent(path)`
   — the parent is gone, log.Panic, and mu stays write-locked (no defer).  The goroutine's next call
   and every other call wait for ever.  (Observed by the stress harness on that tree:
   deadlock:...MemMapFs.Create+... after panic:RemoveAll.) *)
Definition w_deadlock_progs : list (list op) :=
  [[Create (nm "/d1/f1"); RemoveAll (nm "/d1")]; [RemoveAll (nm "/d1/f1"); Stat (nm "/")]].
Definition w_deadlock_sched : list nat := (repeat 0%nat 25 ++ repeat 1%nat 8)%list.

Theorem C03_no_deadlock_refuted_before_ce143d9 :
  exists progs sched, cc_wt progs = true /\ cc_stuckb (run_sched_legacy progs sched) = true.
Proof. exists w_deadlock_progs, w_deadlock_sched. vm_compute. auto. Qed.
Print Assumptions C03_no_deadlock_refuted_before_ce143d9.

(* the same programs and schedule on today's table: RemoveAll is one critical section *)
Example C03_ex_deadlock_witness_today :
  cc_stuckb (cc_drain 200 (run_sched w_deadlock_progs w_deadlock_sched)) = false /\
  cf_panics (cc_drain 200 (run_sched w_deadlock_progs w_deadlock_sched)) = 0%nat.
Proof. vm_compute. auto. Qed.

(* ================================================================== unlock errors *)
Theorem C03_no_unlock_error :
  forall s progs sched, cf_bad (cc_run_from s progs sched) = None.
Proof. intros s progs sched. apply conc_no_unlock_error, conc_no_leak. Qed.
Print Assumptions C03_no_unlock_error.

(* ================================================================== panics *)
(* the section table is well bracketed: whatever a section finds, the code it continues with never
   releases a lock that is not held, takes mu only with nothing held, takes a file mutex only if it
   does not hold it and - when it holds another one - only with mu write-locked, and reaches every
   later section under that section's declared locks; when it panics, the deferred unlocks
   registered so far release everything — except in the one leaky (legacy) section.  ([h]: the file
   mutexes held when the section runs, as many as its declared context says) *)
Theorem C03_section_table_well_bracketed :
  forall a f s h, length h = ctx_len a ->
    match cc_sem a f s with
    | CcCont _ _ code => cc_ok_ctx a h code = true
    | CcPanic _ => cc_leaky a = true \/ cc_okd_ctx a = true
    end.
Proof. exact cc_sem_ok. Qed.
Print Assumptions C03_section_table_well_bracketed.

(* every section of today's table (all but the legacy ARaUnreg) that panics leaves nothing locked *)
Theorem C03_panic_keeps_locks_balanced :
  forall a f s s', cc_sem a f s = CcPanic s' -> a <> ARaUnreg -> cc_okd_ctx a = true.
Proof. exact conc_panic_balanced. Qed.
Print Assumptions C03_panic_keeps_locks_balanced.

(* ... and no execution of today's table ever leaks a lock *)
Theorem C03_no_lock_leak :
  forall s progs sched, cc_noleakb (cc_run_from s progs sched) = true.
Proof. exact conc_no_leak. Qed.
Print Assumptions C03_no_lock_leak.

(* before ce143d9 the panics WERE reachable by well-typed programs.  Remove: `defer m.mu.Unlock()`
   releases mu ... *)
Definition w_panic_progs : list (list op) :=
  [[Create (nm "/d1/f1"); RemoveAll (nm "/d1")]; [Remove (nm "/d1/f1")]].
Definition w_panic_sched : list nat := (repeat 0%nat 25 ++ repeat 1%nat 9)%list.

Theorem C03_panic_reachable_before_ce143d9 :
  exists progs sched, cc_wt progs = true /\
    nth_error (cc_results (run_sched_legacy progs sched)) 1 = Some [RPanic] /\
    cf_mu (run_sched_legacy progs sched) = CcFree /\ cc_noleakb (run_sched_legacy progs sched) = true.
Proof. exists w_panic_progs, w_panic_sched. vm_compute. auto. Qed.
Print Assumptions C03_panic_reachable_before_ce143d9.

(* ... RemoveAll's first section: the panic left mu write-locked by a goroutine whose call had returned *)
Theorem C03_panic_leak_refuted_before_ce143d9 :
  exists progs sched, cc_wt progs = true /\
    cf_mu (run_sched_legacy progs sched) = CcW 1 /\
    nth_error (cc_results (run_sched_legacy progs sched)) 1 = Some [RPanic] /\
    cc_noleakb (run_sched_legacy progs sched) = false.
Proof. exists w_deadlock_progs, (repeat 0%nat 25 ++ repeat 1%nat 7)%list. vm_compute. auto. Qed.
Print Assumptions C03_panic_leak_refuted_before_ce143d9.

(* ================================================================== quiescent consistency *)
(* [cc_consistentb] = the three clauses of the property over the path map and the child indexes:
   every existing path has an existing parent directory that lists it under its own name, and
   every listed entry exists (and is that node, in that directory).

   Transfer to the sequential model (a lemma of the theorem below, kept because it holds for EVERY
   predicate and class): in today's table every method has at most ONE section that changes the tree
   (Create, OpenFile's openOrCreate, Mkdir's locked section, Remove, RemoveAll, Rename).  Hence every
   predicate of the tree part of the state that the sequential bodies preserve — on the calls the
   programs contain — holds in EVERY configuration of EVERY schedule. *)
Theorem C03_quiescent_transfer :
  forall (P : mst -> Prop) (A : op -> Prop),
    (forall s s', cc_tree_of s = cc_tree_of s' -> P s -> P s') ->
    (forall s p, A (Create p) -> P s -> P (fst (m_create s (normalize_path p)))) ->
    (forall s p fl pm s' x, A (OpenFile p fl pm) ->
        cc_open_or_create s (normalize_path p) fl (Z.land pm chmod_bits) = inr (s', x) -> P s -> P s') ->
    (forall s p, A (RemoveAll p) -> P s -> P (fst (m_removeall s (normalize_path p)))) ->
    (forall s p pm, A (Mkdir p pm) \/ A (MkdirAll p pm) -> lookup s (normalize_path p) = None ->
                    P s -> P (cc_mkdir_body s (normalize_path p) (Z.land pm chmod_bits))) ->
    (forall s p, A (Remove p) -> P s -> P (fst (m_remove s (normalize_path p)))) ->
    (forall s p q, A (Rename p q) -> P s -> P (fst (m_rename s (normalize_path p) q))) ->
    forall s0 progs sched,
      (forall sp o, In sp progs -> In o (snd sp) -> A o) -> P s0 ->
      P (cf_st (cc_run_from s0 progs sched)).
Proof. exact conc_transfer. Qed.
Print Assumptions C03_quiescent_transfer.

(* THE CONSISTENCY CLAUSE, with no sequential-preservation hypothesis left.

   Class (Model/ConcClass.v, all boolean): cc_wtq s0 progs =
     every call satisfies cc_wt_op (Model/Conc.v: the last component of a name fixes its kind — f* a
       regular file, x* only ever the target of a directory rename, anything else a directory — and
       Create/OpenFile/Remove take file names, Mkdir/MkdirAll directory names, Rename a file onto a file
       name or a directory onto an x name, RemoveAll/Open/Stat/Chmod/Chtimes no x name) and cc_names_ok
       (names are absolute; a name that the call may CREATE — Create, OpenFile, Mkdir, MkdirAll, the
       target of Rename — has only directory names as proper ancestors; RemoveAll and Rename do not
       take the root; the target of a Rename does not lie below its source);
     and cc_xfresh: the x targets of all directory renames of the program set are pairwise different
       and absent from s0 ("directories onto otherwise unused names").
   A call of this class need NOT be well-formed (wf_op, Model/WfOps.v) in the state in which it
   happens to start — Create("/d1/f1") may find /d1 removed by another goroutine, Rename's target
   directory may be gone — the class is what makes it well-formed OR harmless in EVERY state another
   goroutine of the class can produce (MemMapFs creates missing ancestors as directories; nothing of
   the class turns a file name into a directory or re-creates a rename target).
   Initial state: any s0 with WF s0 (Proofs/MemFsWF.v; the invariant of C01) whose existing names
   have the kinds their last components say (cc_kinds_ok, boolean) — in particular the empty
   filesystem (C03_quiescent_consistent_empty) and every state that the setup / prologue part of a
   case builds from calls of the class (C03_quiescent_consistent_case).
   Conclusion, for EVERY configuration reached by EVERY schedule (a fortiori once all calls have
   returned, cc_quiescentb): WF of the tree, hence cc_consistentb = true (what the harness sweep
   computes on the implementation's dump), i.e. the clauses spelled out:
     cc_clause_parent: every existing path other than the root has an existing parent that is a
       directory and lists the path (under the path's own name, as that very node);
     cc_clause_listed: every entry listed by an existing directory exists (under the listed name, as
       the listed node) and that directory is its parent. *)
Theorem C03_quiescent_consistent :
  forall s0 progs sched,
    WF s0 -> cc_kinds_ok s0 = true -> cc_wtq s0 progs = true ->
    let s := cf_st (cc_run_from s0 progs sched) in
    WF s /\ cc_consistentb s = true /\ cc_clause_parent s /\ cc_clause_listed s.
Proof. exact conc_quiescent_consistent. Qed.
Print Assumptions C03_quiescent_consistent.

(* the boolean the sweep computes IS the conjunction of the two clauses, in every state *)
Theorem C03_consistentb_is_the_clauses :
  forall s, cc_consistentb s = true <-> cc_clause_parent s /\ cc_clause_listed s.
Proof. exact cc_consistentb_spec. Qed.
Print Assumptions C03_consistentb_is_the_clauses.

(* from the empty filesystem *)
Theorem C03_quiescent_consistent_empty :
  forall progs sched, cc_wtq m_init progs = true ->
    cc_consistentb (cf_st (cc_run_from m_init progs sched)) = true.
Proof. exact conc_quiescent_empty. Qed.
Print Assumptions C03_quiescent_consistent_empty.

(* a whole case of the harness (cc_case_cfg: the setup calls, then the prologue of every goroutine, run
   sequentially from the empty filesystem; then the goroutines concurrently): if all its calls are
   of the class and the targets of its directory renames are pairwise different (cc_case_wtq), then
   the state the setup builds satisfies the hypotheses above and every configuration of every
   schedule is consistent — no hypothesis about any state is left *)
Theorem C03_quiescent_consistent_case :
  forall setup progs sched, cc_case_wtq setup progs = true ->
    let s := cf_st (run_sched_from (cc_case_cfg setup progs) sched) in
    WF s /\ cc_consistentb s = true /\ cc_clause_parent s /\ cc_clause_listed s.
Proof. exact conc_quiescent_case. Qed.
Print Assumptions C03_quiescent_consistent_case.

(* REFUTED before ce143d9, by well-typed programs without any panic: RemoveAll("/d1") unregistered
   /d1, snapshotted the keys below it and deleted them one by one, releasing mu in between; a
   Create("/d1/f2") that ran in between found /d1 still in the map, registered with it — and was
   left behind without a parent when RemoveAll had finished.  (Observed by the stress harness on
   that tree: inconsistent:orphan / ghost / unlisted, always with RemoveAll involved.) *)
Definition w_orphan_progs : list (list op) :=
  [[Create (nm "/d1/f1"); RemoveAll (nm "/d1")]; [Create (nm "/d1/f2")]].
Definition w_orphan_sched : list nat :=
  (repeat 0%nat 19 ++ repeat 1%nat 7 ++ repeat 0%nat 13 ++ [1%nat])%list.

Theorem C03_quiescent_refuted_before_ce143d9 :
  exists progs sched, cc_wt progs = true /\
    cc_quiescentb (run_sched_legacy progs sched) = true /\ cf_panics (run_sched_legacy progs sched) = 0%nat /\
    cf_bad (run_sched_legacy progs sched) = None /\
    cc_consistentb (cf_st (run_sched_legacy progs sched)) = false /\
    lookup (cf_st (run_sched_legacy progs sched)) (nm "/d1/f2") <> None /\
    lookup (cf_st (run_sched_legacy progs sched)) (nm "/d1") = None.
Proof. exists w_orphan_progs, w_orphan_sched. vm_compute. repeat split; auto; discriminate. Qed.
Print Assumptions C03_quiescent_refuted_before_ce143d9.

(* ================================================================== the table extracted from the source *)
(* The lock table of Model/Conc.v (cc_locktab: per Go function its lock operations in source order —
   the harness extracts the same rows from the AST of /repo and compares) passes the static
   discipline check of Model/ConcStatic.v: for every function entered holding nothing, on every
   path (both branches of every if, loops, calls inlined): no unlock of a lock not held, mu never
   taken while mu or a file mutex is held, a file mutex taken while another one is held only with mu
   write-locked and at most four deep (Rename), every return and every
   log.Panic — after the deferred unlocks of all unwound frames — leaves nothing locked. *)
Theorem C03_source_table_balanced : cc_tab_check cc_locktab_src = true.
Proof. vm_compute. reflexivity. Qed.
Print Assumptions C03_source_table_balanced.

(* cc_locktab_src (Gen/ConcTab.v) is REGENERATED from /repo's AST by every run of ./check; the
   sections of Model/Conc.v were compiled by hand from the table declared there (cc_locktab).  The
   two are the same table: an edit of the locking in memmap.go / mem/*.go breaks this theorem
   (and shows up as a `locks` correspondence mismatch), telling that the sections must be revisited. *)
(* in the source table a file mutex is taken while another one is held in Rename and its two helpers
   only - always with mu write-locked and at most [cc_max_nest] = 4 deep (part of the check above) *)
Theorem C03_source_table_nesting :
  cc_tab_nesting cc_locktab_src =
  map cc_bytes ["MemMapFs.Rename"; "MemMapFs.renameDescendants"; "MemMapFs.renameSiblings"]%string.
Proof. vm_compute. reflexivity. Qed.
Print Assumptions C03_source_table_nesting.

Theorem C03_declared_table_is_source_table : cc_locktab_b = cc_locktab_src.
Proof. vm_compute. reflexivity. Qed.
Print Assumptions C03_declared_table_is_source_table.

(* the functions in which an explicit panic is reachable: Remove, RemoveAll, Rename (through
   renameDescendants / renameSiblings / unRegisterWithParent: "parent of ... is nil") — all under a deferred unlock *)
Theorem C03_source_table_panic_sites :
  cc_tab_can_panic cc_locktab_src =
  map cc_bytes ["MemMapFs.Remove"; "MemMapFs.RemoveAll"; "MemMapFs.Rename"; "MemMapFs.renameDescendants";
                "MemMapFs.renameSiblings"; "MemMapFs.unRegisterWithParent"]%string.
Proof. vm_compute. reflexivity. Qed.
Print Assumptions C03_source_table_panic_sites.

(* which functions release a lock by a plain, not deferred, unlock (a panic that is no token of the
   table — a nil dereference — between the lock and that unlock would leave it held): of a FILE mutex
   only one-field accessors of package mem, none in memmap.go; in particular the PARENT's mutex taken
   by registerWithParent / unRegisterWithParent is released by defer, also when AddToMemDir /
   RemoveFromMemDir panic (commit 2d6ed35) *)
Theorem C03_source_table_plain_unlocks :
  cc_tab_plain_unlock LkF cc_locktab_src =
    map cc_bytes ["mem.ChangeFileName"; "mem.File.Close"; "mem.File.Open"; "mem.File.Seek"; "mem.File.readdirFiles";
                  "mem.FileInfo.Name"; "mem.SetGID"; "mem.SetModTime"; "mem.SetMode"; "mem.SetUID"]%string /\
  cc_tab_plain_unlock LkW cc_locktab_src = map cc_bytes ["MemMapFs.Create"; "MemMapFs.Mkdir"]%string /\
  cc_tab_plain_unlock LkR cc_locktab_src = map cc_bytes ["MemMapFs.Chown"; "MemMapFs.Mkdir"; "MemMapFs.open"]%string.
Proof. vm_compute. auto. Qed.
Print Assumptions C03_source_table_plain_unlocks.

(* REFUTED before 2d6ed35: the two functions held the parent's mutex across code that dereferences
   nil when the parent is a file (observed, outside the class: panic:Remove followed by
   deadlock on that mutex, with one goroutine) *)
Theorem C03_source_table_parent_mutex_refuted_before_2d6ed35 :
  In (cc_bytes "MemMapFs.registerWithParent"%string) (cc_tab_plain_unlock LkF cc_locktab_before_2d6ed35) /\
  In (cc_bytes "MemMapFs.unRegisterWithParent"%string) (cc_tab_plain_unlock LkF cc_locktab_before_2d6ed35).
Proof. vm_compute. tauto. Qed.
Print Assumptions C03_source_table_parent_mutex_refuted_before_2d6ed35.

(* REFUTED before ce143d9: with RemoveAll's row of that tree the check fails exactly there (the
   log.Panic of unRegisterWithParent is reached with mu write-locked and no deferred unlock) *)
Theorem C03_source_table_refuted_before_ce143d9 :
  cc_tab_bad cc_locktab_legacy = [cc_bytes "MemMapFs.RemoveAll"%string].
Proof. vm_compute. reflexivity. Qed.
Print Assumptions C03_source_table_refuted_before_ce143d9.

(* the check is not vacuous: mutants of single rows are rejected *)
Definition tab_with (name row : string) : list (str * str) :=
  map (fun kv => if beqb (fst kv) (cc_bytes name) then (fst kv, cc_bytes row) else kv) cc_locktab_b.
Example C03_ex_static_mutants :
  (* Remove without defer *)
  cc_tab_bad (tab_with "MemMapFs.Remove" "mu.Lock if{ call:unRegisterWithParent if{ ret } } else{ ret } mu.Unlock ret")
    = [cc_bytes "MemMapFs.Remove"%string] /\
  (* Chtimes re-entering mu through a helper that locks mu *)
  cc_tab_bad (tab_with "MemMapFs.Chtimes" "mu.Lock defer:mu.Unlock if{ ret } call:setFileMode ret")
    = [cc_bytes "MemMapFs.Chtimes"%string] /\
  (* Close returning early with the file mutex held *)
  cc_tab_bad (tab_with "mem.File.Close" "f.fileData.Lock if{ ret } f.fileData.Unlock ret")
    = map cc_bytes ["MemMapFs.OpenFile"; "mem.File.Close"]%string /\
  (* a file mutex taken inside another one *)
  cc_tab_bad (tab_with "mem.ChangeFileName" "f.Lock call:Name f.Unlock")
    <> [].
Proof. vm_compute. repeat split; auto; discriminate. Qed.

(* ================================================================== examples *)
(* the model computes; one thread alone behaves like the sequential model *)
Example C03_ex_single_thread :
  cc_results (cc_drain 200 (cc_init [[Create (nm "/d1/f1"); Mkdir (nm "/d2") 493%Z; Rename (nm "/d1/f1") (nm "/d2/f1");
                                       Open (nm "/d2/f1"); Remove (nm "/d2/f1"); Open (nm "/d2/f1")]]))
  = [snd (run_steps m_step m_init [Create (nm "/d1/f1"); Mkdir (nm "/d2") 493%Z; Rename (nm "/d1/f1") (nm "/d2/f1");
                                   Open (nm "/d2/f1"); Remove (nm "/d2/f1"); Open (nm "/d2/f1")])].
Proof. vm_compute. reflexivity. Qed.

(* exhaustive exploration of ALL schedules (up to commuting thread-local steps and releases, see
   cc_explore) of a small well-typed program set: no run panics, deadlocks, leaks a lock or ends
   inconsistent *)
Example C03_ex_explore_fragment :
  let s := cc_explore 400 (cc_init [[Create (nm "/d1/f1"); Rename (nm "/d1/f1") (nm "/d2/f1")];
                                    [Mkdir (nm "/d1") 493%Z; Remove (nm "/d1/f1")];
                                    [Open (nm "/d1"); HReaddirnames 0 (-1)%Z]]) su0 in
  (su_panic s, su_stuck s, su_inconsistent s, su_badunlock s, su_leak s, su_cut s)
  = (false, false, false, false, false, false).
Proof. vm_compute. reflexivity. Qed.

(* ... the same exploration with RemoveAll: nothing bad today, all of it before ce143d9 *)
Example C03_ex_explore_removeall :
  let s := cc_explore 400 (run_sched w_deadlock_progs (repeat 0%nat 9)) su0 in
  let s' := cc_explore 400 (run_sched_legacy w_deadlock_progs (repeat 0%nat 9)) su0 in
  (su_panic s, su_stuck s, su_leak s, su_inconsistent s, su_cut s) = (false, false, false, false, false) /\
  (su_panic s', su_stuck s', su_leak s', su_cut s') = (true, true, true, false).
Proof. vm_compute. auto. Qed.

(* the hypothesis of the conditional legacy theorem is satisfiable: a run without leak *)
Example C03_ex_noleak : cc_noleakb (run_sched_legacy w_panic_progs w_panic_sched) = true.
Proof. vm_compute. reflexivity. Qed.

(* ================================================================== quiescent consistency: examples *)
(* three goroutines, Mkdir / MkdirAll / Create / Rename (of files, and of directories onto unused
   names, one of them into a directory that another goroutine removes) / RemoveAll on overlapping
   names: in the class, hence consistent in every configuration of EVERY schedule ... *)
Definition ex_q_progs : list (list (option nat) * list op) :=
  [([], [Create (nm "/d1/f1"); Rename (nm "/d1/f1") (nm "/d2/f1"); RemoveAll (nm "/d1")]);
   ([], [Mkdir (nm "/d1") 493%Z; Create (nm "/d1/e1/f2"); Rename (nm "/d1") (nm "/x1")]);
   ([], [MkdirAll (nm "/d2/e1") 493%Z; RemoveAll (nm "/d2"); Rename (nm "/d1/e1") (nm "/d2/x2"); Create (nm "/d2/f1")])].

Example C03_ex_quiescent_consistent : forall sched,
  WF (cf_st (cc_run_from m_init ex_q_progs sched)) /\
  cc_consistentb (cf_st (cc_run_from m_init ex_q_progs sched)) = true.
Proof.
  intros sched. destruct (C03_quiescent_consistent m_init ex_q_progs sched WF_init) as (W & C & _); [reflexivity | vm_compute; reflexivity |].
  split; assumption.
Qed.

(* ... for instance this one, run to quiescence: goroutine 1 first (its rename moves /d1 with
   /d1/e1/f2 to /x1), then 2 (whose rename finds its source gone), then 0 (which re-creates /d1 for
   its file, moves the file into /d2 — re-created by 2's last Create — and removes /d1 again) *)
Example C03_ex_quiescent_run :
  let c := cc_drain 500 (cc_run_from m_init ex_q_progs (repeat 1%nat 40 ++ repeat 2%nat 30 ++ repeat 0%nat 30)%list) in
  cc_quiescentb c = true /\ cc_consistentb (cf_st c) = true /\ cf_panics c = 0%nat /\
  map fst (mdata (cf_st c)) = map nm ["/"; "/x1"; "/x1/e1"; "/x1/e1/f2"; "/d2/f1"; "/d2"].
Proof. vm_compute. repeat split; reflexivity. Qed.

(* a case with a setup: the class is checked on the calls alone *)
Example C03_ex_quiescent_case : forall sched,
  cc_consistentb (cf_st (run_sched_from
     (cc_case_cfg [MkdirAll (nm "/d1/e1") 493%Z; Create (nm "/d1/e1/f1"); HWrite 1 [104%N; 105%N]; Create (nm "/f2")]
                  [([Open (nm "/d1")], [HReaddirnames 0 (-1)%Z; Rename (nm "/d1/e1") (nm "/x7"); Create (nm "/d1/e1/f1")]);
                   ([OpenFile (nm "/d1/e1/f1") 2%Z 420%Z], [HWrite 0 [33%N]; RemoveAll (nm "/d1"); Rename (nm "/f2") (nm "/d1/f2")])])
     sched)) = true.
Proof. intros sched. apply C03_quiescent_consistent_case. vm_compute. reflexivity. Qed.

(* every side condition of the class is needed — in the MODEL; these are ill-formed SEQUENTIAL
   programs (one goroutine), outside the property's class and outside C01's portable calls, and what
   MemMapFs does with them is recorded in DESIGN.md 0.5: RemoveAll of the root deletes only the
   root's key; a second directory rename onto the same target orphans the first one's children; a
   rename below its own source; a file name used as a directory; Rename of the root; an x name as a
   proper ancestor (the target of the rename then lies below ... its own source) *)
Definition ex_seq (ops : list op) : cc_cfg := cc_drain 500 (cc_run_from m_init [([], ops)] []).
Example C03_ex_class_conditions_needed :
  map (fun ops => (cc_quiescentb (ex_seq ops), cc_consistentb (cf_st (ex_seq ops)), cc_wtq m_init [([], ops)]))
    [[Create (nm "/d1/f1"); RemoveAll (nm "/")];
     [Create (nm "/d1/f1"); Create (nm "/d2/f2"); Rename (nm "/d1") (nm "/x1"); Rename (nm "/d2") (nm "/x1")];
     [Create (nm "/d1/f1"); Rename (nm "/d1") (nm "/d1/x1")];
     [Mkdir (nm "/f1/d1") 493%Z; Create (nm "/f1")];
     [Create (nm "/d1/f1"); Rename (nm "/") (nm "/x1")]]
  = [(true, false, false); (true, false, false); (true, false, false); (true, false, false); (true, false, false)].
Proof. vm_compute. reflexivity. Qed.

(* the corpus cases corpus/C03/quiescent-class.case (replayed 300x under -race by every run of the
   check: the two examples above, a Rename whose target directory is removed and re-created by
   other goroutines, creations below a directory that is being removed / renamed away) are cases of
   the class: C03_quiescent_consistent_case applies to each of them *)
Example C03_ex_corpus_cases_in_class :
  cc_case_wtq [] (map (fun ops => ([], ops)) (map snd ex_q_progs)) = true /\
  cc_case_wtq [Create (nm "/d1/f1"); Create (nm "/d1/e1/f2"); MkdirAll (nm "/d2/e1") 493%Z]
    [([], [RemoveAll (nm "/d2"); MkdirAll (nm "/d2/e1") 493%Z]);
     ([], [Rename (nm "/d1/f1") (nm "/d2/e1/f1"); Rename (nm "/d1/e1") (nm "/d2/e1/x1")]);
     ([], [RemoveAll (nm "/d2/e1"); Create (nm "/d2/e1/f2")])] = true /\
  cc_case_wtq [MkdirAll (nm "/d1/e1") 493%Z; MkdirAll (nm "/d1/e2") 493%Z]
    [([], [RemoveAll (nm "/d1")]);
     ([], [Create (nm "/d1/e1/f1"); OpenFile (nm "/d1/e2/f2") 66%Z 420%Z]);
     ([], [Mkdir (nm "/d1/e1") 448%Z; Rename (nm "/d1") (nm "/x1")]);
     ([], [MkdirAll (nm "/d1/e2") 493%Z; Rename (nm "/d1/e2") (nm "/x2")])] = true.
Proof. vm_compute. auto. Qed.
