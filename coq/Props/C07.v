(* C07 — ReadOnlyFs never lets a mutation through and reads transparently.
   Statements only; proofs in Proofs/ReadOnlyProof.v and Proofs/MemFsBasics.v. *)
From AF Require Import Lib.Bytes Lib.Path Lib.Ops Gen.Consts Model.MemFile Model.MemFs Model.ReadOnly
  Model.BasePath Proofs.MemFsBasics Proofs.ReadOnlyProof.
Local Open Scope Z_scope.

(* Every call that would create, modify, rename or delete fails with EPERM, whatever the
   source is, without consulting the source and without changing any state. *)
Theorem C07_mutators_eperm : forall (St : Type) (inner : St -> op -> St * res) s o,
  mutating o = true -> ro_step inner s o = (s, RErr (E KEPERM)).
Proof. exact @ro_mutators_eperm. Qed.
Print Assumptions C07_mutators_eperm.

(* ... including OpenFile with ANY integer flag word that has one of the write-ish bits of the
   mask found in readonlyfs.go *)
Theorem C07_openfile_write_flags_refused : forall (St : Type) (inner : St -> op -> St * res) s p flag perm,
  Z.land flag readonly_mask <> 0 -> ro_step inner s (OpenFile p flag perm) = (s, RErr (E KEPERM)).
Proof. exact @ro_openfile_refused. Qed.
Print Assumptions C07_openfile_write_flags_refused.

(* Every read returns exactly what the wrapped filesystem returns. *)
Theorem C07_reads_transparent : forall (St : Type) (inner : St -> op -> St * res) s o,
  ro_passes o = true -> ro_step inner s o = inner s o.
Proof. exact @ro_reads_transparent. Qed.
Print Assumptions C07_reads_transparent.

(* No call sequence (any length, any ops, any flag values, writes attempted on any returned
   handle) changes what the source holds — for EVERY source satisfying the contract K:
   "a forwarded call does not change the stored filesystem and keeps Inv". *)
Theorem C07_source_frozen_any_source :
  forall (St V : Type) (inner : St -> op -> St * res) (view : St -> V) (Inv : St -> Prop),
  (forall s o, ro_passes o = true -> Inv s -> view (fst (inner s o)) = view s /\ Inv (fst (inner s o))) ->
  forall ops s, Inv s ->
  view (fst (run_steps (ro_step inner) s ops)) = view s /\ Inv (fst (run_steps (ro_step inner) s ops)).
Proof. exact @ro_frozen. Qed.
Print Assumptions C07_source_frozen_any_source.

(* MemMapFs satisfies the contract: Inv = "every handle already open is read-only or closed",
   view = the whole path map and every node (contents, modes, mtimes).  The proof needs of the
   source constants only: the ReadOnly mask contains O_CREATE, O_TRUNC and MemMapFs's access mask. *)
Theorem C07_memfs_contract : forall s o, ro_passes o = true -> all_inert s ->
  fs_view (fst (m_step s o)) = fs_view s /\ all_inert (fst (m_step s o)).
Proof. exact memfs_contract. Qed.
Print Assumptions C07_memfs_contract.

(* the contract is inherited through BasePathFs and ReadOnlyFs, so wrappers can be the source *)
Theorem C07_contract_through_basepath :
  forall (St V : Type) (inner : St -> op -> St * res) (view : St -> V) (Inv : St -> Prop),
  (forall s o, ro_passes o = true -> Inv s -> view (fst (inner s o)) = view s /\ Inv (fst (inner s o))) ->
  forall base s o, ro_passes o = true -> Inv s ->
  view (fst (bp_step inner base s o)) = view s /\ Inv (fst (bp_step inner base s o)).
Proof. exact @bp_contract. Qed.
Print Assumptions C07_contract_through_basepath.

(* instances *)
Theorem C07_source_frozen_mem : forall ops s, all_inert s ->
  snapshot (fst (run_steps (ro_step m_step) s ops)) = snapshot s.
Proof. exact ro_mem_frozen. Qed.
Print Assumptions C07_source_frozen_mem.

Theorem C07_source_frozen_basepath_mem : forall base ops s, all_inert s ->
  snapshot (fst (run_steps (ro_step (bp_step m_step base)) s ops)) = snapshot s.
Proof. exact ro_bp_mem_frozen. Qed.
Print Assumptions C07_source_frozen_basepath_mem.

Theorem C07_source_frozen_readonly_mem : forall ops s, all_inert s ->
  snapshot (fst (run_steps (ro_step (ro_step m_step)) s ops)) = snapshot s.
Proof. exact ro_ro_mem_frozen. Qed.
Print Assumptions C07_source_frozen_readonly_mem.

(* non-vacuity: a state with content and a read-only handle satisfies the hypothesis, and a
   write through a handle obtained with a "no write access" flag (O_SYNC) is refused *)
Definition c07_demo : mst :=
  fst (run_steps m_step m_init [Create [47;97]%N; HWrite 0 [1;2;3]%N; HClose 0; Open [47;97]%N]).
Example C07_ex_inert : forall i h, nth_error (mhandles c07_demo) i = Some h -> inert h = true.
Proof. intros [|[|[|i]]] h H; vm_compute in H; inversion H; reflexivity || (destruct i; discriminate). Qed.
Example C07_ex_osync : snd (run_steps (ro_step m_step) c07_demo
    [OpenFile [47;97]%N o_sync 0; HWrite 2 [9]%N; Stat [47;97]%N; Remove [47;97]%N])
  = [RHandle 2; RCount 0 (Some (EW KReadOnlyHandle));
     RInfo (mkFi [97]%N false 3 mode_temporary (BIG + 2)); RErr (E KEPERM)].
Proof. vm_compute. reflexivity. Qed.
