(* C01 — MemMapFs behaves like a POSIX filesystem on well-formed call sequences.
   Statements only; proofs in Proofs/MemFs*.v.  The hypothesis `wf_seq m_init ops = true`
   (Model/WfOps.v) is computable: every call is portable in the state reached so far —
   wf_op = wf_op_ord || wf_below: it satisfies the ordinary POSIX preconditions (wf_op_ord: the
   call is carried out), or it is a creating call whose name passes through a regular file
   (wf_below: Create, Mkdir, MkdirAll, OpenFile with O_CREATE, Rename onto such a name; the call
   is refused with ENOTDIR by MemMapFs and by the operating system alike, theorem 8). *)
From AF Require Import Proofs.MemFileProof.
From AF Require Import Lib.Bytes Lib.Path Lib.Ops Gen.Consts Model.MemFile Model.MemFs Model.WfOps Model.Posix
  Proofs.MemFsPath Proofs.MemFsBasics Proofs.MemFsWF Proofs.MemFsStep Proofs.MemFsRename Proofs.MemFsInv
  Proofs.MemFsNoop Proofs.MemFsList Proofs.MemFsSim Proofs.MemFsSimInv Proofs.MemBelow Proofs.MemBelowRefused Proofs.MemFsBelow.
Local Open Scope Z_scope.

(* 1. The per-directory child index mirrors the path map after every well-formed sequence
      (any length; Mkdir, MkdirAll with auto-created ancestors, Create, Open, OpenFile, Remove,
      RemoveAll, Rename of files and of whole directory trees, metadata and handle calls). *)
Theorem C01_index_mirrors_map : forall ops,
  wf_seq m_init ops = true -> WF (fst (run_steps m_step m_init ops)).
Proof. exact index_mirrors_map. Qed.
Print Assumptions C01_index_mirrors_map.

(* ... and it is preserved by every single well-formed call from ANY state satisfying it *)
Theorem C01_step_preserves_WF : forall s o, WF s -> wf_op s o = true -> WF (fst (m_step s o)).
Proof. exact WF_step. Qed.
Print Assumptions C01_step_preserves_WF.

(* what WF says: I1 keys unique, normalized, rooted; I2 every key's node carries the key as its
   name; I3 the root is a directory; I4 every non-root key is registered in the child index of
   its parent directory filepath.Dir(k) (which is what findParent computes); I5 every entry of a
   live directory's child index is a live key with that parent; I6 distinct keys, distinct nodes *)
Theorem C01_WF_meaning : forall s, WF s -> WF_plain s.
Proof. exact WF_meaning. Qed.
Print Assumptions C01_WF_meaning.

(* 2. A failed call changes nothing: the path map and every node (names, kinds, contents, modes,
      times, child indexes) are exactly what they were.  Covers every call that returns an error:
      EEXIST / ENOENT / ENOTDIR of the path calls, and the handle calls on closed or read-only handles,
      negative offsets, out-of-range truncation (and would-be panics). *)
Theorem C01_failed_call_is_noop : forall s o, WF s -> wf_op s o = true ->
  res_is_err (snd (m_step s o)) = true -> fs_view (fst (m_step s o)) = fs_view s.
Proof. exact failed_call_is_noop. Qed.
Print Assumptions C01_failed_call_is_noop.

(* 3. Listing = children of the map.  Opening a directory d and reading the fresh handle with
      Readdir(-1) / Readdirnames(-1) returns exactly the base names of the keys of the path map whose
      parent (filepath.Dir) is d — each once, in strictly ascending order (is_listing, MemFsList.v). *)
Theorem C01_listing_is_children : forall s d r n,
  WF s -> canon d -> lookup s d = Some r -> get_node s r = Some n -> ndir n = true ->
  let s1 := fst (m_step s (Open d)) in
  let h := length (mhandles s) in
  snd (m_step s (Open d)) = RHandle h /\
  exists infos,
    snd (m_step s1 (HReaddir h (-1))) = RInfos infos None /\
    snd (m_step s1 (HReaddirnames h (-1))) = RNames (map fi_name infos) None /\
    is_listing s d (map fi_name infos).
Proof. exact listing_fresh_handle. Qed.
Print Assumptions C01_listing_is_children.

(* Reading the same handle in pages of ANY positive sizes (Readdir if nm = false, Readdirnames if
   nm = true; no other call in between) returns consecutive slices whose concatenation is the
   whole listing, and the next page reports io.EOF with no entries. *)
Theorem C01_readdir_pages_partition : forall nm ns s i h n cnt,
  nth_error (mhandles s) i = Some h -> get_node s (href h) = Some n -> ndir n = true -> hrdc h = 0 ->
  Forall (fun c => 0 < c) ns -> 0 < cnt -> (length (dir_names s n) <= Z.to_nat (zsum ns))%nat ->
  let run := run_steps m_step s (map (rdop nm i) ns) in
  concat (map names_of (snd run)) = dir_names s n /\
  snd (m_step (fst run) (rdop nm i cnt)) = page_res nm [] (Some (E KEOF)).
Proof. exact pages_partition. Qed.
Print Assumptions C01_readdir_pages_partition.

(* ... and any prefix of pages returns the corresponding prefix of the listing, from any offset that
   lies within the listing (rdc_within: no entry was removed since the previous page) *)
Theorem C01_readdir_pages_prefix : forall nm ns s i h n,
  nth_error (mhandles s) i = Some h -> get_node s (href h) = Some n -> ndir n = true -> 0 <= hrdc h -> rdc_within s h n ->
  Forall (fun c => 0 < c) ns ->
  let M := skipn (Z.to_nat (hrdc h)) (dir_infos s n) in
  let s' := fst (run_steps m_step s (map (rdop nm i) ns)) in
  concat (map names_of (snd (run_steps m_step s (map (rdop nm i) ns)))) = map fi_name (firstn (Z.to_nat (zsum ns)) M) /\
  fs_view s' = fs_view s /\
  exists h', nth_error (mhandles s') i = Some h' /\ href h' = href h /\
             hrdc h' = hrdc h + Z.of_nat (Nat.min (length M) (Z.to_nat (zsum ns))).
Proof. exact readdir_pages. Qed.
Print Assumptions C01_readdir_pages_prefix.

(* 4. Rename moves the subtree with contents intact.  For a successful Rename (source exists,
      differs from the target, and the target does not pass through a regular file — otherwise the
      call is in the class too, but refused: theorem 8) and every suffix rest = "" or "/…": the name new++rest denotes
      afterwards exactly what old++rest denoted before (kind, contents, mode, mtime — or nothing),
      the names at or below old are gone, and every name outside both subtrees is unchanged.
      (entry_at, atbelow, suffix_ok: Proofs/MemFsRename.v) *)
Theorem C01_rename_moves_subtree : forall s p q,
  WF s -> wf_op s (Rename p q) = true ->
  let old := normalize_path p in let new := normalize_path q in
  lookup s old <> None -> old <> new -> through_file s new = false ->
  let s' := fst (m_step s (Rename p q)) in
  snd (m_step s (Rename p q)) = ROk /\ WF s' /\
  (forall rest, suffix_ok rest -> entry_at s' (new ++ rest) = entry_at s (old ++ rest)) /\
  (forall rest, suffix_ok rest -> entry_at s' (old ++ rest) = None) /\
  (forall k, ~ atbelow old k -> ~ atbelow new k -> entry_at s' k = entry_at s k).
Proof. exact rename_moves_subtree. Qed.
Print Assumptions C01_rename_moves_subtree.

(* 5. POSIX specification and simulation.  Model/Posix.v is an independent specification: a flat
      tree (clean absolute path -> inode), an inode table (IDir perm | IFile bytes perm), handles
      bound to inodes with a byte offset and a directory offset; every call that takes a name resolves
      it first (a name that passes through a regular file: ENOTDIR, nothing changes; Rename resolves
      the directory of the source, then that of the target, then looks for the source); Mkdir needs an existing parent
      directory, MkdirAll creates the missing ancestors, Remove refuses non-empty directories,
      RemoveAll drops every name at or below, Rename rewrites the prefix of every name at or below
      the source, listings are the sorted base names of the names with that parent, byte I/O is the
      flat array of Model/ByteFile.v (the C02 specification).  For EVERY sequence whose calls satisfy
      the preconditions (wf_seq_sim: wf_op, plus byte I/O only through handles on regular files and
      directory reading only through handles on directories that still have a name):
        - every call has the same projected outcome in both machines (mproj: success / not-exist /
          already-exists / closed / not-a-directory / other, the handle number, the bytes read and the EOF flag, the
          count written, the new offset, kind and size of Stat, the names of a directory page), and
        - the final states expose the same tree: for every path the same kind and contents and the
          permission bits wherever they were set explicitly, and for every directory the same listing.
      Handle I/O is discharged by the C02 lemmas sim_read … sim_truncate of Proofs/MemFileProof.v. *)
Theorem C01_simulation : forall ops, wf_seq_sim m_init ops = true ->
  mproj_all ops (snd (run_steps m_step m_init ops)) = snd (p_run p_init ops) /\
  Observe (fst (run_steps m_step m_init ops)) (fst (p_run p_init ops)).
Proof. exact simulation0. Qed.
Print Assumptions C01_simulation.

(* the one-step form, from any related pair of states *)
Theorem C01_simulation_step : forall s t o, Rsim s t -> pvalid t -> wf_op_sim s o = true ->
  Rsim (fst (m_step s o)) (fst (p_step t o)) /\ mproj o (snd (m_step s o)) = snd (p_step t o).
Proof. intros s t o R Hv Hwf. exact (sim_step s t o R (wf_op_sim_sim s t o R Hv Hwf)). Qed.
Print Assumptions C01_simulation_step.

(* 6. Spellings.  Every call depends on its path arguments only through normalizePath: two calls
      whose paths normalize to the same strings do the same thing in every state (same new state
      including handles and clock, same result).  Together with filepath.Clean's properties (the
      subject of Proofs/PathProof.v, not of this file) this is "paths that clean to the same string
      denote the same file". *)
Theorem C01_spelling_irrelevant : forall s o o', same_names o o' -> m_step s o = m_step s o'.
Proof. exact same_names_same_step. Qed.
Print Assumptions C01_spelling_irrelevant.

(* 7. Nothing is created below a regular file — for EVERY state (no invariant, no precondition) and
      EVERY name.  nearest_is_file s d (Proofs/MemBelowRefused.v): walking up d, filepath.Dir d,
      filepath.Dir (filepath.Dir d), ... the first name the path map holds is a regular file.  Then
      Create, Mkdir, MkdirAll and OpenFile with O_CREATE of the (free) name, and Rename to the name from any
      other existing name, answer ENOTDIR — what the operating system answers — and nothing but the
      clock changes (ticked s: same path map, same nodes, same handles).
      This is the statement that memmap.go's lockfreeBelowFile check buys; it depends on the switch
      memfs_refuses_below_file = 1 regenerated from the source (C01_below_file_switch, by reflexivity:
      with the check removed from any of Create, Mkdir, Rename or OpenFile's creating path the constant
      is 0, that lemma and this theorem no longer compile, and the Go-side oracles of C13 / C18 give the
      failing input: a regular file that became a directory). *)
Theorem C01_below_file_switch : memfs_refuses_below_file = 1.
Proof. exact memfs_refuses_below_file_fact. Qed.
Print Assumptions C01_below_file_switch.

Theorem C01_below_file_refused : forall s p,
  let k := normalize_path p in
  nearest_is_file s (path_dir k) ->
  (lookup s k = None ->
     m_step s (Create p) = (ticked s, RErr (EW KENOTDIR)) /\
     (forall perm, m_step s (Mkdir p perm) = (ticked s, RErr (EW KENOTDIR))) /\
     (forall perm, m_step s (MkdirAll p perm) = (ticked s, RErr (EW KENOTDIR))) /\
     (forall flag perm, flag_has flag o_create = true ->
        m_step s (OpenFile p flag perm) = (ticked s, RErr (EW KENOTDIR)))) /\
  (forall q, lookup s (normalize_path q) <> None -> normalize_path q <> k ->
     m_step s (Rename q p) = (ticked s, RErr (EW KENOTDIR))).
Proof. exact below_file_refused. Qed.
Print Assumptions C01_below_file_refused.

(* what "ticked" keeps *)
Theorem C01_ticked_keeps_everything : forall s, fs_view (ticked s) = fs_view s /\ mhandles (ticked s) = mhandles s.
Proof. exact ticked_view. Qed.
Print Assumptions C01_ticked_keeps_everything.

(* ... and the check costs the well-formed programs nothing: a call satisfying the POSIX
   precondition of C01 in a state satisfying the invariant is never refused by it (so theorems 1-6
   above are about the same calls as before) *)
Theorem C01_wellformed_never_below_file : forall s,
  WF s ->
  (forall k, canon k -> is_dir_at s (par k) = true -> below_file s k = false) /\
  (forall k, canon k -> prefixes_dirs s k = true -> below_file s k = false) /\
  (forall k r, lookup s k = Some r -> below_file s k = false).
Proof.
  intros s W. split; [intros k Hc Hd; now apply below_file_dir_parent|].
  split; [intros k Hc Hp; now apply below_file_prefixes_dirs | intros k r Hl; now apply (below_file_existing s k r)].
Qed.
Print Assumptions C01_wellformed_never_below_file.

(* 8. The portable class includes creating below a regular file.  wf_op = wf_op_ord || wf_below
      (by definition); in a state satisfying the invariant the two halves are disjoint, so the
      ordinary half is exactly the class theorems 1-6 were about before; a name that passes through
      a regular file (through_file: some proper ancestor is a regular file) is free and the first
      existing name on the way up is that file (the hypothesis of theorem 7); and on every call of
      the second half MemMapFs and the POSIX specification agree: ENOTDIR, and neither state
      changes (MemMapFs: only the clock moves).  These calls satisfy the precondition of the
      simulation theorem (wf_op_sim), so C01_simulation covers programs that mix them with
      ordinary calls (C01_ex_mixed below). *)
Theorem C01_portable_class : forall s o, wf_op s o = wf_op_ord s o || wf_below s o.
Proof. reflexivity. Qed.
Print Assumptions C01_portable_class.

Theorem C01_class_halves_disjoint : forall s o, WF s -> wf_op_ord s o = true -> wf_below s o = false.
Proof. exact wf_ord_not_below. Qed.
Print Assumptions C01_class_halves_disjoint.

Theorem C01_through_file_meaning : forall s k, WF s -> canon k -> through_file s k = true ->
  lookup s k = None /\ nearest_is_file s (path_dir k).
Proof. intros s k W Hc Ht. exact (through_file_nearest s W k Hc Ht). Qed.
Print Assumptions C01_through_file_meaning.

Theorem C01_below_file_agrees : forall s t o, Rsim s t -> wf_below s o = true ->
  m_step s o = (ticked s, RErr (EW KENOTDIR)) /\
  p_step t o = (t, PFail CNotDir) /\
  mproj o (snd (m_step s o)) = snd (p_step t o) /\
  wf_op_sim s o = true.
Proof.
  intros s t o R Hb. pose proof (below_step_ticked s o (rs_wf _ _ R) Hb) as Em. pose proof (below_spec_step s t o R Hb) as Ep.
  split; [exact Em|]. split; [exact Ep|]. split; [now rewrite Em, Ep|].
  unfold wf_op_sim. rewrite (wf_op_of_below s o Hb). pose proof (wf_below_creating s o Hb) as Hc. destruct o; try contradiction; reflexivity.
Qed.
Print Assumptions C01_below_file_agrees.

(* ---------- non-vacuity ---------- *)
Local Open Scope N_scope.
Definition c01_demo : list op :=
  [ MkdirAll [47;97;47;98;47;99] 493;                  (* /a/b/c with auto-created ancestors *)
    Create [47;97;47;98;47;102];                       (* /a/b/f *)
    HWrite 0 [1;2;3]; HClose 0;
    Mkdir [47;47;120;47] 448;                          (* "//x/" = /x *)
    Rename [47;97;47;98] [47;120;47;121];              (* move the tree /a/b -> /x/y *)
    OpenFile [47;120;47;121;47;102] 0%Z 0%Z; HRead 1 10%Z;
    Open [47;120;47;121]; HReaddirnames 2 (-1)%Z;
    Create [47;103]; Rename [47;103] [47;120;47;121;47;102];   (* file replaces file *)
    Remove [47;120;47;121;47;99]; RemoveAll [47;120];
    Stat [47;97;47;98]; Remove [47;97] ].
Example C01_ex_wf_seq : wf_seq m_init c01_demo = true.
Proof. vm_compute. reflexivity. Qed.
Example C01_ex_results : snd (run_steps m_step m_init c01_demo) =
  [ ROk; RHandle 0; RCount 3 None; ROk; ROk; ROk; RHandle 1; RData [1;2;3] None;
    RHandle 2; RNames [[99];[102]] None; RHandle 3; ROk; ROk; ROk;
    RErr (EW KNotExist); ROk ].
Proof. vm_compute. reflexivity. Qed.
(* the precondition rejects what POSIX rejects *)
Example C01_ex_rejects :
  wf_seq m_init [Mkdir [47;97] 493; Rename [47;97] [47;97;47;98]] = false /\
  wf_seq m_init [Create [47;102]; Stat [47;102;47;100]] = false /\                 (* the OS: ENOTDIR, MemMapFs: not-exist *)
  wf_seq m_init [MkdirAll [47;97;47;98] 493; Remove [47;97]] = false.
Proof. vm_compute. auto. Qed.
(* ... and accepts a creating call below a regular file: both sides refuse it with ENOTDIR *)
Example C01_ex_accepts_below :
  wf_seq m_init [Create [47;102]; Mkdir [47;102;47;100] 493] = true /\
  wf_below (fst (m_step m_init (Create [47;102]))) (Mkdir [47;102;47;100] 493) = true.
Proof. vm_compute. auto. Qed.

(* failing calls in the demo state: each returns an error and leaves the snapshot unchanged *)
Definition c01_demo2 : mst := fst (run_steps m_step m_init
  [MkdirAll [47;97;47;98] 493%Z; Create [47;97;47;102]; HWrite 0 [7;8]; HClose 0; Open [47;97;47;102]]).
Example C01_ex_failures :
  map (fun o => (wf_op c01_demo2 o, res_is_err (snd (m_step c01_demo2 o)),
                 beqb (concat (map e_path (snapshot (fst (m_step c01_demo2 o))))) (concat (map e_path (snapshot c01_demo2)))))
    [Mkdir [47;97] 493%Z; Remove [47;122]; Rename [47;122] [47;121]; OpenFile [47;97;47;102] (Z.lor o_create o_excl) 0%Z;
     HWrite 0 [1]; HWrite 1 [1]; HSeek 1 (-5)%Z 0%Z; HTruncate 1 3%Z; Stat [47;97;47;98;47;99]]
  = repeat (true, true, true) 9.
Proof. vm_compute. reflexivity. Qed.

(* a directory with three children read in pages 2+1 and then EOF; Readdirnames(-1) on a fresh handle *)
Definition c01_demo3 : list op :=
  [ Mkdir [47;100] 493%Z; Create [47;100;47;99]; Create [47;100;47;97]; Mkdir [47;100;47;98] 493%Z;
    Open [47;100]; HReaddirnames 2 2%Z; HReaddirnames 2 1%Z; HReaddirnames 2 5%Z;
    Open [47;100]; HReaddirnames 3 (-1)%Z ].
Example C01_ex_pages : wf_seq m_init c01_demo3 = true /\
  skipn 5 (snd (run_steps m_step m_init c01_demo3)) =
  [ RNames [[97];[98]] None; RNames [[99]] None; RNames [] (Some (E KEOF)); RHandle 3; RNames [[97];[98];[99]] None ].
Proof. vm_compute. auto. Qed.

(* a tree /a/b{/c,/f="\001\002\003"} moved to /x/y: the file is found under the new name *)
Definition c01_demo4 : mst := fst (run_steps m_step m_init (firstn 5 c01_demo)).
Example C01_ex_rename :
  wf_op c01_demo4 (Rename [47;97;47;98] [47;120;47;121]) = true /\
  lookup c01_demo4 [47;97;47;98] <> None /\
  entry_at c01_demo4 [47;97;47;98;47;102] = Some (false, [1;2;3], mode_temporary, (BIG + 3)%Z) /\
  entry_at (fst (m_step c01_demo4 (Rename [47;97;47;98] [47;120;47;121]))) [47;120;47;121;47;102]
    = Some (false, [1;2;3], mode_temporary, (BIG + 3)%Z) /\
  entry_at (fst (m_step c01_demo4 (Rename [47;97;47;98] [47;120;47;121]))) [47;97;47;98;47;102] = None.
Proof. vm_compute. repeat split; auto; discriminate. Qed.

(* the demo sequences satisfy the stronger precondition, and the specification computes *)
Example C01_ex_sim : wf_seq_sim m_init c01_demo = true /\ wf_seq_sim m_init c01_demo3 = true /\
  snd (p_run p_init c01_demo3) =
  [ PSucc; PHandle 0; PHandle 1; PSucc; PHandle 2; PNames [[97];[98]] false; PNames [[99]] false; PNames [] true;
    PHandle 3; PNames [[97];[98];[99]] false ].
Proof. vm_compute. auto. Qed.

(* below the regular file /a/f of the demo state (content "\007\008"): every creating call is refused
   with ENOTDIR — directly below it, two levels below it, and Rename into it — and /a/f is still that file *)
Example C01_ex_below_file :
  nearest_is_file c01_demo2 (path_dir [47;97;47;102;47;120]) /\           (* /a/f/x   : parent is the file *)
  nearest_is_file c01_demo2 (path_dir [47;97;47;102;47;120;47;121]) /\     (* /a/f/x/y : /a/f/x is missing *)
  map (fun o => (snd (m_step c01_demo2 o), entry_at (fst (m_step c01_demo2 o)) [47;97;47;102]))
    [Create [47;97;47;102;47;120]; Mkdir [47;97;47;102;47;120] 493%Z; MkdirAll [47;97;47;102;47;120;47;121] 493%Z;
     OpenFile [47;97;47;102;47;120] (Z.lor o_create o_rdwr) 420%Z; Rename [47;97;47;98] [47;97;47;102;47;122];
     Create [47;97;47;102;47;46;47;120;47;121]]
  = repeat (RErr (EW KENOTDIR), Some (false, [7;8], mode_temporary, (BIG + 3)%Z)) 6.
Proof.
  split; [eapply nif_here; vm_compute; reflexivity|].
  split; [apply nif_up; [vm_compute; reflexivity|]; eapply nif_here; vm_compute; reflexivity|].
  vm_compute. reflexivity.
Qed.

(* a program that mixes ordinary calls with creating calls below the regular file /d/f (content "hi"),
   run through MemMapFs and through the POSIX specification: it is inside the precondition of
   C01_simulation, steps 3-6, 8 and 9 are in the second half of the class, both machines answer
   ENOTDIR there — directly below the file, two levels below it, Rename of a file into it, Rename of
   the directory /d into its own subtree through the file — and afterwards /d/f still holds "hi",
   /g moved to /d/h and /d lists f and h *)
Definition c01_demo5 : list op :=
  [ Mkdir [47;100] 493%Z;                                            (*  0  /d *)
    Create [47;100;47;102];                                          (*  1  /d/f, handle 0 *)
    HWrite 0 [104;105];                                              (*  2  "hi" *)
    Create [47;100;47;102;47;120];                                   (*  3  /d/f/x *)
    Mkdir [47;100;47;102;47;120] 493%Z;                              (*  4  /d/f/x *)
    MkdirAll [47;100;47;102;47;120;47;121] 493%Z;                    (*  5  /d/f/x/y *)
    OpenFile [47;100;47;102;47;120;47;121] (Z.lor o_create o_rdwr) 420%Z;   (*  6  /d/f/x/y *)
    Create [47;103];                                                 (*  7  /g, handle 1 *)
    Rename [47;103] [47;100;47;102;47;122];                          (*  8  /g -> /d/f/z *)
    Rename [47;100] [47;100;47;102;47;120;47;100];                   (*  9  /d -> /d/f/x/d *)
    Rename [47;103] [47;100;47;104];                                 (* 10  /g -> /d/h *)
    HSeek 0 0%Z 0%Z; HRead 0 10%Z;                                   (* 11, 12 *)
    Stat [47;100;47;102];                                            (* 13 *)
    Open [47;100]; HReaddirnames 2 (-1)%Z ].                         (* 14, 15 *)
Example C01_ex_mixed :
  wf_seq_sim m_init c01_demo5 = true /\
  map (fun i => wf_below (fst (run_steps m_step m_init (firstn i c01_demo5))) (nth i c01_demo5 (HSync 0)))
      [3; 4; 5; 6; 8; 9]%nat = repeat true 6 /\
  mproj_all c01_demo5 (snd (run_steps m_step m_init c01_demo5)) = snd (p_run p_init c01_demo5) /\
  snd (p_run p_init c01_demo5) =
  [ PSucc; PHandle 0; PNum 2; PFail CNotDir; PFail CNotDir; PFail CNotDir; PFail CNotDir; PHandle 1;
    PFail CNotDir; PFail CNotDir; PSucc; PNum 0; PData [104;105] false; PStat false (Some 2%nat);
    PHandle 2; PNames [[102];[104]] false ].
Proof. vm_compute. auto. Qed.

(* Rename of a MISSING source whose directory exists onto a name below a regular file: rename(2)
   resolves both directories before it looks for the source and answers ENOTDIR; so does MemMapFs
   (switch memfs_rename_missing_source_enotdir = 1, read from the source of Rename; before that repair
   — finding F4 — it answered not-exist).  The call is in the ordinary half of the class. *)
Theorem C01_rename_missing_switch : memfs_rename_missing_source_enotdir = 1%Z.
Proof. exact memfs_rename_missing_source_enotdir_fact. Qed.
Print Assumptions C01_rename_missing_switch.

Theorem C01_rename_missing_source : forall s p q, WF s -> wf_op_ord s (Rename p q) = true ->
  lookup s (normalize_path p) = None ->
  m_step s (Rename p q) =
    (ticked s, RErr (EW (if is_dir_at s (par (normalize_path p)) && through_file s (normalize_path q) then KENOTDIR else KNotExist))).
Proof.
  intros s p q W Hwf Hl. cbn [wf_op_ord] in Hwf. apply andb_true_iff in Hwf as [Hn _]. apply andb_true_iff in Hn as [Hn _].
  apply andb_true_iff in Hn as [Hnp Hnq]. unfold m_step. cbn [m_step_raw].
  now rewrite (m_rename_missing s p q W (canon_normalize p Hnp) (canon_normalize q Hnq) Hl).
Qed.
Print Assumptions C01_rename_missing_source.

Example C01_ex_F4 :
  let s := fst (m_step m_init (Create [47;102])) in let t := fst (p_step p_init (Create [47;102])) in
  let o := Rename [47;122] [47;102;47;120] in let o2 := Rename [47;122;47;121] [47;102;47;120] in
  wf_op_ord s o = true /\ mproj o (snd (m_step s o)) = PFail CNotDir /\ snd (p_step t o) = PFail CNotDir /\
  wf_op_ord s o2 = true /\ mproj o2 (snd (m_step s o2)) = PFail CNotExist /\ snd (p_step t o2) = PFail CNotExist.
Proof. vm_compute. auto 10. Qed.

Example C01_ex_spelling : same_names (Mkdir [47;47;120;47] 448%Z) (Mkdir [47;120] 448%Z) /\
  same_names (Rename [47;97;47;46;47;98] [47;120;47;46;46;47;121]) (Rename [47;97;47;98] [47;121]).
Proof. vm_compute. auto. Qed.
