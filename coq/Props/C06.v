(* C06 — the copy-on-write view: for each path the overlay's entry if the overlay has one and
   otherwise the base's entry; a directory present in both lists the union of both sets of names
   exactly once each, in pages that partition the listing; a successful write through the union
   is read back through the union, modifying part of a base-only file keeps all its other bytes,
   and a failed call leaves the view unchanged.
   Statements only; proofs in Proofs/CowViewProof.v, Proofs/UnionProof.v, Proofs/CopyUpProof.v,
   Proofs/CowLayer.v, Proofs/CowFileOps.v, Proofs/CopyUpFull.v, Proofs/CowWriteProof.v, Proofs/CowFailedProof.v.
   Sections 1-4 and the refusals of section 6 are over two ARBITRARY inner filesystems (any step functions);
   section 5 (copy-up, write / read back) and C06_failed_call_view_unchanged are for MemMapFs on both sides, for EVERY
   overlay state satisfying the invariant WF of C01 (every state a well-formed program reaches:
   C01_index_mirrors_map, C01_step_preserves_WF) and every rooted name in any spelling. *)
From AF Require Import Lib.Bytes Lib.Path Lib.Ops Gen.Consts Model.MemFile Model.ByteFile Model.MemFs Model.WfOps Model.ReadOnly
  Model.Union Model.Cow Model.CowView
  Proofs.MemFileProof Proofs.MemFsPath Proofs.MemFsBasics Proofs.MemFsWF Proofs.MemFsInv Proofs.UnionProof Proofs.CowViewProof Proofs.CopyUpProof
  Proofs.CowLayer Proofs.CowFileOps Proofs.CopyUpFull Proofs.CowWriteProof Proofs.CowFailedProof.
Local Open Scope Z_scope.

(* ---- 1. lookup: overlay's entry if it has one, else the base's ---- *)
(* Stat through the union: the overlay's answer when the overlay's Stat succeeds; the base's
   answer when the overlay says "does not exist" (isNotExist of copyOnWriteFs.go); any other
   overlay error is returned as it is.  No handle table changes; the base is consulted only in
   the second case. *)
Theorem C06_lookup_is_overlay_then_base :
  forall (B L : Type) (bstep : B -> op -> B * res) (lstep : L -> op -> L * res) sb sl tbl p sl1,
  (forall fi, lstep sl (Stat p) = (sl1, RInfo fi) ->
     cow_step bstep lstep (sb, sl, tbl) (Stat p) = ((sb, sl1, tbl), RInfo fi)) /\
  (forall e, lstep sl (Stat p) = (sl1, RErr e) -> cow_is_not_exist e = true ->
     cow_step bstep lstep (sb, sl, tbl) (Stat p) = ((fst (bstep sb (Stat p)), sl1, tbl), snd (bstep sb (Stat p)))) /\
  (forall e, lstep sl (Stat p) = (sl1, RErr e) -> cow_is_not_exist e = false ->
     cow_step bstep lstep (sb, sl, tbl) (Stat p) = ((sb, sl1, tbl), RErr e)).
Proof. exact @cow_stat_rule. Qed.
Print Assumptions C06_lookup_is_overlay_then_base.

(* contents follow the same rule: Open of a name the overlay holds as a non-directory is the
   overlay's Open (the base is not touched) ... *)
Theorem C06_open_overlay_entry_wins :
  forall (B L : Type) (bstep : B -> op -> B * res) (lstep : L -> op -> L * res) sb sl tbl p sl1 fi sl2 fi',
  lstep sl (Stat p) = (sl1, RInfo fi) -> lstep sl1 (Stat p) = (sl2, RInfo fi') -> fi_dir fi' = false ->
  cow_step bstep lstep (sb, sl, tbl) (Open p) = open_layer lstep sb sl2 tbl (Open p).
Proof. exact @cow_open_overlay_file. Qed.
Print Assumptions C06_open_overlay_entry_wins.

(* ... Open of a name only the base holds is the base's Open ... *)
Theorem C06_open_base_entry_otherwise :
  forall (B L : Type) (bstep : B -> op -> B * res) (lstep : L -> op -> L * res) sb sl tbl p sl1 r sb1 fi,
  lstep sl (Stat p) = (sl1, r) -> is_info r = false -> bstep sb (Stat p) = (sb1, RInfo fi) ->
  cow_step bstep lstep (sb, sl, tbl) (Open p) = open_base bstep sb1 sl1 tbl (Open p).
Proof. exact @cow_open_base_only. Qed.
Print Assumptions C06_open_base_entry_otherwise.

(* ... and a directory present in both yields a UnionFile over both directory handles with an
   empty listing state, whose methods are exactly uf_op *)
Theorem C06_open_directory_in_both :
  forall (B L : Type) (bstep : B -> op -> B * res) (lstep : L -> op -> L * res)
    sb sl tbl p sl1 fi sl2 fi' sb1 fib sb2 bh sl3 lh,
  lstep sl (Stat p) = (sl1, RInfo fi) -> lstep sl1 (Stat p) = (sl2, RInfo fi') -> fi_dir fi' = true ->
  bstep sb (Stat p) = (sb1, RInfo fib) -> fi_dir fib = true ->
  bstep sb1 (Open p) = (sb2, RHandle bh) -> lstep sl2 (Open p) = (sl3, RHandle lh) ->
  cow_step bstep lstep (sb, sl, tbl) (Open p) =
    ((sb2, sl3, tbl ++ [HU (mkUF (Some bh) (Some lh) 0 [])]), RHandle (length tbl)).
Proof. exact @cow_open_both_dirs. Qed.
Print Assumptions C06_open_directory_in_both.

Theorem C06_union_handle_is_unionfile :
  forall (B L : Type) (bstep : B -> op -> B * res) (lstep : L -> op -> L * res) sb sl tbl o i u,
  op_handle_of o = Some i -> nth_error tbl i = Some (HU u) ->
  cow_step bstep lstep (sb, sl, tbl) o =
    let '(sb1, sl1, u1, r) := uf_op bstep lstep sb sl u o in ((sb1, sl1, list_set i (HU u1) tbl), r).
Proof. exact @cow_union_handle. Qed.
Print Assumptions C06_union_handle_is_unionfile.

(* ---- 2. the merged listing: union of both sets of names, each exactly once, overlay wins ---- *)
(* for ALL input lists (also ill-formed ones with repeated names): no name twice; a name is listed
   iff the overlay or the base lists it; an entry whose name the overlay lists is the overlay's
   (last) entry of that name, any other entry is the base's (last) entry of that name *)
Theorem C06_merged_listing : forall lfi bfi,
  NoDup (map fi_name (merge_dirs lfi bfi)) /\
  (forall n, In n (map fi_name (merge_dirs lfi bfi)) <-> In n (map fi_name lfi) \/ In n (map fi_name bfi)) /\
  (forall x, In x (merge_dirs lfi bfi) ->
     (In (fi_name x) (map fi_name lfi) -> exists l1 l2, lfi = l1 ++ x :: l2 /\ ~ In (fi_name x) (map fi_name l2)) /\
     (~ In (fi_name x) (map fi_name lfi) -> exists l1 l2, bfi = l1 ++ x :: l2 /\ ~ In (fi_name x) (map fi_name l2))).
Proof. exact merged_listing. Qed.
Print Assumptions C06_merged_listing.

(* with directories that list no name twice: all overlay entries, then the base entries whose
   name the overlay lacks *)
Theorem C06_merged_listing_wellformed : forall lfi bfi,
  NoDup (map fi_name lfi) -> NoDup (map fi_name bfi) ->
  merge_dirs lfi bfi = lfi ++ filter (fun b => negb (existsb (fun y => beqb (fi_name y) (fi_name b)) lfi)) bfi.
Proof. exact merge_dirs_wellformed. Qed.
Print Assumptions C06_merged_listing_wellformed.

(* ---- 3. pages partition the listing ---- *)
(* On a fresh union directory handle whose two inner directories list lfi and bfi (read in full,
   once), with a non-empty merge M: ANY non-empty list of positive page sizes returns exactly
   `pages sizes M` — the next min(c, rest) entries for each c, EOF once nothing is left — and the
   inner filesystems see only those two Readdir(-1) calls. *)
Theorem C06_pages_partition :
  forall (B L : Type) (bstep : B -> op -> B * res) (lstep : L -> op -> L * res)
    sb sl bh lh i sb1 sl1 lfi bfi c cs,
  lstep sl (HReaddir lh (-1)) = (sl1, RInfos lfi None) ->
  bstep sb (HReaddir bh (-1)) = (sb1, RInfos bfi None) ->
  merge_dirs lfi bfi <> [] ->
  Forall (fun c => 0 < c) (c :: cs) ->
  exists off, uf_run bstep lstep sb sl (mkUF (Some bh) (Some lh) 0 []) (map (HReaddir i) (c :: cs)) =
    (sb1, sl1, mkUF (Some bh) (Some lh) off (merge_dirs lfi bfi), pages (c :: cs) (merge_dirs lfi bfi)).
Proof. exact @uf_pages_partition. Qed.
Print Assumptions C06_pages_partition.

(* what `pages` is: glued together the pages are a prefix of the listing — the whole listing as
   soon as the sizes add up to its length —, so no entry is skipped or repeated *)
Theorem C06_pages_are_consecutive_chunks : forall cs rest, Forall (fun c => 0 < c) cs ->
  concat (map infos_of (pages cs rest)) = firstn (Z.to_nat (zsum cs)) rest /\
  (zlen rest <= zsum cs -> concat (map infos_of (pages cs rest)) = rest) /\
  pages cs [] = map (fun _ => RInfos [] (Some (E KEOF))) cs.
Proof. exact pages_chunks. Qed.
Print Assumptions C06_pages_are_consecutive_chunks.

(* an empty merged listing: EOF at once *)
Theorem C06_pages_empty :
  forall (B L : Type) (bstep : B -> op -> B * res) (lstep : L -> op -> L * res) sb sl bh lh i sb1 sl1 lfi bfi c,
  lstep sl (HReaddir lh (-1)) = (sl1, RInfos lfi None) ->
  bstep sb (HReaddir bh (-1)) = (sb1, RInfos bfi None) ->
  merge_dirs lfi bfi = [] -> 0 < c ->
  uf_op bstep lstep sb sl (mkUF (Some bh) (Some lh) 0 []) (HReaddir i c) =
    (sb1, sl1, mkUF (Some bh) (Some lh) 0 [], RInfos [] (Some (E KEOF))).
Proof. exact @uf_pages_empty. Qed.
Print Assumptions C06_pages_empty.

(* Readdir(c <= 0) returns the whole merged listing and (union_readdir_all_advances = 1, read from
   unionFile.go) leaves nothing: the next call returns no entry *)
Theorem C06_readdir_all_then_nothing :
  forall (B L : Type) (bstep : B -> op -> B * res) (lstep : L -> op -> L * res) sb sl bh lh i sb1 sl1 lfi bfi c c',
  lstep sl (HReaddir lh (-1)) = (sl1, RInfos lfi None) ->
  bstep sb (HReaddir bh (-1)) = (sb1, RInfos bfi None) ->
  merge_dirs lfi bfi <> [] -> c <= 0 ->
  uf_run bstep lstep sb sl (mkUF (Some bh) (Some lh) 0 []) [HReaddir i c; HReaddir i c'] =
    (sb1, sl1, mkUF (Some bh) (Some lh) (zlen (merge_dirs lfi bfi)) (merge_dirs lfi bfi),
     [RInfos (merge_dirs lfi bfi) None; if c' <=? 0 then RInfos [] None else RInfos [] (Some (E KEOF))]).
Proof. exact @uf_readdir_all_then_nothing. Qed.
Print Assumptions C06_readdir_all_then_nothing.

(* Readdirnames is Readdir followed by taking the names (same state changes) *)
Theorem C06_readdirnames_is_readdir :
  forall (B L : Type) (bstep : B -> op -> B * res) (lstep : L -> op -> L * res) sb sl u i c,
  uf_op bstep lstep sb sl u (HReaddirnames i c) =
  let '(sb1, sl1, u1, r) := uf_op bstep lstep sb sl u (HReaddir i c) in (sb1, sl1, u1, names_of r).
Proof. exact @uf_readdirnames. Qed.
Print Assumptions C06_readdirnames_is_readdir.

(* ---- 4. writes go to the overlay and are read back from it ---- *)
(* an OpenFile with any write-ish bit (and Create) returns, if it returns a handle at all, a handle
   OF THE OVERLAY appended to the table; on error the table is unchanged *)
Theorem C06_write_open_returns_overlay_handle :
  forall (B L : Type) (bstep : B -> op -> B * res) (lstep : L -> op -> L * res) sb sl tbl p flag perm st r,
  Z.land flag cow_mask <> 0 ->
  cow_step bstep lstep (sb, sl, tbl) (OpenFile p flag perm) = (st, r) ->
  match r with
  | RHandle i => exists h, snd st = tbl ++ [HL h] /\ i = length tbl
  | _ => snd st = tbl
  end.
Proof. exact @cow_write_open_overlay_handle. Qed.
Print Assumptions C06_write_open_returns_overlay_handle.

(* every method of an overlay handle is the overlay's own method on that handle (Write, then
   Read/ReadAt/Stat/Seek...): what the overlay reads back is what the union reads back *)
Theorem C06_overlay_handle_transparent :
  forall (B L : Type) (bstep : B -> op -> B * res) (lstep : L -> op -> L * res) sb sl tbl o i h,
  op_handle_of o = Some i -> nth_error tbl i = Some (HL h) ->
  cow_step bstep lstep (sb, sl, tbl) o =
    ((sb, fst (lstep sl (op_set_handle o h)), tbl), snd (lstep sl (op_set_handle o h))).
Proof. exact @cow_overlay_handle_transparent. Qed.
Print Assumptions C06_overlay_handle_transparent.

(* ---- 5. copy-up keeps the bytes and the mtime (MemMapFs on both sides) ---- *)
(* the two predicates of the statements below, spelled out.  copy_up_ready: the overlay lacks the
   name and either (A) has the directory part of the name (copy_dir name, see C06_copy_dir_meaning), or (B) lacks it too but has ITS parent
   directory (copyFile then creates one directory level; e.g. the overlay holds only "/" and the file
   is /d/f).  parent_key x is the key MemMapFs.registerWithParent looks up for a node called x; the
   entry found there has to be a directory (ndir = true): below a regular file MemMapFs creates
   nothing and answers ENOTDIR (Gen/Consts.v memfs_refuses_below_file), so the copy-up fails there.
   LF nn g s d mt: in s the path nn names node g, a regular file with bytes d (and mtime mt). *)
Theorem C06_copy_up_ready_meaning : forall s name,
  copy_up_ready s name <->
  let dk := normalize_path (copy_dir name) in
  let nn := normalize_path name in
  ((exists d dn, lookup s dk = Some d /\ get_node s d = Some dn) /\
   lookup s nn = None /\ parent_key nn <> nn /\
   exists pp pn, lookup s (parent_key nn) = Some pp /\ get_node s pp = Some pn /\ ndir pn = true)
  \/
  (lookup s dk = None /\ parent_key dk <> dk /\
   (exists pp pn, lookup s (parent_key dk) = Some pp /\ get_node s pp = Some pn /\ ndir pn = true) /\
   lookup s nn = None /\ parent_key nn = dk /\ dk <> nn).
Proof. exact copy_up_ready_meaning. Qed.
Print Assumptions C06_copy_up_ready_meaning.

(* the directory copyFile makes sure of: filepath.Dir(name), or — copyfile_cleans_name = 1, read from
   unionFile.go on every run — filepath.Dir of the cleaned name; the copy-up theorems hold for either *)
Theorem C06_copy_dir_meaning : forall name,
  copy_dir name = if Z.eqb copyfile_cleans_name 1 then path_dir (clean name) else path_dir name.
Proof. exact copy_dir_meaning. Qed.
Print Assumptions C06_copy_dir_meaning.

Theorem C06_LF_meaning : forall nn g s d mt,
  LF nn g s d mt <->
  lookup s nn = Some g /\
  exists n, get_node s g = Some n /\ ndata n = d /\ ndir n = false /\
            match mt with Some t => nmtime n = t | None => True end.
Proof. exact LF_meaning. Qed.
Print Assumptions C06_LF_meaning.

(* the vocabulary of the statements below.  WF: the invariant of C01 (index mirrors map; C01_WF_meaning).
   wf_name name: the normalised name is rooted.  cview s k: what layer s holds under the normalised
   path k — kind and, for a regular file, its bytes.  below_file s k = false: lockfreeBelowFile of
   memmap.go says "not below a regular file"; in a well-formed state that is: every existing proper
   ancestor of k is a directory.  copy_up_frame nn sl sl': every entry other than nn is as before,
   except that directories have appeared at (some) ancestors of nn where the overlay held nothing. *)
Theorem C06_cview_meaning : forall s k,
  cview s k = match lookup s k with
              | Some r => match get_node s r with
                          | Some n => Some (ndir n, if ndir n then [] else ndata n)
                          | None => None
                          end
              | None => None
              end.
Proof. exact cview_meaning. Qed.
Print Assumptions C06_cview_meaning.

Theorem C06_not_below_file_meaning : forall s k, WF s -> canon k ->
  (below_file s k = false <->
   forall a r n, canon a -> (a = par k \/ below a (par k) = true \/ a = s_slash) ->
     lookup s a = Some r -> get_node s r = Some n -> ndir n = true).
Proof. exact not_below_file_meaning. Qed.
Print Assumptions C06_not_below_file_meaning.

Theorem C06_copy_up_frame_meaning : forall nn sl sl',
  copy_up_frame nn sl sl' <->
  forall k, k <> nn ->
    cview sl' k = cview sl k \/
    (cview sl k = None /\ cview sl' k = Some (true, []) /\ (k = par nn \/ below k (par nn) = true)).
Proof. exact copy_up_frame_meaning. Qed.
Print Assumptions C06_copy_up_frame_meaning.

(* the directory copyFile makes sure of is the parent of the normalised name, whatever the spelling
   (trailing separators, "." and ".." elements, repeated separators); needs copyfile_cleans_name = 1 *)
Theorem C06_copy_dir_is_parent : forall name, wf_name name = true ->
  normalize_path (copy_dir name) = par (normalize_path name).
Proof. exact copy_dir_key. Qed.
Print Assumptions C06_copy_dir_is_parent.

(* Copy-up, full statement: "whenever copyToLayer succeeds, the overlay holds the base's bytes and
   mtime" — and it says exactly when it succeeds.  For EVERY well-formed base and overlay, EVERY
   rooted name in any spelling, a regular base file of ANY size (any number of 32 KiB chunks), the
   overlay holding the name as a regular file or not at all, with ANY number of missing directory
   levels: copyToLayer returns nil iff the name does not lie below a regular file of the overlay;
   then the overlay maps the name to a regular file with exactly the base's bytes and the base's
   mtime, it is well-formed again, and nothing else changed in it except that the missing ancestor
   directories now exist; if it returns an error nothing the overlay stores has changed.  The
   base's stored filesystem is unchanged either way.
   Not covered (named): a DIRECTORY under the name in the overlay — MemMapFs.Create then rebinds
   the path and leaves the old children behind, which C01 excludes as an ill-formed call; through
   CopyOnWriteFs this does not arise, copy-up starts only after the overlay's Stat of the name
   failed.  Relative names (not rooted after normalisation) are outside WF: MemMapFs keeps them
   under separate keys. *)
Theorem C06_copy_up_preserves : forall sb sl name f nd,
  WF sb -> WF sl -> wf_name name = true ->
  let nn := normalize_path name in
  lookup sb nn = Some f -> get_node sb f = Some nd -> ndir nd = false ->
  kind_at sl nn <> Some true ->
  exists sb' sl' e, copy_to_layer m_step m_step sb sl name = (sb', sl', e) /\
    fs_view sb' = fs_view sb /\
    (e = None <-> below_file sl nn = false) /\
    (e = None -> (exists g, LF nn g sl' (ndata nd) (Some (nmtime nd))) /\ WF sl' /\ copy_up_frame nn sl sl') /\
    (e <> None -> fs_view sl' = fs_view sl).
Proof. exact copy_up_preserves. Qed.
Print Assumptions C06_copy_up_preserves.

(* the same two situations as before the strengthening, but with NO invariant assumed on either
   side (any state, shapes (A)/(B) of copy_up_ready spelled out above): kept because it also covers
   states no well-formed program reaches *)
Theorem C06_copy_up_any_state : forall sb sl name f nd,
  let nn := normalize_path name in
  lookup sb nn = Some f -> get_node sb f = Some nd -> ndir nd = false ->
  copy_up_ready sl name ->
  exists sb' sl' g, copy_to_layer m_step m_step sb sl name = (sb', sl', None) /\
    fs_view sb' = fs_view sb /\
    LF nn g sl' (ndata nd) (Some (nmtime nd)).
Proof. exact copy_up_mem. Qed.
Print Assumptions C06_copy_up_any_state.

(* Write / read back, full statement.  The handle methods C02 speaks about (file_op: Read, ReadAt
   with a buffer length >= 0, Write, WriteAt, WriteString, Seek, Truncate, Close, Stat, Sync); the
   first handle state MemMapFs.OpenFile prepares from the flag word (open_spec: content after
   O_TRUNC, offset after O_APPEND, read-only?). *)
Theorem C06_file_op_meaning : forall o,
  file_op o = true <->
  match o with
  | HRead _ n | HReadAt _ n _ => 0 <= n
  | HWrite _ _ | HWriteAt _ _ _ | HWriteString _ _ | HSeek _ _ _ | HTruncate _ _ | HClose _ | HStat _ | HSync _ => True
  | _ => False
  end.
Proof. exact file_op_meaning. Qed.
Print Assumptions C06_file_op_meaning.

Theorem C06_spec_open_meaning : forall flag data,
  spec_open flag data =
  let ro := Z.land flag memfs_access_mask =? 0 in
  let trunc := flag_has flag o_trunc && flag_has flag (Z.lor o_rdwr o_wronly) && negb ro in
  mkBS (if trunc then [] else data) [mkBH (Z.to_nat (if flag_has flag o_append then zlen data else 0)) false ro].
Proof. exact spec_open_meaning. Qed.
Print Assumptions C06_spec_open_meaning.

(* Through cow(mem,mem), for EVERY well-formed base and overlay, EVERY rooted name of a regular file
   only the base has that does not lie below a regular file of the overlay (any number of overlay
   directories missing), EVERY flag word with a write-ish bit (O_RDWR, O_WRONLY, O_APPEND, O_TRUNC,
   O_CREATE, O_SYNC, ... — all but O_CREATE|O_EXCL together, which is refused with EEXIST after the
   copy-up, see C06_failed_call_view_unchanged), EVERY sequence ops of methods of the returned
   handle, then Stat, Open and EVERY sequence ops2 of methods of the second handle:
   OpenFile succeeds; the first handle answers exactly as the flat byte array of C02 (ByteFile)
   initialised with THE BASE'S BYTES answers ops (so modifying part of the file keeps all its other
   bytes: pwrite / ptrunc of ByteFile); Stat shows a regular file of the array's final size; the
   second handle answers exactly as a read-only handle on the array's FINAL bytes answers ops2 (a
   successful write through the union is read back through the union); the base's stored
   filesystem is unchanged; the overlay holds the final bytes under the name, is well-formed, and
   differs otherwise only by the ancestor directories copy-up created. *)
Theorem C06_write_read_back : forall sb sl tbl name flag perm f nd ops ops2,
  WF sb -> WF sl -> wf_name name = true ->
  let nn := normalize_path name in
  lookup sb nn = Some f -> get_node sb f = Some nd -> ndir nd = false ->
  lookup sl nn = None -> below_file sl nn = false ->
  Z.land flag cow_mask <> 0 -> flag_has flag o_excl && flag_has flag o_create = false ->
  let i := length tbl in
  Forall (fun o => op_handle_of o = Some i /\ file_op o = true) ops ->
  Forall (fun o => op_handle_of o = Some (S i) /\ file_op o = true) ops2 ->
  let spec := bf_run (spec_open flag (ndata nd)) (map (fun o => op_set_handle o 0) ops) in
  let content := bdata (fst spec) in
  let spec2 := bf_run (mkBS content [mkBH 0 false true]) (map (fun o => op_set_handle o 0) ops2) in
  exists st outs outs2 fi,
    run_steps (cow_step m_step m_step) (sb, sl, tbl) (OpenFile name flag perm :: ops ++ Stat name :: Open name :: ops2)
      = (st, RHandle i :: outs ++ RInfo fi :: RHandle (S i) :: outs2) /\
    length outs = length ops /\ length outs2 = length ops2 /\
    proj_all ops outs = snd spec /\
    fi_dir fi = false /\ fi_size fi = zlen content /\
    proj_all ops2 outs2 = snd spec2 /\
    fs_view (fst (fst st)) = fs_view sb /\
    (exists g, LF nn g (snd (fst st)) content None) /\ WF (snd (fst st)) /\ copy_up_frame nn sl (snd (fst st)).
Proof. exact cow_write_read_back. Qed.
Print Assumptions C06_write_read_back.

(* proj_all: the results projected to what C02 speaks about (bytes, counts, positions, sizes,
   error class, end-of-file flag), one per op *)
Theorem C06_proj_all_meaning : forall ops outs,
  proj_all ops outs = map (fun '(o, r) => proj o r) (combine ops outs).
Proof. exact proj_all_meaning. Qed.
Print Assumptions C06_proj_all_meaning.

(* the sentence about a partial modification, for one WriteAt at ANY offset with ANY bytes: the file
   becomes pwrite (base bytes) off b — bytes before off and from off+|b| on are the base's, a gap
   beyond the old end is zero-filled (the pwrite theorems of C02) — and that is what Stat and ReadAt show *)
Theorem C06_partial_write_keeps_other_bytes : forall sb sl tbl name perm f nd b off n,
  WF sb -> WF sl -> wf_name name = true ->
  let nn := normalize_path name in
  lookup sb nn = Some f -> get_node sb f = Some nd -> ndir nd = false ->
  lookup sl nn = None -> below_file sl nn = false ->
  0 <= off -> 0 <= n ->
  let i := length tbl in
  let content := pwrite (ndata nd) (Z.to_nat off) b in
  exists st r1 fi r2,
    run_steps (cow_step m_step m_step) (sb, sl, tbl)
      [OpenFile name o_rdwr perm; HWriteAt i b off; HClose i; Stat name; Open name; HReadAt (S i) n 0]
      = (st, [RHandle i; r1; ROk; RInfo fi; RHandle (S i); r2]) /\
    proj (HWriteAt i b off) r1 = PCount (length b) /\
    fi_dir fi = false /\ fi_size fi = zlen content /\
    proj (HReadAt (S i) n 0) r2 = PBytes (pread content 0 (Z.to_nat n)) (zlen (pread content 0 (Z.to_nat n)) <? n) /\
    fs_view (fst (fst st)) = fs_view sb /\
    (exists g, LF nn g (snd (fst st)) content None) /\ WF (snd (fst st)) /\ copy_up_frame nn sl (snd (fst st)).
Proof. exact cow_partial_write. Qed.
Print Assumptions C06_partial_write_keeps_other_bytes.

(* reading a name the OVERLAY holds as a regular file (whatever the base holds): Open through the
   union, then any methods: a read-only handle on the overlay's bytes; nothing stored changes *)
Theorem C06_read_overlay_file : forall sb sl tbl name g d mt ops,
  WF sl ->
  let nn := normalize_path name in
  LF nn g sl d mt ->
  let i := length tbl in
  Forall (fun o => op_handle_of o = Some i /\ file_op o = true) ops ->
  let spec := bf_run (mkBS d [mkBH 0 false true]) (map (fun o => op_set_handle o 0) ops) in
  exists sl' lh outs,
    run_steps (cow_step m_step m_step) (sb, sl, tbl) (Open name :: ops) = ((sb, sl', tbl ++ [HL lh]), RHandle i :: outs) /\
    length outs = length ops /\ proj_all ops outs = snd spec /\
    LF nn g sl' (bdata (fst spec)) None /\ WF sl' /\ (forall k, k <> nn -> cview sl' k = cview sl k).
Proof. exact cow_read_overlay_file. Qed.
Print Assumptions C06_read_overlay_file.

(* writing to a file the OVERLAY already holds (whatever the base holds under the name): the same statement
   with the overlay's bytes as the initial content.  CopyOnWriteFs.OpenFile looks at filepath.Dir of the name
   AS GIVEN; the statement asks that this is the parent of the normalised name, which is so whenever the last
   element of the name is an ordinary one (C06_dir_of_name_is_parent; for "/d/f/" it is "/d/f" itself and the
   call answers ENOTDIR — a failed call, covered by section 6) *)
Theorem C06_dir_of_name_is_parent : forall name,
  wf_name name = true ->
  let b := snd (path_split name) in
  b <> [] -> b <> s_dot -> b <> s_dotdot -> ~ In SLASH b ->
  normalize_path (path_dir name) = par (normalize_path name).
Proof. exact dir_key_ordinary_last. Qed.
Print Assumptions C06_dir_of_name_is_parent.

Theorem C06_write_overlay_file : forall sb sl tbl name flag perm g d mt ops,
  WF sb -> WF sl -> wf_name name = true ->
  let nn := normalize_path name in
  LF nn g sl d mt -> normalize_path (path_dir name) = par nn ->
  Z.land flag cow_mask <> 0 -> flag_has flag o_excl && flag_has flag o_create = false ->
  let i := length tbl in
  Forall (fun o => op_handle_of o = Some i /\ file_op o = true) ops ->
  let spec := bf_run (spec_open flag d) (map (fun o => op_set_handle o 0) ops) in
  exists sb' sl' lh outs g',
    run_steps (cow_step m_step m_step) (sb, sl, tbl) (OpenFile name flag perm :: ops) = ((sb', sl', tbl ++ [HL lh]), RHandle i :: outs) /\
    length outs = length ops /\ proj_all ops outs = snd spec /\
    fs_view sb' = fs_view sb /\
    LF nn g' sl' (bdata (fst spec)) None /\ WF sl' /\ (forall k, k <> nn -> cview sl' k = cview sl k).
Proof. exact cow_write_overlay_file. Qed.
Print Assumptions C06_write_overlay_file.

(* ---- 6. a failed call leaves the view unchanged ---- *)
(* the union view (Model/CowView.v): the overlay's entry if the overlay has one, otherwise the base's;
   an entry is the kind and, for a regular file, the bytes (mode and mtime are not part of it) *)
Theorem C06_uview_meaning : forall sb sl k,
  uview sb sl k = match cview sl k with Some e => Some e | None => cview sb k end.
Proof. exact uview_meaning. Qed.
Print Assumptions C06_uview_meaning.

(* the hypotheses of the theorem below, spelled out.  op_names_abs: every path argument begins with the
   separator.  union_handles_inert: the layer handle of every union (directory) handle of the table is
   read-only or closed (CopyOnWriteFs.Open opens both directories read-only; C06_ex_union_handle_inert).
   cow_call_ok: for Rename, the overlay's own Rename is a portable call of C01 — wf_op, i.e. the whole class
   wf_op_ord || wf_below: an ordinary well-formed call or one refused below a regular file — or the
   overlay lacks the old name; for the calls that may copy up (Create, OpenFile, Chmod, Chown, Chtimes):
   IF the base holds a directory under the name, that node carries no bytes (dir_no_bytes — true of every
   directory no program has written into through a handle; C06_failed_call_dir_with_bytes_refuted shows
   what happens otherwise). *)
Theorem C06_op_names_abs_meaning : forall o,
  op_names_abs o = match o with
                   | Create p | Mkdir p _ | MkdirAll p _ | Open p | OpenFile p _ _ | Remove p | RemoveAll p | Stat p
                   | Chmod p _ | Chown p _ _ | Chtimes p _ => is_rooted p
                   | Rename p q => is_rooted p && is_rooted q
                   | _ => true
                   end.
Proof. exact op_names_abs_meaning. Qed.
Print Assumptions C06_op_names_abs_meaning.

Theorem C06_failed_call_hyps_meaning : forall sb sl tbl o,
  (union_handles_inert sl tbl <->
   forall i u lh h, nth_error tbl i = Some (HU u) -> ulayer u = Some lh -> nth_error (mhandles sl) lh = Some h ->
     hro h || hclosed h = true) /\
  (cow_call_ok sb sl o <->
   match o with
   | Rename p q => WfOps.wf_op sl (Rename p q) = true \/ lookup sl (normalize_path p) = None
   | Create p | OpenFile p _ _ | Chmod p _ | Chown p _ _ | Chtimes p _ =>
       forall f nd, lookup sb (normalize_path p) = Some f -> get_node sb f = Some nd -> ndir nd = true -> ndata nd = []
   | _ => True
   end).
Proof. exact failed_call_hyps_meaning. Qed.
Print Assumptions C06_failed_call_hyps_meaning.

(* Full statement: every failed call leaves the union view unchanged.  Through cow(mem,mem), for EVERY
   well-formed base and overlay (WF, C01), a base without writable open handles (the hypothesis of C05), EVERY
   handle table, EVERY one of the thirteen Fs methods with absolute names and EVERY method of EVERY handle
   (base, overlay and union handles): if the call returns an error, the base's stored filesystem is what it
   was and the union view of EVERY path is what it was.  This includes the failures AFTER a copy-up — e.g.
   OpenFile(O_CREATE|O_EXCL) of a base-only file answers EEXIST after the overlay has gained the file — and
   after a HALF-DONE one — Chtimes or OpenFile(O_RDWR) of a base-only directory: copyFile creates a regular
   file in the overlay, finds 0 bytes instead of 42, removes it again and reports EIO; in both cases the overlay
   HAS changed (ancestor directories the base also has; a copy with identical bytes), the view has not.
   Named exclusions: relative names; Rename whose overlay-level call is not well-formed while the overlay holds
   the old name (MemFsRename proves success only for well-formed calls); a base DIRECTORY that carries bytes
   (refuted below). *)
Theorem C06_failed_call_view_unchanged : forall sb sl tbl o,
  WF sb -> WF sl -> all_inert sb -> union_handles_inert sl tbl ->
  op_names_abs o = true -> cow_call_ok sb sl o ->
  res_is_err (snd (cow_step m_step m_step (sb, sl, tbl) o)) = true ->
  let st' := fst (cow_step m_step m_step (sb, sl, tbl) o) in
  fs_view (fst (fst st')) = fs_view sb /\
  forall k, uview (fst (fst st')) (snd (fst st')) k = uview sb sl k.
Proof. exact cow_failed_call_view. Qed.
Print Assumptions C06_failed_call_view_unchanged.

(* towards union_handles_inert in every reachable state: the handle CopyOnWriteFs.Open obtains from the
   overlay is read-only, and NO method of MemMapFs or of its handles — the thirteen Fs methods, all handle
   methods, in any state — ever makes a read-only or closed handle writable again or moves it.  (Not proved:
   the bookkeeping that the table of a CopyOnWriteFs only ever gains union entries through Open; the
   hypothesis is shown satisfied on a concrete reached state in C06_ex_union_handle_inert.) *)
Theorem C06_open_handle_is_inert : forall s p s' lh, m_step s (Open p) = (s', RHandle lh) ->
  exists h, nth_error (mhandles s') lh = Some h /\ hro h || hclosed h = true.
Proof. exact layer_open_handle_inert. Qed.
Print Assumptions C06_open_handle_is_inert.

Theorem C06_layer_handles_stay_inert : forall s o j h,
  nth_error (mhandles s) j = Some h -> hro h || hclosed h = true ->
  exists h', nth_error (mhandles (fst (m_step s o))) j = Some h' /\ hro h' || hclosed h' = true.
Proof. exact layer_step_keeps_inert. Qed.
Print Assumptions C06_layer_handles_stay_inert.

(* the excluded corner is a real one.  MemMapFs accepts OpenFile(dir, O_RDWR) and Write through that handle;
   the directory node then carries bytes while Stat keeps reporting the fixed size 42.  With exactly 42 bytes
   copyFile's size check passes: OpenFile("/d", O_RDWR|O_CREATE|O_EXCL) through the union answers EEXIST and
   the union now shows "/d" — a directory before the call — as a regular file of 42 bytes.
   corpus/C06/dir-with-bytes.case replays this against the implementation on every run (it does the same). *)
Theorem C06_failed_call_dir_with_bytes_refuted :
  exists sb sl tbl o k,
    WF sb /\ WF sl /\ all_inert sb /\ union_handles_inert sl tbl /\ op_names_abs o = true /\
    ~ dir_no_bytes sb (normalize_path rf_d) /\
    res_is_err (snd (cow_step m_step m_step (sb, sl, tbl) o)) = true /\
    uview sb sl k = Some (true, []) /\
    uview (fst (fst (fst (cow_step m_step m_step (sb, sl, tbl) o)))) (snd (fst (fst (cow_step m_step m_step (sb, sl, tbl) o)))) k
      = Some (false, repeat 120%N 42).
Proof. exact failed_call_dir_with_bytes_refuted. Qed.
Print Assumptions C06_failed_call_dir_with_bytes_refuted.

(* the refusals decided by CopyOnWriteFs itself, for ARBITRARY inner filesystems (any step functions, any
   notion of view on either side): Rename of a name only the base has (EPERM), Remove/RemoveAll when the
   overlay's own call fails, Mkdir of ANY name the union's own Stat finds (a PathError wrapping EEXIST, as
   copyOnWriteFs.go does since cow_mkdir_checks_union = 1) make no inner call except Stat (and the overlay's
   own failed Remove), change no handle, and hence change neither view, given only that Stat changes nothing
   observable and a FAILED overlay call leaves the overlay's view as it was *)
Theorem C06_refusals_any_layers :
  forall (B L VB VL : Type) (bstep : B -> op -> B * res) (lstep : L -> op -> L * res) (vb : B -> VB) (vl : L -> VL),
  (forall s p, vb (fst (bstep s (Stat p))) = vb s) ->
  (forall s p, vl (fst (lstep s (Stat p))) = vl s) ->
  (forall s o, res_is_err (snd (lstep s o)) = true -> vl (fst (lstep s o)) = vl s) ->
  forall sb sl tbl,
  (forall p q fi, is_info (snd (lstep sl (Stat p))) = false -> snd (bstep sb (Stat p)) = RInfo fi ->
     snd (cow_step bstep lstep (sb, sl, tbl) (Rename p q)) = RErr (E KEPERM) /\
     same_view vb vl (sb, sl, tbl) (fst (cow_step bstep lstep (sb, sl, tbl) (Rename p q)))) /\
  (forall o p er, o = Remove p \/ o = RemoveAll p -> snd (lstep sl o) = RErr er ->
     res_is_err (snd (cow_step bstep lstep (sb, sl, tbl) o)) = true /\
     same_view vb vl (sb, sl, tbl) (fst (cow_step bstep lstep (sb, sl, tbl) o))) /\
  (forall p perm, is_info (snd (cow_step bstep lstep (sb, sl, tbl) (Stat p))) = true ->
     snd (cow_step bstep lstep (sb, sl, tbl) (Mkdir p perm)) = RErr (EW KExist) /\
     same_view vb vl (sb, sl, tbl) (fst (cow_step bstep lstep (sb, sl, tbl) (Mkdir p perm)))).
Proof. exact @cow_refusals_view. Qed.
Print Assumptions C06_refusals_any_layers.

(* the exact outcome for the most common refusals *)
Theorem C06_rename_base_only_eperm :
  forall (B L : Type) (bstep : B -> op -> B * res) (lstep : L -> op -> L * res) sb sl tbl p q sl1 r sb1 fi,
  lstep sl (Stat p) = (sl1, r) -> is_info r = false -> bstep sb (Stat p) = (sb1, RInfo fi) ->
  cow_step bstep lstep (sb, sl, tbl) (Rename p q) = ((sb1, sl1, tbl), RErr (E KEPERM)).
Proof. exact @cow_rename_base_only. Qed.
Print Assumptions C06_rename_base_only_eperm.

Theorem C06_remove_base_only_eperm :
  forall (B L : Type) (bstep : B -> op -> B * res) (lstep : L -> op -> L * res) sb sl tbl p sl1 sb1 fi,
  lstep sl (Remove p) = (sl1, RErr (E KENOENT)) -> bstep sb (Stat p) = (sb1, RInfo fi) ->
  cow_step bstep lstep (sb, sl, tbl) (Remove p) = ((sb1, sl1, tbl), RErr (E KEPERM)).
Proof. exact @cow_remove_base_only. Qed.
Print Assumptions C06_remove_base_only_eperm.

(* Mkdir: the exact outcome in the two ways the union's Stat can find the name *)
Theorem C06_mkdir_overlay_entry_eexist :
  forall (B L : Type) (bstep : B -> op -> B * res) (lstep : L -> op -> L * res) sb sl tbl p perm sl1 fi,
  lstep sl (Stat p) = (sl1, RInfo fi) ->
  cow_step bstep lstep (sb, sl, tbl) (Mkdir p perm) = ((sb, sl1, tbl), RErr (EW KExist)).
Proof. exact @cow_mkdir_overlay_entry. Qed.
Print Assumptions C06_mkdir_overlay_entry_eexist.

Theorem C06_mkdir_base_entry_eexist :
  forall (B L : Type) (bstep : B -> op -> B * res) (lstep : L -> op -> L * res) sb sl tbl p perm sl1 r sb1 fi,
  lstep sl (Stat p) = (sl1, r) -> is_info r = false -> cow_is_not_exist (err_of r) = true ->
  bstep sb (Stat p) = (sb1, RInfo fi) ->
  cow_step bstep lstep (sb, sl, tbl) (Mkdir p perm) = ((sb1, sl1, tbl), RErr (EW KExist)).
Proof. exact @cow_mkdir_base_dir. Qed.
Print Assumptions C06_mkdir_base_entry_eexist.

(* ---- non-vacuity ---- *)
Definition p_d : str := [47;100]%N.               (* /d   *)
Definition p_f : str := [47;100;47;102]%N.        (* /d/f : base only *)
Definition p_g : str := [47;100;47;103]%N.        (* /d/g : base only *)
Definition p_h : str := [47;100;47;104]%N.        (* /d/h : overlay only *)
Definition hello : bytes := [104;101;108;108;111;32;119;111;114;108;100]%N.
Definition c06_base : mst :=
  fst (run_steps m_step m_init [MkdirAll p_d 493; Create p_f; HWrite 0 hello; HClose 0; Chtimes p_f 1000; Create p_g; HClose 1]).
Definition c06_layer : mst :=
  fst (run_steps m_step m_init [MkdirAll p_d 493; Create p_h; HWrite 0 [88;89]%N; HClose 0]).

(* the hypotheses of the two MemMapFs theorems hold for /d/f: base file present; the overlay
   c06_layer is in situation (A), the empty overlay m_init in situation (B) *)
Example C06_ex_base_file :
  lookup c06_base (normalize_path p_f) = Some 2%nat /\
  exists nd, get_node c06_base 2 = Some nd /\ ndir nd = false /\ ndata nd = hello /\ nmtime nd = 1000.
Proof. split; [vm_compute; reflexivity|]. eexists. split; [vm_compute; reflexivity | now repeat split]. Qed.
Example C06_ex_ready_A : copy_up_ready c06_layer p_f.
Proof.
  left. split; [exists 1%nat; eexists; split; vm_compute; reflexivity|].
  split; [vm_compute; reflexivity|]. split; [vm_compute; discriminate|].
  exists 1%nat. eexists. split; [vm_compute; reflexivity|]. split; vm_compute; reflexivity.
Qed.
Example C06_ex_ready_B : copy_up_ready m_init p_f.
Proof.
  right. split; [vm_compute; reflexivity|]. split; [vm_compute; discriminate|].
  split; [exists 0%nat; eexists; split; [vm_compute; reflexivity|]; split; vm_compute; reflexivity|].
  split; [vm_compute; reflexivity|]. split; [vm_compute; reflexivity | vm_compute; discriminate].
Qed.
(* situation (B) computed: copy-up into an overlay that holds only "/" *)
Example C06_ex_copy_up_B :
  snd (run_steps (cow_step m_step m_step) (c06_base, m_init, [])
    [OpenFile p_f o_rdwr 0; HWrite 0 [72;69]%N; HClose 0; Open p_f; HRead 1 11])
  = [RHandle 0; RCount 2 None; ROk; RHandle 1; RData [72;69;108;108;111;32;119;111;114;108;100]%N None].
Proof. vm_compute. reflexivity. Qed.

(* the model computes: partial overwrite of the base-only /d/f through the union, read back;
   then the directory /d (present in both) paged with sizes 1, 2, 5, 5: f | h g | EOF | EOF *)
Example C06_ex_write_read_back_and_pages :
  snd (run_steps (cow_step m_step m_step) (c06_base, c06_layer, [])
    [OpenFile p_f o_rdwr 0; HWrite 0 [72;69]%N; HClose 0; Open p_f; HRead 1 11;
     Open p_d; HReaddirnames 2 1; HReaddirnames 2 2; HReaddirnames 2 5; HReaddirnames 2 5])
  = [RHandle 0; RCount 2 None; ROk; RHandle 1;
     RData [72;69;108;108;111;32;119;111;114;108;100]%N None;
     RHandle 2; RNames [[102]]%N None; RNames [[104]; [103]]%N None;
     RNames [] (Some (E KEOF)); RNames [] (Some (E KEOF))].
Proof. vm_compute. reflexivity. Qed.

(* Readdirnames(-1) lists each of f, g, h once and leaves nothing; refusals: Rename and Remove of
   the base-only /d/g, Mkdir of /d (in both) and of the base-only FILE /d/g *)
Example C06_ex_listing_and_refusals :
  snd (run_steps (cow_step m_step m_step) (c06_base, c06_layer, [])
    [Open p_d; HReaddirnames 0 (-1); HReaddirnames 0 (-1); HReaddirnames 0 3;
     Rename p_g [47;120]%N; Remove p_g; Mkdir p_d 493; Mkdir p_g 493])
  = [RHandle 0; RNames [[104]; [102]; [103]]%N None; RNames [] None; RNames [] (Some (E KEOF));
     RErr (E KEPERM); RErr (EW KNotExist); RErr (EW KExist); RErr (EW KExist)].
Proof. vm_compute. reflexivity. Qed.

Example C06_ex_merge :
  map fi_name (merge_dirs [mkFi [97]%N false 1 0 0; mkFi [98]%N false 2 0 0] [mkFi [98]%N false 9 0 0; mkFi [99]%N true 0 0 0])
    = [[97]; [98]; [99]]%N /\
  map fi_size (merge_dirs [mkFi [97]%N false 1 0 0; mkFi [98]%N false 2 0 0] [mkFi [98]%N false 9 0 0; mkFi [99]%N true 0 0 0])
    = [1; 2; 0].
Proof. split; vm_compute; reflexivity. Qed.

(* ---- non-vacuity of the hypotheses of section 5 ---- *)
(* both demo layers are states of well-formed programs, hence WF *)
Example C06_ex_WF : WF c06_base /\ WF c06_layer /\ WF m_init.
Proof.
  split; [|split]; [apply index_mirrors_map; vm_compute; reflexivity | apply index_mirrors_map; vm_compute; reflexivity | exact MemFsStep.WF_init].
Qed.
(* /d/f: rooted, a regular file of the base, absent from the overlay, not below a file there *)
Example C06_ex_write_hyps :
  wf_name p_f = true /\ lookup c06_layer (normalize_path p_f) = None /\ below_file c06_layer (normalize_path p_f) = false /\
  below_file m_init (normalize_path p_f) = false /\ Z.land o_rdwr cow_mask <> 0.
Proof.
  split; [vm_compute; reflexivity|]. split; [vm_compute; reflexivity|]. split; [vm_compute; reflexivity|].
  split; [vm_compute; reflexivity | discriminate].
Qed.

(* three directory levels missing in the overlay, an unclean spelling of the name, O_WRONLY|O_APPEND,
   a write, a seek back and an overwrite in the middle; read back through the union *)
Definition p_deep : str := [47;97;47;98;47;99;47;102]%N.                (* /a/b/c/f *)
Definition p_deep_unclean : str := [47;97;47;47;98;47;46;47;99;47;102;47]%N.   (* /a//b/./c/f/ *)
Definition c06_deep_base : mst :=
  fst (run_steps m_step m_init [MkdirAll [47;97;47;98;47;99]%N 493; Create p_deep; HWrite 0 hello; HClose 0; Chtimes p_deep 1000]).
Example C06_ex_deep_hyps :
  WF c06_deep_base /\ wf_name p_deep_unclean = true /\ normalize_path p_deep_unclean = p_deep /\
  lookup m_init p_deep = None /\ below_file m_init p_deep = false /\
  (exists f nd, lookup c06_deep_base p_deep = Some f /\ get_node c06_deep_base f = Some nd /\ ndir nd = false /\ ndata nd = hello).
Proof.
  split; [apply index_mirrors_map; vm_compute; reflexivity|].
  split; [vm_compute; reflexivity|]. split; [vm_compute; reflexivity|]. split; [vm_compute; reflexivity|].
  split; [vm_compute; reflexivity|].
  exists 4%nat. eexists. split; [vm_compute; reflexivity|]. split; [vm_compute; reflexivity|].
  split; vm_compute; reflexivity.
Qed.
Example C06_ex_deep_write_read_back :
  map (fun r => match r with RInfo fi => RInfo (mkFi (fi_name fi) (fi_dir fi) (fi_size fi) 0 0) | _ => r end)
  (snd (run_steps (cow_step m_step m_step) (c06_deep_base, m_init, [])
    [OpenFile p_deep_unclean (Z.lor o_wronly o_append) 0; HWrite 0 [33]%N; HSeek 0 6 0; HWrite 0 [87;79]%N; HClose 0;
     Stat p_deep; Open p_deep; HRead 1 64; Stat [47;97;47;98]%N]))
  = [RHandle 0; RCount 1 None; RPos 6 None; RCount 2 None; ROk;
     RInfo (mkFi [102]%N false 12 0 0);
     RHandle 1; RData [104;101;108;108;111;32;87;79;114;108;100;33]%N None;
     RInfo (mkFi [98]%N true 42 0 0)].
Proof. vm_compute. reflexivity. Qed.

(* ---- non-vacuity of the hypotheses of C06_failed_call_view_unchanged ---- *)
Example C06_ex_base_inert : all_inert c06_base /\ all_inert c06_deep_base.
Proof.
  split; intros i h Hh; (destruct i as [|[|i]]; vm_compute in Hh; [inversion Hh; reflexivity | try (inversion Hh; reflexivity); try discriminate | try discriminate]).
  destruct i; discriminate.
Qed.
(* the union handle CopyOnWriteFs.Open hands out for /d (a directory in both layers) has read-only inner handles *)
Definition c06_after_open : mst * mst * list chandle :=
  fst (run_steps (cow_step m_step m_step) (c06_base, c06_layer, []) [Open p_d]).
Example C06_ex_union_handle_inert :
  snd c06_after_open = [HU (mkUF (Some 2%nat) (Some 1%nat) 0 [])] /\ union_handles_inert (snd (fst c06_after_open)) (snd c06_after_open).
Proof.
  assert (E : snd c06_after_open = [HU (mkUF (Some 2%nat) (Some 1%nat) 0 [])]) by (vm_compute; reflexivity).
  split; [exact E|]. intros i u lh h Hn Hu Hh. rewrite E in Hn.
  destruct i as [|i]; [|destruct i; discriminate Hn]. inversion Hn; subst u. cbn in Hu. inversion Hu; subst lh.
  vm_compute in Hh. inversion Hh. reflexivity.
Qed.
Example C06_ex_call_ok : cow_call_ok c06_deep_base m_init (Chtimes [47;97;47;98;47;99]%N 5) /\
                         cow_call_ok c06_base c06_layer (OpenFile p_f (Z.lor o_rdwr (Z.lor o_create o_excl)) 420).
Proof.
  split; intros f nd Hl Hn Hd; vm_compute in Hl; inversion Hl; subst f; vm_compute in Hn; inversion Hn; subst nd; try reflexivity; discriminate Hd.
Qed.
(* two failed calls that DO change the overlay: EEXIST after a complete copy-up of /d/f; EIO after the
   half-done copy-up of the base-only directory /a/b/c (the overlay keeps /a and /a/b) — the view is the same *)
Example C06_ex_failed_after_copy_up :
  let st := fst (cow_step m_step m_step (c06_base, c06_layer, []) (OpenFile p_f (Z.lor o_rdwr (Z.lor o_create o_excl)) 420)) in
  snd (cow_step m_step m_step (c06_base, c06_layer, []) (OpenFile p_f (Z.lor o_rdwr (Z.lor o_create o_excl)) 420)) = RErr (EW KExist) /\
  cview c06_layer p_f = None /\ cview (snd (fst st)) p_f = Some (false, hello) /\
  uview (fst (fst st)) (snd (fst st)) p_f = uview c06_base c06_layer p_f.
Proof. cbv zeta. repeat split; vm_compute; reflexivity. Qed.
Example C06_ex_failed_half_copy_up :
  let o := Chtimes [47;97;47;98;47;99]%N 5 in
  let st := fst (cow_step m_step m_step (c06_deep_base, m_init, []) o) in
  snd (cow_step m_step m_step (c06_deep_base, m_init, []) o) = RErr (E KEIO) /\
  cview m_init [47;97;47;98]%N = None /\ cview (snd (fst st)) [47;97;47;98]%N = Some (true, []) /\
  cview (snd (fst st)) [47;97;47;98;47;99]%N = None /\
  map (uview (fst (fst st)) (snd (fst st))) [[47;97]; [47;97;47;98]; [47;97;47;98;47;99]; p_deep]%N =
  map (uview c06_deep_base m_init) [[47;97]; [47;97;47;98]; [47;97;47;98;47;99]; p_deep]%N.
Proof. cbv zeta. repeat split; vm_compute; reflexivity. Qed.
