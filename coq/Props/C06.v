(* C06 — the copy-on-write view: for each path the overlay's entry if the overlay has one and
   otherwise the base's entry; a directory present in both lists the union of both sets of names
   exactly once each, in pages that partition the listing; a successful write through the union
   is read back through the union, modifying part of a base-only file keeps all its other bytes,
   and a failed call leaves the view unchanged.
   Statements only; proofs in Proofs/CowViewProof.v, Proofs/UnionProof.v, Proofs/CopyUpProof.v.
   Theorems 1-9 and 12-14 are over two ARBITRARY inner filesystems (any step functions);
   10-11 are for MemMapFs on both sides.  `_partial` marks statements that cover less than the
   sentence of the property; what is missing is said next to each. *)
From AF Require Import Lib.Bytes Lib.Path Lib.Ops Gen.Consts Model.MemFile Model.MemFs Model.ReadOnly
  Model.Union Model.Cow Proofs.MemFsBasics Proofs.UnionProof Proofs.CowViewProof Proofs.CopyUpProof.
Local Open Scope Z_scope.

(* ---- 1. lookup: overlay's entry if it has one, else the base's ---- *)
(* Stat through the union: the overlay's answer when the overlay's Stat succeeds; the base's
   answer when the overlay says "does not exist" (isNotExist of copyOnWriteFs.go); any other
   overlay error is returned as it is.  No handle table changes; the base is consulted only in
   the second case. *)
Theorem C06_lookup_is_overlay_then_base :
  forall (B L : Type) (bstep : B -> op -> B * res) (lstep : L -> op -> L * res) sb sl tbl p sl1,
  (forall fi, lstep sl (Stat p) = (sl1, RInfo fi) ->
     cow_step bstep lstep (sb, sl, tbl) (Stat p) = ((sb, sl1, tbl), RInfo fi)) /\
  (forall e, lstep sl (Stat p) = (sl1, RErr e) -> cow_is_not_exist e = true ->
     cow_step bstep lstep (sb, sl, tbl) (Stat p) = ((fst (bstep sb (Stat p)), sl1, tbl), snd (bstep sb (Stat p)))) /\
  (forall e, lstep sl (Stat p) = (sl1, RErr e) -> cow_is_not_exist e = false ->
     cow_step bstep lstep (sb, sl, tbl) (Stat p) = ((sb, sl1, tbl), RErr e)).
Proof. exact @cow_stat_rule. Qed.
Print Assumptions C06_lookup_is_overlay_then_base.

(* contents follow the same rule: Open of a name the overlay holds as a non-directory is the
   overlay's Open (the base is not touched) ... *)
Theorem C06_open_overlay_entry_wins :
  forall (B L : Type) (bstep : B -> op -> B * res) (lstep : L -> op -> L * res) sb sl tbl p sl1 fi sl2 fi',
  lstep sl (Stat p) = (sl1, RInfo fi) -> lstep sl1 (Stat p) = (sl2, RInfo fi') -> fi_dir fi' = false ->
  cow_step bstep lstep (sb, sl, tbl) (Open p) = open_layer lstep sb sl2 tbl (Open p).
Proof. exact @cow_open_overlay_file. Qed.
Print Assumptions C06_open_overlay_entry_wins.

(* ... Open of a name only the base holds is the base's Open ... *)
Theorem C06_open_base_entry_otherwise :
  forall (B L : Type) (bstep : B -> op -> B * res) (lstep : L -> op -> L * res) sb sl tbl p sl1 r sb1 fi,
  lstep sl (Stat p) = (sl1, r) -> is_info r = false -> bstep sb (Stat p) = (sb1, RInfo fi) ->
  cow_step bstep lstep (sb, sl, tbl) (Open p) = open_base bstep sb1 sl1 tbl (Open p).
Proof. exact @cow_open_base_only. Qed.
Print Assumptions C06_open_base_entry_otherwise.

(* ... and a directory present in both yields a UnionFile over both directory handles with an
   empty listing state, whose methods are exactly uf_op *)
Theorem C06_open_directory_in_both :
  forall (B L : Type) (bstep : B -> op -> B * res) (lstep : L -> op -> L * res)
    sb sl tbl p sl1 fi sl2 fi' sb1 fib sb2 bh sl3 lh,
  lstep sl (Stat p) = (sl1, RInfo fi) -> lstep sl1 (Stat p) = (sl2, RInfo fi') -> fi_dir fi' = true ->
  bstep sb (Stat p) = (sb1, RInfo fib) -> fi_dir fib = true ->
  bstep sb1 (Open p) = (sb2, RHandle bh) -> lstep sl2 (Open p) = (sl3, RHandle lh) ->
  cow_step bstep lstep (sb, sl, tbl) (Open p) =
    ((sb2, sl3, tbl ++ [HU (mkUF (Some bh) (Some lh) 0 [])]), RHandle (length tbl)).
Proof. exact @cow_open_both_dirs. Qed.
Print Assumptions C06_open_directory_in_both.

Theorem C06_union_handle_is_unionfile :
  forall (B L : Type) (bstep : B -> op -> B * res) (lstep : L -> op -> L * res) sb sl tbl o i u,
  op_handle_of o = Some i -> nth_error tbl i = Some (HU u) ->
  cow_step bstep lstep (sb, sl, tbl) o =
    let '(sb1, sl1, u1, r) := uf_op bstep lstep sb sl u o in ((sb1, sl1, list_set i (HU u1) tbl), r).
Proof. exact @cow_union_handle. Qed.
Print Assumptions C06_union_handle_is_unionfile.

(* ---- 2. the merged listing: union of both sets of names, each exactly once, overlay wins ---- *)
(* for ALL input lists (also ill-formed ones with repeated names): no name twice; a name is listed
   iff the overlay or the base lists it; an entry whose name the overlay lists is the overlay's
   (last) entry of that name, any other entry is the base's (last) entry of that name *)
Theorem C06_merged_listing : forall lfi bfi,
  NoDup (map fi_name (merge_dirs lfi bfi)) /\
  (forall n, In n (map fi_name (merge_dirs lfi bfi)) <-> In n (map fi_name lfi) \/ In n (map fi_name bfi)) /\
  (forall x, In x (merge_dirs lfi bfi) ->
     (In (fi_name x) (map fi_name lfi) -> exists l1 l2, lfi = l1 ++ x :: l2 /\ ~ In (fi_name x) (map fi_name l2)) /\
     (~ In (fi_name x) (map fi_name lfi) -> exists l1 l2, bfi = l1 ++ x :: l2 /\ ~ In (fi_name x) (map fi_name l2))).
Proof. exact merged_listing. Qed.
Print Assumptions C06_merged_listing.

(* with directories that list no name twice: all overlay entries, then the base entries whose
   name the overlay lacks *)
Theorem C06_merged_listing_wellformed : forall lfi bfi,
  NoDup (map fi_name lfi) -> NoDup (map fi_name bfi) ->
  merge_dirs lfi bfi = lfi ++ filter (fun b => negb (existsb (fun y => beqb (fi_name y) (fi_name b)) lfi)) bfi.
Proof. exact merge_dirs_wellformed. Qed.
Print Assumptions C06_merged_listing_wellformed.

(* ---- 3. pages partition the listing ---- *)
(* On a fresh union directory handle whose two inner directories list lfi and bfi (read in full,
   once), with a non-empty merge M: ANY non-empty list of positive page sizes returns exactly
   `pages sizes M` — the next min(c, rest) entries for each c, EOF once nothing is left — and the
   inner filesystems see only those two Readdir(-1) calls. *)
Theorem C06_pages_partition :
  forall (B L : Type) (bstep : B -> op -> B * res) (lstep : L -> op -> L * res)
    sb sl bh lh i sb1 sl1 lfi bfi c cs,
  lstep sl (HReaddir lh (-1)) = (sl1, RInfos lfi None) ->
  bstep sb (HReaddir bh (-1)) = (sb1, RInfos bfi None) ->
  merge_dirs lfi bfi <> [] ->
  Forall (fun c => 0 < c) (c :: cs) ->
  exists off, uf_run bstep lstep sb sl (mkUF (Some bh) (Some lh) 0 []) (map (HReaddir i) (c :: cs)) =
    (sb1, sl1, mkUF (Some bh) (Some lh) off (merge_dirs lfi bfi), pages (c :: cs) (merge_dirs lfi bfi)).
Proof. exact @uf_pages_partition. Qed.
Print Assumptions C06_pages_partition.

(* what `pages` is: glued together the pages are a prefix of the listing — the whole listing as
   soon as the sizes add up to its length —, so no entry is skipped or repeated *)
Theorem C06_pages_are_consecutive_chunks : forall cs rest, Forall (fun c => 0 < c) cs ->
  concat (map infos_of (pages cs rest)) = firstn (Z.to_nat (zsum cs)) rest /\
  (zlen rest <= zsum cs -> concat (map infos_of (pages cs rest)) = rest) /\
  pages cs [] = map (fun _ => RInfos [] (Some (E KEOF))) cs.
Proof. exact pages_chunks. Qed.
Print Assumptions C06_pages_are_consecutive_chunks.

(* an empty merged listing: EOF at once *)
Theorem C06_pages_empty :
  forall (B L : Type) (bstep : B -> op -> B * res) (lstep : L -> op -> L * res) sb sl bh lh i sb1 sl1 lfi bfi c,
  lstep sl (HReaddir lh (-1)) = (sl1, RInfos lfi None) ->
  bstep sb (HReaddir bh (-1)) = (sb1, RInfos bfi None) ->
  merge_dirs lfi bfi = [] -> 0 < c ->
  uf_op bstep lstep sb sl (mkUF (Some bh) (Some lh) 0 []) (HReaddir i c) =
    (sb1, sl1, mkUF (Some bh) (Some lh) 0 [], RInfos [] (Some (E KEOF))).
Proof. exact @uf_pages_empty. Qed.
Print Assumptions C06_pages_empty.

(* Readdir(c <= 0) returns the whole merged listing and (union_readdir_all_advances = 1, read from
   unionFile.go) leaves nothing: the next call returns no entry *)
Theorem C06_readdir_all_then_nothing :
  forall (B L : Type) (bstep : B -> op -> B * res) (lstep : L -> op -> L * res) sb sl bh lh i sb1 sl1 lfi bfi c c',
  lstep sl (HReaddir lh (-1)) = (sl1, RInfos lfi None) ->
  bstep sb (HReaddir bh (-1)) = (sb1, RInfos bfi None) ->
  merge_dirs lfi bfi <> [] -> c <= 0 ->
  uf_run bstep lstep sb sl (mkUF (Some bh) (Some lh) 0 []) [HReaddir i c; HReaddir i c'] =
    (sb1, sl1, mkUF (Some bh) (Some lh) (zlen (merge_dirs lfi bfi)) (merge_dirs lfi bfi),
     [RInfos (merge_dirs lfi bfi) None; if c' <=? 0 then RInfos [] None else RInfos [] (Some (E KEOF))]).
Proof. exact @uf_readdir_all_then_nothing. Qed.
Print Assumptions C06_readdir_all_then_nothing.

(* Readdirnames is Readdir followed by taking the names (same state changes) *)
Theorem C06_readdirnames_is_readdir :
  forall (B L : Type) (bstep : B -> op -> B * res) (lstep : L -> op -> L * res) sb sl u i c,
  uf_op bstep lstep sb sl u (HReaddirnames i c) =
  let '(sb1, sl1, u1, r) := uf_op bstep lstep sb sl u (HReaddir i c) in (sb1, sl1, u1, names_of r).
Proof. exact @uf_readdirnames. Qed.
Print Assumptions C06_readdirnames_is_readdir.

(* ---- 4. writes go to the overlay and are read back from it ---- *)
(* an OpenFile with any write-ish bit (and Create) returns, if it returns a handle at all, a handle
   OF THE OVERLAY appended to the table; on error the table is unchanged *)
Theorem C06_write_open_returns_overlay_handle :
  forall (B L : Type) (bstep : B -> op -> B * res) (lstep : L -> op -> L * res) sb sl tbl p flag perm st r,
  Z.land flag cow_mask <> 0 ->
  cow_step bstep lstep (sb, sl, tbl) (OpenFile p flag perm) = (st, r) ->
  match r with
  | RHandle i => exists h, snd st = tbl ++ [HL h] /\ i = length tbl
  | _ => snd st = tbl
  end.
Proof. exact @cow_write_open_overlay_handle. Qed.
Print Assumptions C06_write_open_returns_overlay_handle.

(* every method of an overlay handle is the overlay's own method on that handle (Write, then
   Read/ReadAt/Stat/Seek...): what the overlay reads back is what the union reads back *)
Theorem C06_overlay_handle_transparent :
  forall (B L : Type) (bstep : B -> op -> B * res) (lstep : L -> op -> L * res) sb sl tbl o i h,
  op_handle_of o = Some i -> nth_error tbl i = Some (HL h) ->
  cow_step bstep lstep (sb, sl, tbl) o =
    ((sb, fst (lstep sl (op_set_handle o h)), tbl), snd (lstep sl (op_set_handle o h))).
Proof. exact @cow_overlay_handle_transparent. Qed.
Print Assumptions C06_overlay_handle_transparent.

(* ---- 5. copy-up keeps the bytes and the mtime (MemMapFs on both sides) ---- *)
(* the two predicates of the statements below, spelled out.  copy_up_ready: the overlay lacks the
   name and either (A) has the directory part of the name (copy_dir name, see C06_copy_dir_meaning), or (B) lacks it too but has ITS parent
   directory (copyFile then creates one directory level; e.g. the overlay holds only "/" and the file
   is /d/f).  parent_key x is the key MemMapFs.registerWithParent looks up for a node called x; the
   entry found there has to be a directory (ndir = true): below a regular file MemMapFs creates
   nothing and answers ENOTDIR (Gen/Consts.v memfs_refuses_below_file), so the copy-up fails there.
   LF nn g s d mt: in s the path nn names node g, a regular file with bytes d (and mtime mt). *)
Theorem C06_copy_up_ready_meaning : forall s name,
  copy_up_ready s name <->
  let dk := normalize_path (copy_dir name) in
  let nn := normalize_path name in
  ((exists d dn, lookup s dk = Some d /\ get_node s d = Some dn) /\
   lookup s nn = None /\ parent_key nn <> nn /\
   exists pp pn, lookup s (parent_key nn) = Some pp /\ get_node s pp = Some pn /\ ndir pn = true)
  \/
  (lookup s dk = None /\ parent_key dk <> dk /\
   (exists pp pn, lookup s (parent_key dk) = Some pp /\ get_node s pp = Some pn /\ ndir pn = true) /\
   lookup s nn = None /\ parent_key nn = dk /\ dk <> nn).
Proof. exact copy_up_ready_meaning. Qed.
Print Assumptions C06_copy_up_ready_meaning.

(* the directory copyFile makes sure of: filepath.Dir(name), or — copyfile_cleans_name = 1, read from
   unionFile.go on every run — filepath.Dir of the cleaned name; the copy-up theorems hold for either *)
Theorem C06_copy_dir_meaning : forall name,
  copy_dir name = if Z.eqb copyfile_cleans_name 1 then path_dir (clean name) else path_dir name.
Proof. exact copy_dir_meaning. Qed.
Print Assumptions C06_copy_dir_meaning.

Theorem C06_LF_meaning : forall nn g s d mt,
  LF nn g s d mt <->
  lookup s nn = Some g /\
  exists n, get_node s g = Some n /\ ndata n = d /\ ndir n = false /\
            match mt with Some t => nmtime n = t | None => True end.
Proof. exact LF_meaning. Qed.
Print Assumptions C06_LF_meaning.

(* PARTIAL.  Full statement: "whenever copyToLayer succeeds, the overlay holds the base's bytes
   and mtime".  Proved: for a regular base file of ANY size (any number of 32 KiB chunks) and an
   overlay in situation (A) or (B), copyToLayer SUCCEEDS, the overlay then maps the name to a
   regular file with exactly the base's bytes and the base's mtime, and the base's stored
   filesystem is unchanged.  Missing: more than one missing directory level in the overlay
   (MemMapFs.registerWithParent creating a chain of ancestors), a name already present in the
   overlay, names whose directory part and registration parent differ (trailing slashes). *)
Theorem C06_copy_up_preserves_partial : forall sb sl name f nd,
  let nn := normalize_path name in
  lookup sb nn = Some f -> get_node sb f = Some nd -> ndir nd = false ->
  copy_up_ready sl name ->
  exists sb' sl' g, copy_to_layer m_step m_step sb sl name = (sb', sl', None) /\
    fs_view sb' = fs_view sb /\
    LF nn g sl' (ndata nd) (Some (nmtime nd)).
Proof. exact copy_up_mem. Qed.
Print Assumptions C06_copy_up_preserves_partial.

(* PARTIAL (same situations; the write is a non-empty prefix overwrite).  Through cow(mem,mem):
   OpenFile(O_RDWR) of a base-only file, Write b (0 < len b <= size), Close, Stat, Open, Read(size):
   every call succeeds, Stat shows a regular file of the old size, the Read returns b followed by
   ALL remaining old bytes, the base's stored filesystem is unchanged, and the overlay holds the
   new content.  Missing: other offsets/lengths (follow from C02 for the overlay file), O_WRONLY /
   O_APPEND / O_TRUNC opens. *)
Theorem C06_write_read_back_partial : forall sb sl tbl name perm f nd b,
  let nn := normalize_path name in
  lookup sb nn = Some f -> get_node sb f = Some nd -> ndir nd = false ->
  copy_up_ready sl name ->
  0 < zlen b <= zlen (ndata nd) ->
  let i := length tbl in
  let result := b ++ skipn (Z.to_nat (zlen b)) (ndata nd) in
  let '(st, rs) := run_steps (cow_step m_step m_step) (sb, sl, tbl)
      [OpenFile name o_rdwr perm; HWrite i b; HClose i; Stat name; Open name; HRead (S i) (zlen (ndata nd))] in
  (exists fi, rs = [RHandle i; RCount (zlen b) None; ROk; RInfo fi; RHandle (S i); RData result None] /\
              fi_dir fi = false /\ fi_size fi = zlen (ndata nd)) /\
  fs_view (fst (fst st)) = fs_view sb /\
  exists g, LF nn g (snd (fst st)) result None.
Proof. exact cow_mem_partial_write_read_back. Qed.
Print Assumptions C06_write_read_back_partial.

(* ---- 6. refused calls leave the view unchanged ---- *)
(* PARTIAL.  Full statement: every failed call leaves the union view unchanged.  Proved, for
   arbitrary inner filesystems: the refusals decided by CopyOnWriteFs itself — Rename of a name only
   the base has (EPERM), Remove/RemoveAll when the overlay's own call fails (the union call fails,
   e.g. EPERM for a base-only name), Mkdir of ANY name the union's own Stat finds (in the overlay, or
   in the base when the overlay says "does not exist"; directory or file: a PathError wrapping
   EEXIST, as copyOnWriteFs.go does since cow_mkdir_checks_union = 1) — make no inner
   call except Stat (and the overlay's own failed Remove), change no handle, and hence change
   neither view, given only that Stat changes nothing observable and a FAILED overlay call leaves
   the overlay's view as it was.  Missing: failures after a successful copy-up (the overlay has
   gained a copy with identical content; needs the union-view function over both models). *)
Theorem C06_failed_call_view_unchanged_partial :
  forall (B L VB VL : Type) (bstep : B -> op -> B * res) (lstep : L -> op -> L * res) (vb : B -> VB) (vl : L -> VL),
  (forall s p, vb (fst (bstep s (Stat p))) = vb s) ->
  (forall s p, vl (fst (lstep s (Stat p))) = vl s) ->
  (forall s o, res_is_err (snd (lstep s o)) = true -> vl (fst (lstep s o)) = vl s) ->
  forall sb sl tbl,
  (forall p q fi, is_info (snd (lstep sl (Stat p))) = false -> snd (bstep sb (Stat p)) = RInfo fi ->
     snd (cow_step bstep lstep (sb, sl, tbl) (Rename p q)) = RErr (E KEPERM) /\
     same_view vb vl (sb, sl, tbl) (fst (cow_step bstep lstep (sb, sl, tbl) (Rename p q)))) /\
  (forall o p er, o = Remove p \/ o = RemoveAll p -> snd (lstep sl o) = RErr er ->
     res_is_err (snd (cow_step bstep lstep (sb, sl, tbl) o)) = true /\
     same_view vb vl (sb, sl, tbl) (fst (cow_step bstep lstep (sb, sl, tbl) o))) /\
  (forall p perm, is_info (snd (cow_step bstep lstep (sb, sl, tbl) (Stat p))) = true ->
     snd (cow_step bstep lstep (sb, sl, tbl) (Mkdir p perm)) = RErr (EW KExist) /\
     same_view vb vl (sb, sl, tbl) (fst (cow_step bstep lstep (sb, sl, tbl) (Mkdir p perm)))).
Proof. exact @cow_refusals_view. Qed.
Print Assumptions C06_failed_call_view_unchanged_partial.

(* the exact outcome for the most common refusals *)
Theorem C06_rename_base_only_eperm :
  forall (B L : Type) (bstep : B -> op -> B * res) (lstep : L -> op -> L * res) sb sl tbl p q sl1 r sb1 fi,
  lstep sl (Stat p) = (sl1, r) -> is_info r = false -> bstep sb (Stat p) = (sb1, RInfo fi) ->
  cow_step bstep lstep (sb, sl, tbl) (Rename p q) = ((sb1, sl1, tbl), RErr (E KEPERM)).
Proof. exact @cow_rename_base_only. Qed.
Print Assumptions C06_rename_base_only_eperm.

Theorem C06_remove_base_only_eperm :
  forall (B L : Type) (bstep : B -> op -> B * res) (lstep : L -> op -> L * res) sb sl tbl p sl1 sb1 fi,
  lstep sl (Remove p) = (sl1, RErr (E KENOENT)) -> bstep sb (Stat p) = (sb1, RInfo fi) ->
  cow_step bstep lstep (sb, sl, tbl) (Remove p) = ((sb1, sl1, tbl), RErr (E KEPERM)).
Proof. exact @cow_remove_base_only. Qed.
Print Assumptions C06_remove_base_only_eperm.

(* Mkdir: the exact outcome in the two ways the union's Stat can find the name *)
Theorem C06_mkdir_overlay_entry_eexist :
  forall (B L : Type) (bstep : B -> op -> B * res) (lstep : L -> op -> L * res) sb sl tbl p perm sl1 fi,
  lstep sl (Stat p) = (sl1, RInfo fi) ->
  cow_step bstep lstep (sb, sl, tbl) (Mkdir p perm) = ((sb, sl1, tbl), RErr (EW KExist)).
Proof. exact @cow_mkdir_overlay_entry. Qed.
Print Assumptions C06_mkdir_overlay_entry_eexist.

Theorem C06_mkdir_base_entry_eexist :
  forall (B L : Type) (bstep : B -> op -> B * res) (lstep : L -> op -> L * res) sb sl tbl p perm sl1 r sb1 fi,
  lstep sl (Stat p) = (sl1, r) -> is_info r = false -> cow_is_not_exist (err_of r) = true ->
  bstep sb (Stat p) = (sb1, RInfo fi) ->
  cow_step bstep lstep (sb, sl, tbl) (Mkdir p perm) = ((sb1, sl1, tbl), RErr (EW KExist)).
Proof. exact @cow_mkdir_base_dir. Qed.
Print Assumptions C06_mkdir_base_entry_eexist.

(* ---- non-vacuity ---- *)
Definition p_d : str := [47;100]%N.               (* /d   *)
Definition p_f : str := [47;100;47;102]%N.        (* /d/f : base only *)
Definition p_g : str := [47;100;47;103]%N.        (* /d/g : base only *)
Definition p_h : str := [47;100;47;104]%N.        (* /d/h : overlay only *)
Definition hello : bytes := [104;101;108;108;111;32;119;111;114;108;100]%N.
Definition c06_base : mst :=
  fst (run_steps m_step m_init [MkdirAll p_d 493; Create p_f; HWrite 0 hello; HClose 0; Chtimes p_f 1000; Create p_g; HClose 1]).
Definition c06_layer : mst :=
  fst (run_steps m_step m_init [MkdirAll p_d 493; Create p_h; HWrite 0 [88;89]%N; HClose 0]).

(* the hypotheses of the two MemMapFs theorems hold for /d/f: base file present; the overlay
   c06_layer is in situation (A), the empty overlay m_init in situation (B) *)
Example C06_ex_base_file :
  lookup c06_base (normalize_path p_f) = Some 2%nat /\
  exists nd, get_node c06_base 2 = Some nd /\ ndir nd = false /\ ndata nd = hello /\ nmtime nd = 1000.
Proof. split; [vm_compute; reflexivity|]. eexists. split; [vm_compute; reflexivity | now repeat split]. Qed.
Example C06_ex_ready_A : copy_up_ready c06_layer p_f.
Proof.
  left. split; [exists 1%nat; eexists; split; vm_compute; reflexivity|].
  split; [vm_compute; reflexivity|]. split; [vm_compute; discriminate|].
  exists 1%nat. eexists. split; [vm_compute; reflexivity|]. split; vm_compute; reflexivity.
Qed.
Example C06_ex_ready_B : copy_up_ready m_init p_f.
Proof.
  right. split; [vm_compute; reflexivity|]. split; [vm_compute; discriminate|].
  split; [exists 0%nat; eexists; split; [vm_compute; reflexivity|]; split; vm_compute; reflexivity|].
  split; [vm_compute; reflexivity|]. split; [vm_compute; reflexivity | vm_compute; discriminate].
Qed.
(* situation (B) computed: copy-up into an overlay that holds only "/" *)
Example C06_ex_copy_up_B :
  snd (run_steps (cow_step m_step m_step) (c06_base, m_init, [])
    [OpenFile p_f o_rdwr 0; HWrite 0 [72;69]%N; HClose 0; Open p_f; HRead 1 11])
  = [RHandle 0; RCount 2 None; ROk; RHandle 1; RData [72;69;108;108;111;32;119;111;114;108;100]%N None].
Proof. vm_compute. reflexivity. Qed.

(* the model computes: partial overwrite of the base-only /d/f through the union, read back;
   then the directory /d (present in both) paged with sizes 1, 2, 5, 5: f | h g | EOF | EOF *)
Example C06_ex_write_read_back_and_pages :
  snd (run_steps (cow_step m_step m_step) (c06_base, c06_layer, [])
    [OpenFile p_f o_rdwr 0; HWrite 0 [72;69]%N; HClose 0; Open p_f; HRead 1 11;
     Open p_d; HReaddirnames 2 1; HReaddirnames 2 2; HReaddirnames 2 5; HReaddirnames 2 5])
  = [RHandle 0; RCount 2 None; ROk; RHandle 1;
     RData [72;69;108;108;111;32;119;111;114;108;100]%N None;
     RHandle 2; RNames [[102]]%N None; RNames [[104]; [103]]%N None;
     RNames [] (Some (E KEOF)); RNames [] (Some (E KEOF))].
Proof. vm_compute. reflexivity. Qed.

(* Readdirnames(-1) lists each of f, g, h once and leaves nothing; refusals: Rename and Remove of
   the base-only /d/g, Mkdir of /d (in both) and of the base-only FILE /d/g *)
Example C06_ex_listing_and_refusals :
  snd (run_steps (cow_step m_step m_step) (c06_base, c06_layer, [])
    [Open p_d; HReaddirnames 0 (-1); HReaddirnames 0 (-1); HReaddirnames 0 3;
     Rename p_g [47;120]%N; Remove p_g; Mkdir p_d 493; Mkdir p_g 493])
  = [RHandle 0; RNames [[104]; [102]; [103]]%N None; RNames [] None; RNames [] (Some (E KEOF));
     RErr (E KEPERM); RErr (EW KNotExist); RErr (EW KExist); RErr (EW KExist)].
Proof. vm_compute. reflexivity. Qed.

Example C06_ex_merge :
  map fi_name (merge_dirs [mkFi [97]%N false 1 0 0; mkFi [98]%N false 2 0 0] [mkFi [98]%N false 9 0 0; mkFi [99]%N true 0 0 0])
    = [[97]; [98]; [99]]%N /\
  map fi_size (merge_dirs [mkFi [97]%N false 1 0 0; mkFi [98]%N false 2 0 0] [mkFi [98]%N false 9 0 0; mkFi [99]%N true 0 0 0])
    = [1; 2; 0].
Proof. split; vm_compute; reflexivity. Qed.
