(* C08 — BasePathFs and HttpFs.Dir confine every access to their root directory.
   Statements only; proofs in Proofs/BasePathProof.v and Proofs/PathProof.v. *)
From AF Require Import Lib.Bytes Lib.Path Lib.Ops Gen.Consts Model.BasePath Proofs.PathProof Proofs.BasePathProof.

(* RealPath: for EVERY root and EVERY name string, an accepted name resolves to a clean path
   that lies segment-wise at or below the cleaned root (so /base2/x is not below /base). *)
Theorem C08_realpath_confined : forall base name p, real_path base name = Some p ->
  seg_prefix (clean_segs base) (clean_segs p) /\ clean p = p /\ is_rooted p = is_rooted base.
Proof. exact real_path_confined_gen. Qed.
Print Assumptions C08_realpath_confined.

(* no ".." survives in a path handed to the source (rooted root) *)
Theorem C08_realpath_no_dotdot : forall base name p seg, is_rooted (clean base) = true ->
  real_path base name = Some p -> In seg (clean_segs p) -> seg <> s_dotdot.
Proof. exact real_path_no_dotdot. Qed.
Print Assumptions C08_realpath_no_dotdot.

(* Every method: the wrapper makes at most ONE call to the underlying filesystem ... *)
Theorem C08_single_forwarded_call : forall (St : Type) (inner : St -> op -> St * res) base s o,
  bp_step inner base s o =
  match bp_translate base o with
  | None => (s, RErr (EW KNotExist))
  | Some o' => let '(s', r) := inner s o' in (s', bp_relabel base o r)
  end.
Proof. exact @bp_step_single_call. Qed.
Print Assumptions C08_single_forwarded_call.

(* ... and every name in that call (both names of Rename) is confined to the root, for every
   spelling of the names given ('..' segments, repeated separators, absolute-looking names). *)
Theorem C08_forwarded_names_confined : forall base o o', bp_translate base o = Some o' ->
  forall p, In p (op_paths o') -> below base p.
Proof. exact bp_translate_confined. Qed.
Print Assumptions C08_forwarded_names_confined.

(* names that would escape are reported as not existing; the source is not consulted *)
Theorem C08_escaping_name_refused : forall base name, is_rooted (clean base) = true ->
  ~ stays_inside base name -> bp_translate base (Open name) = None.
Proof. exact bp_escape_refused. Qed.
Print Assumptions C08_escaping_name_refused.

Theorem C08_refused_is_not_exist_and_noop : forall (St : Type) (inner : St -> op -> St * res) base s o,
  bp_translate base o = None -> bp_step inner base s o = (s, RErr (EW KNotExist)).
Proof. exact @bp_refused. Qed.
Print Assumptions C08_refused_is_not_exist_and_noop.

(* file-handle operations carry no name: they reach only files opened through a confined name *)
Theorem C08_handle_ops_forwarded : forall base o, op_paths o = [] -> bp_translate base o = Some o.
Proof. exact bp_handle_ops_forwarded. Qed.
Print Assumptions C08_handle_ops_forwarded.

(* Symlink (both arguments), Lstat and Readlink go through RealPath as well *)
Theorem C08_symlink_both_names_confined : forall base oldname newname a b,
  bp_symlink base oldname newname = Some (a, b) -> below base a /\ below base b.
Proof. exact bp_symlink_confined. Qed.
Print Assumptions C08_symlink_both_names_confined.

(* httpDir.Open: the path handed to the source lies below the root for every request name *)
Theorem C08_http_confined : forall root name,
  let dir := if is_empty root then s_dot else root in
  seg_prefix (clean_segs dir) (clean_segs (http_target root name)).
Proof. exact http_target_confined. Qed.
Print Assumptions C08_http_confined.

(* nested base-path filesystems: the outer root b1 and the inner root b2 both confine, and the
   final path lies below b1 ++ b2 *)
Theorem C08_nested : forall b1 b2 name p2 p1,
  is_rooted (clean b2) = true -> (is_rooted b1 = false -> clean_segs b1 <> []) ->
  real_path b2 name = Some p2 -> real_path b1 p2 = Some p1 ->
  seg_prefix (clean_segs b1 ++ clean_segs b2) (clean_segs p1).
Proof. exact real_path_nested. Qed.
Print Assumptions C08_nested.

(* What these theorems do NOT say: that the underlying filesystem, called with a confined name,
   touches nothing outside the root (MemMapFs creates missing ANCESTORS of a path; the OS follows
   symlinks).  That frame property of the source is checked per run by the harness (deep snapshot
   of everything outside the root before/after each step) and is trusted for OsFs. *)

Example C08_ex_sibling : real_path [47;98;97;115;101]%N [46;46;47;98;97;115;101;50;47;120]%N = None.
Proof. vm_compute. reflexivity. Qed.
Example C08_ex_inside : real_path [47;98;97;115;101]%N [47;47;105;110;47;46;46;47;102]%N = Some [47;98;97;115;101;47;102]%N.
Proof. vm_compute. reflexivity. Qed.
