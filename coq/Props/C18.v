(* C18 — TempFile / TempDir.  Statements only; proofs are in Proofs/TempProof.v.
   Models: Model/Temp.v (ioutil.go nextRandom / TempFile / TempDir over an arbitrary filesystem; the
   LCG constants, 1e9, the 10000 attempts and the reseed threshold come from Gen/Consts.v, i.e. from
   /repo/ioutil.go), Model/MemFs.v (MemMapFs).
   NOT proved here: that MemMapFs's exclusive create is atomic under real concurrency — that is
   property C04's business (and today it is not: lookup and creation are separate critical sections
   in MemMapFs.OpenFile; see REPORT-c1718.md).  C18_concurrent_reduces says what follows IF every
   attempt is one atomic step. *)
From AF Require Import Lib.Bytes Lib.Path Lib.Ops Gen.Consts Model.MemFile Model.MemFs Model.Temp
  Proofs.PathProof Proofs.MemFsBasics Proofs.MemBelow Proofs.MemCreate Proofs.TempProof.
Local Open Scope Z_scope.

(* ---- names ---- *)

(* the random part of every name is nine decimal digits *)
Theorem C18_nine_digits : forall r, is_d9 (rand_name r) /\ snd (next_random r) = rand_name (lcg_next r).
Proof. intros r. split; [apply rand_name_d9 | reflexivity]. Qed.
Print Assumptions C18_nine_digits.

(* prefix and suffix are the parts around the LAST '*'; without '*' the suffix is "" *)
Theorem C18_pattern_split : forall pattern,
  let '(prefix, suffix) := temp_prefix_suffix pattern in
  (pattern = prefix ++ STAR :: suffix /\ ~ In STAR suffix) \/
  (~ In STAR pattern /\ prefix = pattern /\ suffix = []).
Proof. exact temp_prefix_suffix_spec. Qed.
Print Assumptions C18_pattern_split.

(* EVERY candidate name handed to the filesystem (the failed attempts included) has the form
   join dir (prefix ++ d9 ++ suffix): whatever the filesystem does, the calls TempFile / TempDir make
   on it (recorded by [log_step]) are exclusive creates of such names *)
Theorem C18_name_shape : forall St (step : St -> op -> St * res) ostmp s g dir pattern s' log g' x,
  temp_file (log_step step) ostmp (s, []) g dir pattern = ((s', log), g', x) ->
  Forall (fun o => exists name,
            shaped (eff_dir ostmp dir) (fst (temp_prefix_suffix pattern)) (snd (temp_prefix_suffix pattern)) name /\
            o = temp_file_op name) log.
Proof.
  intros St step ostmp s g dir pattern s' log g' x H. unfold temp_file in H. fold (eff_dir ostmp dir) in H.
  destruct (temp_refused pattern); [inversion H; constructor|].
  destruct (temp_prefix_suffix pattern) as [prefix suffix]. cbn [fst snd].
  destruct (temp_loop_logged step _ _ _ _ _ _ _ _ _ _ _ _ _ _ H) as [more [-> Hm]]. exact Hm.
Qed.
Print Assumptions C18_name_shape.

Theorem C18_name_shape_dir : forall St (step : St -> op -> St * res) ostmp s g dir prefix s' log g' x,
  temp_dir (log_step step) ostmp (s, []) g dir prefix = ((s', log), g', x) ->
  Forall (fun o => exists name, shaped (eff_dir ostmp dir) prefix [] name /\ o = temp_dir_op name) log.
Proof.
  intros St step ostmp s g dir prefix s' log g' x H. unfold temp_dir in H. fold (eff_dir ostmp dir) in H.
  destruct (temp_refused prefix); [inversion H; constructor|].
  destruct (temp_loop_logged step _ _ _ _ _ _ _ _ _ _ _ _ _ _ H) as [more [-> Hm]]. exact Hm.
Qed.
Print Assumptions C18_name_shape_dir.

(* a shaped name lies DIRECTLY in clean dir and its last element is prefix ++ digits ++ suffix,
   provided prefix and suffix hold no path separator.  (Without that proviso the conclusion is false,
   and afero does not reject such patterns: finding temp:not-direct-child in REPORT-c1718.md.) *)
Theorem C18_direct_child : forall dir prefix suffix name,
  dir <> [] -> slash_free prefix -> slash_free suffix -> shaped dir prefix suffix name ->
  path_dir name = clean dir /\ exists d, is_d9 d /\ snd (path_split name) = prefix ++ d ++ suffix.
Proof. exact shaped_direct_child. Qed.
Print Assumptions C18_direct_child.

(* ---- freshness, over ANY filesystem honouring the exclusive-create contract ----
   [view s p] = what the filesystem shows for p (None = absent).  Contract, for the creating calls
   temp_file_op / temp_dir_op on candidate names: a successful create was on a name that did not
   exist, which exists afterwards, and every entry that existed is unchanged; a failed create
   changes nothing.  [good] is a state invariant the filesystem may need (MemMapFs: the directory
   exists). *)
Theorem C18_fresh_and_shaped :
  forall (St V : Type) (step : St -> op -> St * res) (view : St -> str -> option V)
         (is_create : (str -> op) -> Prop) (good : St -> Prop) (cand : str -> Prop),
  (forall mk s n s' r, is_create mk -> good s -> cand n -> step s (mk n) = (s', r) ->
     (r = ROk \/ exists h, r = RHandle h) ->
     view s n = None /\ view s' n <> None /\ (forall m, view s m <> None -> view s' m = view s m) /\ good s') ->
  (forall mk s n s' e, is_create mk -> good s -> cand n -> step s (mk n) = (s', RErr e) ->
     (forall m, view s' m = view s m) /\ good s') ->
  is_create temp_file_op -> is_create temp_dir_op ->
  (* TempFile *)
  (forall ostmp s g dir pattern s' g' name h,
     good s ->
     (forall d, is_d9 d -> cand (join2 (eff_dir ostmp dir)
                                   (fst (temp_prefix_suffix pattern) ++ d ++ snd (temp_prefix_suffix pattern)))) ->
     temp_file step ostmp s g dir pattern = (s', g', TempOk name h) ->
     view s name = None /\ view s' name <> None /\ (forall m, view s m <> None -> view s' m = view s m) /\
     shaped (eff_dir ostmp dir) (fst (temp_prefix_suffix pattern)) (snd (temp_prefix_suffix pattern)) name) /\
  (* TempDir *)
  (forall ostmp s g dir prefix s' g' name h,
     good s -> (forall d, is_d9 d -> cand (join2 (eff_dir ostmp dir) (prefix ++ d ++ []))) ->
     temp_dir step ostmp s g dir prefix = (s', g', TempOk name h) ->
     view s name = None /\ view s' name <> None /\ (forall m, view s m <> None -> view s' m = view s m) /\
     shaped (eff_dir ostmp dir) prefix [] name).
Proof.
  intros St V step view is_create good cand Hok Herr Hf Hd. split.
  - intros. eapply temp_file_fresh_shaped; eassumption.
  - intros. eapply temp_dir_fresh_shaped; eassumption.
Qed.
Print Assumptions C18_fresh_and_shaped.

(* ---- MemMapFs honours the contract ---- *)

(* O_CREATE|O_EXCL (resp. Mkdir) on a name that exists: EEXIST, and the path map and every node are
   what they were *)
Theorem C18_mem_exclusive_existing : forall s n perm, lookup s (normalize_path n) <> None ->
  (snd (m_step s (OpenFile n temp_flags perm)) = RErr (EW KExist) /\
   fs_view (fst (m_step s (OpenFile n temp_flags perm))) = fs_view s) /\
  (snd (m_step s (Mkdir n perm)) = RErr (EW KExist) /\
   fs_view (fst (m_step s (Mkdir n perm))) = fs_view s).
Proof.
  intros s n perm H. rewrite (excl_open_existing _ _ _ H), (mkdir_existing _ _ _ H). now repeat split.
Qed.
Print Assumptions C18_mem_exclusive_existing.

(* ... on a free name whose parent is a directory: a handle / nil, and exactly that entry is added
   ([created]: the path is bound to a fresh node, the parent gains a child, nothing else moves) *)
Theorem C18_mem_exclusive_fresh : forall s n perm d dn,
  lookup s (normalize_path n) = None ->
  lookup s (parent_key (normalize_path n)) = Some d -> get_node s d = Some dn -> ndir dn = true ->
  (exists s1, m_step s (OpenFile n temp_flags perm) = (s1, RHandle (length (mhandles s))) /\
              created s s1 (normalize_path n) d dn) /\
  (exists s1, m_step s (Mkdir n perm) = (s1, ROk) /\ created s s1 (normalize_path n) d dn).
Proof. intros. split; [now apply excl_open_fresh | now apply mkdir_fresh]. Qed.
Print Assumptions C18_mem_exclusive_fresh.

(* ... on a free name whose parent is a REGULAR FILE: ENOTDIR, and the path map and every node are
   what they were (MemMapFs's ancestor check, Gen/Consts.v memfs_refuses_below_file = 1 regenerated
   from memmap.go; without it the entry was created and the regular file became a directory) *)
Theorem C18_mem_exclusive_below_file : forall s n perm d dn,
  lookup s (normalize_path n) = None ->
  lookup s (parent_key (normalize_path n)) = Some d -> get_node s d = Some dn -> ndir dn = false ->
  (snd (m_step s (OpenFile n temp_flags perm)) = RErr (EW KENOTDIR) /\
   fs_view (fst (m_step s (OpenFile n temp_flags perm))) = fs_view s) /\
  (snd (m_step s (Mkdir n perm)) = RErr (EW KENOTDIR) /\
   fs_view (fst (m_step s (Mkdir n perm))) = fs_view s).
Proof.
  intros s n perm d dn H1 H2 H3 H4.
  rewrite (excl_open_below_file s n perm d dn H1 H2 H3 H4), (mkdir_below_file s n perm d dn H1 H2 H3 H4).
  now repeat split.
Qed.
Print Assumptions C18_mem_exclusive_below_file.

(* TempFile / TempDir on MemMapFs: in every state whose path map points into the heap and where the
   requested directory exists (call_sane: the name is bound to a node — a directory, or a regular
   file: then the call fails, next theorem), for every pattern without separators: on success the returned
   name did not exist before (Stat failed: C18_absent_is_stat), exists after, every entry that existed
   (kind, bytes, mode, mtime) is unchanged — TempFile never opens or alters an existing file —, the
   name lies directly in clean dir and is prefix ++ nine digits ++ suffix *)
Theorem C18_fresh_and_shaped_mem_file : forall ostmp s g dir pattern s' g' name h,
  let dir1 := eff_dir ostmp dir in
  let prefix := fst (temp_prefix_suffix pattern) in let suffix := snd (temp_prefix_suffix pattern) in
  mem_wf s -> call_sane s (true, dir1, prefix, suffix) ->
  temp_file m_step ostmp s g dir pattern = (s', g', TempOk name h) ->
  mview s name = None /\ mview s' name <> None /\
  (forall m, mview s m <> None -> mview s' m = mview s m) /\
  path_dir name = clean dir1 /\ exists d, is_d9 d /\ snd (path_split name) = prefix ++ d ++ suffix.
Proof. exact temp_file_mem. Qed.
Print Assumptions C18_fresh_and_shaped_mem_file.

Theorem C18_fresh_and_shaped_mem_dir : forall ostmp s g dir prefix s' g' name h,
  let dir1 := eff_dir ostmp dir in
  mem_wf s -> call_sane s (false, dir1, prefix, []) ->
  temp_dir m_step ostmp s g dir prefix = (s', g', TempOk name h) ->
  mview s name = None /\ mview s' name <> None /\
  (forall m, mview s m <> None -> mview s' m = mview s m) /\
  path_dir name = clean dir1 /\ exists d, is_d9 d /\ snd (path_split name) = prefix ++ d ++ [].
Proof. exact temp_dir_mem. Qed.
Print Assumptions C18_fresh_and_shaped_mem_dir.

(* the requested "directory" is a REGULAR FILE (finding temp:altered-existing:parent-is-file before
   MemMapFs refused to create below a regular file): no name is handed out, an error is returned, and
   the path map and every node — that regular file included — are exactly what they were *)
Theorem C18_dir_is_regular_file_mem : forall ostmp s g dir pattern s' g' x,
  let dir1 := eff_dir ostmp dir in
  let prefix := fst (temp_prefix_suffix pattern) in let suffix := snd (temp_prefix_suffix pattern) in
  dir1 <> [] -> slash_free prefix -> slash_free suffix -> is_file_node s (normalize_path dir1) ->
  (temp_file m_step ostmp s g dir pattern = (s', g', x) -> fs_view s' = fs_view s /\ exists e, x = TempErr e) /\
  (slash_free pattern -> temp_dir m_step ostmp s g dir pattern = (s', g', x) -> fs_view s' = fs_view s /\ exists e, x = TempErr e).
Proof.
  intros ostmp s g dir pattern s' g' x dir1 prefix suffix Hne Hp Hs Hf. split.
  - now apply temp_file_dir_is_file.
  - intros Hpat. now apply temp_dir_dir_is_file.
Qed.
Print Assumptions C18_dir_is_regular_file_mem.

Theorem C18_absent_is_stat : forall s p, mview s p = None <-> snd (m_step s (Stat p)) = RErr (EW KNotExist).
Proof. exact mview_none_stat. Qed.
Print Assumptions C18_absent_is_stat.

(* ---- any number of successive calls ---- *)

(* over any filesystem honouring the contract: for every list of calls (TempFile and TempDir mixed,
   any directories and patterns, successful or not, no removal in between) and EVERY set of
   pre-existing names (the initial state is arbitrary), the names handed out are pairwise distinct,
   none existed at the start, all exist at the end, and nothing that existed at the start changed *)
Theorem C18_sequential_distinct :
  forall (St V : Type) (step : St -> op -> St * res) (view : St -> str -> option V)
         (is_create : (str -> op) -> Prop) (good : St -> Prop) (cand : str -> Prop),
  (forall mk s n s' r, is_create mk -> good s -> cand n -> step s (mk n) = (s', r) ->
     (r = ROk \/ exists h, r = RHandle h) ->
     view s n = None /\ view s' n <> None /\ (forall m, view s m <> None -> view s' m = view s m) /\ good s') ->
  (forall mk s n s' e, is_create mk -> good s -> cand n -> step s (mk n) = (s', RErr e) ->
     (forall m, view s' m = view s m) /\ good s') ->
  is_create temp_file_op -> is_create temp_dir_op ->
  (forall mk s n s' r, is_create mk -> good s -> cand n -> step s (mk n) = (s', r) ->
     r = ROk \/ (exists h, r = RHandle h) \/ exists e, r = RErr e) ->
  forall calls s g s' g' xs,
  good s -> Forall (call_ok cand) calls -> temp_seq step s g calls = (s', g', xs) ->
  NoDup (seq_names xs) /\
  (forall n, In n (seq_names xs) -> view s n = None /\ view s' n <> None) /\
  (forall m, view s m <> None -> view s' m = view s m).
Proof.
  intros St V step view is_create good cand Hok Herr Hf Hd Htot calls s g s' g' xs Hg Hc H.
  destruct (temp_seq_distinct step view is_create good cand Hok Herr Hf Hd Htot calls s g s' g' xs Hg Hc H)
    as [H1 [H2 [H3 _]]]. split; [exact H1|]. split; [exact H2 | exact H3].
Qed.
Print Assumptions C18_sequential_distinct.

Theorem C18_sequential_distinct_mem : forall calls s g s' g' xs,
  mem_wf s -> Forall (call_sane s) calls -> temp_seq m_step s g calls = (s', g', xs) ->
  NoDup (seq_names xs) /\
  (forall n, In n (seq_names xs) -> mview s n = None /\ mview s' n <> None) /\
  (forall m, mview s m <> None -> mview s' m = mview s m).
Proof. exact temp_seq_mem. Qed.
Print Assumptions C18_sequential_distinct_mem.

(* ---- concurrent callers ----
   IF every attempt is atomic — a caller's "draw" (nextRandom under randmu) and "try" (the exclusive
   create) are single steps of the sequential machine — then for EVERY schedule (any interleaving of
   the callers' steps, [conc_run]) the names handed out are pairwise distinct, none existed at the
   start, all exist at the end and nothing that existed was altered: the sequential argument applies
   to every linearisation.  Whether MemMapFs's exclusive create IS atomic is C04's business. *)
Theorem C18_concurrent_reduces :
  forall (St V : Type) (step : St -> op -> St * res) (view : St -> str -> option V)
         (is_create : (str -> op) -> Prop) (good : St -> Prop) (cand : str -> Prop),
  (forall mk s n s' r, is_create mk -> good s -> cand n -> step s (mk n) = (s', r) ->
     (r = ROk \/ exists h, r = RHandle h) ->
     view s n = None /\ view s' n <> None /\ (forall m, view s m <> None -> view s' m = view s m) /\ good s') ->
  (forall mk s n s' e, is_create mk -> good s -> cand n -> step s (mk n) = (s', RErr e) ->
     (forall m, view s' m = view s m) /\ good s') ->
  is_create temp_file_op -> is_create temp_dir_op ->
  (forall mk s n s' r, is_create mk -> good s -> cand n -> step s (mk n) = (s', r) ->
     r = ROk \/ (exists h, r = RHandle h) \/ exists e, r = RErr e) ->
  forall calls schedule s g s' g' cs,
  good s -> Forall (call_ok cand) calls -> conc_run step s g calls schedule = (s', g', cs) ->
  NoDup (conc_names cs) /\
  (forall n, In n (conc_names cs) -> view s n = None /\ view s' n <> None) /\
  (forall m, view s m <> None -> view s' m = view s m).
Proof.
  intros St V step view is_create good cand Hok Herr Hf Hd Htot calls schedule s g s' g' cs Hg Hc H.
  exact (conc_distinct step view is_create good cand Hok Herr Hf Hd Htot calls schedule s g s' g' cs Hg Hc H).
Qed.
Print Assumptions C18_concurrent_reduces.

Theorem C18_concurrent_reduces_mem : forall calls schedule s g s' g' cs,
  mem_wf s -> Forall (call_sane s) calls -> conc_run m_step s g calls schedule = (s', g', cs) ->
  NoDup (conc_names cs) /\
  (forall n, In n (conc_names cs) -> mview s n = None /\ mview s' n <> None) /\
  (forall m, mview s m <> None -> mview s' m = mview s m).
Proof. exact conc_mem. Qed.
Print Assumptions C18_concurrent_reduces_mem.

(* ---- the models compute; the hypotheses are satisfiable ---- *)

(* the first three candidates from seed 1 *)
Example C18_ex_candidates :
  let '(r1, n1) := next_random 1 in let '(r2, n2) := next_random r1 in let '(r3, n3) := next_random r2 in
  (r1, n1, r2, n2, r3, n3) =
  (1015568748, [48; 49; 53; 53; 54; 56; 55; 52; 56]%N,       (* "015568748" *)
   1586005467, [53; 56; 54; 48; 48; 53; 52; 54; 55]%N,       (* "586005467" *)
   2165703038, [49; 54; 53; 55; 48; 51; 48; 51; 56]%N).      (* "165703038" *)
Proof. vm_compute. reflexivity. Qed.

Example C18_ex_pattern : temp_prefix_suffix [97; 42; 98; 42; 99]%N = ([97; 42; 98]%N, [99]%N).   (* "a*b*c" *)
Proof. vm_compute. reflexivity. Qed.

(* TempFile(fs, "/", "t*") from seed 1 when the first candidate "/t015568748" already exists:
   the second candidate is returned and the existing file keeps its bytes *)
Example C18_ex_collision :
  let pre := [47; 116; 48; 49; 53; 53; 54; 56; 55; 52; 56]%N in
  let '(s0, _) := m_step m_init (Create pre) in
  let '(s1, _) := m_step s0 (HWrite 0 [1; 2; 3]%N) in
  let '(s2, g2, x) := temp_file m_step [47; 116; 109; 112]%N s1 (mkTG 1 [] 0) [47]%N [116; 42]%N in
  (x, tg_rand g2, option_map (fun v => snd (fst (fst v))) (mview s2 pre)) =
  (TempOk [47; 116; 53; 56; 54; 48; 48; 53; 52; 54; 55]%N (Some 1%nat), 1586005467, Some [1; 2; 3]%N).
Proof. vm_compute. reflexivity. Qed.

(* the sane-state hypothesis holds in the initial filesystem for the directory "/" *)
Example C18_ex_sane : mem_wf m_init /\ call_sane m_init (true, [47]%N, [116]%N, []).
Proof.
  split; [exact mem_wf_init|]. repeat split; try discriminate.
  - intros [H|[]]. discriminate.
  - intros [].
  - exists 0%nat. eexists. vm_compute. repeat split.
Qed.

(* corpus/C18 kf3: /w/iam is a regular file holding "x"; TempFile(fs, "/w/iam", "t*") fails with
   ENOTDIR and /w/iam is still that regular file *)
Example C18_ex_dir_is_file :
  let iam := [47; 119; 47; 105; 97; 109]%N in
  let '(s0, _) := m_step m_init (Mkdir [47; 119]%N 493) in
  let '(s1, _) := m_step s0 (Create iam) in
  let '(s2, _) := m_step s1 (HWrite 0 [120]%N) in
  is_file_node s2 (normalize_path iam) /\
  let '(s3, _, x) := temp_file m_step [47; 116; 109; 112]%N s2 (mkTG 1 [] 0) iam [116; 42]%N in
  (x, mview s3 iam, mview s3 (iam ++ [47; 116; 48; 49; 53; 53; 54; 56; 55; 52; 56])%N) =
  (TempErr (EW KENOTDIR), Some (false, [120]%N, mode_temporary, (BIG + 2)%Z), None).
Proof. vm_compute. split; [|reflexivity]. exists 2%nat. eexists. repeat split. Qed.

(* two concurrent callers, an arbitrary schedule: both succeed with different names *)
Example C18_ex_interleaving :
  let calls := [(true, [47]%N, [97]%N, []); (false, [47]%N, [98]%N, [])] in
  let '(_, _, cs) := conc_run m_step m_init (mkTG 1 [] 0) calls [TDraw 1; TDraw 0; TTry 0; TTry 1; TTry 0] in
  conc_names cs = [[47; 97; 53; 56; 54; 48; 48; 53; 52; 54; 55]%N; [47; 98; 48; 49; 53; 53; 54; 56; 55; 52; 56]%N].
Proof. vm_compute. reflexivity. Qed.
