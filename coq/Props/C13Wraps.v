(* C13, the obligation that is a fact about regexpfs.go: RegexpFs.OpenFile wraps the file it returns
   in a RegexpFile, exactly like Open (constant regenerated from the source by `afcheck consts`).
   This file compiles iff that is the case; with it, C13_listing_filtered holds without hypothesis.
   Likewise for regexp_readdir_refills = 1 and C13_listing_refills (below). *)
From AF Require Import Lib.Bytes Lib.Path Lib.Ops Gen.Consts Model.MemFile Model.Regexp Proofs.RegexpProof Props.C13.
Local Open Scope Z_scope.

Lemma C13_openfile_wraps : regexp_openfile_wraps = 1.
Proof. reflexivity. Qed.

Theorem C13_listing_filtered_unconditional :
  forall (St : Type) (inner : St -> op -> St * res) (m : str -> bool),
  readdir_shape inner ->
  forall ops s w h n,
  let x := run_steps (re_step inner m) (s, w) ops in
  In h (opened_by ops (snd x)) ->
  listing_filtered m (snd (re_step inner m (fst x) (HReaddir h n))) /\
  listing_filtered m (snd (re_step inner m (fst x) (HReaddirnames h n))).
Proof. intros St inner m. exact (C13_listing_filtered St inner m C13_openfile_wraps). Qed.
Print Assumptions C13_listing_filtered_unconditional.

(* likewise: RegexpFile.Readdir re-reads while a page of n > 0 entries was filtered down to nothing *)
Lemma C13_readdir_refills : regexp_readdir_refills = 1.
Proof. reflexivity. Qed.

Theorem C13_listing_refills_unconditional :
  forall (St : Type) (inner : St -> op -> St * res) (m : str -> bool) s w h n s' w',
  In h w -> 0 < n ->
  re_step inner m (s, w) (HReaddir h n) = ((s', w'), RInfos [] None) ->
  exists ps s1 l, dropped_pages inner m h n s ps s1 /\ inner s1 (HReaddir h n) = (s', RInfos l None) /\
    (l = [] \/ (length ps = re_fuel /\ filter_infos m l = [])).
Proof. intros St inner m s w h n s' w'. exact (C13_listing_refills St inner m s w h n s' w' C13_readdir_refills). Qed.
Print Assumptions C13_listing_refills_unconditional.
