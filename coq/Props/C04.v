(* C04 — linearizability of MemMapFs (PARTIAL: the Go scheduler, the memory model and
   preemption inside a critical section are outside the model; the bounded quantifier of the
   property is covered by search over recorded histories, see checks/c04.py).
   Statements only; proofs in Proofs/LinProof.v.

   WHAT IS NOT PROVED.  The section machine has NO LOCKS: a call is a sequence of atomic sections
   and between two sections of one call ANY call of another thread may run.  The section table
   read off the source is the table of the sections of the FILESYSTEM lock mu.  Operations on
   handles (Read, Write, Truncate, Readdirnames, ... of mem.File) never take mu, only the mutex
   of their file or directory, so in the code they also run INSIDE a section of mu, between two
   file-mutex sections of a namespace method; the machine with the one-section table does not
   show those interleavings.  For the methods where such a window was found the translator reads
   the finer shape as well: Readdirnames and Rename (their split switches), and OpenFile's
   preparation of the handle: [lin_openfile_finish_one_hold] says whether the O_APPEND seek and
   the O_TRUNC truncation share ONE hold of the file's mutex.  Before the repair they did not
   (Seek, then Truncate), and a Write through another handle fell in between:
   [C04_refuted_openfile_append_trunc_write_before_fix] replays that recorded history in the
   machine with [sc_open_finish] on.  Today they do (mem.File.PrepareOpen), so against handle
   operations OpenFile is one step: [C04_today_openfile_finish_one_hold],
   [C04_today_linearizable_for_handles]; reverting the repair flips the constant and breaks
   both.  For every OTHER namespace method, "no handle operation can observe a state between two
   of its file-mutex sections" is not a theorem: it is covered on the search side by the
   lock-aware mode of the cooperative scheduler (every lock acquisition is a switching point;
   exhaustive under a preemption bound for fixed window programs; REPORT-lin.md sections 9-10).
   Which mutex protects which section against which handle operation stays outside the model.
*)
From Coq Require Import Sorting.Permutation.
From AF Require Import Lib.Bytes Lib.Path Lib.Ops Gen.Consts Model.MemFile Model.MemFs Model.Lin
  Proofs.LinProof.
Local Open Scope Z_scope.

(* "Atomic objects are linearizable": in ANY machine whose calls each execute as ONE atomic step
   of the specification at some instant between invocation and response, every history — any
   number of threads and calls, any interleaving — is linearizable; the order of those steps
   is the witness. *)
Theorem C04_atomic_section_linearizable :
  forall (St Op Res PC Obs : Type) (step : St -> Op -> St * Res) (obs : St -> Obs)
         (sec : St -> Op -> PC -> St * (PC + Res)) (pc0 : PC) s0 progs sched hist,
  (forall p o, In p progs -> In o p -> lin_atomic_op step sec pc0 o) ->
  Permutation hist (lg_lin (lin_run sec pc0 s0 progs sched)) ->
  linearizable step obs s0 hist (obs (lg_st (lin_run sec pc0 s0 progs sched))).
Proof. exact @atomic_machine_linearizable. Qed.
Print Assumptions C04_atomic_section_linearizable.

(* ... which covers the single-critical-section methods of MemMapFs (Create, Open, Stat,
   Remove, Chown, and every file I/O method under the file mutex except Readdirnames, which has
   its own switch; Rename is one section of mu, but a section for the listings through directory
   handles only under its two switches), whatever the shape of the other methods: *)
Theorem C04_single_section_methods_atomic : forall k c,
  ln_single_today (snd c) = true -> lin_atomic_op lin_step (ln_sec k) LnStart c.
Proof. exact ln_single_today_atomic. Qed.
Print Assumptions C04_single_section_methods_atomic.

(* MemMapFs: every history of calls whose effect happens in one section that is the
   specification's step — possibly after an unlocked pre-check that changes nothing, as in the
   double-checked Mkdir — is linearizable w.r.t. the sequential model. *)
Theorem C04_sections_linearizable : forall k s0 progs sched hist,
  (forall p c, In p progs -> In c p -> ln_lin_ok k (snd c) = true) ->
  Permutation hist (lg_lin (ln_run k s0 progs sched)) ->
  linearizable lin_step lin_obs s0 hist (lin_obs (lg_st (ln_run k s0 progs sched))).
Proof. exact sections_linearizable. Qed.
Print Assumptions C04_sections_linearizable.

(* with OpenFile, Mkdir and RemoveAll repaired (one effective section each) that is EVERY program *)
Theorem C04_repaired_linearizable : forall s0 progs sched hist,
  Permutation hist (lg_lin (ln_run ln_cfg_atomic s0 progs sched)) ->
  linearizable lin_step lin_obs s0 hist (lin_obs (lg_st (ln_run ln_cfg_atomic s0 progs sched))).
Proof. exact repaired_linearizable. Qed.
Print Assumptions C04_repaired_linearizable.

(* Refutations for the multi-section shapes ([refuted k s0] = some history produced by the
   section machine from s0 is rejected by the complete checker, hence has NO linearization). *)
Theorem C04_refuted_excl_create : forall k, sc_open_split k = true ->
  exists hist fin, produced_by_sections k lin_init hist fin /\
    lin_check_mem lin_init hist fin = false /\ ~ linearizable lin_step lin_obs lin_init hist fin.
Proof. exact refuted_excl_create. Qed.
Print Assumptions C04_refuted_excl_create.

Theorem C04_refuted_mkdir_then_remove : forall k, sc_mkdir_setmode k = true ->
  exists hist fin, produced_by_sections k lin_init hist fin /\
    lin_check_mem lin_init hist fin = false /\ ~ linearizable lin_step lin_obs lin_init hist fin.
Proof. exact refuted_mkdir_then_remove. Qed.
Print Assumptions C04_refuted_mkdir_then_remove.

Theorem C04_refuted_removeall : forall k, sc_rmall_split k = true ->
  exists hist fin, produced_by_sections k w3_s0 hist fin /\
    lin_check_mem w3_s0 hist fin = false /\ ~ linearizable lin_step lin_obs w3_s0 hist fin.
Proof. exact refuted_removeall. Qed.
Print Assumptions C04_refuted_removeall.

Theorem C04_refuted_chmod_rename : forall k, sc_chmod_split k = true ->
  exists hist fin, produced_by_sections k w4_s0 hist fin /\
    lin_check_mem w4_s0 hist fin = false /\ ~ linearizable lin_step lin_obs w4_s0 hist fin.
Proof. exact refuted_chmod_rename. Qed.
Print Assumptions C04_refuted_chmod_rename.

Theorem C04_refuted_chtimes_rename : forall k, sc_chtimes_split k = true ->
  exists hist fin, produced_by_sections k w4_s0 hist fin /\
    lin_check_mem w4_s0 hist fin = false /\ ~ linearizable lin_step lin_obs w4_s0 hist fin.
Proof. exact refuted_chtimes_rename. Qed.
Print Assumptions C04_refuted_chtimes_rename.

(* Readdirnames on an open directory handle ‖ Rename of a child out of that directory, when the
   names are read after the directory's locked section: the listing is ["g"], a name /d never had *)
Theorem C04_refuted_readdirnames_rename : forall k, sc_rdnames_split k = true ->
  exists hist fin, produced_by_sections k w6_s0 hist fin /\
    lin_check_mem w6_s0 hist fin = false /\ ~ linearizable lin_step lin_obs w6_s0 hist fin.
Proof. exact refuted_readdirnames_rename. Qed.
Print Assumptions C04_refuted_readdirnames_rename.

(* OpenFile(O_WRONLY|O_CREATE|O_TRUNC) ‖ Chtimes on the name it creates, when the truncation runs
   after the locked lookup/creation section: Chtimes returns ok after the creation, yet the file
   ends with the truncation's time stamp *)
Theorem C04_refuted_openfile_trunc : forall k, sc_open_split k = false -> sc_open_finish k = true ->
  exists hist fin, produced_by_sections k lin_init hist fin /\
    lin_check_mem lin_init hist fin = false /\ ~ linearizable lin_step lin_obs lin_init hist fin.
Proof. exact refuted_openfile_trunc. Qed.
Print Assumptions C04_refuted_openfile_trunc.

(* The window of OpenFile BEFORE its repair (lin_openfile_finish_one_hold = 0: Seek and Truncate, two
   holds of the file's mutex; corpus/C04/openfile-append-trunc-write.case, now a regression case).
   OpenFile(O_RDWR|O_APPEND|O_TRUNC) on /f = "abcd" ‖ Write of 8 bytes through another handle ‖ then a
   one-byte Write through the new handle.  In the machine whose OpenFile finishes its handle in
   separate sections (seek to the end; truncate) the other Write runs between the two: the new
   handle's offset is 4, the final content 00 00 00 00 4e — the results recorded from that code by
   the lock-aware scheduler — and no order of the three calls explains them.  The interloper uses a
   handle only (it does not take mu), which is why that code admitted this run although the seek
   and the truncate lay in one section of mu and [sc_open_finish ln_cfg_today = false].  The
   statement is about every table with the split shape; [ln_cfg_handles_today] has that shape iff
   the regenerated switch is 0 (C04_today_openfile_for_handles below). *)
Theorem C04_refuted_openfile_append_trunc_write_before_fix : forall k, sc_open_split k = false -> sc_open_finish k = true ->
  Forall (fun c : lop => op_handle_of (snd c) <> None) (nth 1 w10_progs []) /\
  (map (fun x => (lc_op x, lc_res x)) (lg_lin (ln_run k w10_s0 w10_progs w10_sched)) =
     [((None, HWrite 20 [87; 87; 87; 87; 87; 87; 87; 87]%N), RCount 8 None);
      ((Some 10%nat, OpenFile w_f w_apptr 412), RHandle 0); ((None, HWrite 10 [78]%N), RCount 1 None)] /\
   map e_data (lin_obs (lg_st (ln_run k w10_s0 w10_progs w10_sched))) = [[]; [0; 0; 0; 0; 78]%N]) /\
  exists hist fin, produced_by_sections k w10_s0 hist fin /\
    lin_check_mem w10_s0 hist fin = false /\ ~ linearizable lin_step lin_obs w10_s0 hist fin.
Proof.
  intros k H1 H2. split; [exact w10_writer_handles_only|].
  split; [now apply refuted_openfile_append_trunc_write_results|now apply refuted_openfile_append_trunc_write].
Qed.
Print Assumptions C04_refuted_openfile_append_trunc_write_before_fix.

(* Rename and the listings through directory handles.  A handle lists its directory under the
   directory's mutex, not under mu, so it can run INSIDE Rename's write-locked section of mu,
   between two holds of directory mutexes.  In both witnesses the goroutine that runs between
   Rename's sections uses nothing but such handles (w8/w9_lister_handles_only).
   (i) /d/x -> /e/x, the entry leaves /d and enters /e under separate holds: a listing of /d and
   then one of /e show x in neither *)
Theorem C04_refuted_rename_two_parents : forall k, sc_rename_parents_split k = true ->
  Forall (fun c : lop => op_handle_of (snd c) <> None) (nth 1 w8_progs []) /\
  lin_quiescent (ln_run k w8_s0 w8_progs w8_sched) = true /\
  map (fun x => (lc_op x, lc_res x)) (lg_lin (ln_run k w8_s0 w8_progs w8_sched)) =
    [((None, HReaddirnames 10 (-1)), RNames [] None); ((None, HReaddirnames 11 (-1)), RNames [] None);
     ((None, Rename w_dx w_ex), ROk)] /\
  exists hist fin, produced_by_sections k w8_s0 hist fin /\
    lin_check_mem w8_s0 hist fin = false /\ ~ linearizable lin_step lin_obs w8_s0 hist fin.
Proof.
  intros k Hk. split; [exact w8_lister_handles_only|].
  split.
  - destruct k as [a b c d e f0 g h0 i j]; cbn [sc_rename_parents_split] in Hk; subst i.
    destruct a, b, c, d, e, f0, g, h0, j; vm_compute; reflexivity.
  - split; [now apply refuted_rename_two_parents_results|now apply refuted_rename_two_parents].
Qed.
Print Assumptions C04_refuted_rename_two_parents.

(* (ii) /d -> /g, the children of /d are unregistered and registered again one by one: a listing
   of the directory through a handle shows one child of two *)
Theorem C04_refuted_rename_dir_children : forall k, sc_rename_kids_split k = true ->
  Forall (fun c : lop => op_handle_of (snd c) <> None) (nth 1 w9_progs []) /\
  map (fun x => (lc_op x, lc_res x)) (lg_lin (ln_run k w9_s0 w9_progs (w9_sched k))) =
    [((None, HReaddirnames 10 (-1)), RNames [[121%N]] None); ((None, Rename w_d w_g), ROk)] /\
  exists hist fin, produced_by_sections k w9_s0 hist fin /\
    lin_check_mem w9_s0 hist fin = false /\ ~ linearizable lin_step lin_obs w9_s0 hist fin.
Proof.
  intros k Hk. split; [exact w9_lister_handles_only|].
  split; [now apply refuted_rename_dir_children_results|now apply refuted_rename_dir_children].
Qed.
Print Assumptions C04_refuted_rename_dir_children.

(* THE CODE AS IT IS TODAY (constants regenerated from memmap.go on every check): for each of the
   three methods, either its refutation applies, or — once it is repaired — it belongs to the
   fragment of C04_sections_linearizable.  The same proof script covers both states. *)
Theorem C04_today_openfile :
  if sc_open_split ln_cfg_today || sc_open_finish ln_cfg_today
  then exists hist fin, produced_by_sections ln_cfg_today lin_init hist fin /\
         ~ linearizable lin_step lin_obs lin_init hist fin
  else forall p flag perm, ln_lin_ok ln_cfg_today (OpenFile p flag perm) = true.
Proof.
  destruct (sc_open_split ln_cfg_today) eqn:E; cbn [orb].
  - destruct (refuted_excl_create _ E) as (h & f & H1 & _ & H3). now exists h, f.
  - destruct (sc_open_finish ln_cfg_today) eqn:E2.
    + destruct (refuted_openfile_trunc _ E E2) as (h & f & H1 & _ & H3). now exists h, f.
    + intros. cbn [ln_lin_ok]. now rewrite E, E2.
Qed.
Print Assumptions C04_today_openfile.

Theorem C04_today_readdirnames :
  if sc_rdnames_split ln_cfg_today
  then exists hist fin, produced_by_sections ln_cfg_today w6_s0 hist fin /\
         ~ linearizable lin_step lin_obs w6_s0 hist fin
  else forall h n, ln_lin_ok ln_cfg_today (HReaddirnames h n) = true.
Proof.
  destruct (sc_rdnames_split ln_cfg_today) eqn:E.
  - destruct (refuted_readdirnames_rename _ E) as (h & f & H1 & _ & H3). now exists h, f.
  - intros. cbn [ln_lin_ok]. now rewrite E.
Qed.
Print Assumptions C04_today_readdirnames.

Theorem C04_today_rename :
  if sc_rename_parents_split ln_cfg_today
  then exists hist fin, produced_by_sections ln_cfg_today w8_s0 hist fin /\
         ~ linearizable lin_step lin_obs w8_s0 hist fin
  else if sc_rename_kids_split ln_cfg_today
  then exists hist fin, produced_by_sections ln_cfg_today w9_s0 hist fin /\
         ~ linearizable lin_step lin_obs w9_s0 hist fin
  else forall p q, ln_lin_ok ln_cfg_today (Rename p q) = true.
Proof.
  destruct (sc_rename_parents_split ln_cfg_today) eqn:E.
  - destruct (refuted_rename_two_parents _ E) as (h & f & H1 & _ & H3). now exists h, f.
  - destruct (sc_rename_kids_split ln_cfg_today) eqn:E2.
    + destruct (refuted_rename_dir_children _ E2) as (h & f & H1 & _ & H3). now exists h, f.
    + intros. cbn [ln_lin_ok]. now rewrite E, E2.
Qed.
Print Assumptions C04_today_rename.

Theorem C04_today_mkdir :
  if sc_mkdir_setmode ln_cfg_today
  then exists hist fin, produced_by_sections ln_cfg_today lin_init hist fin /\
         ~ linearizable lin_step lin_obs lin_init hist fin
  else forall p perm, ln_lin_ok ln_cfg_today (Mkdir p perm) = true /\ ln_lin_ok ln_cfg_today (MkdirAll p perm) = true.
Proof.
  destruct (sc_mkdir_setmode ln_cfg_today) eqn:E.
  - destruct (refuted_mkdir_then_remove _ E) as (h & f & H1 & _ & H3). now exists h, f.
  - intros. cbn [ln_lin_ok]. now rewrite E.
Qed.
Print Assumptions C04_today_mkdir.

Theorem C04_today_removeall :
  if sc_rmall_split ln_cfg_today
  then exists hist fin, produced_by_sections ln_cfg_today w3_s0 hist fin /\
         ~ linearizable lin_step lin_obs w3_s0 hist fin
  else forall p, ln_lin_ok ln_cfg_today (RemoveAll p) = true.
Proof.
  destruct (sc_rmall_split ln_cfg_today) eqn:E.
  - destruct (refuted_removeall _ E) as (h & f & H1 & _ & H3). now exists h, f.
  - intros. cbn [ln_lin_ok]. now rewrite E.
Qed.
Print Assumptions C04_today_removeall.

Theorem C04_today_chmod_chtimes :
  (if sc_chmod_split ln_cfg_today
   then exists hist fin, produced_by_sections ln_cfg_today w4_s0 hist fin /\
          ~ linearizable lin_step lin_obs w4_s0 hist fin
   else forall p m, ln_lin_ok ln_cfg_today (Chmod p m) = true) /\
  (if sc_chtimes_split ln_cfg_today
   then exists hist fin, produced_by_sections ln_cfg_today w4_s0 hist fin /\
          ~ linearizable lin_step lin_obs w4_s0 hist fin
   else forall p t, ln_lin_ok ln_cfg_today (Chtimes p t) = true).
Proof.
  split.
  - destruct (sc_chmod_split ln_cfg_today) eqn:E.
    + destruct (refuted_chmod_rename _ E) as (h & f & H1 & _ & H3). now exists h, f.
    + intros. cbn [ln_lin_ok]. now rewrite E.
  - destruct (sc_chtimes_split ln_cfg_today) eqn:E.
    + destruct (refuted_chtimes_rename _ E) as (h & f & H1 & _ & H3). now exists h, f.
    + intros. cbn [ln_lin_ok]. now rewrite E.
Qed.
Print Assumptions C04_today_chmod_chtimes.

(* TODAY'S (repaired) CODE, as facts about the regenerated constants: OpenFile finishes its
   handle inside its locked section, Readdirnames takes the names inside the directory's locked
   section, and so does every other switch stand in its one-section position.  A library change
   that re-opens one of these windows flips a constant and breaks these proofs. *)
Theorem C04_today_openfile_one_section :
  sc_open_split ln_cfg_today = false /\ sc_open_finish ln_cfg_today = false.
Proof. split; reflexivity. Qed.
Print Assumptions C04_today_openfile_one_section.

Theorem C04_today_readdirnames_locked : sc_rdnames_split ln_cfg_today = false.
Proof. reflexivity. Qed.
Print Assumptions C04_today_readdirnames_locked.

(* OpenFile prepares its handle under ONE hold of the file's mutex (mem.File.PrepareOpen): the table
   as handle operations see it is the table of mu.  Reverting that repair makes the constant 0 and
   breaks these three proofs; the first one then holds in its other branch. *)
Theorem C04_today_openfile_for_handles :
  if sc_open_split ln_cfg_handles_today || sc_open_finish ln_cfg_handles_today
  then exists hist fin, produced_by_sections ln_cfg_handles_today (if sc_open_split ln_cfg_handles_today then lin_init else w10_s0) hist fin /\
         ~ linearizable lin_step lin_obs (if sc_open_split ln_cfg_handles_today then lin_init else w10_s0) hist fin
  else forall p flag perm, ln_lin_ok ln_cfg_handles_today (OpenFile p flag perm) = true.
Proof.
  destruct (sc_open_split ln_cfg_handles_today) eqn:E; cbn [orb].
  - destruct (refuted_excl_create _ E) as (h & f & H1 & _ & H3). now exists h, f.
  - destruct (sc_open_finish ln_cfg_handles_today) eqn:E2.
    + destruct (refuted_openfile_append_trunc_write _ E E2) as (h & f & H1 & _ & H3). now exists h, f.
    + intros. cbn [ln_lin_ok]. now rewrite E, E2.
Qed.
Print Assumptions C04_today_openfile_for_handles.

Theorem C04_today_openfile_finish_one_hold :
  lin_openfile_finish_one_hold = 1 /\ sc_open_finish ln_cfg_handles_today = false /\ ln_cfg_handles_today = ln_cfg_today.
Proof. repeat split; reflexivity. Qed.
Print Assumptions C04_today_openfile_finish_one_hold.

Theorem C04_today_linearizable_for_handles : forall s0 progs sched hist,
  Permutation hist (lg_lin (ln_run ln_cfg_handles_today s0 progs sched)) ->
  linearizable lin_step lin_obs s0 hist (lin_obs (lg_st (ln_run ln_cfg_handles_today s0 progs sched))).
Proof. intros s0 progs sched hist. apply sections_linearizable. intros p c _ _. destruct c as [slot o]. destruct o; reflexivity. Qed.
Print Assumptions C04_today_linearizable_for_handles.

(* hence EVERY history of the section machine of today's code — any goroutines, calls, schedule —
   is linearizable.  The sections are those of mu: handle operations that run inside another
   call's section of mu are not behaviours of this machine, except where the table says so
   (Readdirnames, Rename, and OpenFile through ln_cfg_handles_today above; see the head of this file) *)
(* Rename holds both parents across the move and re-keys the children of a directory under one
   hold of its mutex *)
Theorem C04_today_rename_directories_held :
  sc_rename_parents_split ln_cfg_today = false /\ sc_rename_kids_split ln_cfg_today = false.
Proof. split; reflexivity. Qed.
Print Assumptions C04_today_rename_directories_held.

Theorem C04_today_all_one_section :
  sc_open_split ln_cfg_today = false /\ sc_mkdir_setmode ln_cfg_today = false /\ sc_rmall_split ln_cfg_today = false /\
  sc_chmod_split ln_cfg_today = false /\ sc_chtimes_split ln_cfg_today = false /\
  sc_open_finish ln_cfg_today = false /\ sc_rdnames_split ln_cfg_today = false /\
  sc_rename_parents_split ln_cfg_today = false /\ sc_rename_kids_split ln_cfg_today = false.
Proof. repeat split; reflexivity. Qed.
Print Assumptions C04_today_all_one_section.

Theorem C04_today_linearizable : forall s0 progs sched hist,
  Permutation hist (lg_lin (ln_run ln_cfg_today s0 progs sched)) ->
  linearizable lin_step lin_obs s0 hist (lin_obs (lg_st (ln_run ln_cfg_today s0 progs sched))).
Proof. intros s0 progs sched hist. apply sections_linearizable. intros p c _ _. destruct c as [slot o]. destruct o; reflexivity. Qed.
Print Assumptions C04_today_linearizable.

(* "Exactly one of several concurrent Mkdir calls for the same name succeeds": ANY number of
   threads, each calling Mkdir of one free (normalised) name with any permissions, under ANY
   interleaving of their sections, whatever the configuration: when all have returned, exactly
   one call reported success and every other one reported "exists".
   The name must be creatable at all: below_file = false, i.e. walking up with filepath.Dir the
   first existing ancestor is not a regular file (Model/MemFs.v below_file = memmap.go
   lockfreeBelowFile; there Mkdir answers ENOTDIR to every caller — C01_below_file_refused). *)
Theorem C04_mkdir_exactly_one : forall k name (s0 : lstate) perms sched,
  normalize_path name = name -> lookup (fst s0) name = None -> below_file (fst s0) name = false -> perms <> [] ->
  lin_quiescent (ln_run k s0 (mk_progs name perms) sched) = true ->
  cnt mk_won (lg_lin (ln_run k s0 (mk_progs name perms) sched)) = 1%nat /\
  Forall (fun x => lc_res x = ROk \/ lc_res x = RErr (EW KExist)) (lg_lin (ln_run k s0 (mk_progs name perms) sched)).
Proof. intros k name s0 perms sched Hn. now apply mkdir_exactly_one. Qed.
Print Assumptions C04_mkdir_exactly_one.

(* the checker used for the refutations is sound and complete for the definition *)
Theorem C04_checker_correct : forall s0 hist fin,
  lin_check_mem s0 hist fin = true <-> linearizable lin_step lin_obs s0 hist fin.
Proof. intros; split; [apply lin_check_mem_sound|apply lin_check_mem_complete]. Qed.
Print Assumptions C04_checker_correct.

(* ---- the model computes; the hypotheses are satisfiable ---- *)
(* today's configuration as read from the source *)
Example C04_cfg_today_value :
  (sc_open_split ln_cfg_today, sc_open_setmode ln_cfg_today, sc_mkdir_setmode ln_cfg_today, sc_rmall_split ln_cfg_today)
  = (Z.eqb lin_openfile_split 1, Z.eqb lin_openfile_setmode 1, Z.eqb lin_mkdir_setmode 1, negb (Z.eqb lin_removeall_locks 1))
  /\ (sc_chmod_split ln_cfg_today, sc_chtimes_split ln_cfg_today) = (negb (Z.eqb lin_chmod_locks 1), negb (Z.eqb lin_chtimes_locks 1))
  /\ (sc_open_finish ln_cfg_today, sc_rdnames_split ln_cfg_today) = (Z.eqb lin_openfile_finish_outside 1, Z.eqb lin_readdirnames_outside 1)
  /\ (sc_rename_parents_split ln_cfg_today, sc_rename_kids_split ln_cfg_today) = (Z.eqb lin_rename_parents_apart 1, Z.eqb lin_rename_children_apart 1).
Proof. repeat split; reflexivity. Qed.

(* the excl-create witness: both calls return a handle; run one after the other the second
   gets "exists" *)
Example C04_excl_witness_two_winners :
  map lc_res (lg_lin (ln_run (mkCfg true true true true true true true true true true) lin_init w1_progs w1_sched)) = [RHandle 0; RHandle 0]
  /\ snd (lin_replay lin_step lin_init (concat w1_progs)) = [RHandle 0; RErr (EW KExist)].
Proof. split; vm_compute; reflexivity. Qed.

Example C04_mkdir_witness :
  map (fun x => (lc_op x, lc_res x)) (lg_lin (ln_run (mkCfg true true true true true true true true true true) lin_init w2_progs w2_sched)) =
  [((None, Remove w_d), ROk); ((None, Mkdir w_d 493), RErr (EW KNotExist))].
Proof. vm_compute. reflexivity. Qed.

(* a linearizable history is accepted: the same two excl-creates run atomically *)
Example C04_atomic_excl_ok :
  lin_check_mem lin_init (lg_lin (ln_run ln_cfg_atomic lin_init w1_progs w1_sched))
    (lin_obs (lg_st (ln_run ln_cfg_atomic lin_init w1_progs w1_sched))) = true
  /\ map lc_res (lg_lin (ln_run ln_cfg_atomic lin_init w1_progs w1_sched)) = [RHandle 0; RErr (EW KExist)].
Proof. split; vm_compute; reflexivity. Qed.

(* three concurrent Mkdir of /d under an interleaved schedule: exactly one ok *)
Example C04_mkdir_three :
  cnt mk_won (lg_lin (ln_run (mkCfg true true true true true true true true true true) lin_init (mk_progs w_d [448; 493; 511])
      [0; 1; 2; 0; 1; 2; 2; 1; 0; 0; 1; 2; 0; 1; 2; 0; 1; 2]%nat)) = 1%nat
  /\ lin_quiescent (ln_run (mkCfg true true true true true true true true true true) lin_init (mk_progs w_d [448; 493; 511])
      [0; 1; 2; 0; 1; 2; 2; 1; 0; 0; 1; 2; 0; 1; 2; 0; 1; 2]%nat) = true.
Proof. split; vm_compute; reflexivity. Qed.

(* the Readdirnames witness: the listing is ["g"]; one after the other it is ["x"] or [] *)
Example C04_readdirnames_witness :
  map (fun x => (lc_op x, lc_res x)) (lg_lin (ln_run (mkCfg false false false false false false false true false false) w6_s0 w6_progs w6_sched)) =
    [((None, Rename w_dx w_g), ROk); ((None, HReaddirnames 10 (-1)), RNames [[103%N]] None)]
  /\ snd (lin_replay lin_step w6_s0 (concat w6_progs)) = [RNames [[120%N]] None; ROk]
  /\ snd (lin_replay lin_step w6_s0 (concat (rev w6_progs))) = [ROk; RNames [] None].
Proof. repeat split; vm_compute; reflexivity. Qed.

(* the split Readdirnames run back to back is the specification's (for every state) *)
Example C04_readdirnames_back_to_back : forall s i count,
  m_step_raw s (HReaddirnames i count) =
  match ln_rdn_list s i count with
  | (s1, inl (refs, e)) => (s1, RNames (ln_rdn_names s1 refs) e)
  | (s1, inr r) => (s1, r)
  end.
Proof. exact ln_rdn_back_to_back. Qed.

(* the OpenFile witness: Chtimes ok, OpenFile a handle, /f ends with time "now"; one after the
   other the file keeps Chtimes' 1000, or Chtimes does not find it *)
Example C04_openfile_trunc_witness :
  map e_mtime (lin_obs (lg_st (ln_run (mkCfg false false false false false false true false false false) lin_init w7_progs w7_sched))) = [BIG; BIG]
  /\ map e_mtime (lin_obs (fst (lin_replay lin_step lin_init (concat w7_progs)))) = [BIG; 1000]
  /\ snd (lin_replay lin_step lin_init (concat (rev w7_progs))) = [RErr (EW KNotExist); RHandle 0].
Proof. repeat split; vm_compute; reflexivity. Qed.

(* an OpenFile whose handle is finished outside its locked section, run ALONE, does what the
   specification does: same results and same final tree for every flag word below, on an existing
   file with content and on a free name, followed by a write through the new handle (which shows
   the offset) *)
Definition C04_flag_words : list Z :=
  [0; 1; 2; 1024; 1025; 1026; 512; 513; 514; 1536; 1537; 1538; 64; 65; 66; 577; 578; 1089; 1090; 1601; 1602; 192; 194; 706].
Definition C04_alone_setup : list lop :=
  [(Some 1%nat, OpenFile w_f 66 420); (None, HWrite 1 [97; 98; 99]%N); (None, HClose 1)].
Definition C04_alone_s0 : lstate := fst (lin_replay lin_step lin_init C04_alone_setup).
Definition C04_alone (k : seccfg) (p : str) (flag : Z) :=
  let c := ln_run k C04_alone_s0 [[(Some 10%nat, OpenFile p flag 384); (None, HWrite 10 [90; 90]%N)]] (repeat 0%nat 12) in
  (map lc_res (lg_lin c), lin_obs (lg_st c), lin_quiescent c).
Example C04_openfile_split_alone_is_sequential :
  forallb (fun flag =>
    let a := C04_alone (mkCfg false false false false false false true false false false) w_f flag in
    let b := C04_alone ln_cfg_atomic w_f flag in
    let a' := C04_alone (mkCfg false false false false false false true false false false) w_g flag in
    let b' := C04_alone ln_cfg_atomic w_g flag in
    lin_list_eqb lin_res_eqb (fst (fst a)) (fst (fst b)) && lin_obs_eqb (snd (fst a)) (snd (fst b)) && snd a && snd b &&
    lin_list_eqb lin_res_eqb (fst (fst a')) (fst (fst b')) && lin_obs_eqb (snd (fst a')) (snd (fst b')) && snd a' && snd b')
    C04_flag_words = true.
Proof. vm_compute. reflexivity. Qed.

(* a Rename whose directory changes are separate sections, run ALONE, does what the specification
   does: same result and same final tree, for a file moved between two directories, a directory
   with children, a rename onto an existing name, onto a missing parent (ancestors are created),
   of a missing name, onto itself *)
Definition C04_ren_setup : list lop :=
  [(None, Mkdir w_d 493); (None, Mkdir w_e 493); (Some 1%nat, Create w_dx); (Some 2%nat, Create w_dy); (Some 3%nat, Create w_f);
   (None, Mkdir (w_d ++ [47; 122]%N) 493); (Some 4%nat, Create (w_d ++ [47; 122; 47; 119]%N))].
Definition C04_ren_s0 : lstate := fst (lin_replay lin_step lin_init C04_ren_setup).
Definition C04_ren_alone (k : seccfg) (pq : str * str) :=
  let c := ln_run k C04_ren_s0 [[(None, Rename (fst pq) (snd pq)); (Some 20%nat, Open w_g)]] (repeat 0%nat 40) in
  (map lc_res (lg_lin c), lin_obs (lg_st c), lin_quiescent c).
Example C04_rename_split_alone_is_sequential :
  forallb (fun pq =>
    forallb (fun k =>
      let a := C04_ren_alone k pq in
      let b := C04_ren_alone ln_cfg_atomic pq in
      lin_list_eqb lin_res_eqb (fst (fst a)) (fst (fst b)) && lin_obs_eqb (snd (fst a)) (snd (fst b)) && snd a && snd b)
      [mkCfg false false false false false false false false true false;
       mkCfg false false false false false false false false false true;
       mkCfg false false false false false false false false true true])
    [(w_dx, w_ex); (w_d, w_g); (w_dx, w_dy); (w_f, w_g ++ [47; 113; 47; 102]%N); (w_g, w_f); (w_d, w_d); (w_d, w_e ++ [47; 100]%N);
     (w_f, w_dx ++ [47; 102]%N)] = true.
Proof. vm_compute. reflexivity. Qed.
