(* C10 — CacheOnReadFs, the read path.
   "Reading a file through the caching filesystem returns the base's current content the first time and
    leaves a byte-identical copy with the base's modification time in the cache layer.  With cache duration
    zero a cached file is served from the cache for ever, whatever later happens to the base; with a
    positive duration the cached copy is served until it is older than the duration and the base copy is
    newer, at which point the next access returns the base's new content and refreshes the cache."
   Statements only; proofs in Proofs/CacheProof.v.  Model: Model/Cache.v (cacheOnReadFs.go) over
   Model/Union.v (copyFile / copyToLayer); [now] = time.Now() during the call, [dur] = the cache duration. *)
From AF Require Import Lib.Bytes Lib.Path Lib.Ops Gen.Consts Model.MemFile Model.MemFs Model.Union Model.Cow
  Model.Cache Model.Stack Model.WfOps Proofs.MemFsBasics Proofs.MemFsWF Proofs.MemFsStep Proofs.MemFsInv Proofs.CacheProof
  Proofs.CacheReady Proofs.CacheInv Proofs.CacheInvMain.
Local Open Scope Z_scope.

(* (a) cacheStatus classifies by exactly the three rules — over ARBITRARY inner filesystems.
   x = the result of cacheStatus, rl / rb = what the layer's / the base's Stat returns. *)
Theorem C10_status_rules :
  forall (B L : Type) (bstep : B -> op -> B * res) (lstep : L -> op -> L * res) (dur now : Z) (sb : B) (sl : L) (name : str),
  let x := cache_status bstep lstep dur now sb sl name in
  let rl := snd (lstep sl (Stat name)) in
  let rb := snd (bstep sb (Stat name)) in
  (* miss (without error) iff the layer's Stat fails with a not-exist error *)
  (cs_state x = CMiss /\ cs_err x = None <-> no_info rl /\ is_not_exist (err_of rl) = true) /\
  (no_info rl -> is_not_exist (err_of rl) = false -> cs_err x = Some (err_of rl)) /\
  (forall lfi : finfo, rl = RInfo lfi ->
     cs_err x = None /\
     (* duration 0: a hit whenever the layer has the file; the base is not even asked *)
     (dur = 0 -> cs_state x = CHit /\ cs_fi x = Some lfi /\ cs_base x = sb) /\
     (dur <> 0 ->
        (* stale iff the copy is older than the duration AND the base's Stat succeeds AND the base copy is newer *)
        (cs_state x = CStale <-> fi_mtime lfi + dur < now /\ (exists bfi, rb = RInfo bfi /\ fi_mtime lfi < fi_mtime bfi)) /\
        (* local iff expired and the base's Stat fails *)
        (cs_state x = CLocal <-> fi_mtime lfi + dur < now /\ no_info rb) /\
        (cs_state x = CHit <-> ~ fi_mtime lfi + dur < now \/ (exists bfi, rb = RInfo bfi /\ fi_mtime bfi <= fi_mtime lfi)) /\
        (cs_state x = CStale -> exists bfi, rb = RInfo bfi /\ cs_fi x = Some bfi) /\
        (cs_state x <> CStale -> cs_fi x = Some lfi) /\
        (~ fi_mtime lfi + dur < now -> cs_base x = sb))).
Proof. exact @status_rules. Qed.
Print Assumptions C10_status_rules.

(* (b) what Open does in each status, for a regular file (definitional, stated as theorems):
   hit / local: the layer's Open, the base is not called after cacheStatus;
   stale / miss: CacheOnReadFs.copyToLayer [cache_copy_to_layer], then the layer's Open (the handle reads the
   fresh copy).  cache_copy_to_layer (since the fix, switch cache_copy_dir_mkdir) Stats the base first: a
   directory is created in the layer, anything else goes to Union's copyToLayer — see C10_cache_copy below. *)
Theorem C10_open_by_status :
  forall (B L : Type) (bstep : B -> op -> B * res) (lstep : L -> op -> L * res) (dur now : Z) (sb : B) (sl : L)
         (tbl : list chandle) (p : str) (sb1 : B) (sl1 : L),
  (forall f, cache_status bstep lstep dur now sb sl p = (sb1, sl1, CHit, Some f, None) -> fi_dir f = false ->
     cache_step bstep lstep dur now (sb, sl, tbl) (Open p) = open_layer lstep sb1 sl1 tbl (Open p)) /\
  (forall fi, cache_status bstep lstep dur now sb sl p = (sb1, sl1, CLocal, fi, None) ->
     cache_step bstep lstep dur now (sb, sl, tbl) (Open p) = open_layer lstep sb1 sl1 tbl (Open p)) /\
  (forall f, cache_status bstep lstep dur now sb sl p = (sb1, sl1, CStale, Some f, None) -> fi_dir f = false ->
     cache_step bstep lstep dur now (sb, sl, tbl) (Open p) =
     match cache_copy_to_layer bstep lstep sb1 sl1 p with
     | (sb3, sl2, Some ce) => ((sb3, sl2, tbl), RErr ce)
     | (sb3, sl2, None) => open_layer lstep sb3 sl2 tbl (Open p)
     end) /\
  (forall fi, cache_status bstep lstep dur now sb sl p = (sb1, sl1, CMiss, fi, None) ->
     cache_step bstep lstep dur now (sb, sl, tbl) (Open p) =
     match bstep sb1 (Stat p) with
     | (sb2, RInfo bfi) =>
       if fi_dir bfi then open_base bstep sb2 sl1 tbl (Open p)
       else match cache_copy_to_layer bstep lstep sb2 sl1 p with
            | (sb3, sl2, Some ce) => ((sb3, sl2, tbl), RErr ce)
            | (sb3, sl2, None) => open_layer lstep sb3 sl2 tbl (Open p)
            end
     | (sb2, r) => ((sb2, sl1, tbl), RErr (err_of r))
     end).
Proof.
  intros. split; [|split; [|split]]; intros.
  - now apply open_hit with (f := f).
  - now apply open_local with (fi := fi).
  - now apply open_stale with (f := f).
  - now apply open_miss with (fi := fi).
Qed.
Print Assumptions C10_open_by_status.

(* CacheOnReadFs.copyToLayer, over ARBITRARY inner filesystems: a base directory is created in the layer with
   the base's permission bits and nothing is copied; for anything that is not a directory (a regular file, or a
   base Stat that fails) it is Union's copyToLayer on the base state the Stat left.
   Depends on cache_copy_dir_mkdir = 1 (CacheProof.cache_copy_dir_mkdir_is_1). *)
Theorem C10_cache_copy :
  forall (B L : Type) (bstep : B -> op -> B * res) (lstep : L -> op -> L * res) (sb : B) (sl : L) (name : str),
  (forall sb1 fi, bstep sb (Stat name) = (sb1, RInfo fi) -> fi_dir fi = true ->
     cache_copy_to_layer bstep lstep sb sl name =
     match lstep sl (MkdirAll name (Z.land (fi_mode fi) 511)) with
     | (sl1, ROk) => (sb1, sl1, None)
     | (sl1, r) => (sb1, sl1, Some (err_of r))
     end) /\
  (forall sb1 fi, bstep sb (Stat name) = (sb1, RInfo fi) -> fi_dir fi = false ->
     cache_copy_to_layer bstep lstep sb sl name = copy_to_layer bstep lstep sb1 sl name) /\
  ((forall fi, snd (bstep sb (Stat name)) = RInfo fi -> fi_dir fi = false) ->
     cache_copy_to_layer bstep lstep sb sl name = copy_to_layer bstep lstep (fst (bstep sb (Stat name))) sl name).
Proof.
  intros. split; [|split]; intros.
  - now apply cache_copy_dir.
  - now apply cache_copy_file with (fi := fi).
  - now apply cache_copy_not_dir.
Qed.
Print Assumptions C10_cache_copy.

(* a handle that came from the layer: every method is the layer's; the base is never called *)
Theorem C10_cached_handle_reads_layer :
  forall (B L : Type) (bstep : B -> op -> B * res) (lstep : L -> op -> L * res) (dur now : Z) (sb : B) (sl : L)
         (tbl : list chandle) (o : op) (i h : nat),
  op_handle_of o = Some i -> nth_error tbl i = Some (HL h) ->
  cache_step bstep lstep dur now (sb, sl, tbl) o = (let '(sl1, r) := lstep sl (op_set_handle o h) in ((sb, sl1, tbl), r)).
Proof. exact @layer_handle_ops. Qed.
Print Assumptions C10_cached_handle_reads_layer.

(* (c) first read, MemMapFs layers: after a successful copyToLayer of a regular base file the layer holds
   exactly the base's bytes under the base's mtime, and the base holds what it held — for EVERY file size
   (induction on io.Copy's loop of 32 KiB reads).  Sane-state hypothesis [layer_ready]: the layer.Create that
   copyFile issues after its directory preparation returns a fresh read-write handle at offset 0 on an empty
   regular file registered under the name (discharged below for the two shapes a cache is in, and by
   computation for a fresh cache and a deep path). *)
Theorem C10_first_read :
  forall (sb sl : mst) (name : str) (fb : nat) (nb : node) (sb' sl' : mst),
  lookup sb (normalize_path name) = Some fb -> get_node sb fb = Some nb -> ndir nb = false ->
  layer_ready sl name ->
  copy_to_layer m_step m_step sb sl name = (sb', sl', None) ->
  exists fl nl, lookup sl' (normalize_path name) = Some fl /\ get_node sl' fl = Some nl /\
    ndir nl = false /\ ndata nl = ndata nb /\ nmtime nl = nmtime nb /\ fs_view sb' = fs_view sb.
Proof. exact first_read. Qed.
Print Assumptions C10_first_read.

(* the same for the copy as the cache issues it (cache_copy_to_layer: on MemMapFs the preceding Stat of a regular
   base file only ticks the clock, [fs_view] unchanged, and Union's copyToLayer follows) *)
Theorem C10_first_read_through_cache :
  forall (sb sl : mst) (name : str) (fb : nat) (nb : node) (sb' sl' : mst),
  lookup sb (normalize_path name) = Some fb -> get_node sb fb = Some nb -> ndir nb = false ->
  layer_ready sl name ->
  cache_copy_to_layer m_step m_step sb sl name = (sb', sl', None) ->
  exists fl nl, lookup sl' (normalize_path name) = Some fl /\ get_node sl' fl = Some nl /\
    ndir nl = false /\ ndata nl = ndata nb /\ nmtime nl = nmtime nb /\ fs_view sb' = fs_view sb.
Proof. exact first_read_cache. Qed.
Print Assumptions C10_first_read_through_cache.

Theorem C10_first_read_through_cache_succeeds :
  forall (sb sl : mst) (name : str) (fb : nat) (nb : node),
  lookup sb (normalize_path name) = Some fb -> get_node sb fb = Some nb -> ndir nb = false ->
  snd (dir_prep sl name) = None -> CreateOK (fst (dir_prep sl name)) name ->
  exists sb' sl' fl nl, cache_copy_to_layer m_step m_step sb sl name = (sb', sl', None) /\
    lookup sl' (normalize_path name) = Some fl /\ get_node sl' fl = Some nl /\
    ndir nl = false /\ ndata nl = ndata nb /\ nmtime nl = nmtime nb /\ fs_view sb' = fs_view sb.
Proof. exact cache_copy_correct. Qed.
Print Assumptions C10_first_read_through_cache_succeeds.

(* ... and under the same hypothesis the copy cannot fail once the directory preparation succeeded *)
Theorem C10_first_read_succeeds :
  forall (sb sl : mst) (name : str) (fb : nat) (nb : node),
  lookup sb (normalize_path name) = Some fb -> get_node sb fb = Some nb -> ndir nb = false ->
  snd (dir_prep sl name) = None -> CreateOK (fst (dir_prep sl name)) name ->
  exists sb' sl' fl nl, copy_to_layer m_step m_step sb sl name = (sb', sl', None) /\
    lookup sl' (normalize_path name) = Some fl /\ get_node sl' fl = Some nl /\
    ndir nl = false /\ ndata nl = ndata nb /\ nmtime nl = nmtime nb /\ fs_view sb' = fs_view sb.
Proof. exact copy_to_layer_correct. Qed.
Print Assumptions C10_first_read_succeeds.

(* the hypothesis holds (1) when the name is already cached as a regular file (the refresh of a stale copy) *)
Theorem C10_create_ok_cached :
  forall (s : mst) (name : str) (f : nat) (n : node),
  lookup s (normalize_path name) = Some f -> get_node s f = Some n -> ndir n = false -> CreateOK s name.
Proof. exact create_ok_cached. Qed.
Print Assumptions C10_create_ok_cached.

(* ... and (2) for a name the layer does not hold as a regular file (free, or bound to a directory) whose parent
   entry is a directory, in ANY state (well-formed or not) without dangling path-map entries *)
Theorem C10_create_ok_new :
  forall (s : mst) (name : str) (p : nat) (pn : node),
  wf_map s -> lookup s (normalize_path name) = None -> lookup s (parent_key (normalize_path name)) = Some p ->
  get_node s p = Some pn -> ndir pn = true ->
  CreateOK s name.
Proof. exact create_ok_new. Qed.
Print Assumptions C10_create_ok_new.

(* FULL STRENGTH of the sane-state hypothesis.  For EVERY state of the cache layer that satisfies the invariant WF
   of MemMapFs (Proofs/MemFsWF.v; it holds in every state reachable from the empty filesystem by well-formed
   programs: C01_index_mirrors_map / MemFsInv.wf_seq_WF, re-stated below as C10_layer_states_are_WF) and EVERY
   name that is absolute after normalisation and is not the root: if the layer holds no regular file at a
   proper ancestor of the name [no_file_prefix], then copyFile's directory preparation SUCCEEDS — the
   directory exists, or MkdirAll creates it together with every missing ancestor, at any depth — and the
   layer.Create that follows returns a fresh read-write handle at offset 0 on an empty regular file registered
   under the name (whatever the name was bound to before: nothing, a regular file, a directory).
   Nothing is missing; what used to be: "MkdirAll's effect on the path map" is MemFsStep.WF_mkdirall +
   FaultyMem.mkdirall_fresh, "an ancestor of a path is not the path" is MemFsPath.par_neq.
   The remaining hypothesis no_file_prefix is necessary: C10_layer_ready_refuted. *)
Theorem C10_layer_ready :
  forall (sl : mst) (name : str),
  WF sl -> wf_name name = true -> normalize_path name <> s_slash ->
  no_file_prefix sl (normalize_path name) = true ->
  snd (dir_prep sl name) = None /\ CreateOK (fst (dir_prep sl name)) name.
Proof. exact layer_ready_wf. Qed.
Print Assumptions C10_layer_ready.

(* hence the first read through the cache — CacheOnReadFs.copyToLayer of a regular base file — SUCCEEDS and
   leaves exactly the base's bytes under the base's mtime, the base unchanged: every file size, every
   well-formed layer state, every directory depth; no hypothesis on what the layer's calls return *)
Theorem C10_first_read_total :
  forall (sb sl : mst) (name : str) (fb : nat) (nb : node),
  lookup sb (normalize_path name) = Some fb -> get_node sb fb = Some nb -> ndir nb = false ->
  WF sl -> wf_name name = true -> normalize_path name <> s_slash ->
  no_file_prefix sl (normalize_path name) = true ->
  exists sb' sl' fl nl, cache_copy_to_layer m_step m_step sb sl name = (sb', sl', None) /\
    lookup sl' (normalize_path name) = Some fl /\ get_node sl' fl = Some nl /\
    ndir nl = false /\ ndata nl = ndata nb /\ nmtime nl = nmtime nb /\ fs_view sb' = fs_view sb.
Proof. exact first_read_total. Qed.
Print Assumptions C10_first_read_total.

(* with a well-formed base the side condition "not the root" is implied: the root is a directory *)
Theorem C10_first_read_total_wf_base :
  forall (sb sl : mst) (name : str) (fb : nat) (nb : node),
  WF sb -> lookup sb (normalize_path name) = Some fb -> get_node sb fb = Some nb -> ndir nb = false ->
  WF sl -> no_file_prefix sl (normalize_path name) = true ->
  exists sb' sl' fl nl, cache_copy_to_layer m_step m_step sb sl name = (sb', sl', None) /\
    lookup sl' (normalize_path name) = Some fl /\ get_node sl' fl = Some nl /\
    ndir nl = false /\ ndata nl = ndata nb /\ nmtime nl = nmtime nb /\ fs_view sb' = fs_view sb.
Proof. exact first_read_total_wf_base. Qed.
Print Assumptions C10_first_read_total_wf_base.

(* inside a cache whose modifications all went through it (the invariant CInv of C11: Props/C11.v, holds after
   every well-formed sequence of calls through the cache) every hypothesis on the layer is discharged: the
   first read of ANY regular file of the base succeeds *)
Theorem C10_first_read_in_cache :
  forall (sb sl : mst) (tbl : list chandle) (name : str) (fb : nat) (nb : node),
  CInv (sb, sl, tbl) -> lookup sb (normalize_path name) = Some fb -> get_node sb fb = Some nb -> ndir nb = false ->
  exists sb' sl' fl nl, cache_copy_to_layer m_step m_step sb sl name = (sb', sl', None) /\
    lookup sl' (normalize_path name) = Some fl /\ get_node sl' fl = Some nl /\
    ndir nl = false /\ ndata nl = ndata nb /\ nmtime nl = nmtime nb /\ fs_view sb' = fs_view sb.
Proof. exact first_read_cinv. Qed.
Print Assumptions C10_first_read_in_cache.

(* the states the theorems quantify over: every state of a MemMapFs reachable from the empty one by a
   well-formed program satisfies WF *)
Theorem C10_layer_states_are_WF :
  forall ops : list op, wf_seq m_init ops = true -> WF (fst (run_steps m_step m_init ops)).
Proof. exact index_mirrors_map. Qed.
Print Assumptions C10_layer_states_are_WF.

(* THE CORNER (why no_file_prefix cannot be dropped).  The layer holds a REGULAR FILE where the name needs a
   directory (base: /a was a file, was cached, then became a directory holding /a/f — direct modifications of
   the base are what C10 quantifies over).  Then, in every state: Exists(layer, dir) answers true (for any
   kind of entry), layer.Create answers ENOTDIR (MemMapFs creates nothing below a regular file), the copy
   returns that error, both trees are unchanged — and [layer_ready] is false.  The read through the cache
   fails with ENOTDIR; the cached file /a keeps being served (the "for ever" clause wins over the
   "first read" clause).  Witness replayed against the implementation: corpus/C10/below-cached-file.case. *)
Theorem C10_below_cached_file_refused :
  forall (sb sl : mst) (name : str) (fb : nat) (nb : node) (p : nat) (pn : node),
  lookup sb (normalize_path name) = Some fb -> get_node sb fb = Some nb ->
  wf_name name = true -> normalize_path name <> s_slash ->
  lookup sl (normalize_path name) = None ->
  lookup sl (par (normalize_path name)) = Some p -> get_node sl p = Some pn -> ndir pn = false ->
  ~ layer_ready sl name /\
  exists sb' sl', copy_to_layer m_step m_step sb sl name = (sb', sl', Some (EW KENOTDIR)) /\
    fs_view sl' = fs_view sl /\ fs_view sb' = fs_view sb.
Proof. exact copy_below_file_refused. Qed.
Print Assumptions C10_below_cached_file_refused.

(* (d) duration 0 is for ever: once the layer has the (regular) file, Open, OpenFile without write flags and
   Stat through the cache are the layer's — for ANY base state and ANY base implementation: the right-hand
   sides do not mention bstep, and the base component of the state is the one before *)
Theorem C10_zero_is_forever :
  forall (B L : Type) (bstep : B -> op -> B * res) (lstep : L -> op -> L * res) (now : Z) (sb : B) (sl : L)
         (tbl : list chandle) (p : str) (lfi : finfo),
  snd (lstep sl (Stat p)) = RInfo lfi ->
  (fi_dir lfi = false ->
     cache_step bstep lstep 0 now (sb, sl, tbl) (Open p) = open_layer lstep sb (fst (lstep sl (Stat p))) tbl (Open p)) /\
  (forall flag perm, Z.land flag cache_mask = 0 ->
     cache_step bstep lstep 0 now (sb, sl, tbl) (OpenFile p flag perm) =
     open_layer lstep sb (fst (lstep sl (Stat p))) tbl (OpenFile p flag perm)) /\
  cache_step bstep lstep 0 now (sb, sl, tbl) (Stat p) = ((sb, fst (lstep sl (Stat p)), tbl), RInfo lfi) /\
  (forall sl0 o, exists (sl' : L) (tbl' : list chandle) (r : res), open_layer lstep sb sl0 tbl o = ((sb, sl', tbl'), r)).
Proof.
  intros. split; [|split; [|split]].
  - intros Hf. now apply zero_open with (lfi := lfi).
  - intros flag perm Hm. now apply zero_openfile_rdonly with (lfi := lfi).
  - now apply zero_stat.
  - intros. apply open_layer_base.
Qed.
Print Assumptions C10_zero_is_forever.

(* ---- non-vacuity ---- *)
Definition p_f : str := [47; 102]%N.                          (* /f *)
Definition p_abf : str := [47; 97; 47; 98; 47; 102]%N.        (* /a/b/f *)

(* the sane-state hypothesis holds in a fresh (empty) cache for a path two directories deep: MkdirAll runs *)
Example C10_ex_layer_ready_fresh_cache : layer_ready m_init p_abf.
Proof.
  intros _. unfold CreateOK. vm_compute dir_prep. vm_compute m_step.
  repeat eexists; vm_compute; reflexivity.
Qed.
Example C10_ex_wf_init : wf_map m_init /\ lookup m_init (normalize_path p_f) = None /\
  lookup m_init (parent_key (normalize_path p_f)) = Some 0%nat.
Proof.
  split; [|split; vm_compute; reflexivity].
  intros k v H. unfold lookup, m_init in H. cbn [mdata alist_get] in H.
  destruct (beqb k s_slash); inversion H. cbn. lia.
Qed.

(* the rules, computed on the stacks the harness uses.  base /f = "old" stamped 1000; a cached copy "cach"
   stamped 1000 (equal) ... *)
Definition c10_setup (seed_mtime : Z) : list item :=
  [IOp [0%nat] (Some 0%nat) (Create p_f); IOp [0%nat] None (HWrite 0 [111;108;100]%N); IOp [0%nat] None (HClose 0);
   IOp [0%nat] None (Chtimes p_f 1000);
   IOp [1%nat] (Some 1%nat) (Create p_f); IOp [1%nat] None (HWrite 1 [99;97;99;104]%N); IOp [1%nat] None (HClose 1);
   IOp [1%nat] None (Chtimes p_f seed_mtime)].
Definition c10_read (slot : nat) : list item :=
  [IOp [] (Some slot) (Open p_f); IOp [] None (HRead slot 100)].
Definition c10_rewrite_base (t : Z) : list item :=
  [IOp [0%nat] (Some 9%nat) (Create p_f); IOp [0%nat] None (HWrite 9 [110;101;119]%N); IOp [0%nat] None (HClose 9);
   IOp [0%nat] None (Chtimes p_f t)].
Definition last_data (l : list tres) : option bytes :=
  match rev l with TRes (RData b _) :: _ => Some b | _ => None end.

(* duration 0: the cached bytes, also after the base was rewritten with a newer stamp *)
Example C10_ex_zero_forever :
  last_data (run_case (SCache 0 SMem SMem) (c10_setup 1000 ++ c10_rewrite_base 5000 ++ c10_read 2)) = Some [99;97;99;104]%N.
Proof. vm_compute. reflexivity. Qed.
(* duration 1000 s: copy stamped older than the base -> the base's new bytes (and the cache is refreshed) *)
Example C10_ex_stale_refetched :
  last_data (run_case (SCache 1000 SMem SMem) (c10_setup 1000 ++ c10_rewrite_base 5000 ++ c10_read 2)) = Some [110;101;119]%N
  /\ last_data (run_case (SCache 1000 SMem SMem) (c10_setup 1000 ++ c10_rewrite_base 5000 ++ c10_read 2 ++ c10_rewrite_base 5000 ++ c10_read 3))
     = Some [110;101;119]%N.
Proof. vm_compute. split; reflexivity. Qed.
(* duration 1000 s, base rewritten but stamped EQUAL to the copy: the cached bytes (boundary of After) *)
Example C10_ex_equal_mtime_served :
  last_data (run_case (SCache 1000 SMem SMem) (c10_setup 1000 ++ c10_rewrite_base 1000 ++ c10_read 2)) = Some [99;97;99;104]%N.
Proof. vm_compute. reflexivity. Qed.
(* no cached copy: the first read returns the base's bytes and the layer then holds them with the base's mtime *)
Example C10_ex_first_read :
  run_case (SCache 1000 SMem SMem)
    ([IOp [0%nat] (Some 0%nat) (Create p_abf); IOp [0%nat] None (HWrite 0 [111;108;100]%N); IOp [0%nat] None (HClose 0);
      IOp [0%nat] None (Chtimes p_abf 1000); IOp [] (Some 2%nat) (Open p_abf); IOp [] None (HRead 2 100); IOp [1%nat] None (Stat p_abf)])
  = [TRes (RHandle 0); TRes (RCount 3 None); TRes ROk; TRes ROk; TRes (RHandle 0); TRes (RData [111;108;100]%N None);
     TRes (RInfo (mkFi [102]%N false 3 mode_temporary 1000))].
Proof. vm_compute. reflexivity. Qed.

(* ---- the corner, on a reachable state: the layer after [Create /a; Close] (a well-formed program, hence WF),
   name /a/f ---- *)
Definition p_a : str := [47; 97]%N.                           (* /a *)
Definition p_af : str := [47; 97; 47; 102]%N.                 (* /a/f *)
Definition c10_layer_with_file : mst := Eval vm_compute in fst (run_steps m_step m_init [Create p_a; HClose 0]).
Example C10_layer_ready_refuted :
  exists (sl : mst) (name : str),
    WF sl /\ wf_name name = true /\ normalize_path name <> s_slash /\ ~ layer_ready sl name.
Proof.
  exists c10_layer_with_file, p_af. split; [|split; [|split]].
  - exact (index_mirrors_map [Create p_a; HClose 0] eq_refl).
  - vm_compute. reflexivity.
  - vm_compute. discriminate.
  - intros H. assert (Hp : snd (dir_prep c10_layer_with_file p_af) = None) by (vm_compute; reflexivity).
    destruct (H Hp) as (s2 & lh & fl & nl & Hc & _). vm_compute in Hc. discriminate Hc.
Qed.
(* through the whole stack: base /a/f = "old" under a directory /a, the cache layer holds a regular file /a:
   Open(/a/f) through the cache answers ENOTDIR, Stat(/a) through the cache still shows the cached file *)
Example C10_ex_below_cached_file :
  run_case (SCache 0 SMem SMem)
    [IOp [0%nat] None (Mkdir p_a 493); IOp [0%nat] (Some 0%nat) (Create p_af); IOp [0%nat] None (HWrite 0 [111;108;100]%N);
     IOp [0%nat] None (HClose 0);
     IOp [1%nat] (Some 1%nat) (Create p_a); IOp [1%nat] None (HClose 1);
     IOp [] (Some 2%nat) (Open p_af); IOp [] None (Stat p_a)]
  = [TRes ROk; TRes (RHandle 0); TRes (RCount 3 None); TRes ROk; TRes (RHandle 0); TRes ROk;
     TRes (RErr (EW KENOTDIR)); TRes (RInfo (mkFi [97]%N false 0 mode_temporary (BIG + 5000)))].
Proof. vm_compute. reflexivity. Qed.

(* ---- non-vacuity of C10_layer_ready / C10_first_read_total: a reachable layer (a directory /a holding a
   file, a file /g) and a name three directories below /a: WF, absolute, not the root, no regular file on
   the way — and the preparation creates /a/b and /a/b/c ---- *)
Definition p_g : str := [47; 103]%N.                                              (* /g *)
Definition p_abcf : str := [47; 97; 47; 98; 47; 99; 47; 102]%N.                   (* /a/b/c/f *)
Definition c10_prog : list op := [Mkdir p_a 493; Create p_af; HWrite 0 [120]%N; HClose 0; Create p_g; HClose 1].
Definition c10_layer_deep : mst := Eval vm_compute in fst (run_steps m_step m_init c10_prog).
Example C10_ex_layer_ready_hyps :
  WF c10_layer_deep /\ wf_name p_abcf = true /\ normalize_path p_abcf <> s_slash /\
  no_file_prefix c10_layer_deep (normalize_path p_abcf) = true.
Proof.
  split; [exact (index_mirrors_map c10_prog eq_refl)|]. split; [vm_compute; reflexivity|].
  split; [vm_compute; discriminate | vm_compute; reflexivity].
Qed.
Example C10_ex_layer_ready_computes :
  snd (dir_prep c10_layer_deep p_abcf) = None /\
  map e_path (snapshot (fst (dir_prep c10_layer_deep p_abcf))) =
    [[47]; [47;97]; [47;97;47;98]; [47;97;47;98;47;99]; [47;97;47;102]; [47;103]]%N.
Proof. vm_compute. split; reflexivity. Qed.
