(* C05 — CopyOnWriteFs never modifies its base: no sequence of calls made through it, nor through
   any file handle it returns, changes the base filesystem — same paths, contents, modes and
   modification times — even when the base is itself writable, for every open flag combination,
   including opens that request no write access.
   Statements only; proofs in Proofs/CowProof.v (+ Proofs/MemFsBasics.v, Proofs/ReadOnlyProof.v). *)
From AF Require Import Lib.Bytes Lib.Path Lib.Ops Gen.Consts Model.MemFile Model.MemFs Model.ReadOnly
  Model.Union Model.Cow Proofs.MemFsBasics Proofs.ReadOnlyProof Proofs.CowProof.
Local Open Scope Z_scope.

(* The only fact about the source constants: the mask CopyOnWriteFs.OpenFile tests contains every
   bit of the mask ReadOnlyFs.OpenFile tests (read from copyOnWriteFs.go / readonlyfs.go on every
   run).  So an OpenFile that is sent to the base is one a ReadOnlyFs would have forwarded. *)
Theorem C05_mask_fact : Z.land cow_mask readonly_mask = readonly_mask.
Proof. exact cow_mask_covers_readonly_mask. Qed.
Print Assumptions C05_mask_fact.

(* Every call cow_step hands to the base step function satisfies ro_passes ("a ReadOnlyFs would
   forward it": Stat, Open, OpenFile with flag & readonly_mask = 0, file-handle methods).
   Phrased without inspecting traces: ANY predicate on base states that all such calls preserve is
   preserved by one CopyOnWriteFs call — for both inner filesystems arbitrary, every op (all Fs
   methods, every integer flag and perm, all handle methods incl. those of union handles and the
   copy-up path) and every state (any handle table, also one naming foreign base handles). *)
Theorem C05_base_calls_harmless :
  forall (B L : Type) (bstep : B -> op -> B * res) (lstep : L -> op -> L * res) (P : B -> Prop),
  (forall s o, ro_passes o = true -> P s -> P (fst (bstep s o))) ->
  forall (st : B * L * list chandle) (o : op),
  P (fst (fst st)) -> P (fst (fst (fst (cow_step bstep lstep st o)))).
Proof. exact @cow_step_P. Qed.
Print Assumptions C05_base_calls_harmless.

(* the same read as a trace: the base state after the call is reached from the one before by a
   list of base calls that all satisfy ro_passes *)
Theorem C05_base_sees_only_forwardable_calls :
  forall (B L : Type) (bstep : B -> op -> B * res) (lstep : L -> op -> L * res) (st : B * L * list chandle) (o : op),
  exists calls, forallb ro_passes calls = true /\
    fst (fst (fst (cow_step bstep lstep st o))) = fst (run_steps bstep (fst (fst st)) calls).
Proof. exact @cow_step_base_trace. Qed.
Print Assumptions C05_base_sees_only_forwardable_calls.

(* ... and for the pieces other wrappers reuse: every UnionFile method, copyToLayer *)
Theorem C05_unionfile_base_calls_harmless :
  forall (B L : Type) (bstep : B -> op -> B * res) (lstep : L -> op -> L * res) (P : B -> Prop),
  (forall s o, ro_passes o = true -> P s -> P (fst (bstep s o))) ->
  forall sb sl u o, P sb -> P (fst (fst (fst (uf_op bstep lstep sb sl u o)))).
Proof. exact @uf_op_P. Qed.
Print Assumptions C05_unionfile_base_calls_harmless.

Theorem C05_copy_up_base_calls_harmless :
  forall (B L : Type) (bstep : B -> op -> B * res) (lstep : L -> op -> L * res) (P : B -> Prop),
  (forall s o, ro_passes o = true -> P s -> P (fst (bstep s o))) ->
  forall sb sl name, P sb -> P (fst (fst (copy_to_layer bstep lstep sb sl name))).
Proof. exact @copy_to_layer_P. Qed.
Print Assumptions C05_copy_up_base_calls_harmless.

(* No call sequence (any length, any ops, any flags, writes attempted on any returned handle)
   changes what the base holds — for EVERY base satisfying the contract K of C07 ("a call that
   ReadOnlyFs forwards does not change the stored filesystem and keeps Inv") and EVERY overlay. *)
Theorem C05_base_frozen_any_base :
  forall (B L V : Type) (bstep : B -> op -> B * res) (lstep : L -> op -> L * res) (view : B -> V) (Inv : B -> Prop),
  (forall s o, ro_passes o = true -> Inv s -> view (fst (bstep s o)) = view s /\ Inv (fst (bstep s o))) ->
  forall ops sb sl tbl, Inv sb ->
  view (fst (fst (fst (run_steps (cow_step bstep lstep) (sb, sl, tbl) ops)))) = view sb /\
  Inv (fst (fst (fst (run_steps (cow_step bstep lstep) (sb, sl, tbl) ops)))).
Proof. exact @cow_base_frozen. Qed.
Print Assumptions C05_base_frozen_any_base.

(* Instance: the base is a (writable) MemMapFs, the overlay is ANY filesystem.  Inv = every handle
   that already exists on the base is read-only or closed; the conclusion is about the whole
   path map with contents, modes and mtimes (snapshot). *)
Theorem C05_base_frozen_mem :
  forall (L : Type) (lstep : L -> op -> L * res) ops sb sl tbl, all_inert sb ->
  snapshot (fst (fst (fst (run_steps (cow_step m_step lstep) (sb, sl, tbl) ops)))) = snapshot sb /\
  all_inert (fst (fst (fst (run_steps (cow_step m_step lstep) (sb, sl, tbl) ops)))).
Proof. exact @cow_mem_base_frozen. Qed.
Print Assumptions C05_base_frozen_mem.

Theorem C05_base_frozen_readonly_mem :
  forall (L : Type) (lstep : L -> op -> L * res) ops sb sl tbl, all_inert sb ->
  snapshot (fst (fst (fst (run_steps (cow_step (ro_step m_step) lstep) (sb, sl, tbl) ops)))) = snapshot sb.
Proof. exact @cow_ro_mem_base_frozen. Qed.
Print Assumptions C05_base_frozen_readonly_mem.

(* non-vacuity: a base holding /a = "abc" (all handles closed) satisfies the hypothesis; through
   cow(mem,mem): an open with a "no write access" flag word (O_SYNC) yields a handle whose writes
   are refused; a write open copies up and writes to the overlay; the base snapshot is unchanged
   while the overlay now holds the modified copy *)
Definition c05_base : mst :=
  fst (run_steps m_step m_init [Create [47;97]%N; HWrite 0 [97;98;99]%N; HClose 0; Chtimes [47;97]%N 1000]).
Example C05_ex_inert : forall i h, nth_error (mhandles c05_base) i = Some h -> inert h = true.
Proof. intros [|[|i]] h H; vm_compute in H; inversion H; reflexivity || (destruct i; discriminate). Qed.
Definition c05_prog : list op :=
  [OpenFile [47;97]%N o_sync 0; HWrite 0 [9]%N; HTruncate 0 0;
   OpenFile [47;97]%N o_rdwr 0; HWrite 1 [120]%N; HClose 1; Remove [47;97]%N; Stat [47;97]%N].
Example C05_ex_results : snd (run_steps (cow_step m_step m_step) (c05_base, m_init, []) c05_prog)
  = [RHandle 0; RCount 0 (Some (EW KReadOnlyHandle)); RErr (EW KReadOnlyHandle);
     RHandle 1; RCount 1 None; ROk; ROk; RInfo (mkFi [97]%N false 3 mode_temporary 1000)].
Proof. vm_compute. reflexivity. Qed.
Example C05_ex_base_same :
  snapshot (fst (fst (fst (run_steps (cow_step m_step m_step) (c05_base, m_init, []) c05_prog)))) = snapshot c05_base.
Proof. vm_compute. reflexivity. Qed.
