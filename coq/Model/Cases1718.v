(* Model/Cases1718.v — the harness cases of C17 (second part) and C18 as Gallina functions: the
   extracted runner (ocaml/drv_c17b.ml, drv_c18.ml) only parses the case line, calls these and
   prints; the same functions are re-evaluated inside Coq (vm_compute) for the cross-check. *)
From AF Require Import Lib.Bytes Lib.Path Lib.Ops Gen.Consts Model.MemFile Model.MemFs Model.Stack Model.Digest
  Model.IOUtil Model.Temp.
Local Open Scope Z_scope.

(* ---- C17: wfile / wreader / swreader ---- *)
Inductive io_setup := IoMkdir (p : str) | IoFile (p : str) (data : bytes).

Definition io_run_setup (k : stack) (u : ust) (setup : list io_setup) : ust :=
  fold_left (fun u it => match it with
                         | IoMkdir p => fst (ustep k u (MkdirAll p 493))           (* 0o755 *)
                         | IoFile p d => fst (write_file (ustep k) u p d 420)      (* 0o644 *)
                         end) setup u.

(* the reader's chunks: pieces of these lengths, the rest last *)
Fixpoint io_cut (lens : list nat) (d : bytes) : list bytes :=
  match lens with
  | [] => [d]
  | n :: r => firstn n d :: io_cut r (skipn n d)
  end.

(* payload generators of the case language *)
Definition io_seq (seed : N) (n : nat) : bytes :=
  map (fun i => let i := N.of_nat i in ((seed + 31 * i + i / 256) mod 256)%N) (seq 0 n).

(* targets of the MemMapFs layers of a stack, in the harness's order *)
Fixpoint stack_mem_targets (k : stack) (tgt : list nat) : list (list nat) :=
  match k with
  | SMem => [tgt]
  | SReadOnly a | SBasePath _ a | SRegexp _ a | SFaulty _ a => stack_mem_targets a (tgt ++ [0%nat])
  | SCow a b | SCache _ a b => stack_mem_targets a (tgt ++ [0%nat]) ++ stack_mem_targets b (tgt ++ [1%nat])
  end.

(* kind: 0 = WriteFile, 1 = WriteReader, otherwise SafeWriteReader *)
Definition io_case (kind : nat) (k : stack) (setup : list io_setup) (p : str) (data : bytes)
    (lens : list nat) (perm : Z) : res * res * list (list entry) :=
  let u0 := io_run_setup k (uset_clock k (uinit k) BIG) setup in
  let '(u1, w) := match kind with
                  | O => write_file (ustep k) u0 p data perm
                  | S O => write_reader (ustep k) u0 p (io_cut lens data)
                  | _ => safe_write_reader (ustep k) u0 p (io_cut lens data)
                  end in
  let '(u2, r) := read_file (ustep k) u1 p in
  (w, r, map (fun t => usnapshot k t u2) (stack_mem_targets k [])).

Definition io_case_digest (kind : nat) (k : stack) (setup : list io_setup) (p : str) (data : bytes)
    (lens : list nat) (perm : Z) : N :=
  let '(w, r, snaps) := io_case kind k setup p data lens perm in
  fold_left (fun h sn => fold_left d_entry sn (mix h 31)) snaps (d_res (d_res 17 w) r).

(* ---- C18: temp ---- *)
Inductive temp_pre :=
| TpMkdir                 (* D: MkdirAll(dir, 0755) *)
| TpDirIsFile             (* F: WriteFile(dir, "iamfile") *)
| TpKeep                  (* K: WriteFile(dir/keep.txt, "keep") *)
| TpCandFile (i : nat)    (* f<i>: candidate i pre-exists as a file holding "pre<i>" *)
| TpCandDir (i : nat).    (* d<i>: ... as a directory *)

(* digits of candidate number i (1-based) from generator state r *)
Fixpoint temp_candidate (r : Z) (i : nat) : str :=
  match i with
  | O => []
  | S j => let '(r', nm) := next_random r in match j with O => nm | _ => temp_candidate r' j end
  end.

Definition temp_reset_val (seed : Z) (j : nat) : Z :=
  let v := (seed * 31 + (Z.of_nat j + 1) * 1000003) mod temp_two32 in if v =? 0 then 1 else v.

Definition s_tmp : str := [47; 116; 109; 112]%N.                         (* "/tmp" = os.TempDir() *)
Definition s_keep : str := [107; 101; 101; 112; 46; 116; 120; 116]%N.    (* "keep.txt" *)
Definition s_keep_data : bytes := [107; 101; 101; 112]%N.                (* "keep" *)
Definition s_iamfile : bytes := [105; 97; 109; 102; 105; 108; 101]%N.    (* "iamfile" *)
Definition s_pre (i : nat) : bytes := [112; 114; 101]%N ++ temp_itoa (Z.of_nat i).   (* "pre<i>" *)

Definition temp_case (k : stack) (seed : Z) (dir pat : str) (isfile : bool) (pre : list temp_pre) (ncalls : nat)
  : list (temp_res * option str * bool) :=
  let step := ustep k in
  let dir_eff := if is_empty dir then s_tmp else dir in
  let '(prefix, suffix) := if isfile then temp_prefix_suffix pat else (pat, []) in
  let cand i := join2 dir_eff (prefix ++ temp_candidate seed i ++ suffix) in
  let u1 := fold_left (fun u it =>
      match it with
      | TpMkdir => fst (step u (MkdirAll dir 493))
      | TpDirIsFile => fst (write_file step u dir s_iamfile 420)
      | TpKeep => fst (write_file step u (join2 dir_eff s_keep) s_keep_data 420)
      | TpCandFile i => fst (write_file step u (cand i) (s_pre i) 420)
      | TpCandDir i => fst (step u (Mkdir (cand i) 493))
      end) pre (uset_clock k (uinit k) BIG) in
  let calls := repeat (isfile, dir, pat) ncalls in
  let resets := map (temp_reset_val seed) (seq 0 (S ncalls)) in
  let seeds := map (fun j => 424242421 + 1000 * Z.of_nat j) (seq 0 (2 * ncalls + 4)) in
  let '(_, _, results) := temp_calls step s_tmp u1 (mkTG seed seeds 0) calls resets in
  results.

Definition d_temp (h : N) (x : temp_res * option str * bool) : N :=
  let '(r, nm, reseeded) := x in
  let h1 := match r with
            | TempOk n hd => mix (d_bytes (mix h 1) n) (match hd with Some i => N.of_nat i + 1 | None => 0 end)%N
            | TempErr e => d_err (mix h 2) e
            | TempNil => mix h 3
            | TempPanic => mix h 4
            end in
  d_bool (match nm with Some n => d_bytes (mix h1 1) n | None => mix h1 0 end) reseeded.

Definition temp_case_digest (k : stack) (seed : Z) (dir pat : str) (isfile : bool) (pre : list temp_pre) (ncalls : nat) : N :=
  fold_left d_temp (temp_case k seed dir pat isfile pre ncalls) 17%N.
