(* Model/FaultyRun.v — case runner for fault-injection cases ("fltcase" blocks): the items of
   Model/Stack.v plus `trace <target>`, which reports the calls a faulty:… stack element has
   seen so far (method codes of Model/Faulty.v, oldest first). *)
From AF Require Import Lib.Bytes Lib.Path Lib.Ops Gen.Consts Model.MemFile Model.MemFs Model.Faulty Model.Stack
  Model.Digest.

(* the stack element and its state at a target *)
Fixpoint flt_node (k : stack) (tgt : list nat) (u : ust) : option (stack * ust) :=
  match tgt with
  | [] => Some (k, u)
  | c :: t' =>
    match k with
    | SMem => None
    | SReadOnly k' | SBasePath _ k' | SRegexp _ k' | SFaulty _ k' => flt_node k' t' (unwrap1 u)
    | SCow kb kl | SCache _ kb kl =>
      match c with O => flt_node kb t' (base2 u) | _ => flt_node kl t' (layer2 u) end
    end
  end.

Definition flt_trace (k : stack) (tgt : list nat) (u : ust) : list nat :=
  match flt_node k tgt u with
  | Some (SFaulty _ _, UW1 tr _) => rev tr
  | _ => []
  end.

Inductive flt_item := FltItem (it : item) | FltTrace (tgt : list nat).
Inductive flt_res := FltRes (t : tres) | FltCalls (l : list nat).

(* item number i runs with time.Now() = BIG + 1000 * i on every layer (as Stack.run_items) *)
Fixpoint flt_run_items (k : stack) (i : Z) (st : ust * slots) (its : list flt_item) : list flt_res :=
  match its with
  | [] => []
  | FltTrace tgt :: r => FltCalls (flt_trace k tgt (fst st)) :: flt_run_items k (i + 1)%Z st r
  | FltItem it :: r =>
    let st0 := (uset_clock k (fst st) (BIG + 1000 * i)%Z, snd st) in
    let '(st', x) := run_item k st0 it in FltRes x :: flt_run_items k (i + 1)%Z st' r
  end.

Definition flt_run_case (k : stack) (its : list flt_item) : list flt_res :=
  flt_run_items k 0%Z (uinit k, []) its.

Definition flt_d_res (h : N) (r : flt_res) : N :=
  match r with
  | FltRes t => d_tres h t
  | FltCalls l => fold_left (fun h c => mix h (N.of_nat c)) l (mix h 23)
  end.
Definition flt_case_digest (k : stack) (its : list flt_item) : N :=
  fold_left flt_d_res (flt_run_case k its) 17%N.
