(* Model/MemFile.v — transcription of mem/file.go: the I/O methods of mem.File over the
   shared byte slice of its FileData.  A Go slice expression out of range is RPanic. *)
From AF Require Import Lib.Bytes Lib.Path Lib.Ops.
Local Open Scope Z_scope.

Record hnd := mkH { href : nat; hat : Z; hrdc : Z; hclosed : bool; hro : bool }.

Definition set_at (h : hnd) (a : Z) : hnd := mkH (href h) a (hrdc h) (hclosed h) (hro h).
Definition set_rdc (h : hnd) (c : Z) : hnd := mkH (href h) (hat h) c (hclosed h) (hro h).
Definition set_closed (h : hnd) : hnd := mkH (href h) (hat h) (hrdc h) true (hro h).

(* data[a:b] for 0 <= a <= b <= len *)
Definition slice (data : bytes) (a b : Z) : bytes :=
  firstn (Z.to_nat (b - a)) (skipn (Z.to_nat a) data).

(* File.Read with a buffer of length n *)
Definition f_read (data : bytes) (h : hnd) (n : Z) : hnd * res :=
  if hclosed h then (h, RData [] (Some (E KClosed)))
  else
    let len := zlen data in
    let at_ := hat h in
    if (0 <? n) && (at_ =? len) then (h, RData [] (Some (E KEOF)))
    else if len <? at_ then (h, RData [] (Some (E KUnexpectedEOF)))
    else if at_ <? 0 then (h, RPanic)
    else
      let k := if n <=? len - at_ then n else len - at_ in
      (set_at h (at_ + k), RData (slice data at_ (at_ + k)) None).

(* File.ReadAt *)
Definition f_readat (data : bytes) (h : hnd) (n off : Z) : hnd * res :=
  if off <? 0 then (h, RData [] (Some (EW KNegative)))
  else
    let '(h1, r) := f_read data (set_at h off) n in
    let h2 := set_at h1 (hat h) in
    match r with
    | RData b None => if zlen b <? n then (h2, RData b (Some (E KEOF))) else (h2, r)
    | _ => (h2, r)
    end.

(* the slice arithmetic of File.Write, for cur >= 0 *)
Definition go_write (data b : bytes) (cur : Z) : bytes :=
  let len := zlen data in
  let n := zlen b in
  let diff := cur - len in
  let tail := if n + cur <? len then skipn (Z.to_nat (n + cur)) data else [] in
  if 0 <? diff then (data ++ (zeros (Z.to_nat diff) ++ b)) ++ tail
  else (firstn (Z.to_nat cur) data ++ b) ++ tail.

(* File.Write : new data (None = unchanged), handle, result *)
Definition f_write (data : bytes) (h : hnd) (b : bytes) : option bytes * hnd * res :=
  if hclosed h then (None, h, RCount 0 (Some (E KClosed)))
  else if hro h then (None, h, RCount 0 (Some (EW KReadOnlyHandle)))
  else if zlen b =? 0 then (None, h, RCount 0 None)      (* n == 0: no effect *)
  else if hat h <? 0 then (None, h, RPanic)
  else (Some (go_write data b (hat h)), set_at h (hat h + zlen b), RCount (zlen b) None).

(* File.WriteAt : positional, the handle offset is restored *)
Definition f_writeat (data : bytes) (h : hnd) (b : bytes) (off : Z) : option bytes * hnd * res :=
  if off <? 0 then (None, h, RCount 0 (Some (EW KNegative)))
  else
    let '(d, h1, r) := f_write data (set_at h off) b in
    (d, set_at h1 (hat h), r).

(* File.Seek *)
Definition f_seek (data : bytes) (h : hnd) (off whence : Z) : hnd * res :=
  if hclosed h then (h, RPos 0 (Some (E KClosed)))
  else
    let target :=
      if whence =? 0 then off
      else if whence =? 1 then hat h + off
      else if whence =? 2 then zlen data + off
      else hat h in
    if target <? 0 then (h, RPos 0 (Some (EW KNegative)))
    else (set_at h target, RPos target None).

(* File.Truncate *)
Definition f_truncate (data : bytes) (h : hnd) (size : Z) : option bytes * res :=
  if hclosed h then (None, RErr (E KClosed))
  else if hro h then (None, RErr (EW KReadOnlyHandle))
  else if size <? 0 then (None, RErr (E KOutOfRange))
  else if zlen data <? size then (Some (data ++ zeros (Z.to_nat (size - zlen data))), ROk)
  else (Some (firstn (Z.to_nat size) data), ROk).

(* ---- a single in-memory file with k handles: the machine C02 is about ---- *)
Record fstate := mkFS { fdata : bytes; fhandles : list hnd }.

Definition upd_h (s : fstate) (i : nat) (h : hnd) : fstate := mkFS (fdata s) (list_set i h (fhandles s)).
Definition upd_d (s : fstate) (d : option bytes) : fstate :=
  match d with Some d' => mkFS d' (fhandles s) | None => s end.

Definition mf_step (s : fstate) (o : op) : fstate * res :=
  let with_h (i : nat) (k : hnd -> fstate * res) : fstate * res :=
    match nth_error (fhandles s) i with Some h => k h | None => (s, RNoSlot) end in
  match o with
  | HRead i n => with_h i (fun h => let '(h', r) := f_read (fdata s) h n in (upd_h s i h', r))
  | HReadAt i n off => with_h i (fun h => let '(h', r) := f_readat (fdata s) h n off in (upd_h s i h', r))
  | HWrite i b | HWriteString i b =>
      with_h i (fun h => let '(d, h', r) := f_write (fdata s) h b in (upd_d (upd_h s i h') d, r))
  | HWriteAt i b off =>
      with_h i (fun h => let '(d, h', r) := f_writeat (fdata s) h b off in (upd_d (upd_h s i h') d, r))
  | HSeek i off wh => with_h i (fun h => let '(h', r) := f_seek (fdata s) h off wh in (upd_h s i h', r))
  | HTruncate i n => with_h i (fun h => let '(d, r) := f_truncate (fdata s) h n in (upd_d s d, r))
  | HClose i => with_h i (fun h => if hclosed h then (s, RErr (E KClosed)) else (upd_h s i (set_closed h), ROk))
  | HStat i => with_h i (fun h => (s, RInfo (mkFi [] false (zlen (fdata s)) 0 0)))
  | HSync i => with_h i (fun h => (s, ROk))
  | _ => (s, RNoSlot)
  end.

Fixpoint run_steps {St} (step : St -> op -> St * res) (s : St) (ops : list op) : St * list res :=
  match ops with
  | [] => (s, [])
  | o :: r => let '(s1, x) := step s o in let '(s2, xs) := run_steps step s1 r in (s2, x :: xs)
  end.

(* initial state: k handles described by (read-only?, closed?) on an initial content *)
Definition mk_handles (spec : list (bool * bool)) : list hnd :=
  map (fun '(ro, cl) => mkH 0 0 0 cl ro) spec.
Definition mf_init (content : bytes) (spec : list (bool * bool)) : fstate := mkFS content (mk_handles spec).
