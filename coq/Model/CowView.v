(* Model/CowView.v — SPECIFICATION for C06: what a copy-on-write filesystem over two MemMapFs
   layers is supposed to show.  Definitions only (no transcription of Go code): the entry a layer
   holds under a path — kind and, for a regular file, its bytes — and the union view "the overlay's
   entry if the overlay has one, otherwise the base's".  Mode and modification time are
   deliberately not part of the view (copy-up changes the mode and a directory that copyFile
   creates in the overlay has a new mtime). *)
From AF Require Import Lib.Bytes Lib.Path Lib.Ops Gen.Consts Model.MemFile Model.MemFs.
Local Open Scope Z_scope.

(* the entry of one layer at the (normalised) path k: directory?, bytes (none for a directory) *)
Definition cview (s : mst) (k : str) : option (bool * bytes) :=
  match lookup s k with
  | Some r => match get_node s r with
              | Some n => Some (ndir n, if ndir n then [] else ndata n)
              | None => None
              end
  | None => None
  end.

(* the union view: overlay first *)
Definition uview (sb sl : mst) (k : str) : option (bool * bytes) :=
  match cview sl k with Some e => Some e | None => cview sb k end.

(* the open flags MemMapFs.OpenFile looks at when the file exists: what the first handle state is.
   (content after the open, offset of the handle, read-only?) *)
Definition open_spec (flag : Z) (data : bytes) : bytes * Z * bool :=
  let ro := Z.eqb (Z.land flag memfs_access_mask) 0 in
  let trunc := flag_has flag o_trunc && flag_has flag (Z.lor o_rdwr o_wronly) && negb ro in
  (if trunc then [] else data, if flag_has flag o_append then zlen data else 0, ro).

(* the handle methods of a regular file that C02 speaks about *)
Definition file_op (o : op) : bool :=
  match o with
  | HRead _ n | HReadAt _ n _ => 0 <=? n
  | HWrite _ _ | HWriteAt _ _ _ | HWriteString _ _ | HSeek _ _ _ | HTruncate _ _
  | HClose _ | HStat _ | HSync _ => true
  | _ => false
  end.

(* every path argument of the call is an absolute name (begins with the separator) *)
Definition op_names_abs (o : op) : bool :=
  match o with
  | Create p | Mkdir p _ | MkdirAll p _ | Open p | OpenFile p _ _ | Remove p | RemoveAll p | Stat p
  | Chmod p _ | Chown p _ _ | Chtimes p _ => is_rooted p
  | Rename p q => is_rooted p && is_rooted q
  | _ => true
  end.

(* a directory node carries no bytes (MemMapFs lets a program write through a handle it opened on
   a directory with write access; such a node then reports 42 bytes but holds others) *)
Definition dir_no_bytes (s : mst) (k : str) : Prop :=
  forall f nd, lookup s k = Some f -> get_node s f = Some nd -> ndir nd = true -> ndata nd = [].
