(* Model/Union.v — transcription of unionFile.go: UnionFile over a base handle and a layer
   handle, the default directory merge, copyFile / copyToLayer / copyFileToLayer.  Written
   against two arbitrary inner filesystems (base B, layer L) that are only CALLED through
   their step functions, so the same text serves MemMapFs layers and fault-injecting ones. *)
From AF Require Import Lib.Bytes Lib.Path Lib.Ops Gen.Consts.
Local Open Scope Z_scope.

Record ufile := mkUF { ubase : option nat; ulayer : option nat; uoff : Z; ufiles : list finfo }.

(* a handle handed out by a union filesystem *)
Inductive chandle := HB (h : nat) | HL (h : nat) | HU (u : ufile).

Definition eBADFD : err := E KEBADF.

Section Union.
Context {B L : Type} (bstep : B -> op -> B * res) (lstep : L -> op -> L * res).

Definition res_err (r : res) : option err :=
  match r with
  | RErr e => Some e
  | RData _ e | RCount _ e | RPos _ e | RInfos _ e | RNames _ e => e
  | RPanic | RNoSlot => Some (E KOther)
  | _ => None
  end.
Definition is_eof_err (e : option err) : bool :=
  match e with Some x => errk_eqb (ek x) KEOF | None => false end.
Definition ok_or_eof (e : option err) : bool := match e with None => true | _ => is_eof_err e end.

Definition set_err (r : res) (e : option err) : res :=
  match r with
  | RData b _ => RData b e
  | RCount n _ => RCount n e
  | RPos n _ => RPos n e
  | ROk => match e with Some x => RErr x | None => ROk end
  | RErr _ => match e with Some x => RErr x | None => ROk end
  | _ => r
  end.

(* defaultUnionMergeDirsFn: layer entries, then base entries whose name the layer lacks
   (Go builds a map; the ORDER of the result is the map's, i.e. unspecified) *)
Fixpoint dedupe_last (l : list finfo) : list finfo :=
  match l with
  | [] => []
  | x :: r => if existsb (fun y => beqb (fi_name y) (fi_name x)) r then dedupe_last r else x :: dedupe_last r
  end.
Definition merge_dirs (lfi bfi : list finfo) : list finfo :=
  dedupe_last lfi ++ dedupe_last (filter (fun b => negb (existsb (fun l => beqb (fi_name l) (fi_name b)) lfi)) bfi).

Definition count_of (r : res) : Z := match r with RData b _ => zlen b | _ => 0 end.

(* UnionFile.Write / WriteAt / WriteString after the layer took the bytes without an error (r) and the same
   call was made on the base (rb).  The tree as pinned (unionfile_write_checks_base_count = 0):
       _, err = f.Base.Write(s)             the layer's count with the base's error; the base's count is dropped
   repaired (= 1):
       nb, err = f.Base.Write(s)
       if err == nil && nb < n { n, err = nb, io.ErrShortWrite }
   Truncate and Sync have no count: the base's error only, in both shapes. *)
Definition is_write_op (o : op) : bool :=
  match o with HWrite _ _ | HWriteString _ _ | HWriteAt _ _ _ => true | _ => false end.
Definition union_write_result_gen (chk : Z) (o : op) (r rb : res) : res :=
  match r, rb with
  | RCount n _, RCount nb None =>
    if Z.eqb chk 1 && is_write_op o && (nb <? n) then RCount nb (Some (E KShortWrite))
    else set_err r (res_err rb)
  | _, _ => set_err r (res_err rb)
  end.
Definition union_write_result : op -> res -> res -> res :=
  union_write_result_gen unionfile_write_checks_base_count.

(* one method of UnionFile; state = (base fs, layer fs), the ufile itself is returned updated *)
Definition uf_op (sb : B) (sl : L) (u : ufile) (o : op) : B * L * ufile * res :=
  match o with
  | HClose _ =>
    let sb1 := match ubase u with Some bh => fst (bstep sb (HClose bh)) | None => sb end in
    match ulayer u with
    | Some lh => let '(sl1, r) := lstep sl (HClose lh) in (sb1, sl1, u, r)
    | None => (sb1, sl, u, RErr eBADFD)
    end
  | HRead _ n =>
    match ulayer u, ubase u with
    | Some lh, ob =>
      let '(sl1, r) := lstep sl (HRead lh n) in
      match ob with
      | Some bh =>
        if ok_or_eof (res_err r) then
          let '(sb1, rs) := bstep sb (HSeek bh (count_of r) 1) in
          match res_err rs with
          | Some se => (sb1, sl1, u, set_err r (Some se))
          | None => (sb1, sl1, u, r)
          end
        else (sb, sl1, u, r)
      | None => (sb, sl1, u, r)
      end
    | None, Some bh => let '(sb1, r) := bstep sb (HRead bh n) in (sb1, sl, u, r)
    | None, None => (sb, sl, u, RData [] (Some eBADFD))
    end
  | HReadAt _ n off =>
    match ulayer u, ubase u with
    | Some lh, ob =>
      let '(sl1, r) := lstep sl (HReadAt lh n off) in
      match ob with
      | Some bh =>
        if Z.eqb union_readat_seeks_base 1 && ok_or_eof (res_err r) then
          (* `_, err = f.Base.Seek(o+int64(n), io.SeekStart)` : the seek's error REPLACES err *)
          let '(sb1, rs) := bstep sb (HSeek bh (off + count_of r) 0) in
          (sb1, sl1, u, set_err r (res_err rs))
        else (sb, sl1, u, r)
      | None => (sb, sl1, u, r)
      end
    | None, Some bh => let '(sb1, r) := bstep sb (HReadAt bh n off) in (sb1, sl, u, r)
    | None, None => (sb, sl, u, RData [] (Some eBADFD))
    end
  | HSeek _ off wh =>
    match ulayer u, ubase u with
    | Some lh, ob =>
      let '(sl1, r) := lstep sl (HSeek lh off wh) in
      match ob with
      | Some bh =>
        if ok_or_eof (res_err r) then
          let '(sb1, rs) := bstep sb (HSeek bh off wh) in (sb1, sl1, u, set_err r (res_err rs))
        else (sb, sl1, u, r)
      | None => (sb, sl1, u, r)
      end
    | None, Some bh => let '(sb1, r) := bstep sb (HSeek bh off wh) in (sb1, sl, u, r)
    | None, None => (sb, sl, u, RPos 0 (Some eBADFD))
    end
  | HWrite _ _ | HWriteString _ _ | HWriteAt _ _ _ | HTruncate _ _ | HSync _ =>
    (* layer first; on success the same call on the base, whose error is reported — and, since the repair, a
       byte count of the base that is smaller than the layer's (union_write_result) *)
    match ulayer u, ubase u with
    | Some lh, ob =>
      let '(sl1, r) := lstep sl (op_set_handle o lh) in
      match ob, res_err r with
      | Some bh, None =>
        let '(sb1, rb) := bstep sb (op_set_handle o bh) in (sb1, sl1, u, union_write_result o r rb)
      | _, _ => (sb, sl1, u, r)
      end
    | None, Some bh => let '(sb1, r) := bstep sb (op_set_handle o bh) in (sb1, sl, u, r)
    | None, None =>
      (sb, sl, u, match o with HTruncate _ _ | HSync _ => RErr eBADFD | _ => RCount 0 (Some eBADFD) end)
    end
  | HName _ =>
    match ulayer u, ubase u with
    | Some lh, _ => let '(sl1, r) := lstep sl (HName lh) in (sb, sl1, u, r)
    | None, Some bh => let '(sb1, r) := bstep sb (HName bh) in (sb1, sl, u, r)
    | None, None => (sb, sl, u, RPanic)
    end
  | HStat _ =>
    match ulayer u, ubase u with
    | Some lh, _ => let '(sl1, r) := lstep sl (HStat lh) in (sb, sl1, u, r)
    | None, Some bh => let '(sb1, r) := bstep sb (HStat bh) in (sb1, sl, u, r)
    | None, None => (sb, sl, u, RErr eBADFD)
    end
  | HReaddir _ c | HReaddirnames _ c =>
    let names (r : res) : res :=
      match o, r with
      | HReaddirnames _ _, RInfos l None => RNames (map fi_name l) None
      | HReaddirnames _ _, RInfos l (Some e) => RNames [] (Some e)
      | _, _ => r
      end in
    (* fill the merged listing on first use (f.off == 0) *)
    let filled : B * L * option (list finfo) * option err :=
      if uoff u =? 0 then
        let '(sl1, lfi, le) :=
          match ulayer u with
          | Some lh => match lstep sl (HReaddir lh (-1)) with
                       | (s, RInfos l None) => (s, l, None)
                       | (s, r) => (s, [], match res_err r with Some e => Some e | None => Some (E KOther) end)
                       end
          | None => (sl, [], None)
          end in
        match le with
        | Some e => (sb, sl1, None, Some e)
        | None =>
          let '(sb1, bfi, be) :=
            match ubase u with
            | Some bh => match bstep sb (HReaddir bh (-1)) with
                         | (s, RInfos l None) => (s, l, None)
                         | (s, r) => (s, [], match res_err r with Some e => Some e | None => Some (E KOther) end)
                         end
            | None => (sb, [], None)
            end in
          match be with
          | Some e => (sb1, sl1, None, Some e)
          | None => (sb1, sl1, Some (ufiles u ++ merge_dirs lfi bfi), None)
          end
        end
      else (sb, sl, Some (ufiles u), None) in
    match filled with
    | (sb1, sl1, None, e) =>
      (* `return nil, err`: no entries and an error (canonical form of a failed listing: RErr) *)
      (sb1, sl1, u, match e with
                    | Some er => if errk_eqb (ek er) KEOF then names (RInfos [] e) else RErr er
                    | None => names (RInfos [] None)
                    end)
    | (sb1, sl1, Some all, _) =>
      let files := skipn (Z.to_nat (uoff u)) all in
      let u1 := mkUF (ubase u) (ulayer u) (uoff u) all in
      if c <=? 0 then
        (sb1, sl1,
         (if Z.eqb union_readdir_all_advances 1 then mkUF (ubase u) (ulayer u) (zlen all) all else u1),
         names (RInfos files None))
      else if zlen files =? 0 then (sb1, sl1, u1, names (RInfos [] (Some (E KEOF))))
      else
        let k := if zlen files <? c then zlen files else c in
        (sb1, sl1, mkUF (ubase u) (ulayer u) (uoff u + k) all, names (RInfos (firstn (Z.to_nat k) files) None))
    end
  | _ => (sb, sl, u, RNoSlot)
  end.

(* Exists(fs, path) on the layer *)
Definition l_exists (sl : L) (p : str) : L * (bool + err) :=
  match lstep sl (Stat p) with
  | (s, RInfo _) => (s, inl true)
  | (s, RErr e) => (s, if is_not_exist e then inl false else inr e)
  | (s, _) => (s, inr (E KOther))
  end.

(* io.Copy(lfh, bfh): 32 KiB reads from the base handle, written to the layer handle *)
Fixpoint io_copy (fuel : nat) (sb : B) (sl : L) (bh lh : nat) (written : Z) : B * L * Z * option err :=
  match fuel with
  | O => (sb, sl, written, Some (E KOther))
  | S f =>
    let '(sb1, r) := bstep sb (HRead bh 32768) in
    match r with
    | RData chunk er =>
      let '(sl1, w, werr) :=
        if 0 <? zlen chunk then
          match lstep sl (HWrite lh chunk) with
          | (s, RCount nw ew) =>
            let nw' := if (nw <? 0) || (zlen chunk <? nw) then 0 else nw in
            (s, nw', match ew with
                     | Some e => Some e
                     | None => if (nw <? 0) || (zlen chunk <? nw) then Some (E KOther)
                               else if negb (nw =? zlen chunk) then Some (E KShortWrite) else None
                     end)
          | (s, _) => (s, 0, Some (E KOther))
          end
        else (sl, 0, None) in
      match werr with
      | Some e => (sb1, sl1, written + w, Some e)
      | None =>
        match er with
        | Some e => (sb1, sl1, written + w, if errk_eqb (ek e) KEOF then None else Some e)
        | None => io_copy f sb1 sl1 bh lh (written + w)
        end
      end
    | _ => (sb1, sl, written, Some (E KOther))
    end
  end.

(* copyFile(base, layer, name, bfh) *)
(* the directory made sure of first: filepath.Dir(name), or (copyfile_cleans_name = 1) the Dir of the
   cleaned name — they differ for names with a trailing separator or a final ".." *)
Definition copy_dir (name : str) : str :=
  if Z.eqb copyfile_cleans_name 1 then path_dir (clean name) else path_dir name.
(* the error branch of `lfh, err := layer.Create(name)`.  The tree as pinned
   (copyfile_removes_after_failed_create = 0): `return err`; repaired (= 1): `layer.Remove(name); return err`
   (result ignored) — a Create that failed half-way inside a layer made of several filesystems (a
   CacheOnReadFs creates the file in its base, then in its layer) may have left an empty or truncated file *)
Definition after_failed_create_gen (rm : Z) (sl : L) (name : str) : L :=
  if Z.eqb rm 1 then fst (lstep sl (Remove name)) else sl.
Definition after_failed_create : L -> str -> L := after_failed_create_gen copyfile_removes_after_failed_create.
(* rm: the value of the switch copyfile_removes_after_failed_create (copy_file below is the source as it stands) *)
Definition copy_file_gen (rm : Z) (sb : B) (sl : L) (name : str) (bh : nat) : B * L * option err :=
  let dir := copy_dir name in
  let '(sl0, ex) := l_exists sl dir in
  match ex with
  | inr e => (sb, sl0, Some e)
  | inl exists_ =>
    let '(sl1, mk) := if exists_ then (sl0, None)
                      else match lstep sl0 (MkdirAll dir 511) with
                           | (s, ROk) => (s, None)
                           | (s, r) => (s, match res_err r with Some e => Some e | None => Some (E KOther) end)
                           end in
    match mk with
    | Some e => (sb, sl1, Some e)
    | None =>
      match lstep sl1 (Create name) with
      | (sl2, RHandle lh) =>
        (* size of the base file bounds the copy loop *)
        let '(sb1, st) := bstep sb (HStat bh) in
        let fuel := match st with RInfo fi => S (S (Z.to_nat (fi_size fi))) | _ => 2%nat end in
        let '(sb2, sl3, n, cerr) := io_copy fuel sb1 sl2 bh lh 0 in
        match cerr with
        | Some e =>
          let sl4 := fst (lstep sl3 (Remove name)) in
          let sl5 := fst (lstep sl4 (HClose lh)) in (sb2, sl5, Some e)
        | None =>
          let '(sb3, st2) := bstep sb2 (HStat bh) in
          match st2 with
          | RInfo bfi =>
            if negb (fi_size bfi =? n) then
              let sl4 := fst (lstep sl3 (Remove name)) in
              let sl5 := fst (lstep sl4 (HClose lh)) in (sb3, sl5, Some (E KEIO))
            else
              match lstep sl3 (HClose lh) with
              | (sl4, ROk) =>
                match lstep sl4 (Chtimes name (fi_mtime bfi)) with
                | (sl5, ROk) => (sb3, sl5, None)
                | (sl5, r) => (sb3, sl5, match res_err r with Some e => Some e | None => Some (E KOther) end)
                end
              | (sl4, r) =>
                let sl5 := fst (lstep sl4 (Remove name)) in
                let sl6 := fst (lstep sl5 (HClose lh)) in
                (sb3, sl6, match res_err r with Some e => Some e | None => Some (E KOther) end)
              end
          | _ =>
            let sl4 := fst (lstep sl3 (Remove name)) in
            let sl5 := fst (lstep sl4 (HClose lh)) in (sb3, sl5, Some (E KEIO))
          end
        end
      | (sl2, r) =>
        (* `lfh, err := layer.Create(name)` failed: see after_failed_create *)
        (sb, after_failed_create_gen rm sl2 name, match res_err r with Some e => Some e | None => Some (E KOther) end)
      end
    end
  end.
Definition copy_file : B -> L -> str -> nat -> B * L * option err :=
  copy_file_gen copyfile_removes_after_failed_create.

(* copyToLayer / copyFileToLayer: open the base (read-only resp. with the caller's flags),
   copy, close the base handle (deferred) *)
Definition copy_to_layer_with (sb : B) (sl : L) (name : str) (open_op : op) : B * L * option err :=
  match bstep sb open_op with
  | (sb1, RHandle bh) =>
    let '(sb2, sl1, e) := copy_file sb1 sl name bh in
    (fst (bstep sb2 (HClose bh)), sl1, e)
  | (sb1, r) => (sb1, sl, match res_err r with Some e => Some e | None => Some (E KOther) end)
  end.
Definition copy_to_layer (sb : B) (sl : L) (name : str) : B * L * option err :=
  copy_to_layer_with sb sl name (Open name).
End Union.
