(* Model/Search.v — transcription of util.go readerContainsAny over a file reader.
   The reader is a file positioned at 0: io.ReadAtLeast(r, buf, min) on it yields
   min(len buf, remaining) bytes and a non-nil error iff fewer than min. *)
From AF Require Import Lib.Bytes Gen.Consts.

Definition is_nil (b : bytes) : bool := match b with [] => true | _ => false end.

(* the inner `for _, sl := range subslices { if bytes.Contains(window, sl) ...}` ;
   empty subslices are skipped *)
Definition search (window : bytes) (needles : list bytes) : bool :=
  existsb (fun sl => negb (is_nil sl) && infixb sl window) needles.

Definition largest (needles : list bytes) : nat := fold_right Nat.max 0 (map (@length N) needles).

(* rounds i >= 2.  [i2] = (i == 2): no shift in the second round. *)
Fixpoint rounds (fuel H : nat) (i2 : bool) (buff rest : bytes) (needles : list bytes) : bool :=
  match fuel with
  | O => false
  | S f =>
    let buff1 := if i2 then buff else copy_into buff (skipn H buff) in
    let chunk := firstn (length buff1 - H) rest in
    let n := length chunk in
    let buff2 := firstn H buff1 ++ copy_into (skipn H buff1) chunk in
    if (0 <? n) && search (firstn (H + n) buff2) needles then true
    else if n <? H then false
    else rounds f H false buff2 (skipn n rest) needles
  end.

Definition go_contains_any (factor hdiv : nat) (content : bytes) (needles : list bytes) : bool :=
  let L := largest needles in
  if L =? 0 then false else
  let bufflen := factor * L in
  let H := Nat.div bufflen hdiv in
  let buff := zeros bufflen in
  let chunk := firstn H content in
  let n := length chunk in
  let buff1 := copy_into buff chunk in
  if (0 <? n) && search (firstn n buff1) needles then true
  else if n <? H then false
  else rounds (S (length content)) H true buff1 (skipn n content) needles.

Definition reader_contains_any (content : bytes) (needles : list bytes) : bool :=
  go_contains_any (Z.to_nat search_factor) (Z.to_nat search_half_div) content needles.

(* specification: bytes.Contains on the whole content, for the non-empty needles *)
Definition contains_spec (content : bytes) (needles : list bytes) : bool :=
  existsb (fun sl => negb (is_nil sl) && infixb sl content) needles.
