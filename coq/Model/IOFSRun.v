(* Model/IOFSRun.v — C15: the IOFS model (Model/IOFS.v) instantiated with the stacks of Model/Stack.v,
   as the harness runs it: the setup items build the tree on the layers of the stack, every query is
   then evaluated from that state through the top of the stack. *)
From AF Require Import Lib.Bytes Lib.Path Lib.Ops Gen.Consts Model.MemFile Model.MemFs Model.Stack Model.Digest Model.IOFS.

Definition io_setup (k : stack) (its : list item) : ust :=
  fst (fold_left (fun st it => fst (run_item k st it)) its (uinit k, [])).

Definition io_run_all (k : stack) (its : list item) (ts : list iotop) : list (list res) :=
  let u := io_setup k its in map (io_eval (ustep k) u) ts.

(* cross-check digest (the same Gallina function inside Coq and in the extracted runner) *)
Definition io_digest (k : stack) (its : list item) (ts : list iotop) : N :=
  fold_left (fun h l => fold_left d_res l (mix h 31)) (io_run_all k its ts) 17%N.
