(* Model/Digest.v — a lossless-enough digest of result lists, computed by the same Gallina
   function inside Coq (vm_compute) and in the extracted runner; used only to cross-check
   extraction + the OCaml driver on a sample of cases. *)
From AF Require Import Lib.Bytes Lib.Path Lib.Ops Model.MemFile Model.MemFs Model.Stack.
Local Open Scope N_scope.

Definition P61 : N := 2305843009213693951.
Definition mix (h x : N) : N := (h * 1000003 + x + 7) mod P61.
Definition zenc (z : Z) : N := match z with Z0 => 0 | Zpos p => 2 * Npos p | Zneg p => 2 * Npos p + 1 end.

Definition d_bytes (h : N) (b : bytes) : N := fold_left mix b (mix h (N.of_nat (length b))).
Definition d_bool (h : N) (b : bool) : N := mix h (if b then 1 else 0).
Definition errk_code (k : errk) : N :=
  match k with
  | KNotExist => 1 | KExist => 2 | KClosed => 3 | KOutOfRange => 4 | KReadOnlyHandle => 5 | KNotADir => 6
  | KNegative => 7 | KEOF => 8 | KUnexpectedEOF => 9 | KShortWrite => 10 | KENOENT => 11 | KENOTDIR => 12
  | KEPERM => 13 | KEIO => 14 | KEBADF => 15 | KEROFS => 16 | KEINVAL => 17 | KENOTEMPTY => 18 | KEISDIR => 19
  | KPermission => 20 | KInvalid => 21 | KCombined => 22 | KOther => 23
  end.
Definition d_err (h : N) (e : err) : N := d_bool (mix h (errk_code (ek e))) (ewrapped e).
Definition d_eopt (h : N) (e : option err) : N := match e with None => mix h 0 | Some x => d_err (mix h 1) x end.
Definition d_fi (h : N) (fi : finfo) : N :=
  mix (mix (mix (d_bool (d_bytes h (fi_name fi)) (fi_dir fi)) (zenc (fi_size fi))) (zenc (fi_mode fi))) (zenc (fi_mtime fi)).

Definition d_res (h : N) (r : res) : N :=
  match r with
  | RPanic => mix h 1
  | RNoSlot => mix h 2
  | ROk => mix h 3
  | RErr e => d_err (mix h 4) e
  | RHandle n => mix (mix h 5) (N.of_nat n)
  | RInfo fi => d_fi (mix h 6) fi
  | RData b e => d_eopt (d_bytes (mix h 7) b) e
  | RCount n e => d_eopt (mix (mix h 8) (zenc n)) e
  | RPos n e => d_eopt (mix (mix h 9) (zenc n)) e
  | RInfos l e => d_eopt (fold_left d_fi l (mix h 10)) e
  | RNames l e => d_eopt (fold_left d_bytes l (mix h 11)) e
  | RName s => d_bytes (mix h 12) s
  end.

Definition d_entry (h : N) (e : entry) : N :=
  mix (mix (d_bytes (d_bool (d_bytes h (e_path e)) (e_dir e)) (e_data e)) (zenc (e_mode e))) (zenc (e_mtime e)).

Definition d_tres (h : N) (t : tres) : N :=
  match t with
  | TRes r => d_res (mix h 20) r
  | TSnap l => fold_left d_entry l (mix h 21)
  | TIndex l => fold_left (fun h x => let '(p, nm, kids) := x in
                  fold_left (fun h kc => d_bytes (d_bytes h (fst kc)) (snd kc)) kids (d_bytes (d_bytes h p) nm)) l (mix h 22)
  end.

Definition digest (l : list tres) : N := fold_left d_tres l 17.
Definition case_digest (k : stack) (its : list item) : N := digest (run_case k its).

(* single in-memory file machine (C02) *)
Definition fcase_digest (content : bytes) (spec : list (bool * bool)) (ops : list op) : N :=
  let '(s, outs) := run_steps mf_step (mf_init content spec) ops in
  d_bytes (fold_left d_res outs 17) (fdata s).
