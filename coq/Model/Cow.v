(* Model/Cow.v — transcription of copyOnWriteFs.go over two arbitrary inner filesystems *)
From AF Require Import Lib.Bytes Lib.Path Lib.Ops Gen.Consts Model.Union.
Local Open Scope Z_scope.

Section Cow.
Context {B L : Type} (bstep : B -> op -> B * res) (lstep : L -> op -> L * res).

Definition cstate : Type := (B * L * list chandle)%type.

Definition alloc_ch (tbl : list chandle) (c : chandle) : list chandle * nat := (tbl ++ [c], length tbl).

Definition err_of (r : res) : err := match res_err r with Some e => e | None => E KOther end.

(* CopyOnWriteFs.isNotExist: unwraps a PathError, then identity comparison *)
Definition cow_is_not_exist (e : err) : bool :=
  match ek e with KNotExist | KENOENT | KENOTDIR => true | _ => false end.

(* isBaseFile *)
Definition is_base_file (sb : B) (sl : L) (name : str) : B * L * bool * option err :=
  match lstep sl (Stat name) with
  | (sl1, RInfo _) => (sb, sl1, false, None)
  | (sl1, _) =>
    match bstep sb (Stat name) with
    | (sb1, RInfo _) => (sb1, sl1, true, None)
    | (sb1, r) =>
      let e := err_of r in
      let notexist :=
        if ewrapped e then (match ek e with KNotExist | KENOENT | KENOTDIR => true | _ => false end)
        else errk_eqb (ek e) KENOENT in
      if notexist then (sb1, sl1, false, None) else (sb1, sl1, true, Some e)
    end
  end.

(* IsDir(fs, path) *)
Definition b_is_dir (sb : B) (p : str) : B * (bool + err) :=
  match bstep sb (Stat p) with
  | (s, RInfo fi) => (s, inl (fi_dir fi))
  | (s, r) => (s, inr (err_of r))
  end.
Definition l_is_dir (sl : L) (p : str) : L * (bool + err) :=
  match lstep sl (Stat p) with
  | (s, RInfo fi) => (s, inl (fi_dir fi))
  | (s, r) => (s, inr (err_of r))
  end.

Definition ret (sb : B) (sl : L) (tbl : list chandle) (r : res) : cstate * res := ((sb, sl, tbl), r).

(* open on one layer and hand the handle out *)
Definition open_layer (sb : B) (sl : L) (tbl : list chandle) (o : op) : cstate * res :=
  match lstep sl o with
  | (sl1, RHandle h) => let '(tbl1, i) := alloc_ch tbl (HL h) in ret sb sl1 tbl1 (RHandle i)
  | (sl1, r) => ret sb sl1 tbl r
  end.
Definition open_base (sb : B) (sl : L) (tbl : list chandle) (o : op) : cstate * res :=
  match bstep sb o with
  | (sb1, RHandle h) => let '(tbl1, i) := alloc_ch tbl (HB h) in ret sb1 sl tbl1 (RHandle i)
  | (sb1, r) => ret sb1 sl tbl r
  end.

(* Chtimes / Chmod / Chown: copy up first when the file lives only in the base *)
Definition cow_meta (sb : B) (sl : L) (tbl : list chandle) (name : str) (o : op) : cstate * res :=
  let '(sb1, sl1, b, e) := is_base_file sb sl name in
  match e with
  | Some er => ret sb1 sl1 tbl (RErr er)
  | None =>
    if b then
      match copy_to_layer bstep lstep sb1 sl1 name with
      | (sb2, sl2, Some ce) => ret sb2 sl2 tbl (RErr ce)
      | (sb2, sl2, None) => let '(sl3, r) := lstep sl2 o in ret sb2 sl3 tbl r
      end
    else let '(sl2, r) := lstep sl1 o in ret sb1 sl2 tbl r
  end.

Definition cow_openfile (sb : B) (sl : L) (tbl : list chandle) (name : str) (flag perm : Z) : cstate * res :=
  let o := OpenFile name flag perm in
  let '(sb1, sl1, b, e) := is_base_file sb sl name in
  match e with
  | Some er => ret sb1 sl1 tbl (RErr er)
  | None =>
    if negb (Z.land flag cow_mask =? 0) then
      if b then
        match copy_to_layer bstep lstep sb1 sl1 name with
        | (sb2, sl2, Some ce) => ret sb2 sl2 tbl (RErr ce)
        | (sb2, sl2, None) => open_layer sb2 sl2 tbl o
        end
      else
        let dir := path_dir name in
        match b_is_dir sb1 dir with
        | (sb2, inr er) =>
          if negb (is_not_exist er) then ret sb2 sl1 tbl (RErr er)
          else
            match l_is_dir sl1 dir with
            | (sl2, inr er2) => ret sb2 sl2 tbl (RErr er2)
            | (sl2, inl true) => open_layer sb2 sl2 tbl o
            | (sl2, inl false) => ret sb2 sl2 tbl (RErr (EW KENOTDIR))
            end
        | (sb2, inl true) =>
          match lstep sl1 (MkdirAll dir 511) with
          | (sl2, ROk) => open_layer sb2 sl2 tbl o
          | (sl2, r) => ret sb2 sl2 tbl (RErr (err_of r))
          end
        | (sb2, inl false) =>
          match l_is_dir sl1 dir with
          | (sl2, inr er2) => ret sb2 sl2 tbl (RErr er2)
          | (sl2, inl true) => open_layer sb2 sl2 tbl o
          | (sl2, inl false) => ret sb2 sl2 tbl (RErr (EW KENOTDIR))
          end
        end
    else if b then open_base sb1 sl1 tbl o
    else open_layer sb1 sl1 tbl o
  end.

Definition cow_open (sb : B) (sl : L) (tbl : list chandle) (name : str) : cstate * res :=
  let o := Open name in
  let '(sb1, sl1, b, e) := is_base_file sb sl name in
  match e with
  | Some er => ret sb1 sl1 tbl (RErr er)
  | None =>
    if b then open_base sb1 sl1 tbl o
    else
      match l_is_dir sl1 name with
      | (sl2, inr er) => ret sb1 sl2 tbl (RErr er)
      | (sl2, inl false) => open_layer sb1 sl2 tbl o
      | (sl2, inl true) =>
        match b_is_dir sb1 name with
        | (sb2, inl true) =>
          let '(sb3, rb) := bstep sb2 o in
          let '(sl3, rl) := lstep sl2 o in
          match rb, rl with
          | RHandle bh, RHandle lh =>
            let '(tbl1, i) := alloc_ch tbl (HU (mkUF (Some bh) (Some lh) 0 [])) in
            ret sb3 sl3 tbl1 (RHandle i)
          | _, _ => ret sb3 sl3 tbl (RErr (E KCombined))
          end
        | (sb2, _) => open_layer sb2 sl2 tbl o
        end
      end
  end.

Definition cow_step (st : cstate) (o : op) : cstate * res :=
  let '(sb, sl, tbl) := st in
  match o with
  | Chtimes p _ | Chmod p _ | Chown p _ _ => cow_meta sb sl tbl p o
  | Stat p =>
    match lstep sl o with
    | (sl1, RInfo fi) => ret sb sl1 tbl (RInfo fi)
    | (sl1, r) =>
      if cow_is_not_exist (err_of r) then let '(sb1, rb) := bstep sb o in ret sb1 sl1 tbl rb
      else ret sb sl1 tbl r
    end
  | Rename p q =>
    let '(sb1, sl1, b, e) := is_base_file sb sl p in
    match e with
    | Some er => ret sb1 sl1 tbl (RErr er)
    | None => if b then ret sb1 sl1 tbl (RErr (E KEPERM))
              else let '(sl2, r) := lstep sl1 o in ret sb1 sl2 tbl r
    end
  | Remove p | RemoveAll p =>
    match lstep sl o with
    | (sl1, RErr er) =>
      if errk_eqb (ek er) KENOENT && negb (ewrapped er) then
        match bstep sb (Stat p) with
        | (sb1, RInfo _) => ret sb1 sl1 tbl (RErr (E KEPERM))
        | (sb1, _) => ret sb1 sl1 tbl (RErr (E KENOENT))
        end
      else ret sb sl1 tbl (RErr er)
    | (sl1, r) => ret sb sl1 tbl r
    end
  | OpenFile p flag perm => cow_openfile sb sl tbl p flag perm
  | Create p => cow_openfile sb sl tbl p (Z.lor (Z.lor o_create o_trunc) o_rdwr) 438
  | Open p => cow_open sb sl tbl p
  | Mkdir p perm =>
    if Z.eqb cow_mkdir_checks_union 1 then
      (* since the fix: `if _, err := u.Stat(name); err == nil { EEXIST }` then layer.MkdirAll *)
      match lstep sl (Stat p) with
      | (sl1, RInfo _) => ret sb sl1 tbl (RErr (EW KExist))
      | (sl1, r) =>
        let '(sb1, found) :=
          if cow_is_not_exist (err_of r)
          then match bstep sb (Stat p) with (sb1, RInfo _) => (sb1, true) | (sb1, _) => (sb1, false) end
          else (sb, false) in
        if found then ret sb1 sl1 tbl (RErr (EW KExist))
        else let '(sl2, r2) := lstep sl1 (MkdirAll p perm) in ret sb1 sl2 tbl r2
      end
    else
    match b_is_dir sb p with
    | (sb1, inr _) => let '(sl1, r) := lstep sl (MkdirAll p perm) in ret sb1 sl1 tbl r
    | (sb1, inl true) => ret sb1 sl tbl (RErr (E KExist))
    | (sb1, inl false) => let '(sl1, r) := lstep sl (MkdirAll p perm) in ret sb1 sl1 tbl r
    end
  | MkdirAll p perm =>
    match b_is_dir sb p with
    | (sb1, inr _) => let '(sl1, r) := lstep sl (MkdirAll p perm) in ret sb1 sl1 tbl r
    | (sb1, inl true) => ret sb1 sl tbl ROk
    | (sb1, inl false) => let '(sl1, r) := lstep sl (MkdirAll p perm) in ret sb1 sl1 tbl r
    end
  | _ =>
    (* file-handle methods *)
    match op_handle_of o with
    | None => ret sb sl tbl RNoSlot
    | Some i =>
      match nth_error tbl i with
      | None => ret sb sl tbl RNoSlot
      | Some (HB h) => let '(sb1, r) := bstep sb (op_set_handle o h) in ret sb1 sl tbl r
      | Some (HL h) => let '(sl1, r) := lstep sl (op_set_handle o h) in ret sb sl1 tbl r
      | Some (HU u) =>
        let '(sb1, sl1, u1, r) := uf_op bstep lstep sb sl u o in
        ret sb1 sl1 (list_set i (HU u1) tbl) r
      end
    end
  end.
End Cow.
