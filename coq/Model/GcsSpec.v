(* Model/GcsSpec.v — the SPECIFICATION side of C20, written from the property text only: a map from
   object names to flat byte arrays (ByteFile: pwrite / pread / ptrunc) with per-handle positions,
   and folders defined by "objects exist names_under the name".  Nothing here looks at gcsfs' readers,
   writers or listings.  Also: the projection of model results to what the property speaks about. *)
From AF Require Import Lib.Bytes Lib.Path Lib.Ops Gen.Consts Model.ByteFile Model.Gcs Model.GcsFs.
Local Open Scope Z_scope.

Inductive sres :=
| SSkip                      (* the spec does not judge this step *)
| SNoSlot | SPanic | SOk | SErr
| SBytes (b : bytes) | SCount (n : nat) | SPos (n : nat) | SSize (n : nat) | SDir
| SNames (l : list str) | SEnts (l : list (str * bool))
| SRefused | SDone
| SSnap (l : list (str * bytes)).

(* ---- projection of the Go-level model's results (the harness projects the implementation's
   results the same way) *)
Definition ok_or_eof (e : option gerr) : bool :=
  match e with None | Some GEOF => true | _ => false end.

Definition gproj (o : option op) (r : gres) : sres :=
  match r with
  | GPanic => SPanic
  | GNoSlot => SNoSlot
  | GFuel => SSkip
  | GSnap l => SSnap l
  | _ =>
    match o with
    | None => SSkip
    | Some (Create _) | Some (Open _) | Some (OpenFile _ _ _) =>
        match r with GHandle => SOk | _ => SErr end
    | Some (HRead _ _) | Some (HReadAt _ _ _) =>
        match r with GData b e => if ok_or_eof e then SBytes b else SErr | _ => SErr end
    | Some (HWrite _ _) | Some (HWriteAt _ _ _) | Some (HWriteString _ _) =>
        match r with GCount n None => SCount (Z.to_nat n) | _ => SErr end
    | Some (HSeek _ _ _) =>
        match r with GPos n None => SPos (Z.to_nat n) | _ => SErr end
    | Some (Stat _) | Some (HStat _) =>
        match r with GInfo i => if gi_dir i then SDir else SSize (Z.to_nat (gi_size i)) | _ => SErr end
    | Some (HReaddirnames _ _) =>
        match r with GNames l e => if ok_or_eof e then SNames l else SErr | _ => SErr end
    | Some (HReaddir _ _) =>
        match r with
        | GInfos l e => if ok_or_eof e then SEnts (map (fun i => (gi_base i, gi_dir i)) l) else SErr
        | _ => SErr
        end
    | Some (Remove _) => match r with GErr _ => SRefused | _ => SOk end
    | Some (RemoveAll _) => SDone
    | _ => match r with GErr _ => SErr | _ => SOk end
    end
  end.

(* ---- the specification machine *)
Record shandle := mkSH { s_name : str; s_pos : nat; s_ro : bool; s_dir : bool; s_closed : bool }.
Record sstate := mkSS { ss_objs : gstore; ss_h : list (nat * shandle) }.

Fixpoint sh_get (i : nat) (l : list (nat * shandle)) : option shandle :=
  match l with [] => None | (j, h) :: r => if Nat.eqb i j then Some h else sh_get i r end.
Fixpoint sh_set (i : nat) (h : shandle) (l : list (nat * shandle)) : list (nat * shandle) :=
  match l with
  | [] => [(i, h)]
  | (j, h') :: r => if Nat.eqb i j then (i, h) :: r else (j, h') :: sh_set i h r
  end.

(* "<bucket>" -> "", "<bucket>/<n>" -> n *)
Definition rel_name (bkt p : str) : option str :=
  if beqb p bkt then Some []
  else if prefixb (bkt ++ s_slash) p then Some (skipn (length bkt + 1) p) else None.

Definition sp_is_file (objs : gstore) (n : str) : bool :=
  negb (is_empty n) && negb (last_is_slash n) && match alist_get n objs with Some _ => true | None => false end.
Definition dir_prefix (n : str) : str := if is_empty n then [] else n ++ s_slash.
(* a name is a folder exactly when objects exist names_under it *)
Definition sp_is_folder (objs : gstore) (n : str) : bool :=
  is_empty n || existsb (prefixb (n ++ s_slash)) (map fst objs).
Definition gcomponent (s : str) : str := fst (split_first s).
(* the immediate children of folder n, once each, sorted; with "is itself a folder" *)
Definition sp_children (objs : gstore) (n : str) : list (str * bool) :=
  let p := dir_prefix n in
  let below := filter (fun k => prefixb p k && negb (beqb k p)) (map fst objs) in
  let comps := sort_by bltb (gdedup (map (fun k => gcomponent (skipn (length p) k)) below)) in
  map (fun c => (c, existsb (prefixb (p ++ c ++ s_slash)) (map fst objs))) comps.

Definition gtake_count {A} (n : Z) (l : list A) : list A :=
  if (0 <? n) && (n <? zlen l) then firstn (Z.to_nat n) l else l.

Definition any_open_file (s : sstate) : bool :=
  existsb (fun x => negb (s_closed (snd x)) && negb (s_dir (snd x))) (ss_h s).

Definition sbind (s : sstate) (slot : option nat) (h : shandle) (objs : gstore) : sstate :=
  mkSS objs (match slot with Some i => sh_set i h (ss_h s) | None => ss_h s end).

Definition sp_step (bkt : str) (s : sstate) (slot : option nat) (o : op) : sstate * sres :=
  let objs := ss_objs s in
  match ghandle_of o with
  | Some i =>
    match sh_get i (ss_h s) with
    | None => (s, SNoSlot)
    | Some h =>
      let upd (h' : shandle) (objs' : gstore) := mkSS objs' (sh_set i h' (ss_h s)) in
      if s_closed h then (s, match o with HClose _ => SErr | _ => SSkip end) else
      if s_dir h then
        match o with
        | HReaddirnames _ n => (s, SNames (map fst (gtake_count n (sp_children objs (s_name h)))))
        | HReaddir _ n => (s, SEnts (gtake_count n (sp_children objs (s_name h))))
        | HStat _ => (s, SDir)
        | HClose _ => (upd (mkSH (s_name h) (s_pos h) (s_ro h) true true) objs, SOk)
        | _ => (s, SSkip)
        end
      else
        let data := match alist_get (s_name h) objs with Some d => d | None => [] end in
        let at_ (p : nat) := mkSH (s_name h) p (s_ro h) false false in
        match o with
        | HRead _ n => let b := pread data (s_pos h) (Z.to_nat n) in
                       (upd (at_ (s_pos h + length b)%nat) objs, SBytes b)
        | HReadAt _ n off => (s, SBytes (pread data (Z.to_nat off) (Z.to_nat n)))
        | HWrite _ b | HWriteString _ b =>
            (upd (at_ (s_pos h + length b)%nat) (alist_set (s_name h) (pwrite data (s_pos h) b) objs), SCount (length b))
        | HWriteAt _ b off =>
            (upd h (alist_set (s_name h) (pwrite data (Z.to_nat off) b) objs), SCount (length b))
        | HSeek _ off wh =>
            let t := if wh =? 0 then off else if wh =? 1 then Z.of_nat (s_pos h) + off else zlen data + off in
            (upd (at_ (Z.to_nat t)) objs, SPos (Z.to_nat t))
        | HTruncate _ n => (upd h (alist_set (s_name h) (ptrunc data (Z.to_nat n)) objs), SOk)
        | HStat _ => (s, SSize (length data))
        | HSync _ => (s, SOk)
        | HClose _ => (upd (mkSH (s_name h) (s_pos h) (s_ro h) false true) objs, SOk)
        | _ => (s, SSkip)
        end
    end
  | None =>
    let path := match o with
                | Create p | Open p | OpenFile p _ _ | Mkdir p _ | MkdirAll p _ | Remove p | RemoveAll p
                | Rename p _ | Stat p => rel_name bkt p
                | _ => None end in
    match path with
    | None => (s, SSkip)
    | Some n =>
      match o with
      | Create _ => (sbind s slot (mkSH n 0 false false false) (alist_set n [] objs), SOk)
      | Open _ | OpenFile _ _ _ =>
        let flag := match o with OpenFile _ f _ => f | _ => 0 end in
        if sp_is_file objs n then
          let d := match alist_get n objs with Some d => d | None => [] end in
          if negb (Z.land flag o_trunc =? 0) then (sbind s slot (mkSH n 0 false false false) (alist_set n [] objs), SOk)
          else (sbind s slot (mkSH n (if Z.land flag o_append =? 0 then 0 else length d) (flag =? 0) false false) objs, SOk)
        else if sp_is_folder objs n && (flag =? 0) then (sbind s slot (mkSH n 0 true true false) objs, SOk)
        else (s, SErr)
      | Stat _ =>
        if sp_is_file objs n then (s, SSize (length (match alist_get n objs with Some d => d | None => [] end)))
        else if sp_is_folder objs n then (s, SDir) else (s, SErr)
      | Remove _ =>
        if sp_is_file objs n then (mkSS (alist_del n objs) (ss_h s), SOk)
        else if sp_is_folder objs n then
          match sp_children objs n with
          | [] => (mkSS (alist_del (n ++ s_slash) objs) (ss_h s), SOk)
          | _ => (s, SRefused)     (* a non-empty folder cannot be removed by Remove *)
          end
        else (s, SRefused)
      | RemoveAll _ =>
        (mkSS (filter (fun kv => negb (beqb (fst kv) n || prefixb (n ++ s_slash) (fst kv))) objs) (ss_h s), SDone)
      | Rename _ q =>
        match rel_name bkt q, alist_get n objs with
        | Some m, Some d => (mkSS (alist_del n (alist_set m d objs)) (ss_h s), SOk)
        | _, _ => (s, SSkip)
        end
      | Mkdir _ _ => (mkSS (alist_set (n ++ s_slash) [] objs) (ss_h s), SOk)
      | MkdirAll _ _ =>
        let fix go (objs : gstore) (root : str) (l : list str) : gstore :=
          match l with
          | [] => objs
          | f :: r => let root' := if is_empty root then f else root ++ s_slash ++ f in
                      go (alist_set (root' ++ s_slash) [] objs) root' r
          end in
        (mkSS (go objs [] (split_slash n)) (ss_h s), SOk)
      | _ => (s, SSkip)
      end
    end
  end.

Definition sp_snap (s : sstate) : sres :=
  if any_open_file s then SSkip
  else SSnap (map (fun n => (n, match alist_get n (ss_objs s) with Some d => d | None => [] end)) (names_sorted (ss_objs s))).

Fixpoint sp_run (bkt : str) (s : sstate) (items : list gitem) : list sres :=
  match items with
  | [] => []
  | GISnap :: rest => sp_snap s :: sp_run bkt s rest
  | GIOp slot o :: rest => let '(s1, x) := sp_step bkt s slot o in x :: sp_run bkt s1 rest
  end.

Definition sp_init (objs : gstore) : sstate := mkSS objs [].

(* ------------------------------------------------------------------ the property's class, one handle *)
(* Relative to the flat-array state (content, position): which calls the property quantifies over.
   dirty = a positional read/write happened and Seek has not re-established the position yet. *)
Definition bs1 (data : bytes) (pos : nat) (ro : bool) : bstate := mkBS data [mkBH pos false ro].

Definition dirty_after (dirty : bool) (o : op) : bool :=
  match o with
  | HReadAt _ _ _ | HWriteAt _ _ _ => true
  | HSeek _ _ _ => false
  | _ => dirty
  end.

Definition op_ok (ro : bool) (data : bytes) (pos : nat) (dirty : bool) (o : op) : bool :=
  let size := zlen data in
  let p := Z.of_nat pos in
  match o with
  | HRead i n => Nat.eqb i 0 && (0 <=? n) && negb dirty && (p <=? size)
  | HReadAt i n off => Nat.eqb i 0 && (0 <=? n) && (0 <=? off) && (off <=? size)
  | HWrite i _ | HWriteString i _ => Nat.eqb i 0 && negb ro && negb dirty && (p <=? size)
  | HWriteAt i _ off => Nat.eqb i 0 && negb ro && (0 <=? off) && (off <=? size)   (* inside the object *)
  | HSeek i off wh =>
      Nat.eqb i 0 && ((wh =? 0) || (wh =? 2) || ((wh =? 1) && negb dirty)) &&
      (let t := if wh =? 0 then off else if wh =? 1 then p + off else size + off in (0 <=? t) && (t <=? size))
  | HTruncate i n => Nat.eqb i 0 && negb ro && (0 <=? n) && (n <=? size)           (* shrinking *)
  | HStat i | HSync i => Nat.eqb i 0
  | _ => false
  end.

Fixpoint in_class (ro : bool) (data : bytes) (pos : nat) (dirty : bool) (ops : list op) : bool :=
  match ops with
  | [] => true
  | o :: rest =>
    op_ok ro data pos dirty o &&
    match bf_step (bs1 data pos ro) o with
    | (mkBS data' (h :: _), _) => in_class ro data' (bpos h) (dirty_after dirty o) rest
    | _ => false
    end
  end.

(* a result of the Go-level model agrees with the flat-array result *)
Definition res_agrees (r : gres) (p : pres) : Prop :=
  match r, p with
  | GData b e, PBytes b' _ => b = b' /\ (e = None \/ e = Some GEOF)
  | GCount n None, PCount k => n = Z.of_nat k
  | GPos n None, PPos k => n = Z.of_nat k
  | GOk, POk => True
  | GInfo i, PSize k => gi_dir i = false /\ gi_size i = Z.of_nat k
  | _, _ => False
  end.
