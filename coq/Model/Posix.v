(* Model/Posix.v — the SPECIFICATION property C01 refers to: a POSIX-style filesystem written
   without reference to the Go code.  A flat tree (absolute clean path -> inode number), an inode
   table (directories and regular files; an inode survives the removal of its name while handles
   are open on it), handles bound to inodes.  No child index, no names stored in inodes, no
   clock.  Every call that takes a name resolves it first (pthrough_file: ENOTDIR).  Outcomes are
   projected to what the property speaks about: the outcome CLASS of every call (success,
   not-exist, exists, closed, not-a-directory, other), the bytes read, the counts written,
   directory listings, kinds and sizes. *)
From AF Require Import Lib.Bytes Lib.Path Lib.Ops Gen.Consts Model.ByteFile.
Local Open Scope Z_scope.

Inductive inode :=
| IDir (perm : Z)                               (* permission bits given to Mkdir / Chmod *)
| IFile (data : bytes) (perm : option Z).       (* None: no permission bits were ever set explicitly *)

Record phandle := mkPH { pino : nat; ppos : nat; prdc : nat; pclosed : bool; pro : bool }.

Record pfs := mkP { ptree : list (str * nat); pinodes : list inode; phandles : list phandle }.

Definition p_init : pfs := mkP [(s_slash, 0%nat)] [IDir 493] [].

(* outcome classes of the property *)
Inductive pclass := CNotExist | CExist | CClosed | CNotDir (* ENOTDIR *) | COther.

(* projected results *)
Inductive pout :=
| PNoSlot                                       (* the call named a handle that was never returned *)
| PSucc                                         (* success, nothing else to report *)
| PFail (c : pclass)
| PHandle (h : nat)
| PStat (isdir : bool) (size : option nat)      (* size of a regular file *)
| PData (b : bytes) (eof : bool)
| PNum (n : nat)                                (* bytes written / new offset *)
| PNames (l : list str) (eof : bool).

(* ---------- paths ---------- *)
Definition pbelow (a k : str) : bool := prefixb (a ++ s_slash) k.          (* k strictly below a *)
Definition patbelow (a k : str) : bool := beqb k a || pbelow a k.
Definition pparent (k : str) : str := path_dir k.
Definition pbase (k : str) : str := snd (path_split k).
(* replace the prefix a of k by b *)
Definition prewrite (a b k : str) : str := b ++ skipn (length a) k.

(* ---------- the tree ---------- *)
Definition plookup (t : pfs) (k : str) : option nat := alist_get k (ptree t).
Definition pinode (t : pfs) (i : nat) : option inode := nth_error (pinodes t) i.
Definition pnode_at (t : pfs) (k : str) : option inode :=
  match plookup t k with Some i => pinode t i | None => None end.
Definition pis_dir (t : pfs) (k : str) : bool :=
  match pnode_at t k with Some (IDir _) => true | _ => false end.
Definition pis_file (t : pfs) (k : str) : bool :=
  match pnode_at t k with Some (IFile _ _) => true | _ => false end.

(* ---------- path resolution ----------
   The kernel resolves a name component by component from the root; a component that is not a
   directory, with more of the name still to come, ends the walk with ENOTDIR, a missing one with
   ENOENT.  The tree is closed under parents (a name exists only inside an existing directory), so
   nothing exists below a regular file: if some proper ancestor of k is a regular file, every
   ancestor above it is a directory and the walk ends exactly there, with ENOTDIR — before the last
   component of k is looked at, whatever the call (open, creat, mkdir, rename, unlink, stat, chmod, ...)
   and whether or not intermediate components between that file and k are "missing".
   Measured on Linux 6.18 / ext4 with os.OpenFile, os.Mkdir, os.MkdirAll, os.Rename, os.Remove,
   os.RemoveAll, os.Stat, os.Chmod, os.Chown, os.Chtimes (work/osprobe, REPORT-c01p.md). *)
Definition pthrough_file (t : pfs) (k : str) : bool :=
  existsb (fun kv => pbelow (fst kv) k && pis_file t (fst kv)) (ptree t).

Definition set_tree (t : pfs) (tr : list (str * nat)) : pfs := mkP tr (pinodes t) (phandles t).
Definition set_inode (t : pfs) (i : nat) (x : inode) : pfs := mkP (ptree t) (list_set i x (pinodes t)) (phandles t).
Definition set_phandle (t : pfs) (h : nat) (x : phandle) : pfs := mkP (ptree t) (pinodes t) (list_set h x (phandles t)).
(* a new inode under a new name *)
Definition padd (t : pfs) (k : str) (x : inode) : pfs :=
  mkP (alist_set k (length (pinodes t)) (ptree t)) (pinodes t ++ [x]) (phandles t).
Definition popen (t : pfs) (i : nat) (ro : bool) : pfs * pout :=
  (mkP (ptree t) (pinodes t) (phandles t ++ [mkPH i 0 0 false ro]), PHandle (length (phandles t))).

Definition phas_children (t : pfs) (k : str) : bool := existsb (fun kv => pbelow k (fst kv)) (ptree t).

(* the listing of directory d: base names of the names whose parent is d, ascending *)
Definition pchildren (t : pfs) (d : str) : list str :=
  map fst (filter (fun kv => negb (beqb (fst kv) s_slash) && beqb (pparent (fst kv)) d) (ptree t)).
Definition plisting (t : pfs) (d : str) : list str :=
  sort_by bltb (map pbase (pchildren t d)).
(* the name of a directory inode, if it still has one *)
Definition pname_of (t : pfs) (i : nat) : option str :=
  match filter (fun kv => Nat.eqb (snd kv) i) (ptree t) with (k, _) :: _ => Some k | [] => None end.

(* mkdir -p: create k if it is missing, then its missing ancestors, nearest first *)
Fixpoint p_mkchain (fuel : nat) (t : pfs) (k : str) (perm : Z) : pfs :=
  match fuel with
  | O => t
  | S fu => match plookup t k with
            | Some _ => t
            | None => p_mkchain fu (padd t k (IDir perm)) (pparent k) perm
            end
  end.

Definition fl (flag bit : Z) : bool := 0 <? Z.land flag bit.

(* ---------- one call ---------- *)
Definition p_step (t : pfs) (o : op) : pfs * pout :=
  let with_h (i : nat) (k : phandle -> pfs * pout) : pfs * pout :=
    match nth_error (phandles t) i with Some h => k h | None => (t, PNoSlot) end in
  (* I/O goes to the regular file the handle is bound to; on anything else it fails, and a closed
     handle says "closed" first (unless the call is rejected for its negative offset before that) *)
  let with_file (i : nat) (neg : bool) (k : phandle -> bytes -> option Z -> pfs * pout) : pfs * pout :=
    with_h i (fun h => match pinode t (pino h) with
                       | Some (IFile d pm) => k h d pm
                       | _ => if negb neg && pclosed h then (t, PFail CClosed) else (t, PFail COther)
                       end) in
  let seth (i : nat) (h : phandle) : pfs := set_phandle t i h in
  (* every call that takes a name resolves it first (pthrough_file): ENOTDIR, nothing changes *)
  let notdir : pfs * pout := (t, PFail CNotDir) in
  match o with
  | Mkdir p perm =>
      let k := normalize_path p in
      if pthrough_file t k then notdir else
      match plookup t k with
      | Some _ => (t, PFail CExist)
      | None => if pis_dir t (pparent k) then (padd t k (IDir (Z.land perm chmod_bits)), PSucc)
                else (t, PFail CNotExist)
      end
  | MkdirAll p perm =>
      (* os.MkdirAll: nil if the name is a directory, ENOTDIR if it is a regular file; otherwise the
         ancestors first — which meets the regular file on the way, if there is one, before anything
         is created *)
      let k := normalize_path p in
      if pthrough_file t k then notdir else
      match pnode_at t k with
      | Some (IDir _) => (t, PSucc)
      | Some (IFile _ _) => (t, PFail CNotDir)
      | None => (p_mkchain (S (length k)) t k (Z.land perm chmod_bits), PSucc)
      end
  | Create p =>
      let k := normalize_path p in
      if pthrough_file t k then notdir else
      match plookup t k, pnode_at t k with
      | Some i, Some (IFile _ pm) => popen (set_inode t i (IFile [] pm)) i false     (* truncated in place *)
      | Some _, _ => (t, PFail COther)
      | None, _ => if pis_dir t (pparent k)
                   then popen (padd t k (IFile [] None)) (length (pinodes t)) false
                   else (t, PFail CNotExist)
      end
  | Open p =>
      if pthrough_file t (normalize_path p) then notdir else
      match plookup t (normalize_path p) with
      | Some i => popen t i true
      | None => (t, PFail CNotExist)
      end
  | OpenFile p flag perm =>
      let k := normalize_path p in
      let ro := Z.land flag 3 =? 0 in
      if pthrough_file t k then notdir else
      match plookup t k, pnode_at t k with
      | Some i, Some x =>
          if fl flag o_create && fl flag o_excl then (t, PFail CExist)
          else match x with
               | IDir _ => if ro && negb (fl flag o_create) then popen t i true else (t, PFail COther)
               | IFile d pm => if fl flag o_trunc && negb ro then popen (set_inode t i (IFile [] pm)) i ro else popen t i ro
               end
      | Some _, None => (t, PFail COther)
      | None, _ =>
          if fl flag o_create
          then if pis_dir t (pparent k)
               then popen (padd t k (IFile [] (Some (Z.land perm chmod_bits)))) (length (pinodes t)) ro
               else (t, PFail CNotExist)
          else (t, PFail CNotExist)
      end
  | Remove p =>
      let k := normalize_path p in
      if pthrough_file t k then notdir else
      match pnode_at t k with
      | None => (t, PFail CNotExist)
      | Some (IFile _ _) => (set_tree t (alist_del k (ptree t)), PSucc)
      | Some (IDir _) => if phas_children t k || beqb k s_slash then (t, PFail COther)
                         else (set_tree t (alist_del k (ptree t)), PSucc)
      end
  | RemoveAll p =>
      let k := normalize_path p in
      if pthrough_file t k then notdir else
      (set_tree t (filter (fun kv => negb (patbelow k (fst kv))) (ptree t)), PSucc)
  | Rename p q =>
      (* rename(2) resolves the directory of the source, then the directory of the target, and only
         then looks for the source itself *)
      let old := normalize_path p in
      let new := normalize_path q in
      if pthrough_file t old then notdir else
      if negb (pis_dir t (pparent old)) then (t, PFail CNotExist) else
      if pthrough_file t new then notdir else
      match plookup t old with
      | None => (t, PFail CNotExist)
      | Some _ =>
          if beqb old new then (t, PSucc)
          else (set_tree t (map (fun kv => if patbelow old (fst kv) then (prewrite old new (fst kv), snd kv) else kv)
                                (alist_del new (ptree t))), PSucc)
      end
  | Stat p =>
      if pthrough_file t (normalize_path p) then notdir else
      match pnode_at t (normalize_path p) with
      | Some (IDir _) => (t, PStat true None)
      | Some (IFile d _) => (t, PStat false (Some (length d)))
      | None => (t, PFail CNotExist)
      end
  | Chmod p m =>
      let k := normalize_path p in
      if pthrough_file t k then notdir else
      match plookup t k, pnode_at t k with
      | Some i, Some (IDir _) => (set_inode t i (IDir (Z.land m chmod_bits)), PSucc)
      | Some i, Some (IFile d _) => (set_inode t i (IFile d (Some (Z.land m chmod_bits))), PSucc)
      | _, _ => (t, PFail CNotExist)
      end
  | Chown p _ _ | Chtimes p _ =>
      if pthrough_file t (normalize_path p) then notdir else
      match plookup t (normalize_path p) with Some _ => (t, PSucc) | None => (t, PFail CNotExist) end
  (* ---- handle I/O: the flat byte array of Model/ByteFile.v, per inode ---- *)
  | HRead i n => with_file i false (fun h d pm =>
      if pclosed h then (t, PFail CClosed) else
      let b := pread d (ppos h) (Z.to_nat n) in
      (seth i (mkPH (pino h) (ppos h + length b) (prdc h) false (pro h)), PData b ((0 <? n) && Nat.eqb (length b) 0)))
  | HReadAt i n off => with_file i (off <? 0) (fun h d pm =>
      if off <? 0 then (t, PFail COther) else
      if pclosed h then (t, PFail CClosed) else
      let b := pread d (Z.to_nat off) (Z.to_nat n) in (t, PData b (zlen b <? n)))
  | HWrite i b | HWriteString i b => with_file i false (fun h d pm =>
      if pclosed h then (t, PFail CClosed) else
      if pro h then (t, PFail COther) else
      (set_inode (seth i (mkPH (pino h) (ppos h + length b) (prdc h) false false)) (pino h) (IFile (pwrite d (ppos h) b) pm),
       PNum (length b)))
  | HWriteAt i b off => with_file i (off <? 0) (fun h d pm =>
      if off <? 0 then (t, PFail COther) else
      if pclosed h then (t, PFail CClosed) else
      if pro h then (t, PFail COther) else
      (set_inode t (pino h) (IFile (pwrite d (Z.to_nat off) b) pm), PNum (length b)))
  | HSeek i off wh => with_file i false (fun h d pm =>
      if pclosed h then (t, PFail CClosed) else
      let target := if wh =? 0 then off else if wh =? 1 then Z.of_nat (ppos h) + off
                    else if wh =? 2 then zlen d + off else Z.of_nat (ppos h) in
      if target <? 0 then (t, PFail COther)
      else (seth i (mkPH (pino h) (Z.to_nat target) (prdc h) false (pro h)), PNum (Z.to_nat target)))
  | HTruncate i n => with_file i false (fun h d pm =>
      if pclosed h then (t, PFail CClosed) else
      if pro h then (t, PFail COther) else
      if n <? 0 then (t, PFail COther) else
      (set_inode t (pino h) (IFile (ptrunc d (Z.to_nat n)) pm), PSucc))
  | HClose i => with_h i (fun h =>
      if pclosed h then (t, PFail CClosed)
      else (seth i (mkPH (pino h) (ppos h) (prdc h) true (pro h)), PSucc))
  | HStat i => with_h i (fun h =>
      match pinode t (pino h) with
      | Some (IDir _) => (t, PStat true None)
      | Some (IFile d _) => (t, PStat false (Some (length d)))
      | None => (t, PFail COther)
      end)
  | HSync i | HName i => with_h i (fun h => (t, PSucc))
  (* ---- directory reading: the sorted listing of the directory the handle is bound to, from the
          handle's offset (clamped to the listing if entries were removed since the previous call);
          count <= 0 means everything that is left ---- *)
  | HReaddir i n | HReaddirnames i n => with_h i (fun h =>
      match pinode t (pino h), pname_of t (pino h) with
      | Some (IDir _), Some d =>
          let off := Nat.min (prdc h) (length (plisting t d)) in
          let rest := skipn off (plisting t d) in
          let out := if 0 <? n then Nat.min (length rest) (Z.to_nat n) else length rest in
          (seth i (mkPH (pino h) (ppos h) (off + out) (pclosed h) (pro h)),
           PNames (firstn out rest) ((0 <? n) && Nat.eqb (length rest) 0))
      | _, _ => (t, PFail COther)
      end)
  end.

Fixpoint p_run (t : pfs) (ops : list op) : pfs * list pout :=
  match ops with
  | [] => (t, [])
  | o :: r => let '(t1, x) := p_step t o in let '(t2, xs) := p_run t1 r in (t2, x :: xs)
  end.

(* ---------- what can be observed of a state ---------- *)
(* kind, contents and explicitly set permission bits of a name *)
Definition pentry (t : pfs) (k : str) : option (bool * bytes * option Z) :=
  match pnode_at t k with
  | Some (IDir pm) => Some (true, [], Some pm)
  | Some (IFile d pm) => Some (false, d, pm)
  | None => None
  end.

(* ---------- projection of a Go-level result (model or implementation) to the same language ---------- *)
Definition class_of_err (e : err) : pclass :=
  match ek e with
  | KNotExist | KENOENT => CNotExist
  | KExist => CExist
  | KClosed => CClosed
  | KENOTDIR | KNotADir => CNotDir
  | _ => COther
  end.
Definition eof_err (e : err) : bool := match ek e with KEOF | KUnexpectedEOF => true | _ => false end.

Definition mproj (o : op) (r : res) : pout :=
  match r with
  | RNoSlot => PNoSlot
  | RPanic => PFail COther
  | ROk | RName _ => PSucc
  | RErr e => PFail (class_of_err e)
  | RHandle h => PHandle h
  | RInfo fi => PStat (fi_dir fi) (if fi_dir fi then None else Some (Z.to_nat (fi_size fi)))
  | RData b None => PData b false
  | RData b (Some e) =>
      if eof_err e then PData b (match o with HRead _ n | HReadAt _ n _ => 0 <? n | _ => true end)
      else PFail (class_of_err e)
  | RCount n None | RPos n None => PNum (Z.to_nat n)
  | RCount _ (Some e) | RPos _ (Some e) => PFail (class_of_err e)
  | RInfos l None => PNames (map fi_name l) false
  | RNames l None => PNames l false
  | RInfos l (Some e) => if eof_err e then PNames (map fi_name l) true else PFail (class_of_err e)
  | RNames l (Some e) => if eof_err e then PNames l true else PFail (class_of_err e)
  end.
