(* Model/SearchChunked.v — util.go readerContainsAny over an ARBITRARY io.Reader.

   Model/Search.v assumes a reader whose every Read fills the buffer it is given (a file at
   offset 0 on MemMapFs / OsFs).  io.Reader allows much more: a call may deliver any number of
   bytes between 1 and len(p) (network files, pipes, compressed streams), it may deliver 0 bytes
   with a nil error ("discouraged", permitted), and it may report io.EOF together with the last
   bytes or only on the following call.  Here the reader is the content plus a CHUNKING ORACLE
   that fixes, call by call, which of these the reader does; io.ReadAtLeast (src/io/io.go) is
   transcribed on top of it and readerContainsAny on top of that, statement by statement.

   Not modelled (excluded explicitly): a Read that fails with an error other than io.EOF (the
   reader is "the content"; an I/O error ends the search with `false` in the code), and a reader
   that answers (0, nil) for ever (io.ReadAtLeast then never returns — the oracle is a finite
   list, so only finitely many such calls can be described). *)
From AF Require Import Lib.Bytes Gen.Consts Model.Search.

(* ---------------------------------------------------------------- the reader *)
(* One oracle entry (c, e) describes ONE call r.Read(p):
     c = 0 : the call returns (0, nil) and consumes nothing;
     c > 0 : the call delivers k = min(c, len p, bytes left) bytes;
             nothing was left (k = 0, len p > 0)   -> (0, io.EOF);
             the input ends with these k > 0 bytes  -> (k, io.EOF) if e, (k, nil) otherwise
                                                       (the next call then returns (0, io.EOF));
             otherwise                              -> (k, nil).
   Calls beyond the end of the list behave as (len p, false): they fill the buffer — the reader
   of Model/Search.v is the empty oracle. *)
Definition rcall := (nat * bool)%type.

Record reader := mkReader {
  r_rest  : bytes;        (* bytes not yet delivered *)
  r_calls : list rcall;   (* the oracle entries not yet used *)
  r_reads : nat           (* number of Read calls made so far (observable in the harness) *)
}.

(* r.Read(p) with len p = plen: (bytes delivered, err == io.EOF, reader afterwards) *)
Definition reader_read (rd : reader) (plen : nat) : bytes * bool * reader :=
  let '(c, e, calls') := match r_calls rd with
                         | [] => (plen, false, [])
                         | (c, e) :: t => (c, e, t)
                         end in
  let data := firstn (Nat.min c plen) (r_rest rd) in
  let rest' := skipn (length data) (r_rest rd) in
  let eof := negb (c =? 0) && is_nil rest' && (is_nil data || e) in
  (data, eof, mkReader rest' calls' (S (r_reads rd))).

(* ---------------------------------------------------------------- io.ReadAtLeast *)
Inductive rerr := ErrNil | ErrEOF | ErrUnexpectedEOF | ErrShortBuffer.
Definition is_err (e : rerr) : bool := match e with ErrNil => false | _ => true end.

(*  for n < min && err == nil {
        var nn int
        nn, err = r.Read(buf[n:])
        n += nn
    }
   [buf] is the whole slice handed to ReadAtLeast; the result carries its new contents, n, whether
   err is io.EOF (the only error of this reader), and the reader.  None = out of fuel. *)
Fixpoint ral_loop (fuel : nat) (rd : reader) (buf : bytes) (n min : nat)
  : option (bytes * nat * bool * reader) :=
  match fuel with
  | O => None
  | S f =>
    if n <? min then
      let '(data, eof, rd') := reader_read rd (length buf - n) in
      let buf' := firstn n buf ++ copy_into (skipn n buf) data in
      let n' := n + length data in
      if eof then Some (buf', n', true, rd') else ral_loop f rd' buf' n' min
    else Some (buf, n, false, rd)
  end.

(*  func ReadAtLeast(r Reader, buf []byte, min int) (n int, err error) {
        if len(buf) < min { return 0, ErrShortBuffer }
        for ... (above)
        if n >= min { err = nil } else if n > 0 && err == EOF { err = ErrUnexpectedEOF }
        return
    } *)
Definition read_at_least (fuel : nat) (rd : reader) (buf : bytes) (min : nat)
  : option (bytes * nat * rerr * reader) :=
  if length buf <? min then Some (buf, 0, ErrShortBuffer, rd)
  else match ral_loop fuel rd buf 0 min with
       | None => None
       | Some (buf', n, eof, rd') =>
         let err := if min <=? n then ErrNil
                    else if (0 <? n) && eof then ErrUnexpectedEOF
                    else if eof then ErrEOF
                    else ErrNil in
         Some (buf', n, err, rd')
       end.

(* ---------------------------------------------------------------- readerContainsAny *)
(*  for {
        i++
        if i == 1 {
            n, err = io.ReadAtLeast(r, buff[:halflen], halflen)
        } else {
            if i != 2 { copy(buff[:], buff[halflen:]) }
            n, err = io.ReadAtLeast(r, buff[halflen:], halflen)
        }
        if n > 0 {
            end := n
            if i != 1 { end += halflen }
            for _, sl := range subslices { if len(sl) > 0 && bytes.Contains(buff[:end], sl) { return true } }
        }
        if err != nil { break }
    }
    return false
   [i] is the value of the counter BEFORE `i++`; [fuel] bounds the rounds, [rfuel] the Read calls
   of one ReadAtLeast.  The reader is returned too (the harness compares the number of Read calls
   and the bytes left unread with the implementation's). *)
Fixpoint rounds_chunked (fuel rfuel H i : nat) (buff : bytes) (rd : reader) (needles : list bytes)
  : option (bool * reader) :=
  match fuel with
  | O => None
  | S f =>
    let i := S i in
    let first := i =? 1 in
    let buff1 := if first || (i =? 2) then buff else copy_into buff (skipn H buff) in
    let slice := if first then firstn H buff1 else skipn H buff1 in
    match read_at_least rfuel rd slice H with
    | None => None
    | Some (slice', n, err, rd') =>
      let buff2 := if first then slice' ++ skipn H buff1 else firstn H buff1 ++ slice' in
      let end_ := if first then n else H + n in
      if (0 <? n) && search (firstn end_ buff2) needles then Some (true, rd')
      else if is_err err then Some (false, rd')
      else rounds_chunked f rfuel H i buff2 rd' needles
    end
  end.

(* Every Read call either delivers at least one byte, or uses up an oracle entry with c = 0, or
   reports io.EOF (which ends the search): content + oracle entries + 1 calls at most, and as
   many rounds.  Proofs/SearchChunkedProof.v shows that this fuel is never exhausted. *)
Definition search_fuel (content : bytes) (calls : list rcall) : nat :=
  length content + length calls + 2.

Definition go_contains_any_chunked_tr (factor hdiv : nat) (content : bytes) (calls : list rcall)
    (needles : list bytes) : option (bool * reader) :=
  let rd := mkReader content calls 0 in
  let L := largest needles in
  if L =? 0 then Some (false, rd) else
  let bufflen := factor * L in
  let H := Nat.div bufflen hdiv in
  let fuel := search_fuel content calls in
  rounds_chunked fuel fuel H 0 (zeros bufflen) rd needles.

(* None = out of fuel (excluded by the theorems) *)
Definition go_contains_any_chunked (factor hdiv : nat) (content : bytes) (calls : list rcall)
    (needles : list bytes) : option bool :=
  option_map fst (go_contains_any_chunked_tr factor hdiv content calls needles).

Definition reader_contains_any_chunked (content : bytes) (calls : list rcall) (needles : list bytes)
  : option bool :=
  go_contains_any_chunked (Z.to_nat search_factor) (Z.to_nat search_half_div) content calls needles.

(* for the model runner: answer, number of Read calls, bytes left unread *)
Definition reader_contains_any_chunked_tr (content : bytes) (calls : list rcall) (needles : list bytes)
  : option (bool * nat * nat) :=
  match go_contains_any_chunked_tr (Z.to_nat search_factor) (Z.to_nat search_half_div) content calls needles with
  | None => None
  | Some (b, rd) => Some (b, r_reads rd, length (r_rest rd))
  end.
