(* Model/BasePath.v — transcription of basepath.go (BasePathFs, BasePathFile) *)
From AF Require Import Lib.Bytes Lib.Path Lib.Ops Gen.Consts.
Local Open Scope Z_scope.

(* strings.TrimSuffix(s, "/") *)
Definition trim_suffix_slash (s : str) : str :=
  match rev s with c :: r => if N.eqb c SLASH then rev r else s | [] => s end.

(* BasePathFs.RealPath *)
Definition real_path (base name : str) : option str :=
  let bpath := clean base in
  let p := clean (path_join [bpath; name]) in
  if beqb p bpath || prefixb (trim_suffix_slash bpath ++ s_slash) p then Some p else None.

(* the call a BasePathFs method forwards to its source: every name goes through RealPath first;
   None = a name was refused (reported as not existing, the source is not called);
   handle operations go to the wrapped file unchanged *)
Definition bp_translate (base : str) (o : op) : option op :=
  let via (p : str) (k : str -> op) : option op :=
    match real_path base p with Some rp => Some (k rp) | None => None end in
  match o with
  | Create p => via p Create
  | Mkdir p perm => via p (fun rp => Mkdir rp perm)
  | MkdirAll p perm => via p (fun rp => MkdirAll rp perm)
  | Open p => via p Open
  | OpenFile p flag perm => via p (fun rp => OpenFile rp flag perm)
  | Remove p => via p Remove
  | RemoveAll p => via p RemoveAll
  | Rename p q =>
    match real_path base p, real_path base q with
    | Some rp, Some rq => Some (Rename rp rq)
    | _, _ => None
    end
  | Stat p => via p Stat
  | Chmod p m => via p (fun rp => Chmod rp m)
  | Chown p u g => via p (fun rp => Chown rp u g)
  | Chtimes p t => via p (fun rp => Chtimes rp t)
  | _ => Some o
  end.

(* BasePathFile.Name: strings.TrimPrefix(source name, strings.TrimSuffix(filepath.Clean(path), "/")) *)
Definition bp_name (base n : str) : str := trim_prefix n (trim_suffix_slash (clean base)).
Definition bp_relabel (base : str) (o : op) (r : res) : res :=
  match o, r with
  | HName _, RName n => RName (bp_name base n)
  | _, _ => r
  end.

Section BasePath.
Context {St : Type} (inner : St -> op -> St * res).
Variable base : str.

Definition bp_err : res := RErr (EW KNotExist).

Definition bp_step (s : St) (o : op) : St * res :=
  match bp_translate base o with
  | None => (s, bp_err)
  | Some o' => let '(s', r) := inner s o' in (s', bp_relabel base o r)
  end.
End BasePath.

(* httpFs.go httpDir.Open: the path handed to the source filesystem *)
Definition http_target (root name : str) : str :=
  let dir := if is_empty root then s_dot else root in
  path_join [dir; clean (SLASH :: name)].

(* SymlinkIfPossible maps BOTH names (link target and link name) through RealPath;
   LstatIfPossible / ReadlinkIfPossible map their single name *)
Definition bp_symlink (base oldname newname : str) : option (str * str) :=
  match real_path base oldname, real_path base newname with
  | Some a, Some b => Some (a, b)
  | _, _ => None
  end.
