(* Model/BasePath.v — transcription of basepath.go (BasePathFs, BasePathFile) *)
From AF Require Import Lib.Bytes Lib.Path Lib.Ops Gen.Consts.
Local Open Scope Z_scope.

(* strings.TrimSuffix(s, "/") *)
Definition trim_suffix_slash (s : str) : str :=
  match rev s with c :: r => if N.eqb c SLASH then rev r else s | [] => s end.

(* BasePathFs.RealPath *)
Definition real_path (base name : str) : option str :=
  let bpath := clean base in
  let p := clean (path_join [bpath; name]) in
  if beqb p bpath || prefixb (trim_suffix_slash bpath ++ s_slash) p then Some p else None.

Section BasePath.
Context {St : Type} (inner : St -> op -> St * res).
Variable base : str.

Definition bp_err : res := RErr (EW KNotExist).

Definition bp_step (s : St) (o : op) : St * res :=
  let via (p : str) (k : str -> op) : St * res :=
    match real_path base p with Some rp => inner s (k rp) | None => (s, bp_err) end in
  match o with
  | Create p => via p Create
  | Mkdir p perm => via p (fun rp => Mkdir rp perm)
  | MkdirAll p perm => via p (fun rp => MkdirAll rp perm)
  | Open p => via p Open
  | OpenFile p flag perm => via p (fun rp => OpenFile rp flag perm)
  | Remove p => via p Remove
  | RemoveAll p => via p RemoveAll
  | Rename p q =>
    match real_path base p, real_path base q with
    | Some rp, Some rq => inner s (Rename rp rq)
    | _, _ => (s, bp_err)
    end
  | Stat p => via p Stat
  | Chmod p m => via p (fun rp => Chmod rp m)
  | Chown p u g => via p (fun rp => Chown rp u g)
  | Chtimes p t => via p (fun rp => Chtimes rp t)
  | HName h =>
    (* BasePathFile.Name: strings.TrimPrefix(source name, filepath.Clean(path)) *)
    match inner s o with
    | (s', RName n) => (s', RName (trim_prefix n (clean base)))
    | x => x
    end
  | _ => inner s o
  end.
End BasePath.
