(* Model/Conc.v — the LOCK DISCIPLINE of MemMapFs / mem.File under concurrent use (C03).

   Shared state: the sequential model's [mst] (Model/MemFs.v) plus the lock state
   [mu : Free | R n | W tid] (MemMapFs.mu, a sync.RWMutex) and one mutex per FileData
   ([fm : ref -> option tid]).  Every API call is hand-compiled into instructions: lock
   operations as written in memmap.go / mem/file.go and ACTIONS, the code between two lock
   operations, whose bodies are the corresponding pieces of MemFs.v.  An action is always the
   last instruction of the code computed so far and returns the instructions up to (and
   including) the next action: the code after a lookup depends on what the lookup found.

   What is abstracted (named in checks/c03.py `assumptions`):
   - an action is atomic: preemption inside a section is not modelled; the transient
     FileData mutexes a section under [mu] takes (FileData.Name(), FileInfo.IsDir(), SetMode,
     ChangeFileName, parent.Lock() in (un)registerWithParent) appear as "touches"
     (acquire; release) BEFORE the section's body;
   - the table follows /repo as of commit 2d6ed35 (error paths of mem.File read the name through
     fileData.Name(); parent mutex released by defer; RemoveAll, Chmod, Chtimes: one write-locked
     section with a deferred unlock; Mkdir: no setFileMode) plus the C04 repair of OpenFile and
     Readdirnames: OpenFile takes mu itself (write-locked with O_CREATE, read-locked otherwise,
     released by defer) and finishes the handle (O_APPEND seek, O_TRUNC truncate: ONE transient
     hold of the file's mutex, mem.File.PrepareOpen) inside that section; Readdirnames takes the base names in the directory's locked
     section (File.readdirFiles, shared with Readdir) and no longer calls FileInfo.Name() per entry.
     RemoveAll as it was before commit ce143d9 is kept behind [cf_legacy] (the ARa sections): there
     Go's map iteration order is one legal order — the keys present when the loop starts, in
     ascending order; keys inserted later are not visited;
   - a pending writer does not block new readers of [mu] (Go's writer preference);
   - the Go memory model appears only through the access annotations [cc_acc] below;
   - a panic is recovered by the caller of the API method (deferred unlocks run, the goroutine
     goes on with its next call), as the stress harness does.

   - Rename (C04 repair of the directory mutexes) is the one method that holds several FileData
     mutexes at a time: the two parents across the move, inside them the directory whose children
     are re-keyed, inside that the child whose name changes - always with mu write-locked.  A thread
     therefore holds a STACK of file mutexes [th_f]; Rename's acquisitions are compiled as written
     (cc_rename_code: nested, skipping what is already held, as registerWithParent /
     unRegisterWithParent do through holdsDir), its effect on the tree stays one action that runs
     after them.

   No proofs here (Proofs/ConcProof.v). *)
From Coq Require Import String.
From AF Require Import Lib.Bytes Lib.Path Lib.Ops Gen.Consts Model.MemFile Model.MemFs.
Local Open Scope Z_scope.

(* ------------------------------------------------------------------ locks *)
Inductive cc_mu := CcFree | CcR (n : nat) (* n >= 1 readers *) | CcW (t : nat).
Inductive cc_lk := LkW | LkR | LkF.
Inductive cc_hmu := HNone | HR | HW.      (* what one thread holds of mu *)

Definition cc_lk_eqb (a b : cc_lk) : bool :=
  match a, b with LkW, LkW | LkR, LkR | LkF, LkF => true | _, _ => false end.
Definition cc_hmu_eqb (a b : cc_hmu) : bool :=
  match a, b with HNone, HNone | HR, HR | HW, HW => true | _, _ => false end.
Fixpoint cc_lks_eqb (a b : list cc_lk) : bool :=
  match a, b with
  | [], [] => true
  | x :: a', y :: b' => cc_lk_eqb x y && cc_lks_eqb a' b'
  | _, _ => false
  end.

(* ------------------------------------------------------------------ actions *)
Inductive cc_hk := HkRead | HkReadAt | HkWrite | HkWriteAt | HkSeek | HkTruncate | HkClose
                 | HkStat | HkName | HkSync | HkReaddir | HkReaddirnames.

Inductive cc_aid :=
| ACreateT | ACreate
| AMkdirCheck | AMkdirCreateT | AMkdirCreate
| AOpen
| AStatLookup | AStatRead
| AChmodT | AChmod
| AChtT | ACht
| AOfLookupT | AOfLookup | AOfCreateT | AOfCreate
| ARemoveT | ARemove
| ARenameT | ARename
| ARemoveAllT | ARemoveAll
| ARaUnregT | ARaUnreg | ARaScan | ARaDelete | ARaNext   (* RemoveAll before commit ce143d9 (legacy) *)
| AHPre (k : cc_hk) | AHBody (k : cc_hk)
| AXList.                                   (* MemMapFs.List (under mu.RLock since 2d6ed35): annotations only, never compiled *)

Inductive cc_instr :=
| CcAcq (l : cc_lk) (r : nat)     (* r: the FileData whose mutex is taken (LkF only) *)
| CcRel (l : cc_lk)               (* LkF: the file mutex this thread took last *)
| CcDefer (l : cc_lk)             (* defer <unlock> *)
| CcAct (a : cc_aid).

(* the locks an action runs under, as read from the source: (mu, a file mutex?, pending defers) *)
Definition cc_ctx (a : cc_aid) : cc_hmu * bool * list cc_lk :=
  match a with
  | ACreateT | ACreate | AMkdirCreateT | AMkdirCreate
  | ARaUnregT | ARaUnreg => (HW, false, [])
  | ARemoveT | ARemove | ARenameT | ARename | ARemoveAllT | ARemoveAll | AChmodT | AChmod | AChtT | ACht
  | AOfCreateT | AOfCreate => (HW, false, [LkW])
  | AMkdirCheck | AOpen | AStatLookup => (HR, false, [])
  | AStatRead => (HNone, true, [])
  | ARaScan | ARaNext | AOfLookupT | AOfLookup => (HR, false, [LkR])
  | ARaDelete => (HW, false, [LkR])
  | AHPre _ => (HNone, false, [])
  | AHBody _ => (HNone, true, [])
  | AXList => (HR, false, [LkR])
  end.

(* ------------------------------------------------------------------ frames, threads *)
Record cc_frame := mkCcFr {
  fr_op : op; fr_ref : nat; fr_h : nat; fr_z : Z; fr_keys : list str; fr_created : bool; fr_res : res }.

Definition fr_set_res (f : cc_frame) (r : res) : cc_frame :=
  mkCcFr (fr_op f) (fr_ref f) (fr_h f) (fr_z f) (fr_keys f) (fr_created f) r.
Definition fr_set_ref (f : cc_frame) (x : nat) : cc_frame :=
  mkCcFr (fr_op f) x (fr_h f) (fr_z f) (fr_keys f) (fr_created f) (fr_res f).
Definition fr_set_h (f : cc_frame) (x : nat) : cc_frame :=
  mkCcFr (fr_op f) (fr_ref f) x (fr_z f) (fr_keys f) (fr_created f) (fr_res f).
Definition fr_set_z (f : cc_frame) (x : Z) : cc_frame :=
  mkCcFr (fr_op f) (fr_ref f) (fr_h f) x (fr_keys f) (fr_created f) (fr_res f).
Definition fr_set_keys (f : cc_frame) (x : list str) : cc_frame :=
  mkCcFr (fr_op f) (fr_ref f) (fr_h f) (fr_z f) x (fr_created f) (fr_res f).
Definition fr_set_created (f : cc_frame) (x : bool) : cc_frame :=
  mkCcFr (fr_op f) (fr_ref f) (fr_h f) (fr_z f) (fr_keys f) x (fr_res f).

Inductive cc_out :=
| CcCont (s : mst) (f : cc_frame) (code : list cc_instr)
| CcPanic (s : mst).

Definition cc_path (o : op) : str :=
  match o with
  | Create p | Mkdir p _ | MkdirAll p _ | Open p | OpenFile p _ _ | Remove p | RemoveAll p | Rename p _
  | Stat p | Chmod p _ | Chown p _ _ | Chtimes p _ => normalize_path p
  | _ => []
  end.

Definition cc_parent_path (p : str) : str := normalize_path (clean (fst (path_split p))).
Definition cc_node_at (s : mst) (p : str) : list nat := match lookup s p with Some r => [r] | None => [] end.
Definition cc_touch1 (s : mst) (p : str) : list nat := cc_node_at s p ++ cc_node_at s (cc_parent_path p).
Definition cc_touch_rename (s : mst) (p q : str) : list nat :=
  cc_touch1 s p ++ cc_node_at s (cc_parent_path q) ++ find_descendants s p.
Definition cc_touches (l : list nat) : list cc_instr := flat_map (fun r => [CcAcq LkF r; CcRel LkF]) l.

(* ---- Rename: nested holds ---- *)
Definition cc_heldb (r : nat) (held : list nat) : bool := existsb (Nat.eqb r) held.
(* transient locks of mutexes that are not held already *)
Definition cc_touches_h (held l : list nat) : list cc_instr :=
  flat_map (fun r => if cc_heldb r held then [] else [CcAcq LkF r; CcRel LkF]) l.
(* hold the mutexes [hs] (those not yet held), one inside the other, around [inner] *)
Fixpoint cc_holding (held hs : list nat) (inner : list nat -> list cc_instr) : list cc_instr :=
  match hs with
  | [] => inner held
  | r :: rest => if cc_heldb r held then cc_holding held rest inner
                 else CcAcq LkF r :: cc_holding (r :: held) rest inner ++ [CcRel LkF]
  end.
Definition cc_opt_nat_eqb (a : option nat) (b : nat) : bool := match a with Some x => Nat.eqb x b | None => false end.

(* the lock operations of Rename(p, q) (normalised names) between taking mu and its effect:
   renameParents: the old and the new parent, unless the entry is renamed into its own subtree
   (then nothing is held across, as before) and never the entry itself; under them: f.Name() /
   ChangeFileName(f), the Name() calls of findDescendants' sort, then per directory of the
   subtree ONE hold (renameSiblings) around the transient locks of its children
   (Name, ChangeFileName), last registerWithParent(f), which locks the new parent unless held *)
Definition cc_rename_code (s : mst) (p q : str) : list cc_instr :=
  match lookup s p with
  | None =>
    (* the source is missing: IsDir of its directory, then lockfreeBelowFile(q) (IsDir of the
       directory of the target, if there is one) — transient, nothing is held *)
    cc_touches_h [] (cc_node_at s (cc_parent_path p) ++ cc_node_at s (cc_parent_path q))
  | Some f =>
    let descs := find_descendants s p in
    let parents := if prefixb (p ++ s_slash) q then []
                   else filter (fun r => negb (Nat.eqb r f)) (cc_node_at s (cc_parent_path p) ++ cc_node_at s (cc_parent_path q)) in
    cc_holding [] parents (fun held =>
      cc_touches_h held (f :: descs) ++
      flat_map (fun d => match filter (fun x => cc_opt_nat_eqb (find_parent s x) d) descs with
                         | [] => []
                         | kids => if prefixb (p ++ s_slash) q then cc_touches_h held (d :: kids)
                                   else cc_holding held [d] (fun held' => cc_touches_h held' kids)
                         end) (f :: descs) ++
      cc_touches_h held (cc_node_at s (cc_parent_path q)))
  end.

Definition cc_is_mkdirall (o : op) : bool := match o with MkdirAll _ _ => true | _ => false end.
Definition cc_perm (o : op) : Z :=
  match o with Mkdir _ p | MkdirAll _ p | OpenFile _ _ p => Z.land p chmod_bits | _ => 0 end.
Definition cc_flag (o : op) : Z := match o with OpenFile _ f _ => f | _ => 0 end.

(* OpenFile, inside its locked section once the handle h on node x exists: the O_APPEND seek
   (offset := length) and then the O_TRUNC truncate (data := empty, time stamp), both under ONE
   hold of the file's mutex (mem.File.PrepareOpen; before that repair OpenFile called
   mem.File.Seek and mem.File.Truncate, two holds of that mutex inside the same section of mu) *)
Definition cc_of_wants_finish (flag : Z) : bool :=
  flag_has flag o_append || (flag_has flag o_trunc && flag_has flag (Z.lor o_rdwr o_wronly)).
Definition cc_of_finish (s : mst) (x h : nat) (flag : Z) : mst :=
  let s1 := if flag_has flag o_append
            then let len := match get_node s x with Some n => zlen (ndata n) | None => 0 end in
                 match nth_error (mhandles s) h with
                 | Some hd => set_handle s h (set_at hd len) | None => s end
            else s in
  if flag_has flag o_trunc && flag_has flag (Z.lor o_rdwr o_wronly)
  then upd_node s1 x (fun n => with_mtime (mclock s1) (with_data [] n)) else s1.

Definition cc_ra_next (keys : list str) : list cc_instr :=
  match keys with
  | [] => []
  | _ :: _ => [CcRel LkR; CcAcq LkW 0%nat; CcAct ARaDelete]
  end.

Definition cc_hk_of (o : op) : option cc_hk :=
  match o with
  | HRead _ _ => Some HkRead | HReadAt _ _ _ => Some HkReadAt
  | HWrite _ _ | HWriteString _ _ => Some HkWrite | HWriteAt _ _ _ => Some HkWriteAt
  | HSeek _ _ _ => Some HkSeek | HTruncate _ _ => Some HkTruncate | HClose _ => Some HkClose
  | HStat _ => Some HkStat | HName _ => Some HkName | HSync _ => Some HkSync
  | HReaddir _ _ => Some HkReaddir | HReaddirnames _ _ => Some HkReaddirnames
  | _ => None
  end.

(* does the method return (or run to its end) without taking the file mutex? *)
Definition cc_early (o : op) (h : hnd) (nd : node) : bool :=
  match o with
  | HRead _ _ => false
  | HReadAt _ _ off => off <? 0
  | HWrite _ b | HWriteString _ b => hclosed h || hro h || (zlen b =? 0)
  | HWriteAt _ b off => (off <? 0) || hclosed h || hro h || (zlen b =? 0)
  | HSeek _ _ wh => hclosed h || negb (wh =? 2)
  | HTruncate _ n => hclosed h || hro h || (n <? 0)
  | HReaddir _ _ | HReaddirnames _ _ => negb (ndir nd)
  | HClose _ | HStat _ | HName _ => false
  | _ => true
  end.

(* does the early return build its *os.PathError, i.e. call fileData.Name() (a transient lock of the
   file mutex since commit cbef301)? *)
Definition cc_early_name (o : op) (h : hnd) (nd : node) : bool :=
  match o with
  | HReadAt _ _ off => off <? 0
  | HWrite _ _ | HWriteString _ _ => negb (hclosed h) && hro h
  | HWriteAt _ _ off => (off <? 0) || (negb (hclosed h) && hro h)
  | HTruncate _ _ => negb (hclosed h) && hro h
  | HSeek _ off wh =>
      negb (hclosed h) && negb (wh =? 2) && ((if wh =? 0 then off else if wh =? 1 then hat h + off else hat h) <? 0)
  | HReaddir _ _ | HReaddirnames _ _ => negb (ndir nd)
  | _ => false
  end.

Definition cc_tick (s : mst) : mst := mkM (mdata s) (mheap s) (mhandles s) (mclock s + 1).

Definition cc_under_keys (s : mst) (path : str) : list str :=
  sort_by bltb (map fst (filter (fun kv => under path (fst kv)) (mdata s))).

(* Mkdir's write-locked section once the name is known to be absent (= m_mkdir without its
   final setFileMode) *)
Definition cc_mkdir_body (s : mst) (name : str) (perm : Z) : mst :=
  let '(s1, item) := alloc_node s (with_mode (Z.lor mode_dir perm) (new_dir name (mclock s))) in
  let s2 := set_data s1 (alist_set name item (mdata s1)) in
  reg s2 item perm.

(* openOrCreate's write-locked section: inl = its error — EEXIST (O_EXCL on an existing name) or
   ENOTDIR (lockfreeBelowFile: a free name whose nearest existing ancestor is a regular file) *)
Definition cc_open_or_create (s : mst) (name : str) (flag perm : Z) : errk + (mst * nat) :=
  match lookup s name with
  | Some x => if flag_has flag o_excl then inl KExist else inr (s, x)
  | None =>
    if below_file s name then inl KENOTDIR else
    let '(s1, x) := alloc_node s (with_mode perm (new_file name (mclock s))) in
    let s2 := set_data s1 (alist_set name x (mdata s1)) in
    inr (reg s2 x 0, x)
  end.

(* the semantics of the actions; [f] is the frame of the running call *)
Definition cc_sem (a : cc_aid) (f : cc_frame) (s0 : mst) : cc_out :=
  let s := cc_tick s0 in
  let o := fr_op f in
  let name := cc_path o in
  match a with
  | ACreateT => CcCont s f (cc_touches (cc_touch1 s name) ++ [CcAct ACreate])
  | ACreate =>
      let '(s1, r) := m_create s name in CcCont s1 (fr_set_res f r) [CcRel LkW]
  | AMkdirCheck =>
      match lookup s name with
      | Some _ => CcCont s (fr_set_res f (if cc_is_mkdirall o then ROk else RErr (EW KExist))) [CcRel LkR]
      | None => CcCont s f [CcRel LkR; CcAcq LkW 0%nat; CcAct AMkdirCreateT]
      end
  | AMkdirCreateT => CcCont s f (cc_touches (cc_touch1 s name) ++ [CcAct AMkdirCreate])
  | AMkdirCreate =>
      match lookup s name with
      | Some _ => CcCont s (fr_set_res f (if cc_is_mkdirall o then ROk else RErr (EW KExist))) [CcRel LkW]
      | None =>
        let perm := cc_perm o in
        if below_file s name
        then CcCont s (fr_set_res f (RErr (EW KENOTDIR))) [CcRel LkW]      (* lockfreeBelowFile *)
        else CcCont (cc_mkdir_body s name perm) (fr_set_res f ROk) [CcRel LkW]
      end
  | AOpen => let '(s1, r) := m_open s name in CcCont s1 (fr_set_res f r) [CcRel LkR]
  | AStatLookup =>
      match lookup s name with
      | None => CcCont s (fr_set_res f (RErr (EW KNotExist))) [CcRel LkR]
      | Some x => CcCont s (fr_set_ref f x) [CcRel LkR; CcAcq LkF x; CcAct AStatRead]
      end
  | AStatRead =>
      match get_node s (fr_ref f) with
      | Some n => CcCont s (fr_set_res f (RInfo (finfo_of n))) [CcRel LkF]
      | None => CcCont s (fr_set_res f RPanic) [CcRel LkF]     (* unreachable: nodes are never freed *)
      end
  | AChmodT => CcCont s f (cc_touches (cc_node_at s name) ++ [CcAct AChmod])
  | AChmod =>
      let m := match o with Chmod _ m => m | _ => 0 end in
      let '(s1, r) := m_chmod s name m in CcCont s1 (fr_set_res f r) []
  | AChtT => CcCont s f (cc_touches (cc_node_at s name) ++ [CcAct ACht])
  | ACht =>
      let t := match o with Chtimes _ t => t | _ => 0 end in
      let '(s1, r) := m_chtimes s name t in CcCont s1 (fr_set_res f r) []
  | AOfLookupT =>
      (* without O_CREATE, mu read-locked: PrepareOpen takes the mutex of the file found *)
      CcCont s f (cc_touches (if cc_of_wants_finish (cc_flag o) then cc_node_at s name else []) ++ [CcAct AOfLookup])
  | AOfLookup =>
      let flag := cc_flag o in
      match lookup s name with
      | Some x =>
        let ro := Z.eqb (Z.land flag memfs_access_mask) 0 in
        let '(s1, h) := alloc_handle s (mkH x 0 0 false ro) in
        CcCont (cc_of_finish s1 x h flag) (fr_set_res (fr_set_h (fr_set_ref f x) h) (RHandle h)) []
      | None => CcCont s (fr_set_res f (RErr (EW KNotExist))) []
      end
  | AOfCreateT => CcCont s f (cc_touches (cc_touch1 s name) ++ [CcAct AOfCreate])
  | AOfCreate =>
      (* with O_CREATE, mu write-locked: lockfreeOpenOrCreate, then the handle is finished *)
      let flag := cc_flag o in
      let ro := Z.eqb (Z.land flag memfs_access_mask) 0 in
      match cc_open_or_create s name flag (cc_perm o) with
      | inl k => CcCont s (fr_set_res f (RErr (EW k))) []
      | inr (s1, x) =>
        let '(s2, h) := alloc_handle s1 (mkH x 0 0 false ro) in
        CcCont (cc_of_finish s2 x h flag) (fr_set_res (fr_set_h (fr_set_ref f x) h) (RHandle h)) []
      end
  | ARemoveT => CcCont s f (cc_touches (cc_touch1 s name) ++ [CcAct ARemove])
  | ARemove =>
      match m_remove s name with
      | (_, RPanic) => CcPanic s
      | (s1, r) => CcCont s1 (fr_set_res f r) []
      end
  | ARenameT =>
      let q := match o with Rename _ q => normalize_path q | _ => [] end in
      CcCont s f (cc_rename_code s name q ++ [CcAct ARename])
  | ARename =>
      let q := match o with Rename _ q => q | _ => [] end in
      match m_rename s name q with
      | (_, RPanic) => CcPanic s
      | (s1, r) => CcCont s1 (fr_set_res f r) []
      end
  | ARemoveAllT => CcCont s f (cc_touches (cc_touch1 s name) ++ [CcAct ARemoveAll])
  | ARemoveAll =>
      match m_removeall s name with
      | (_, RPanic) => CcPanic s                (* log.Panic in unRegisterWithParent; the deferred unlock runs *)
      | (s1, r) => CcCont s1 (fr_set_res f r) []
      end
  | ARaUnregT => CcCont s f (cc_touches (cc_touch1 s name) ++ [CcAct ARaUnreg])
  | ARaUnreg =>
      match unregister s name with
      | None => CcPanic s                       (* log.Panic with mu write-locked and no defer *)
      | Some (s1, _) => CcCont s1 (fr_set_res f ROk) [CcRel LkW; CcAcq LkR 0%nat; CcDefer LkR; CcAct ARaScan]
      end
  | ARaScan =>
      let keys := cc_under_keys s name in
      CcCont s (fr_set_keys f keys) (cc_ra_next keys)
  | ARaDelete =>
      match fr_keys f with
      | [] => CcCont s f [CcRel LkW; CcAcq LkR 0%nat; CcAct ARaNext]
      | k :: r => CcCont (set_data s (alist_del k (mdata s))) (fr_set_keys f r)
                         [CcRel LkW; CcAcq LkR 0%nat; CcAct ARaNext]
      end
  | ARaNext => CcCont s f (cc_ra_next (fr_keys f))
  | AHPre k =>
      match nth_error (mhandles s) (fr_h f) with
      | None => CcCont s (fr_set_res f RNoSlot) []
      | Some hd =>
        match get_node s (href hd) with
        | None => CcPanic s
        | Some nd =>
          if cc_early o hd nd
          then let '(s1, r) := m_step_raw s (op_set_handle o (fr_h f)) in
               CcCont s1 (fr_set_res f r) (cc_touches (if cc_early_name o hd nd then [href hd] else []))
          else CcCont s (fr_set_ref f (href hd)) [CcAcq LkF (href hd); CcAct (AHBody k)]
        end
      end
  | AHBody k =>
      let '(s1, r) := m_step_raw s (op_set_handle o (fr_h f)) in
      let kids := match k with
                  | HkReaddir =>     (* the FileInfo accessors the caller uses on the live entries *)
                    match get_node s (fr_ref f) with Some nd => map snd (nkids nd) | None => [] end
                  | HkSeek => if res_is_err r then [fr_ref f] else []    (* SeekEnd to a negative position: Name() *)
                  | _ => []
                  end in
      CcCont s1 (fr_set_res f r) (CcRel LkF :: cc_touches kids)
  | AXList => CcCont s f []
  end.

Record cc_thread := mkCcT {
  th_prog : list op;               (* calls not yet started *)
  th_active : bool;                (* a call is in progress *)
  th_code : list cc_instr;         (* the rest of the running call, as far as it is determined *)
  th_defers : list cc_lk;          (* pending deferred unlocks, innermost first *)
  th_fr : cc_frame;
  th_slots : list (option nat);    (* per completed call: the handle it returned *)
  th_results : list res;           (* results of the completed calls, most recent first *)
  th_mu : cc_hmu; th_f : list nat;     (* what this thread holds: of mu, and the file mutexes (innermost first) *)
  th_leaked : bool                 (* a panic left a lock behind that no defer releases *)
}.

Inductive cc_bad := CcBadUnlock (t : nat) (l : cc_lk).

Record cc_cfg := mkCcC {
  cf_st : mst; cf_mu : cc_mu; cf_fm : nat -> option nat;
  cf_threads : list cc_thread; cf_bad : option cc_bad; cf_panics : nat;
  cf_legacy : bool      (* true: RemoveAll as it was before commit ce143d9 (kept for the record) *)
}.

Definition fr0 (o : op) : cc_frame := mkCcFr o 0%nat 0%nat 0 [] false RNoSlot.

(* the first instructions of a call *)
Definition cc_begin (legacy : bool) (o : op) (slots : list (option nat)) : cc_frame * list cc_instr :=
  let f := fr0 o in
  match o with
  | Create _ => (f, [CcAcq LkW 0%nat; CcAct ACreateT])
  | Mkdir _ _ | MkdirAll _ _ => (f, [CcAcq LkR 0%nat; CcAct AMkdirCheck])
  | Open _ => (f, [CcAcq LkR 0%nat; CcAct AOpen])
  | OpenFile _ fl _ => if flag_has fl o_create then (f, [CcAcq LkW 0%nat; CcDefer LkW; CcAct AOfCreateT])
                       else (f, [CcAcq LkR 0%nat; CcDefer LkR; CcAct AOfLookupT])
  | Remove _ => (f, [CcAcq LkW 0%nat; CcDefer LkW; CcAct ARemoveT])
  | RemoveAll _ => if legacy then (f, [CcAcq LkW 0%nat; CcAct ARaUnregT])
                   else (f, [CcAcq LkW 0%nat; CcDefer LkW; CcAct ARemoveAllT])
  | Rename _ _ => (f, [CcAcq LkW 0%nat; CcDefer LkW; CcAct ARenameT])
  | Stat _ => (f, [CcAcq LkR 0%nat; CcAct AStatLookup])
  | Chmod _ _ => (f, [CcAcq LkW 0%nat; CcDefer LkW; CcAct AChmodT])
  | Chtimes _ _ => (f, [CcAcq LkW 0%nat; CcDefer LkW; CcAct AChtT])
  | Chown _ _ _ => (f, [])                      (* outside the property's list: not modelled *)
  | _ =>
    match cc_hk_of o, op_handle_of o with
    | Some k, Some i =>
      match nth_error slots i with
      | Some (Some h) => (fr_set_h f h, [CcAct (AHPre k)])
      | _ => (f, [])
      end
    | _, _ => (f, [])
    end
  end.

(* which API method of today's code a section belongs to (the legacy sections: none) *)
Definition cc_aid_for (a : cc_aid) (o : op) : bool :=
  match a, o with
  | (ACreateT | ACreate), Create _ => true
  | (AMkdirCheck | AMkdirCreateT | AMkdirCreate), (Mkdir _ _ | MkdirAll _ _) => true
  | AOpen, Open _ => true
  | (AStatLookup | AStatRead), Stat _ => true
  | (AChmodT | AChmod), Chmod _ _ => true
  | (AChtT | ACht), Chtimes _ _ => true
  | (ARemoveAllT | ARemoveAll), RemoveAll _ => true
  | (AOfLookupT | AOfLookup | AOfCreateT | AOfCreate), OpenFile _ _ _ => true
  | (ARemoveT | ARemove), Remove _ => true
  | (ARenameT | ARename), Rename _ _ => true
  | (AHPre _ | AHBody _), _ => match op_handle_of o with Some _ => true | None => false end
  | _, _ => false
  end.

Definition cc_leaky (a : cc_aid) : bool := match a with ARaUnreg => true | _ => false end.

Definition fm_set (fm : nat -> option nat) (r : nat) (v : option nat) : nat -> option nat :=
  fun x => if Nat.eqb x r then v else fm x.

(* the next lock-relevant thing a thread does *)
Inductive cc_next := NxStart | NxInstr (i : cc_instr) | NxDeferred (l : cc_lk) | NxFinish | NxNone.

Definition cc_next_of (th : cc_thread) : cc_next :=
  if th_active th then
    match th_code th with
    | i :: _ => NxInstr i
    | [] => match th_defers th with l :: _ => NxDeferred l | [] => NxFinish end
    end
  else match th_prog th with [] => NxNone | _ :: _ => NxStart end.

Definition cc_unfinished (th : cc_thread) : bool :=
  match cc_next_of th with NxNone => false | _ => true end.

Definition cc_can_acq (c : cc_cfg) (l : cc_lk) (r : nat) : bool :=
  match l with
  | LkW => match cf_mu c with CcFree => true | _ => false end
  | LkR => match cf_mu c with CcFree | CcR _ => true | CcW _ => false end
  | LkF => match cf_fm c r with None => true | Some _ => false end
  end.

Definition cc_enabled (c : cc_cfg) (t : nat) : bool :=
  match nth_error (cf_threads c) t with
  | None => false
  | Some th =>
    match cc_next_of th with
    | NxNone => false
    | NxInstr (CcAcq l r) => cc_can_acq c l r
    | _ => true
    end
  end.

Definition th_set_code (th : cc_thread) (code : list cc_instr) : cc_thread :=
  mkCcT (th_prog th) (th_active th) code (th_defers th) (th_fr th) (th_slots th) (th_results th)
        (th_mu th) (th_f th) (th_leaked th).
Definition th_set_defers (th : cc_thread) (d : list cc_lk) : cc_thread :=
  mkCcT (th_prog th) (th_active th) (th_code th) d (th_fr th) (th_slots th) (th_results th)
        (th_mu th) (th_f th) (th_leaked th).
Definition th_set_held (th : cc_thread) (m : cc_hmu) (fo : list nat) : cc_thread :=
  mkCcT (th_prog th) (th_active th) (th_code th) (th_defers th) (th_fr th) (th_slots th) (th_results th)
        m fo (th_leaked th).

Definition cf_set_thread (c : cc_cfg) (t : nat) (th : cc_thread) : cc_cfg :=
  mkCcC (cf_st c) (cf_mu c) (cf_fm c) (list_set t th (cf_threads c)) (cf_bad c) (cf_panics c) (cf_legacy c).

(* release of lock l by thread t / th (which must hold it): the new lock state, or an unlock error *)
Definition cc_release (c : cc_cfg) (t : nat) (th : cc_thread) (l : cc_lk) : cc_cfg :=
  let err := mkCcC (cf_st c) (cf_mu c) (cf_fm c) (list_set t th (cf_threads c)) (Some (CcBadUnlock t l)) (cf_panics c) (cf_legacy c) in
  match l with
  | LkW =>
    match cf_mu c, th_mu th with
    | CcW t', HW => if Nat.eqb t t'
                    then mkCcC (cf_st c) CcFree (cf_fm c) (list_set t (th_set_held th HNone (th_f th)) (cf_threads c))
                               (cf_bad c) (cf_panics c) (cf_legacy c)
                    else err
    | _, _ => err
    end
  | LkR =>
    match cf_mu c, th_mu th with
    | CcR (S n), HR =>
      mkCcC (cf_st c) (match n with O => CcFree | S _ => CcR n end) (cf_fm c)
            (list_set t (th_set_held th HNone (th_f th)) (cf_threads c)) (cf_bad c) (cf_panics c) (cf_legacy c)
    | _, _ => err
    end
  | LkF =>
    match th_f th with
    | r :: rest =>
      match cf_fm c r with
      | Some t' => if Nat.eqb t t'
                   then mkCcC (cf_st c) (cf_mu c) (fm_set (cf_fm c) r None)
                              (list_set t (th_set_held th (th_mu th) rest) (cf_threads c)) (cf_bad c) (cf_panics c) (cf_legacy c)
                   else err
      | None => err
      end
    | [] => err
    end
  end.

Definition cc_acquire (c : cc_cfg) (t : nat) (th : cc_thread) (l : cc_lk) (r : nat) : cc_cfg :=
  match l with
  | LkW => mkCcC (cf_st c) (CcW t) (cf_fm c) (list_set t (th_set_held th HW (th_f th)) (cf_threads c)) (cf_bad c) (cf_panics c) (cf_legacy c)
  | LkR => mkCcC (cf_st c) (match cf_mu c with CcR n => CcR (S n) | _ => CcR 1 end) (cf_fm c)
                 (list_set t (th_set_held th HR (th_f th)) (cf_threads c)) (cf_bad c) (cf_panics c) (cf_legacy c)
  | LkF => mkCcC (cf_st c) (cf_mu c) (fm_set (cf_fm c) r (Some t))
                 (list_set t (th_set_held th (th_mu th) (r :: th_f th)) (cf_threads c)) (cf_bad c) (cf_panics c) (cf_legacy c)
  end.

(* do the deferred unlocks registered so far release everything that is held? *)
(* f: the number of file mutexes held *)
Fixpoint cc_okd (m : cc_hmu) (f : nat) (d : list cc_lk) : bool :=
  match d with
  | [] => cc_hmu_eqb m HNone && Nat.eqb f 0
  | LkW :: d' => cc_hmu_eqb m HW && cc_okd HNone f d'
  | LkR :: d' => cc_hmu_eqb m HR && cc_okd HNone f d'
  | LkF :: d' => Nat.ltb 0 f && cc_okd m (pred f) d'
  end.

(* one step of thread t; a thread that is not enabled does not move *)
Definition cc_step (c : cc_cfg) (t : nat) : cc_cfg :=
  if negb (cc_enabled c t) then c else
  match nth_error (cf_threads c) t with
  | None => c
  | Some th =>
    match cc_next_of th with
    | NxNone => c
    | NxStart =>
      match th_prog th with
      | [] => c
      | o :: rest =>
        let '(f, code) := cc_begin (cf_legacy c) o (th_slots th) in
        cf_set_thread c t (mkCcT rest true code [] f (th_slots th) (th_results th) (th_mu th) (th_f th) (th_leaked th))
      end
    | NxFinish =>
      let r := fr_res (th_fr th) in
      let slot := match r with RHandle h => Some h | _ => None end in
      cf_set_thread c t (mkCcT (th_prog th) false [] [] (th_fr th) (th_slots th ++ [slot]) (r :: th_results th)
                               (th_mu th) (th_f th) (th_leaked th))
    | NxDeferred l => cc_release c t (th_set_defers th (tl (th_defers th))) l
    | NxInstr i =>
      let th1 := th_set_code th (tl (th_code th)) in
      match i with
      | CcAcq l r => cc_acquire c t th1 l r
      | CcRel l => cc_release c t th1 l
      | CcDefer l => cf_set_thread c t (th_set_defers th1 (l :: th_defers th1))
      | CcAct a =>
        match cc_sem a (th_fr th) (cf_st c) with
        | CcCont s f code =>
          mkCcC s (cf_mu c) (cf_fm c)
                (list_set t (mkCcT (th_prog th) true (code ++ th_code th1) (th_defers th) f (th_slots th)
                                   (th_results th) (th_mu th) (th_f th) (th_leaked th)) (cf_threads c))
                (cf_bad c) (cf_panics c) (cf_legacy c)
        | CcPanic s =>
          (* unwinding: the rest of the call is skipped, deferred calls still run, the caller recovers *)
          let leak := negb (cc_okd (th_mu th) (length (th_f th)) (th_defers th)) in
          mkCcC s (cf_mu c) (cf_fm c)
                (list_set t (mkCcT (th_prog th) true [] (th_defers th) (fr_set_res (th_fr th) RPanic) (th_slots th)
                                   (th_results th) (th_mu th) (th_f th) (th_leaked th || leak)) (cf_threads c))
                (cf_bad c) (S (cf_panics c)) (cf_legacy c)
        end
      end
    end
  end.

Definition cc_mk_thread (slots : list (option nat)) (p : list op) : cc_thread :=
  mkCcT p false [] [] (fr0 (HSync 0%nat)) slots [] HNone [] false.

Definition cc_init_gen (legacy : bool) (s : mst) (progs : list (list (option nat) * list op)) : cc_cfg :=
  mkCcC s CcFree (fun _ => None) (map (fun sp => cc_mk_thread (fst sp) (snd sp)) progs) None 0%nat legacy.
Definition cc_init_from := cc_init_gen false.

Definition cc_init (progs : list (list op)) : cc_cfg :=
  cc_init_from m_init (map (fun p => ([], p)) progs).

Definition run_sched_from (c : cc_cfg) (sched : list nat) : cc_cfg := fold_left cc_step sched c.
Definition run_sched (progs : list (list op)) (sched : list nat) : cc_cfg := run_sched_from (cc_init progs) sched.
(* the same programs on the code before commit ce143d9 *)
Definition run_sched_legacy (progs : list (list op)) (sched : list nat) : cc_cfg :=
  run_sched_from (cc_init_gen true m_init (map (fun p => ([], p)) progs)) sched.

(* a sequential prefix (setup of a case, prologue of a goroutine): slot i = handle returned by op i *)
Fixpoint cc_seq (s : mst) (slots : list (option nat)) (ops : list op) : mst * list (option nat) :=
  match ops with
  | [] => (s, slots)
  | o :: r =>
    match op_handle_of o with
    | None =>
      let '(s1, x) := m_step s o in
      cc_seq s1 (slots ++ [match x with RHandle h => Some h | _ => None end]) r
    | Some i =>
      match nth_error slots i with
      | Some (Some h) => let '(s1, _) := m_step s (op_set_handle o h) in cc_seq s1 (slots ++ [None]) r
      | _ => cc_seq s (slots ++ [None]) r
      end
    end
  end.

Fixpoint cc_prologues (s : mst) (progs : list (list op * list op)) : mst * list (list (option nat) * list op) :=
  match progs with
  | [] => (s, [])
  | (pro, ops) :: r =>
    let '(s1, slots) := cc_seq s [] pro in
    let '(s2, rest) := cc_prologues s1 r in
    (s2, (slots, ops) :: rest)
  end.

(* a case of the harness: setup, then per goroutine (prologue, concurrent ops) *)
Definition cc_case_cfg (setup : list op) (progs : list (list op * list op)) : cc_cfg :=
  let '(s0, _) := cc_seq m_init [] setup in
  let '(s1, ps) := cc_prologues s0 progs in
  cc_init_from s1 ps.

(* ------------------------------------------------------------------ bad configurations *)
Definition cc_any_unfinished (c : cc_cfg) : bool := existsb cc_unfinished (cf_threads c).
Definition cc_any_enabled (c : cc_cfg) : bool :=
  existsb (cc_enabled c) (seq 0 (length (cf_threads c))).
Definition cc_stuckb (c : cc_cfg) : bool := cc_any_unfinished c && negb (cc_any_enabled c).
Definition cc_quiescentb (c : cc_cfg) : bool := negb (cc_any_unfinished c).
Definition cc_noleakb (c : cc_cfg) : bool := forallb (fun th => negb (th_leaked th)) (cf_threads c).
Definition cc_results (c : cc_cfg) : list (list res) := map (fun th => rev (th_results th)) (cf_threads c).

(* a fair completion: round-robin until nothing moves (fuel rounds) *)
Fixpoint cc_drain (fuel : nat) (c : cc_cfg) : cc_cfg :=
  match fuel with
  | O => c
  | S k => if cc_any_enabled c
           then cc_drain k (fold_left cc_step (seq 0 (length (cf_threads c))) c)
           else c
  end.

(* ------------------------------------------------------------------ tree consistency *)
(* the three clauses of the property over the path map and the child indexes *)
Definition cc_is_dir_node (s : mst) (r : nat) : bool :=
  match get_node s r with Some n => ndir n && nhasdir n | None => false end.

(* clause 1+3 for one entry: its parent exists, is a directory, and lists it under its own name *)
Definition cc_entry_ok (s : mst) (kv : str * nat) : bool :=
  let '(p, r) := kv in
  beqb p s_slash ||
  match lookup s (cc_parent_path p) with
  | None => false
  | Some pr =>
    cc_is_dir_node s pr &&
    match get_node s pr with
    | Some pn => match alist_get p (nkids pn) with Some r' => Nat.eqb r r' | None => false end
    | None => false
    end
  end.

(* clause 2 for one directory: every listed entry exists under the listed key, is that node, and
   lives in this directory *)
Definition cc_listing_ok (s : mst) (kv : str * nat) : bool :=
  let '(p, r) := kv in
  match get_node s r with
  | None => false
  | Some n =>
    forallb (fun kc => match lookup s (fst kc) with
                       | Some r' => Nat.eqb r' (snd kc) && beqb (cc_parent_path (fst kc)) p
                       | None => false
                       end) (nkids n)
  end.

Definition cc_consistentb (s : mst) : bool :=
  forallb (cc_entry_ok s) (mdata s) && forallb (cc_listing_ok s) (mdata s).

(* ------------------------------------------------------------------ exhaustive exploration *)
(* every maximal run from [c] (depth bounded by [fuel]): which bad outcomes are reachable *)
Record cc_summary := mkSu {
  su_panic : bool; su_stuck : bool; su_inconsistent : bool; su_badunlock : bool; su_leak : bool;
  su_runs : N; su_cut : bool }.

Definition su0 : cc_summary := mkSu false false false false false 0%N false.

Definition cc_terminal (c : cc_cfg) (a : cc_summary) : cc_summary :=
  mkSu (su_panic a || Nat.ltb 0 (cf_panics c))
       (su_stuck a || cc_any_unfinished c)
       (su_inconsistent a || (negb (cc_any_unfinished c) && negb (cc_consistentb (cf_st c))))
       (su_badunlock a || match cf_bad c with Some _ => true | None => false end)
       (su_leak a || negb (cc_noleakb c))
       (N.succ (su_runs a)) (su_cut a).

(* steps that touch no shared data and cannot be disabled by others — start and return of a call,
   `defer`, lock releases — are taken eagerly (they commute to the left of the other threads' steps);
   the exploration branches on lock acquisitions and actions only *)
Definition cc_eager (th : cc_thread) : bool :=
  match cc_next_of th with
  | NxStart | NxFinish | NxDeferred _ => true
  | NxInstr (CcDefer _) | NxInstr (CcRel _) => true
  | _ => false
  end.

Fixpoint cc_first_eager (ths : list cc_thread) (i : nat) : option nat :=
  match ths with
  | [] => None
  | th :: r => if cc_eager th then Some i else cc_first_eager r (S i)
  end.

Fixpoint cc_explore (fuel : nat) (c : cc_cfg) (a : cc_summary) : cc_summary :=
  match fuel with
  | O => mkSu (su_panic a) (su_stuck a) (su_inconsistent a) (su_badunlock a) (su_leak a) (su_runs a) true
  | S k =>
    match cc_first_eager (cf_threads c) 0 with
    | Some t => cc_explore k (cc_step c t) a
    | None =>
      match filter (cc_enabled c) (seq 0 (length (cf_threads c))) with
      | [] => cc_terminal c a
      | en => fold_left (fun a' t => cc_explore k (cc_step c t) a') en a
      end
    end
  end.

(* ------------------------------------------------------------------ well-typed programs *)
(* fixed kinds: a last component starting with 'f' is a file, with 'x' a name that is only ever
   the target of a directory rename, anything else a directory *)
Definition cc_base (p : str) : str := snd (path_split (normalize_path p)).
Definition cc_first_is (c : N) (s : str) : bool := match s with x :: _ => N.eqb x c | [] => false end.
Definition cc_is_file_name (p : str) : bool := cc_first_is 102%N (cc_base p).
Definition cc_is_x_name (p : str) : bool := cc_first_is 120%N (cc_base p).
Definition cc_is_dir_name (p : str) : bool := negb (cc_is_file_name p) && negb (cc_is_x_name p).

Definition cc_wt_op (o : op) : bool :=
  match o with
  | Create p | Remove p | OpenFile p _ _ => cc_is_file_name p
  | Mkdir p _ | MkdirAll p _ => cc_is_dir_name p
  | Rename p q => (cc_is_file_name p && cc_is_file_name q) || (cc_is_dir_name p && cc_is_x_name q)
  | Open p | RemoveAll p | Stat p | Chmod p _ | Chtimes p _ => negb (cc_is_x_name p)
  | Chown _ _ _ => false
  | _ => true
  end.
Definition cc_wt (progs : list (list op)) : bool := forallb (forallb cc_wt_op) progs.

(* ------------------------------------------------------------------ access annotations *)
Inductive cc_field := FMap | FName | FData | FMode | FMtime | FDirFlag | FMemDir.

Definition cc_field_eqb (a b : cc_field) : bool :=
  match a, b with
  | FMap, FMap | FName, FName | FData, FData | FMode, FMode | FMtime, FMtime
  | FDirFlag, FDirFlag | FMemDir, FMemDir => true
  | _, _ => false
  end.

Record cc_access := mkAcc {
  ac_field : cc_field;
  ac_write : bool;
  ac_own : bool;      (* the mutex of the accessed FileData is held *)
  ac_parent : bool;   (* the mutex of the directory whose child index lists the object is held *)
  ac_unreg : bool;    (* the object is in no child index while it is accessed (between
                         unRegisterWithParent and registerWithParent, all under mu write-locked) *)
  ac_wt : bool        (* can happen in well-typed programs (false: only when a file is used as a directory) *)
}.

Definition rd (f : cc_field) := mkAcc f false false false false true.
Definition rdo (f : cc_field) := mkAcc f false true false false true.
Definition wro (f : cc_field) := mkAcc f true true false false true.
Definition wr (f : cc_field) := mkAcc f true false false false true.

(* findParent: f.Name() ; AddToMemDir / RemoveFromMemDir: parent's mutex, reads child.name unlocked *)
Definition acc_register : list cc_access :=
  [rdo FName; wro FMemDir; mkAcc FName false false true false true; mkAcc FDirFlag true true false false false].
Definition acc_unregister : list cc_access :=
  [rdo FName; wro FMemDir; mkAcc FName false false true false true].

Definition cc_acc (a : cc_aid) : list cc_access :=
  match a with
  | ACreateT | AMkdirCreateT | AOfCreateT | AOfLookupT | ARemoveT | ARenameT | ARaUnregT | ARemoveAllT | AChmodT | AChtT => []
  | ACreate => [rd FMap; wr FMap; rdo FDirFlag; wro FData; wro FMtime] ++ acc_register
  | AOfCreate => [rd FMap; wr FMap; rdo FData; wro FData; wro FMtime] ++ acc_register
  | AOfLookup => [rd FMap; rdo FData; wro FData; wro FMtime]      (* PrepareOpen reads the length, then empties the file *)
  | AMkdirCheck | AOpen | AStatLookup => [rd FMap]
  | AMkdirCreate => [rd FMap; wr FMap] ++ acc_register
  | AStatRead => [rdo FName; rdo FMode; rdo FMtime; rdo FDirFlag; rdo FData]
  | AChmod => [rd FMap; rdo FMode; wro FMode]
  | ACht => [rd FMap; wro FMtime]
  | ARemove => [rd FMap; wr FMap] ++ acc_unregister
  | ARename => [rd FMap; wr FMap; mkAcc FName true true false true true] ++ acc_unregister ++ acc_register
  | ARemoveAll => [rd FMap; wr FMap] ++ acc_unregister
  | ARaUnreg => [rd FMap] ++ acc_unregister
  | ARaScan | ARaNext => [rd FMap]
  | ARaDelete => [wr FMap]
  | AHPre k =>
      match k with
      | HkRead | HkClose | HkStat | HkName | HkSync => []
      | HkReadAt | HkWrite | HkWriteAt | HkSeek | HkTruncate => [rdo FName]    (* error paths: fileData.Name() *)
      | HkReaddir | HkReaddirnames =>
          (* f.Info().IsDir(); fileData.Name() only on the "not a dir" error path, i.e. on a FILE handle *)
          [rdo FDirFlag; mkAcc FName false true false false false]
      end
  | AHBody k =>
      match k with
      | HkRead | HkReadAt | HkSeek => [rdo FData]
      | HkWrite | HkWriteAt | HkTruncate => [rdo FData; wro FData; wro FMtime]
      | HkClose => [wro FMtime]
      | HkStat => [rdo FName; rdo FMode; rdo FMtime; rdo FDirFlag; rdo FData]
      | HkName => [rdo FName]
      | HkSync => []
      | HkReaddir =>
          (* memDir.Files() sorts the children by name without their mutexes (and readdirFiles reads the
             base names the same way), then the caller's FileInfo accessors *)
          [rdo FMemDir; mkAcc FName false false true false true; rdo FName; rdo FMode; rdo FMtime; rdo FDirFlag; rdo FData]
      | HkReaddirnames =>
          (* the same locked section; the names are taken there, under the directory's mutex only *)
          [rdo FMemDir; mkAcc FName false false true false true]
      end
  | AXList => [rd FMap; rdo FName; rdo FDirFlag; rdo FData]
  end.

(* the annotations before commit cbef301: the same reads WITHOUT the file mutex (kept for the record) *)
Definition cc_acc_before_cbef301 (a : cc_aid) : list cc_access :=
  match a with
  | AHPre (HkReadAt | HkWrite | HkWriteAt | HkSeek | HkTruncate) => [rd FName]
  | AHPre (HkReaddir | HkReaddirnames) => [rd FDirFlag; mkAcc FName false false false false false]
  | _ => cc_acc a
  end.

Definition cc_all_aids : list cc_aid :=
  let hks := [HkRead; HkReadAt; HkWrite; HkWriteAt; HkSeek; HkTruncate; HkClose; HkStat; HkName; HkSync;
              HkReaddir; HkReaddirnames] in
  [ACreateT; ACreate; AMkdirCheck; AMkdirCreateT; AMkdirCreate; AOpen; AStatLookup;
   AStatRead; AChmodT; AChmod; AChtT; ACht; AOfLookupT; AOfLookup; AOfCreateT; AOfCreate;
   ARemoveT; ARemove; ARenameT; ARename; ARemoveAllT; ARemoveAll;
   ARaUnregT; ARaUnreg; ARaScan; ARaDelete; ARaNext]
  ++ map AHPre hks ++ map AHBody hks ++ [AXList].

Definition cc_mu_of (a : cc_aid) : cc_hmu := fst (fst (cc_ctx a)).

Definition cc_conflict (x y : cc_access) : bool :=
  cc_field_eqb (ac_field x) (ac_field y) && (ac_write x || ac_write y).

Definition cc_mu_excl (m1 m2 : cc_hmu) : bool :=
  match m1, m2 with
  | HW, HW | HW, HR | HR, HW => true
  | _, _ => false
  end.

(* the lockset criterion: a common lock that excludes the two accesses *)
Definition cc_protected (a1 : cc_aid) (x : cc_access) (a2 : cc_aid) (y : cc_access) : bool :=
  (ac_own x && ac_own y) || cc_mu_excl (cc_mu_of a1) (cc_mu_of a2).

(* the ownership-transfer refinement: a read under the listing directory's mutex is ordered with a
   write made while the object is listed nowhere (the unregister before it and the register after
   it synchronise on that directory's mutex) *)
Definition cc_protected_hb (a1 : cc_aid) (x : cc_access) (a2 : cc_aid) (y : cc_access) : bool :=
  cc_protected a1 x a2 y || (ac_parent x && ac_unreg y) || (ac_unreg x && ac_parent y).

Definition cc_pair_ok (prot : cc_aid -> cc_access -> cc_aid -> cc_access -> bool) (wt_only : bool)
           (a1 a2 : cc_aid) : bool :=
  forallb (fun x => forallb (fun y =>
    negb (cc_conflict x y) || (wt_only && negb (ac_wt x && ac_wt y)) || prot a1 x a2 y) (cc_acc a2)) (cc_acc a1).

Definition cc_table_ok (prot : cc_aid -> cc_access -> cc_aid -> cc_access -> bool) (wt_only : bool)
           (aids : list cc_aid) : bool :=
  forallb (fun a1 => forallb (cc_pair_ok prot wt_only a1) aids) aids.

(* op kinds of the pair matrix of the harness -> the actions a call of that kind can run *)
Inductive cc_kind := KCreate | KOpenFile | KMkdir | KMkdirAll | KRemove | KRemoveAll | KRename | KRenameDir
  | KStat | KChmod | KChtimes | KOpen | KH (k : cc_hk) | KXList | KXReaddirFile.

Definition cc_kind_aids (k : cc_kind) : list cc_aid :=
  match k with
  | KCreate => [ACreate]
  | KOpenFile => [AOfLookup; AOfCreate]
  | KMkdir | KMkdirAll => [AMkdirCheck; AMkdirCreate]
  | KRemove => [ARemove]
  | KRemoveAll => [ARemoveAll]
  | KRename | KRenameDir => [ARename]
  | KStat => [AStatLookup; AStatRead]
  | KChmod => [AChmod]
  | KChtimes => [ACht]
  | KOpen => [AOpen]
  | KH k => [AHPre k; AHBody k]
  | KXList => [AXList]
  | KXReaddirFile => [AHPre HkReaddir]
  end.

Definition cc_kind_wt (k : cc_kind) : bool := match k with KXList | KXReaddirFile => false | _ => true end.

(* true = the table predicts that the two kinds cannot race (kinds outside the class: all accesses) *)
Definition cc_kinds_norace (prot : cc_aid -> cc_access -> cc_aid -> cc_access -> bool) (k1 k2 : cc_kind) : bool :=
  let wt := cc_kind_wt k1 && cc_kind_wt k2 in
  forallb (fun a1 => forallb (cc_pair_ok prot wt a1) (cc_kind_aids k2)) (cc_kind_aids k1).

(* ------------------------------------------------------------------ the lock table of the source *)
(* per Go function: its lock operations in source order, in the format of
   harness-conc/cmd/afcheck/sections.go (which extracts the same table from the AST) *)
Local Open Scope string_scope.
Definition cc_locktab : list (string * string) := [
  ("MemMapFs.Chmod", "mu.Lock defer:mu.Unlock if{ ret } call:Mode call:SetMode ret");
  ("MemMapFs.Chown", "mu.RLock mu.RUnlock if{ ret } call:SetUID call:SetGID ret");
  ("MemMapFs.Chtimes", "mu.Lock defer:mu.Unlock if{ ret } call:SetModTime ret");
  ("MemMapFs.Create", "mu.Lock call:IsDir if{ call:Truncate } else{ call:lockfreeBelowFile if{ mu.Unlock ret } call:registerWithParent } mu.Unlock ret");
  ("MemMapFs.List", "mu.RLock defer:mu.RUnlock for{ call:Name call:Size }");
  ("MemMapFs.LstatIfPossible", "call:Stat ret");
  ("MemMapFs.Mkdir", "mu.RLock mu.RUnlock if{ ret } mu.Lock if{ mu.Unlock ret } call:lockfreeBelowFile if{ mu.Unlock ret } call:SetMode call:registerWithParent mu.Unlock ret");
  ("MemMapFs.MkdirAll", "call:Mkdir if{ if{ ret } ret } ret");
  ("MemMapFs.Open", "call:open if{ ret } ret");
  ("MemMapFs.OpenFile", "if{ mu.Lock defer:mu.Unlock call:lockfreeOpenOrCreate } else{ mu.RLock defer:mu.RUnlock } if{ ret } if{ call:PrepareOpen if{ call:Close ret } } ret");
  ("MemMapFs.Remove", "mu.Lock defer:mu.Unlock if{ call:unRegisterWithParent if{ ret } } else{ ret } ret");
  ("MemMapFs.RemoveAll", "mu.Lock defer:mu.Unlock call:unRegisterWithParent ret");
  ("MemMapFs.Rename", "mu.Lock defer:mu.Unlock if{ if{ ret } call:lockfreeBelowFile if{ ret } if{ pOld.Lock defer:pOld.Unlock } if{ pNew.Lock defer:pNew.Unlock } call:unRegisterWithParent if{ ret } call:ChangeFileName call:renameDescendants if{ ret } call:registerWithParent } else{ call:IsDir call:lockfreeBelowFile if{ ret } ret } ret");
  ("MemMapFs.Stat", "call:Open if{ ret } ret");
  ("MemMapFs.findDescendants", "func{ call:Name call:Name if{ ret } ret } ret");
  ("MemMapFs.findParent", "call:Name if{ ret } ret");
  ("MemMapFs.lockfreeBelowFile", "for{ if{ call:IsDir ret } if{ ret } }");
  ("MemMapFs.lockfreeMkdir", "if{ call:IsDir if{ ret } } else{ call:SetMode call:registerWithParent } ret");
  ("MemMapFs.lockfreeOpenOrCreate", "if{ if{ ret } ret } call:lockfreeBelowFile if{ ret } call:SetMode call:registerWithParent ret");
  ("MemMapFs.open", "mu.RLock mu.RUnlock if{ ret } ret");
  ("MemMapFs.registerWithParent", "if{ ret } call:findParent if{ call:Name call:lockfreeMkdir if{ ret } if{ ret } } if{ parent.Lock defer:parent.Unlock }");
  ("MemMapFs.renameDescendants", "call:findDescendants for{ call:Name for{ call:Name } call:renameSiblings if{ ret } } ret");
  ("MemMapFs.renameSiblings", "call:findParent if{ dir.Lock defer:dir.Unlock } for{ call:Name call:Name call:unRegisterWithParent if{ ret } call:Name call:ChangeFileName call:registerWithParent } ret");
  ("MemMapFs.setFileMode", "mu.Lock defer:mu.Unlock if{ ret } call:SetMode ret");
  ("MemMapFs.unRegisterWithParent", "if{ ret } call:findParent if{ call:Name panic } if{ parent.Lock defer:parent.Unlock } ret");
  ("mem.ChangeFileName", "f.Lock f.Unlock");
  ("mem.File.Close", "f.fileData.Lock if{ f.fileData.Unlock ret } f.fileData.Unlock ret");
  ("mem.File.Name", "call:Name ret");
  ("mem.File.Open", "f.fileData.Lock f.fileData.Unlock ret");
  ("mem.File.PrepareOpen", "f.fileData.Lock defer:f.fileData.Unlock if{ ret } if{ ret } ret");
  ("mem.File.Read", "f.fileData.Lock defer:f.fileData.Unlock if{ ret } if{ ret } if{ ret } ret");
  ("mem.File.ReadAt", "if{ call:Name ret } call:Read ret");
  ("mem.File.ReadDir", "call:Readdir if{ ret } ret");
  ("mem.File.Readdir", "call:IsDir if{ call:notDirError ret } call:readdirFiles ret");
  ("mem.File.Readdirnames", "call:IsDir if{ call:notDirError ret } call:readdirFiles ret");
  ("mem.File.Seek", "if{ ret } switch{ case{ f.fileData.Lock f.fileData.Unlock } } if{ call:Name ret } ret");
  ("mem.File.Truncate", "if{ ret } if{ call:Name ret } if{ ret } f.fileData.Lock defer:f.fileData.Unlock ret");
  ("mem.File.Write", "if{ ret } if{ call:Name ret } if{ ret } f.fileData.Lock defer:f.fileData.Unlock ret");
  ("mem.File.WriteAt", "if{ call:Name ret } call:Write ret");
  ("mem.File.WriteString", "call:Write ret");
  ("mem.File.notDirError", "call:Name ret");
  ("mem.File.readdirFiles", "f.fileData.Lock f.fileData.Unlock ret");
  ("mem.FileData.Name", "d.Lock defer:d.Unlock ret");
  ("mem.FileInfo.IsDir", "s.Lock defer:s.Unlock ret");
  ("mem.FileInfo.ModTime", "s.Lock defer:s.Unlock ret");
  ("mem.FileInfo.Mode", "s.Lock defer:s.Unlock ret");
  ("mem.FileInfo.Name", "s.Lock s.Unlock ret");
  ("mem.FileInfo.Size", "call:IsDir if{ ret } s.Lock defer:s.Unlock ret");
  ("mem.SetGID", "f.Lock f.Unlock");
  ("mem.SetModTime", "f.Lock f.Unlock");
  ("mem.SetMode", "f.Lock f.Unlock");
  ("mem.SetUID", "f.Lock f.Unlock")
].

(* names written as Coq strings (examples and witnesses) *)
Fixpoint cc_bytes (s : string) : str :=
  match s with
  | EmptyString => []
  | String c r => Ascii.N_of_ascii c :: cc_bytes r
  end.

(* the same table as byte strings (what the model runner prints): a literal, so that the extracted
   code does not mention Coq's string type *)
Definition cc_locktab_b : list (str * str) :=
  Eval vm_compute in map (fun kv => (cc_bytes (fst kv), cc_bytes (snd kv))) cc_locktab.
