(* Model/WfOps.v — the class of portable calls of property C01 as a computable predicate on the
   CURRENT state of the in-memory filesystem and the next call: wf_op = wf_op_ord || wf_below.
   wf_op_ord: the "ordinary POSIX preconditions" (the call is carried out, or fails with
   EEXIST / ENOENT — Rename of a missing source also with ENOTDIR when its directory exists and the
   target passes through a regular file, as rename(2) answers); wf_below: a creating call whose name passes through a regular file (refused
   with ENOTDIR on both sides, nothing changes).  Definitions only. *)
From AF Require Import Lib.Bytes Lib.Path Lib.Ops Gen.Consts Model.MemFile Model.MemFs.
Local Open Scope Z_scope.

(* a is a proper ancestor of k, as strings: a ++ "/" is a prefix of k *)
Definition below (a k : str) : bool := prefixb (a ++ s_slash) k.
(* filepath.Dir *)
Definition par (k : str) : str := path_dir k.

(* Some true = directory, Some false = regular file, None = no such name *)
Definition kind_at (s : mst) (k : str) : option bool :=
  match lookup s k with
  | Some r => match get_node s r with Some n => Some (ndir n) | None => None end
  | None => None
  end.
Definition is_dir_at (s : mst) (k : str) : bool := match kind_at s k with Some true => true | _ => false end.
Definition is_file_at (s : mst) (k : str) : bool := match kind_at s k with Some false => true | _ => false end.

(* some name lies strictly below k *)
Definition has_kids (s : mst) (k : str) : bool := existsb (fun kv => below k (fst kv)) (mdata s).
(* k does not pass through a regular file *)
Definition no_file_prefix (s : mst) (k : str) : bool :=
  forallb (fun kv => negb (below (fst kv) k && is_file_at s (fst kv))) (mdata s).
(* every existing prefix of k, k included, is a directory *)
Definition prefixes_dirs (s : mst) (k : str) : bool :=
  forallb (fun kv => negb (beqb (fst kv) k || below (fst kv) k) || is_dir_at s (fst kv)) (mdata s).

(* the name is absolute after normalisation *)
Definition wf_name (p : str) : bool := is_rooted (normalize_path p).

(* {O_RDONLY,O_WRONLY,O_RDWR} x {O_CREATE} x {O_EXCL} x {O_TRUNC}, no O_TRUNC with O_RDONLY *)
Definition flag_mask : Z := Z.lor memfs_access_mask (Z.lor o_create (Z.lor o_excl o_trunc)).
Definition flag_ok (flag : Z) : bool :=
  (Z.land flag (Z.lnot flag_mask) =? 0) && negb (Z.land flag memfs_access_mask =? memfs_access_mask)
  && negb (flag_has flag o_trunc && (Z.land flag memfs_access_mask =? 0)).

(* k passes through a regular file: some proper ancestor of k is one.  In a state satisfying the
   invariant of C01 nothing exists below a regular file, so this says: walking up from k, the first
   name that exists is a regular file (Proofs/MemFsBelow.v, through_file_nearest). *)
Definition through_file (s : mst) (k : str) : bool :=
  existsb (fun kv => below (fst kv) k && is_file_at s (fst kv)) (mdata s).

(* ---- the ordinary POSIX preconditions: the calls that are carried out ---- *)
Definition wf_op_ord (s : mst) (o : op) : bool :=
  match o with
  | Create p =>
      let k := normalize_path p in
      wf_name p && match kind_at s k with Some true => false | Some false => true | None => is_dir_at s (par k) end
  | Mkdir p _ =>
      let k := normalize_path p in
      wf_name p && match lookup s k with Some _ => true | None => is_dir_at s (par k) end
  | MkdirAll p _ => wf_name p && prefixes_dirs s (normalize_path p)
  | Open p | Stat p | Chmod p _ | Chown p _ _ | Chtimes p _ => wf_name p && no_file_prefix s (normalize_path p)
  | OpenFile p flag _ =>
      let k := normalize_path p in
      wf_name p && flag_ok flag &&
      match kind_at s k with
      | Some true => (Z.land flag memfs_access_mask =? 0) && negb (flag_has flag o_create)
      | Some false => true
      | None => if flag_has flag o_create then is_dir_at s (par k) else no_file_prefix s k
      end
  | Remove p =>
      let k := normalize_path p in
      wf_name p && negb (beqb k s_slash) &&
      match kind_at s k with Some true => negb (has_kids s k) | Some false => true | None => is_dir_at s (par k) end
  | RemoveAll p =>
      let k := normalize_path p in
      wf_name p && negb (beqb k s_slash) && no_file_prefix s k
  | Rename p q =>
      let old := normalize_path p in
      let new := normalize_path q in
      wf_name p && wf_name q && negb (beqb old s_slash) &&
      match kind_at s old with
      | None => no_file_prefix s old
      | Some isd =>
          beqb old new ||
          (negb (below old new) &&
           match kind_at s new with
           | None => is_dir_at s (par new)
           | Some d2 => negb isd && negb d2          (* a regular file replaces a regular file *)
           end)
      end
  | HRead _ n => 0 <=? n
  | HReadAt _ n _ => 0 <=? n
  | _ => true
  end.

(* ---- creating below a regular file: the calls that are refused with ENOTDIR and change nothing
        (memmap.go lockfreeBelowFile; the operating system answers the same).  The name to be created
        passes through a regular file; for Rename the source exists and differs from the target. ---- *)
Definition wf_below (s : mst) (o : op) : bool :=
  match o with
  | Create p | Mkdir p _ => wf_name p && through_file s (normalize_path p)
  | MkdirAll p _ =>
      (* in its clean spelling: os.MkdirAll splits the name itself and answers EEXIST, not ENOTDIR,
         for a doubled separator right after the regular file ("/f//x"; finding F5, REPORT-c01p.md) *)
      wf_name p && beqb p (normalize_path p) && through_file s (normalize_path p)
  | OpenFile p flag _ => wf_name p && flag_ok flag && flag_has flag o_create && through_file s (normalize_path p)
  | Rename p q =>
      let old := normalize_path p in
      let new := normalize_path q in
      wf_name p && wf_name q && negb (beqb old s_slash) &&
      match kind_at s old with Some _ => negb (beqb old new) && through_file s new | None => false end
  | _ => false
  end.

(* the portable calls *)
Definition wf_op (s : mst) (o : op) : bool := wf_op_ord s o || wf_below s o.

(* every call is well-formed in the state reached so far *)
Fixpoint wf_seq (s : mst) (ops : list op) : bool :=
  match ops with
  | [] => true
  | o :: r => wf_op s o && wf_seq (fst (m_step s o)) r
  end.

(* ---- for the comparison with the POSIX specification: files and directories are not confused
        through handles either — byte I/O goes to handles on regular files, directory reading to
        handles on directories that still have a name ---- *)
Definition handle_node (s : mst) (i : nat) : option (nat * node) :=
  match nth_error (mhandles s) i with
  | Some h => match get_node s (href h) with Some n => Some (href h, n) | None => None end
  | None => None
  end.
(* a handle on a regular file — or a closed handle, which refuses everything anyway *)
Definition file_handle_ok (s : mst) (i : nat) : bool :=
  match nth_error (mhandles s) i with
  | None => true
  | Some h => match get_node s (href h) with Some n => negb (ndir n) || hclosed h | None => false end
  end.
Definition dir_handle_ok (s : mst) (i : nat) : bool :=
  match nth_error (mhandles s) i with
  | None => true
  | Some h => match get_node s (href h) with
              | Some n => ndir n && existsb (fun kv => Nat.eqb (snd kv) (href h)) (mdata s)
              | None => false
              end
  end.
(* a handle refers to an allocated node (true in every reachable state) *)
Definition any_handle_ok (s : mst) (i : nat) : bool :=
  match nth_error (mhandles s) i with
  | None => true
  | Some h => match get_node s (href h) with Some _ => true | None => false end
  end.
Definition wf_op_simx (s : mst) (o : op) : bool :=
  wf_op s o &&
  match o with
  | HRead i _ | HReadAt i _ _ | HWrite i _ | HWriteAt i _ _ | HWriteString i _ | HSeek i _ _ | HTruncate i _ => file_handle_ok s i
  | HReaddir i _ | HReaddirnames i _ => dir_handle_ok s i
  | HClose i | HStat i | HSync i | HName i => any_handle_ok s i
  | _ => true
  end.
Fixpoint wf_seq_simx (s : mst) (ops : list op) : bool :=
  match ops with
  | [] => true
  | o :: r => wf_op_simx s o && wf_seq_simx (fst (m_step s o)) r
  end.

(* the precondition of the comparison with the POSIX specification: wf_op_simx without the side
   condition any_handle_ok, which holds in every reachable state (Proofs/MemFsSimInv.v) *)
Definition wf_op_sim (s : mst) (o : op) : bool :=
  wf_op s o &&
  match o with
  | HRead i _ | HReadAt i _ _ | HWrite i _ | HWriteAt i _ _ | HWriteString i _ | HSeek i _ _ | HTruncate i _ => file_handle_ok s i
  | HReaddir i _ | HReaddirnames i _ => dir_handle_ok s i
  | _ => true
  end.
Fixpoint wf_seq_sim (s : mst) (ops : list op) : bool :=
  match ops with
  | [] => true
  | o :: r => wf_op_sim s o && wf_seq_sim (fst (m_step s o)) r
  end.
