(* Model/Temp.v — transcription of ioutil.go nextRandom / reseed / TempFile / TempDir over an
   ARBITRARY inner filesystem [step : St -> op -> St * res].
   The generator state (package variable randNum, protected by randmu) is threaded explicitly;
   reseed() (time and pid) is an oracle: the values it returns are an input list. *)
From AF Require Import Lib.Bytes Lib.Path Lib.Ops Gen.Consts.
Local Open Scope Z_scope.

Definition temp_two32 : Z := 4294967296.      (* randNum is a uint32 *)
Definition STAR : N := 42.

(* strconv.Itoa for n >= 0 *)
Fixpoint temp_itoa_aux (fuel : nat) (n : Z) (acc : str) : str :=
  let d := Z.to_N (48 + n mod 10) in
  match fuel with
  | O => d :: acc
  | S f => if n <? 10 then d :: acc else temp_itoa_aux f (n / 10) (d :: acc)
  end.
Definition temp_itoa (n : Z) : str := temp_itoa_aux 40 n [].

(* r = r*1664525 + 1013904223 on uint32 *)
Definition lcg_next (r : Z) : Z := (r * temp_lcg_mul + temp_lcg_add) mod temp_two32.
(* strconv.Itoa(int(1e9 + r%1e9))[1:] *)
Definition rand_name (r : Z) : str := tl (temp_itoa (temp_mod + r mod temp_mod)).

(* the pure core of nextRandom for a non-zero state: new state and name *)
Definition next_random (r : Z) : Z * str := let r' := lcg_next r in (r', rand_name r').

(* generator: randNum, the values reseed() will return, how many it has returned *)
Record tgen := mkTG { tg_rand : Z; tg_seeds : list Z; tg_reseeds : nat }.

Definition tg_reseed (g : tgen) : Z * tgen :=
  match tg_seeds g with
  | [] => (0, mkTG (tg_rand g) [] (S (tg_reseeds g)))
  | v :: r => (v mod temp_two32, mkTG (tg_rand g) r (S (tg_reseeds g)))
  end.

(* nextRandom: r := randNum; if r == 0 { r = reseed() }; r = r*MUL+ADD; randNum = r *)
Definition tg_next (g : tgen) : str * tgen :=
  let '(r0, g0) := if tg_rand g =? 0 then tg_reseed g else (tg_rand g, g) in
  let '(r1, nm) := next_random r0 in
  (nm, mkTG r1 (tg_seeds g0) (tg_reseeds g0)).

(* randNum = reseed() *)
Definition tg_set_reseed (g : tgen) : tgen :=
  let '(v, g0) := tg_reseed g in mkTG v (tg_seeds g0) (tg_reseeds g0).

(* pattern[:pos], pattern[pos+1:] for pos = strings.LastIndex(pattern, "*") *)
Fixpoint temp_split_star (s : str) : option (str * str) :=
  match s with
  | [] => None
  | c :: s' =>
    match temp_split_star s' with
    | Some (a, b) => Some (c :: a, b)
    | None => if N.eqb c STAR then Some ([], s') else None
    end
  end.
Definition temp_prefix_suffix (pattern : str) : str * str :=
  match temp_split_star pattern with Some ab => ab | None => (pattern, []) end.

(* os.O_RDWR|os.O_CREATE|os.O_EXCL *)
Definition temp_flags : Z := Z.lor o_rdwr (Z.lor o_create o_excl).
Definition temp_file_op (name : str) : op := OpenFile name temp_flags 384.   (* 0o600 *)
Definition temp_dir_op (name : str) : op := Mkdir name 448.                  (* 0o700 *)

Inductive temp_res :=
| TempOk (name : str) (h : option nat)     (* the name tried last; the handle OpenFile returned *)
| TempErr (e : err)
| TempNil                                  (* zero attempts: (nil, nil) *)
| TempPanic.

Section Temp.
Context {St : Type} (step : St -> op -> St * res).

(* the retry loop shared by TempFile and TempDir; [mk] builds the creating call *)
Fixpoint temp_loop (mk : str -> op) (fuel : nat) (s : St) (g : tgen) (nconflict : Z)
    (dir prefix suffix : str) (last : temp_res) : St * tgen * temp_res :=
  match fuel with
  | O => (s, g, last)
  | S f =>
    let '(d, g1) := tg_next g in
    let name := join2 dir (prefix ++ d ++ suffix) in
    match step s (mk name) with
    | (s1, RErr e) =>
      if is_exist e then
        let nc := nconflict + 1 in
        let g2 := if temp_reseed_after <? nc then tg_set_reseed g1 else g1 in
        temp_loop mk f s1 g2 nc dir prefix suffix (TempErr e)
      else (s1, g1, TempErr e)
    | (s1, RHandle h) => (s1, g1, TempOk name (Some h))
    | (s1, ROk) => (s1, g1, TempOk name None)
    | (s1, _) => (s1, g1, TempPanic)
    end
  end.

(* a pattern with a path separator is refused (errPatternHasSeparator, a *PathError) before anything
   is created — iff the sources have that check (Gen/Consts.v temp_rejects_separator) *)
Definition temp_refused (pattern : str) : bool :=
  (temp_rejects_separator =? 1) && existsb (N.eqb SLASH) pattern.

(* [ostmp] = os.TempDir() *)
Definition temp_file (ostmp : str) (s : St) (g : tgen) (dir pattern : str) : St * tgen * temp_res :=
  let dir1 := if is_empty dir then ostmp else dir in
  if temp_refused pattern then (s, g, TempErr (EW KOther)) else
  let '(prefix, suffix) := temp_prefix_suffix pattern in
  temp_loop temp_file_op (Z.to_nat temp_attempts) s g 0 dir1 prefix suffix TempNil.

Definition temp_dir (ostmp : str) (s : St) (g : tgen) (dir prefix : str) : St * tgen * temp_res :=
  let dir1 := if is_empty dir then ostmp else dir in
  if temp_refused prefix then (s, g, TempErr (EW KOther)) else
  temp_loop temp_dir_op (Z.to_nat temp_attempts) s g 0 dir1 prefix [] TempNil.

(* what the caller of a successful call sees and does next: TempFile -> f.Name(), f.Close();
   TempDir -> the returned string *)
Definition temp_finish (s : St) (x : temp_res) : St * option str :=
  match x with
  | TempOk name (Some h) =>
    let '(s1, rn) := step s (HName h) in
    let '(s2, _) := step s1 (HClose h) in
    (s2, match rn with RName n => Some n | _ => None end)
  | TempOk name None => (s, Some name)
  | _ => (s, None)
  end.

(* a sequence of calls (true = TempFile, false = TempDir) sharing the filesystem and the generator;
   when a call had to reseed (its outcome depends on the clock) or failed, the harness puts the
   generator back to a known value before the next call: [resets] supplies those values *)
Fixpoint temp_calls (ostmp : str) (s : St) (g : tgen) (calls : list (bool * str * str)) (resets : list Z)
  : St * tgen * list (temp_res * option str * bool) :=
  match calls with
  | [] => (s, g, [])
  | (isfile, dir, pat) :: r =>
    let '(s0, g1, x) := if isfile then temp_file ostmp s g dir pat else temp_dir ostmp s g dir pat in
    let '(s1, nm) := temp_finish s0 x in
    let reseeded := negb (Nat.eqb (tg_reseeds g1) (tg_reseeds g)) in
    let failed := match x with TempOk _ _ => false | _ => true end in
    let '(g2, resets2) :=
      if reseeded || failed then match resets with
                       | v :: rs => (mkTG v (tg_seeds g1) (tg_reseeds g1), rs)
                       | [] => (g1, [])
                       end
      else (g1, resets) in
    let '(s2, g3, xs) := temp_calls ostmp s1 g2 r resets2 in
    (s2, g3, (x, nm, reseeded) :: xs)
  end.

(* ---- successive calls, in resolved form: (TempFile?, effective dir, prefix, suffix) ---- *)
Definition tcall : Type := (bool * str * str * str)%type.
Definition tcall_mk (isfile : bool) : str -> op := if isfile then temp_file_op else temp_dir_op.

Fixpoint temp_seq (s : St) (g : tgen) (calls : list tcall) : St * tgen * list temp_res :=
  match calls with
  | [] => (s, g, [])
  | (isfile, dir, prefix, suffix) :: r =>
    let '(s1, g1, x) := temp_loop (tcall_mk isfile) (Z.to_nat temp_attempts) s g 0 dir prefix suffix TempNil in
    let '(s2, g2, xs) := temp_seq s1 g1 r in
    (s2, g2, x :: xs)
  end.

(* ---- concurrent callers: any interleaving of their atomic steps.
   A caller alternates "draw" (nextRandom under randmu: one atomic step on the shared generator)
   and "try" (the exclusive create: one step of the filesystem, ASSUMED atomic); a schedule is any
   list of events, an event naming a caller that cannot move is a no-op. ---- *)
Record tcaller := mkTC {
  tc_isfile : bool; tc_dir : str; tc_prefix : str; tc_suffix : str;
  tc_pending : option str;       (* candidate drawn, not tried yet *)
  tc_nconf : Z; tc_left : nat;   (* conflicts so far, attempts left *)
  tc_result : option temp_res }.

Definition tc_start (c : tcall) : tcaller :=
  let '(isfile, dir, prefix, suffix) := c in
  mkTC isfile dir prefix suffix None 0 (Z.to_nat temp_attempts) None.

Inductive tevent := TDraw (i : nat) | TTry (i : nat).

Definition tc_with (c : tcaller) (pending : option str) (nconf : Z) (lft : nat) (result : option temp_res) : tcaller :=
  mkTC (tc_isfile c) (tc_dir c) (tc_prefix c) (tc_suffix c) pending nconf lft result.

Definition conc_event (st : St * tgen * list tcaller) (ev : tevent) : St * tgen * list tcaller :=
  let '(s, g, cs) := st in
  match ev with
  | TDraw i =>
    match nth_error cs i with
    | Some c =>
      match tc_result c, tc_pending c, tc_left c with
      | None, None, S lft =>
        let '(d, g1) := tg_next g in
        let name := join2 (tc_dir c) (tc_prefix c ++ d ++ tc_suffix c) in
        (s, g1, list_set i (tc_with c (Some name) (tc_nconf c) lft None) cs)
      | _, _, _ => st
      end
    | None => st
    end
  | TTry i =>
    match nth_error cs i with
    | Some c =>
      match tc_result c, tc_pending c with
      | None, Some name =>
        match step s (tcall_mk (tc_isfile c) name) with
        | (s1, RErr e) =>
          if is_exist e then
            let nc := tc_nconf c + 1 in
            let g1 := if temp_reseed_after <? nc then tg_set_reseed g else g in
            let res := match tc_left c with O => Some (TempErr e) | _ => None end in
            (s1, g1, list_set i (tc_with c None nc (tc_left c) res) cs)
          else (s1, g, list_set i (tc_with c None (tc_nconf c) (tc_left c) (Some (TempErr e))) cs)
        | (s1, RHandle h) => (s1, g, list_set i (tc_with c None (tc_nconf c) (tc_left c) (Some (TempOk name (Some h)))) cs)
        | (s1, ROk) => (s1, g, list_set i (tc_with c None (tc_nconf c) (tc_left c) (Some (TempOk name None))) cs)
        | (s1, _) => (s1, g, list_set i (tc_with c None (tc_nconf c) (tc_left c) (Some TempPanic)) cs)
        end
      | _, _ => st
      end
    | None => st
    end
  end.

Definition conc_run (s : St) (g : tgen) (calls : list tcall) (schedule : list tevent) : St * tgen * list tcaller :=
  fold_left conc_event schedule (s, g, map tc_start calls).

End Temp.

(* the names handed out *)
Definition temp_ok_name (x : temp_res) : list str := match x with TempOk n _ => [n] | _ => [] end.
Definition conc_names (cs : list tcaller) : list str :=
  flat_map (fun c => match tc_result c with Some x => temp_ok_name x | None => [] end) cs.

