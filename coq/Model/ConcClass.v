(* Model/ConcClass.v — the class of concurrent programs of the quiescent-consistency clause of C03
   ("each name used consistently as a file or as a directory"), as boolean predicates on programs.

   A call must be well-formed in EVERY state in which it can start (another goroutine may have removed
   or created anything in between), so the class cannot be wf_op of one particular state
   (Model/WfOps.v); it is static:
     cc_wt_op (Model/Conc.v): the last component of a name fixes its kind — f* a regular file, x* a
       name that is only ever the target of a directory rename, anything else a directory — and every
       call uses its names accordingly (Create/OpenFile/Remove: file names; Mkdir/MkdirAll: directory
       names; Rename: file onto file name, or directory onto x name);
     cc_names_ok (here): names are absolute; a name that a call may CREATE (Create, OpenFile, Mkdir,
       MkdirAll, the target of Rename) has only directory names as proper ancestors (MemMapFs creates
       missing ancestors as directories); RemoveAll and Rename do not take the root; the target of a
       Rename does not lie below its source;
     cc_xfresh (here): "directories onto otherwise unused names" — the x targets of the directory
       renames of the whole program set are pairwise different and none exists in the initial state.
   Definitions only; theorems in Proofs/ConcQuiescent.v, statements in Props/C03.v. *)
From AF Require Import Lib.Bytes Lib.Path Lib.Ops Gen.Consts Model.MemFile Model.MemFs Model.WfOps Model.Conc.
Local Open Scope Z_scope.

(* every name reached from k by filepath.Dir (k itself excluded, the root included) is a directory name *)
Fixpoint cc_anc_walk (fuel : nat) (k : str) : bool :=
  match fuel with
  | O => true
  | S fu => let p := path_dir k in beqb p k || (cc_is_dir_name p && cc_anc_walk fu p)
  end.
Definition cc_anc_ok (k : str) : bool := cc_anc_walk (length k) k.

Definition cc_is_root (p : str) : bool := beqb (normalize_path p) s_slash.

Definition cc_names_ok (o : op) : bool :=
  match o with
  | Create p | OpenFile p _ _ | Mkdir p _ | MkdirAll p _ => wf_name p && cc_anc_ok (normalize_path p)
  | Remove p => wf_name p
  | RemoveAll p => wf_name p && negb (cc_is_root p)
  | Rename p q =>
      wf_name p && wf_name q && negb (cc_is_root p) && cc_anc_ok (normalize_path q)
      && negb (below (normalize_path p) (normalize_path q))
  | _ => true
  end.

(* one call of the class *)
Definition cc_wtq_op (o : op) : bool := cc_wt_op o && cc_names_ok o.

(* the x target of a directory rename *)
Definition cc_xt_op (o : op) : list str :=
  match o with
  | Rename _ q => if cc_is_x_name q then [normalize_path q] else []
  | _ => []
  end.
Definition cc_xt_ops (ops : list op) : list str := flat_map cc_xt_op ops.
Definition cc_xtargets (progs : list (list (option nat) * list op)) : list str :=
  flat_map (fun sp => cc_xt_ops (snd sp)) progs.

Fixpoint cc_nodupb (l : list str) : bool :=
  match l with
  | [] => true
  | x :: r => negb (existsb (beqb x) r) && cc_nodupb r
  end.

Definition cc_absent (s : mst) (x : str) : bool := match lookup s x with None => true | Some _ => false end.

(* "otherwise unused" *)
Definition cc_xfresh (s0 : mst) (progs : list (list (option nat) * list op)) : bool :=
  cc_nodupb (cc_xtargets progs) && forallb (cc_absent s0) (cc_xtargets progs).

(* the program sets of the class, started in state s0; a program = (handles inherited from the
   prologue, calls) as in cc_run_from / cc_case_cfg *)
Definition cc_wtq (s0 : mst) (progs : list (list (option nat) * list op)) : bool :=
  forallb (fun sp => forallb cc_wtq_op (snd sp)) progs && cc_xfresh s0 progs.

(* the initial state respects the kinds of the names: every existing name is a regular file iff its
   last component says so *)
Definition cc_kind_ok (s : mst) (kv : str * nat) : bool :=
  match get_node s (snd kv) with
  | Some n => Bool.eqb (ndir n) (negb (cc_is_file_name (fst kv)))
  | None => false
  end.
Definition cc_kinds_ok (s : mst) : bool := forallb (cc_kind_ok s) (mdata s).

(* a case of the harness — setup, then per goroutine (prologue, concurrent calls), cc_case_cfg — whose
   calls are all of the class and whose directory-rename targets are pairwise different (the setup
   starts from the empty filesystem, where no x name exists) *)
Definition cc_case_ops (setup : list op) (progs : list (list op * list op)) : list op :=
  setup ++ flat_map fst progs ++ flat_map snd progs.
Definition cc_case_wtq (setup : list op) (progs : list (list op * list op)) : bool :=
  forallb cc_wtq_op (cc_case_ops setup progs) && cc_nodupb (cc_xt_ops (cc_case_ops setup progs)).
