(* Model/MatchNoEsc.v — C16: filepath.Match for patterns WITHOUT the escape character, written
   separately from Model/Glob.v [match_seg]: the same scanChunk / matchChunk / Match structure with
   every `\\` alternative left out (getEsc is "take one character that is neither '-' nor ']'",
   scanChunk does not skip anything, matchChunk has no `case '\\'`).  This is the matcher the C16
   statement ("well-formed patterns without escapes") speaks about; Proofs/MatchNoEscProof.v shows
   that [match_seg] — the matcher with escapes and ErrBadPattern both Globs are built on — agrees
   with it on every pattern without a backslash and every name. *)
From AF Require Import Lib.Bytes Lib.Path Model.Walk Model.Glob.

(* getEsc without the escape: None = ErrBadPattern *)
Definition get_lit (chunk : str) : option (N * str) :=
  match chunk with
  | [] => None
  | c :: rest =>
    if N.eqb c DASH || N.eqb c RBRACK then None else
    match rest with [] => None | _ => Some (c, rest) end
  end.

Fixpoint class_loop_ne (fuel : nat) (chunk : str) (r : N) (nrange : nat) (matched : bool)
  : option (bool * str) :=
  match fuel with
  | O => None
  | S f =>
    let closing := match chunk with
                   | c :: _ => N.eqb c RBRACK && negb (Nat.eqb nrange 0)
                   | [] => false
                   end in
    if closing then Some (matched, tl chunk) else
    match get_lit chunk with
    | None => None
    | Some (lo, chunk1) =>
      let hi_res := match chunk1 with
                    | c :: rest1 => if N.eqb c DASH then get_lit rest1 else Some (lo, chunk1)
                    | [] => Some (lo, chunk1)
                    end in
      match hi_res with
      | None => None
      | Some (hi, chunk2) =>
        class_loop_ne f chunk2 r (S nrange) (matched || (N.leb lo r && N.leb r hi))
      end
    end
  end.

Fixpoint match_chunk_ne_f (fuel : nat) (chunk s : str) (failed : bool) : option (option str) :=
  match chunk with
  | [] => Some (if failed then None else Some s)
  | c :: chunk1 =>
    match fuel with
    | O => None
    | S f =>
      let failed := failed || is_empty s in
      if N.eqb c LBRACK then
        let r := if failed then 0%N else hd 0%N s in
        let s1 := if failed then s else tl s in
        let negated := match chunk1 with c2 :: _ => N.eqb c2 CARET | [] => false end in
        let chunk2 := if negated then tl chunk1 else chunk1 in
        match class_loop_ne (S (length chunk2)) chunk2 r 0 false with
        | None => None
        | Some (m, chunk3) => match_chunk_ne_f f chunk3 s1 (failed || Bool.eqb m negated)
        end
      else if N.eqb c QUEST then
        let failed' := failed || N.eqb (hd 0%N s) SLASH in
        let s1 := if failed then s else tl s in
        match_chunk_ne_f f chunk1 s1 failed'
      else
        let failed' := failed || negb (N.eqb c (hd 0%N s)) in
        let s1 := if failed then s else tl s in
        match_chunk_ne_f f chunk1 s1 failed'
    end
  end.
Definition match_chunk_ne (chunk s : str) : option (option str) :=
  match_chunk_ne_f (length chunk) chunk s false.

Fixpoint scan_aux_ne (p : str) (inrange : bool) : str * str :=
  match p with
  | [] => ([], [])
  | c :: p' =>
    if N.eqb c LBRACK then let '(a, b) := scan_aux_ne p' true in (c :: a, b)
    else if N.eqb c RBRACK then let '(a, b) := scan_aux_ne p' false in (c :: a, b)
    else if N.eqb c STAR then
      if inrange then let '(a, b) := scan_aux_ne p' inrange in (c :: a, b) else ([], p)
    else let '(a, b) := scan_aux_ne p' inrange in (c :: a, b)
  end.
Definition scan_chunk_ne (pattern : str) : bool * str * str :=
  let '(star, p) := strip_stars pattern in
  let '(chunk, rest) := scan_aux_ne p false in (star, chunk, rest).

Fixpoint star_loop_ne (chunk : str) (last : bool) (name : str) : option (option str) :=
  match name with
  | [] => Some None
  | c :: name' =>
    if N.eqb c SLASH then Some None else
    match match_chunk_ne chunk name' with
    | None => None
    | Some (Some t) => if last && negb (is_empty t) then star_loop_ne chunk last name' else Some (Some t)
    | Some None => star_loop_ne chunk last name'
    end
  end.

Fixpoint match_ne_f (fuel : nat) (pattern name : str) : option bool :=
  match pattern with
  | [] => Some (is_empty name)
  | _ =>
    match fuel with
    | O => None
    | S f =>
      let '(star, chunk, rest) := scan_chunk_ne pattern in
      if star && is_empty chunk then Some (negb (existsb (N.eqb SLASH) name)) else
      let after_first :=
        if star then
          match star_loop_ne chunk (is_empty rest) name with
          | None => None
          | Some None => Some false
          | Some (Some t) => match_ne_f f rest t
          end
        else Some false in
      match match_chunk_ne chunk name with
      | Some (Some t) => if is_empty t || negb (is_empty rest) then match_ne_f f rest t else after_first
      | None => None
      | Some None => after_first
      end
    end
  end.
(* Match(pattern, name) for a pattern without backslash; None = ErrBadPattern *)
Definition match_seg_ne (pattern name : str) : option bool :=
  match_ne_f (S (length pattern)) pattern name.
