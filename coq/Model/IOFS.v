(* Model/IOFS.v — C15: transcription of /repo/iofs.go (IOFS, readDirFile, FromIOFS, fromIOFSFile),
   of the helpers it calls (/repo/ioutil.go ReadFile + bytes.Buffer.ReadFrom, /repo/match.go Glob over
   filesystem calls) and of io/fs.ValidPath (installed Go 1.23, io/fs/fs.go).

   Everything is written over an arbitrary inner filesystem [step : St -> op -> St * res]; the
   harness instantiates it with [ustep k] (Model/Stack.v).

   Modelling decisions:
   - names are ASCII (utf8.ValidString holds);
   - IOFS.wrapError only changes the wrapping of an error, never its identity: not modelled;
   - a file handed out by IOFS.Open is either an fs.ReadDirFile already (mem.File, BasePathFile) or is
     wrapped in readDirFile; in both cases ReadDir(n) is "Readdir(n); on any error drop the entries":
     [readdirfile_readdir];
   - bytes.Buffer growth (only reached when a file is longer than its Stat size + 512) is modelled
     without the allocator's size-class rounding;
   - the constants iofs_*_validates, iofs_sub_dot_self, fromiofs_openfile_mask are read from the CURRENT
     text of /repo/iofs.go by the translator (afcheck consts): the model follows the code. *)
From AF Require Import Lib.Bytes Lib.Path Lib.Ops Gen.Consts Model.BasePath Model.Walk Model.Glob.
Local Open Scope Z_scope.

(* ======================= io/fs.ValidPath ======================= *)
(* elem == "" || elem == "." || elem == ".." *)
Definition io_bad_elem (e : str) : bool := is_empty e || is_dot e || is_dotdot e.

(* the loop over the elements; [cur] = the element read so far, reversed *)
Fixpoint valid_from (name : str) (cur : str) : bool :=
  match name with
  | [] => negb (io_bad_elem (rev cur))                       (* i == len(name): reached clean ending *)
  | c :: r => if N.eqb c SLASH then negb (io_bad_elem (rev cur)) && valid_from r []
              else valid_from r (c :: cur)
  end.

Definition valid_path (name : str) : bool := is_dot name || valid_from name [].

(* ======================= errors ======================= *)
Definition io_invalid : res := RErr (EW KInvalid).        (* &fs.PathError{Err: fs.ErrInvalid} *)
Definition io_perm : err := EW KPermission.               (* notImplemented: &fs.PathError{Err: fs.ErrPermission} *)

Definition by_name (a b : finfo) : bool := bltb (fi_name a) (fi_name b).

(* bytes.MinRead *)
Definition min_read : Z := 512.

(* ======================= afero.ReadFile (ioutil.go) over any filesystem ======================= *)
Section ReadFile.
Context {St : Type} (step : St -> op -> St * res).

(* bytes.Buffer.ReadFrom: for { i := b.grow(MinRead); m, e := r.Read(b.buf[i:cap]); ...; io.EOF => nil }
   result: (state, bytes, error, fuel ran out) *)
Fixpoint io_read_from (fuel : nat) (s : St) (h : nat) (cap : Z) (acc : bytes) : St * bytes * option err :=
  match fuel with
  | O => (s, acc, Some (E KOther))
  | S f =>
    let len := zlen acc in
    let cap' := if len + min_read <=? cap then cap else Z.max (2 * cap) (len + min_read) in
    match step s (HRead h (cap' - len)) with
    | (s', RData b None) => io_read_from f s' h cap' (acc ++ b)
    | (s', RData b (Some e)) =>
        if errk_eqb (ek e) KEOF then (s', acc ++ b, None) else (s', acc ++ b, Some e)
    | (s', RErr e) => (s', acc, Some e)
    | (s', _) => (s', acc, Some (E KOther))
    end
  end.

(* func ReadFile(fs, filename): Open; defer Close; n = Stat().Size() if < 1e9; readAll(f, n + MinRead) *)
Definition afero_readfile (fuel : nat) (s : St) (name : str) : St * res :=
  match step s (Open name) with
  | (s1, RHandle h) =>
    let '(s2, n) := match step s1 (HStat h) with
                    | (s2, RInfo fi) => (s2, if fi_size fi <? 1000000000 then fi_size fi else 0)
                    | (s2, _) => (s2, 0)
                    end in
    let '(s3, data, e) := io_read_from fuel s2 h (n + min_read) [] in
    let '(s4, _) := step s3 (HClose h) in
    (s4, RData data e)
  | x => x
  end.

(* a plain Read loop with one buffer size, until the first error (what a caller of fs.File.Read does) *)
Fixpoint io_read_loop (fuel : nat) (s : St) (h : nat) (chunk : Z) : St * list res :=
  match fuel with
  | O => (s, [])
  | S f =>
    match step s (HRead h chunk) with
    | (s', RData b None) => let '(s'', l) := io_read_loop f s' h chunk in (s'', RData b None :: l)
    | (s', r) => (s', [r])
    end
  end.

(* ReadDir(n) of an fs.ReadDirFile made from an afero.File (mem.File.ReadDir, readDirFile.ReadDir,
   BasePathFile.ReadDir): items, err := Readdir(n); if err != nil { return nil, err } *)
Definition readdirfile_readdir (s : St) (h : nat) (n : Z) : St * res :=
  match step s (HReaddir h n) with
  | (s', RInfos l None) => (s', RInfos l None)
  | (s', RInfos _ (Some e)) => (s', RErr e)
  | x => x
  end.

(* ---- /repo/match.go Glob / glob over filesystem calls (the element matcher, the name loop, hasMeta
        and the two behaviour switches read from match.go are Model/Glob.v's); lstatIfPossible is Stat
        for every stack used here *)
Definition io_glob1 (s : St) (dir pattern : str) (matches : list str) : St * glob_res :=
  match step s (Stat dir) with
  | (s1, RInfo fi) =>
    if negb (fi_dir fi) then (s1, (matches, GNil)) else
    match step s1 (Open dir) with
    | (s2, RHandle h) =>
      let '(s3, r) := step s2 (HReaddirnames h (-1)) in
      let '(s4, _) := step s3 (HClose h) in
      let names := match r with RNames l _ => l | _ => [] end in        (* names, _ := d.Readdirnames(-1) *)
      (s4, afero_glob_names dir pattern (sort_names names) matches)
    | (s2, _) => (s2, (matches, GNil))
    end
  | (s1, _) => (s1, (matches, GNil))
  end.

Fixpoint io_glob_over (s : St) (file : str) (ds : list str) (matches : list str) : St * glob_res :=
  match ds with
  | [] => (s, (matches, GNil))
  | d :: r =>
    match io_glob1 s d file matches with
    | (s1, (m', GNil)) => io_glob_over s1 file r m'
    | x => x
    end
  end.

Fixpoint io_glob_f (fuel : nat) (s : St) (pattern : str) : St * glob_res :=
  match fuel with
  | O => (s, ([], GOutOfFuel))
  | S f =>
    (* `if _, err := filepath.Match(pattern, ""); err != nil { return nil, err }` when match.go has it *)
    if sw_checks_pattern_first && pattern_check_fails pattern then (s, ([], GBadPattern)) else
    if negb (afero_has_meta sw_hasmeta_backslash pattern) then
      match step s (Stat pattern) with
      | (s1, RInfo _) => (s1, ([pattern], GNil))
      | (s1, _) => (s1, ([], GNil))
      end
    else
      let '(dir0, file) := path_split pattern in
      let dir := if is_empty dir0 then s_dot
                 else if beqb dir0 s_slash then dir0
                 else chop_last dir0 in
      if negb (afero_has_meta sw_hasmeta_backslash dir) then io_glob1 s dir file []
      else
        match io_glob_f f s dir with
        | (s1, (m, GNil)) => io_glob_over s1 file m []
        | (s1, (_, e)) => (s1, ([], e))
        end
  end.
Definition afero_glob_fs (s : St) (pattern : str) : St * glob_res :=
  io_glob_f (S (length pattern)) s pattern.
End ReadFile.

(* ======================= IOFS ======================= *)
Definition io_fuel : nat := 64.

Section IOFS.
Context {St : Type} (step : St -> op -> St * res).

(* func (iofs IOFS) Open(name) *)
Definition iofs_open (s : St) (name : str) : St * res :=
  if negb (valid_path name) then (s, io_invalid) else step s (Open name).

(* func (iofs IOFS) ReadDir(name): Open (NOT validated), ReadDir(-1) / Readdir(-1), Close, sort by name *)
Definition iofs_readdir (s : St) (name : str) : St * res :=
  if Z.eqb iofs_readdir_validates 1 && negb (valid_path name) then (s, io_invalid) else
  match step s (Open name) with
  | (s1, RHandle h) =>
    let '(s2, r) := readdirfile_readdir step s1 h (-1) in
    let '(s3, _) := step s2 (HClose h) in
    match r with
    | RInfos l None => (s3, RInfos (sort_by by_name l) None)
    | _ => (s3, r)
    end
  | (s1, RErr e) => (s1, RErr e)
  | (s1, _) => (s1, RPanic)                                (* Open returns a file or an error *)
  end.

(* func (iofs IOFS) ReadFile(name) *)
Definition iofs_readfile (fuel : nat) (s : St) (name : str) : St * res :=
  if negb (valid_path name) then (s, io_invalid) else
  match afero_readfile step fuel s name with
  | (s', RData d None) => (s', RData d None)
  | (s', RData _ (Some e)) => (s', RErr e)                (* if err != nil { return nil, wrapError } *)
  | x => x
  end.

(* IOFS has no Stat method of its own: the embedded Fs.Stat is the fs.StatFS method *)
Definition iofs_stat (s : St) (name : str) : St * res :=
  if Z.eqb iofs_stat_validates 1 && negb (valid_path name) then (s, io_invalid) else step s (Stat name).

(* func (iofs IOFS) Glob(pattern): path.Match(pattern, "") pre-check, then afero.Glob *)
Definition iofs_glob (s : St) (pattern : str) : St * glob_res :=
  match match_seg pattern [] with
  | None => (s, ([], GBadPattern))
  | Some _ => afero_glob_fs step s pattern
  end.

(* func (iofs IOFS) Sub(dir) = IOFS{NewBasePathFs(iofs.Fs, dir)}, nil *)
Definition iofs_sub_ok (dir : str) : bool := negb (Z.eqb iofs_sub_validates 1) || valid_path dir.
Definition iofs_sub_step (dir : str) : St -> op -> St * res :=
  if Z.eqb iofs_sub_dot_self 1 && is_dot dir then step else bp_step step dir.
End IOFS.

(* ======================= FromIOFS over an IOFS ======================= *)
Fixpoint io_assoc (h : nat) (l : list (nat * str)) : option str :=
  match l with
  | [] => None
  | (k, v) :: r => if Nat.eqb k h then Some v else io_assoc h r
  end.

Section FromIOFS.
Context {St : Type} (step : St -> op -> St * res).

(* state: the inner state and, per handle, the name it was opened with (fromIOFSFile.name) *)
Definition fromiofs_step (st : St * list (nat * str)) (o : op) : (St * list (nat * str)) * res :=
  let '(s, names) := st in
  let deny : (St * list (nat * str)) * res := (st, RErr io_perm) in
  let pass (x : St * res) : (St * list (nat * str)) * res := let '(s', r) := x in ((s', names), r) in
  let open_ (p : str) : (St * list (nat * str)) * res :=
    match iofs_open step s p with
    | (s', RHandle h) => ((s', (h, p) :: names), RHandle h)
    | (s', r) => ((s', names), r)
    end in
  match o with
  | Create _ | Mkdir _ _ | MkdirAll _ _ | Remove _ | RemoveAll _ | Rename _ _
  | Chmod _ _ | Chown _ _ _ | Chtimes _ _ => deny
  | Open p => open_ p
  | OpenFile p flag _ =>
      (* today: return f.Open(name) whatever the flag says (mask 0) *)
      if negb (Z.eqb (Z.land flag fromiofs_openfile_mask) 0) then deny else open_ p
  | Stat p => pass (iofs_stat step s p)                        (* fs.Stat(f.FS, name): IOFS is a StatFS *)
  | HWrite _ _ | HWriteAt _ _ _ | HWriteString _ _ => (st, RCount (-1) (Some io_perm))
  | HTruncate _ _ => deny
  | HSync _ => (st, ROk)
  | HName h => (st, match io_assoc h names with Some n => RName n | None => RNoSlot end)
  | HReaddir h n => pass (readdirfile_readdir step s h n)      (* entries[i].Info() of a FileInfoDirEntry never fails *)
  | HReaddirnames h n =>
      match readdirfile_readdir step s h n with
      | (s', RInfos l None) => ((s', names), RNames (map fi_name l) None)
      | x => pass x
      end
  | HRead _ _ | HReadAt _ _ _ | HSeek _ _ _ | HClose _ | HStat _ => pass (step s o)
  end.

(* the operations the property calls mutations *)
Definition io_write_bits : list Z := [o_wronly; o_rdwr; o_append; o_create; o_trunc].
Definition io_write_flag (flag : Z) : bool := existsb (fun b => negb (Z.eqb (Z.land flag b) 0)) io_write_bits.
Definition io_plain_mutator (o : op) : bool :=
  match o with
  | Create _ | Mkdir _ _ | MkdirAll _ _ | Remove _ | RemoveAll _ | Rename _ _
  | Chmod _ _ | Chown _ _ _ | Chtimes _ _
  | HWrite _ _ | HWriteAt _ _ _ | HWriteString _ _ | HTruncate _ _ => true
  | _ => false
  end.
Definition io_mutator (o : op) : bool :=
  match o with OpenFile _ flag _ => io_write_flag flag | _ => io_plain_mutator o end.
Definition io_denied (r : res) : bool :=
  match r with
  | RErr e | RCount _ (Some e) => errk_eqb (ek e) KPermission
  | _ => false
  end.
End FromIOFS.

(* ======================= the queries of the harness ======================= *)
Inductive ioq :=
| QOpen (n : str)
| QReadDir (n : str)
| QPage (n : str) (sizes : list Z)
| QReadFile (n : str)
| QRead (n : str) (chunk : Z)
| QReadAt (n : str) (off len : Z)
| QSeek (n : str) (pre off whence len : Z)
| QStat (n : str)
| QGlob (p : str).

Inductive iotop :=
| TBasic (q : ioq)
| TSub (d : str) (q : ioq)
| TFromStat (n : str) | TFromOpen (n : str) | TFromReadFile (n : str)
| TFromReaddir (n : str) | TFromNames (n : str)
| TFromMut (o : op)
| TFromHMut (n : str) (o : op).      (* o names handle 0: replaced by the handle Open returned *)

Definition io_glob_res (g : glob_res) : res :=
  match g with
  | (m, GNil) => RNames m None
  | (_, GBadPattern) => RErr (E KOther)
  | (_, GOutOfFuel) => RPanic
  end.

Definition io_loop_fuel : nat := N.to_nat 20000.

Section Eval.
Context {St : Type} (step : St -> op -> St * res).

Fixpoint io_pages (s : St) (h : nat) (sizes : list Z) : St * list res :=
  match sizes with
  | [] => (s, [])
  | n :: r => let '(s1, x) := readdirfile_readdir step s h n in
              let '(s2, xs) := io_pages s1 h r in (s2, x :: xs)
  end.

(* results of the calls the property speaks about, in order; an Open that fails is the only result *)
Definition io_eval_q (s : St) (q : ioq) : list res :=
  let with_file (n : str) (k : St -> nat -> list res) : list res :=
    match iofs_open step s n with
    | (s1, RHandle h) => ROk :: k s1 h
    | (_, r) => [r]
    end in
  match q with
  | QOpen n => with_file n (fun s1 h => [snd (step s1 (HStat h))])
  | QReadDir n => [snd (iofs_readdir step s n)]
  | QPage n sizes => with_file n (fun s1 h => snd (io_pages s1 h sizes))
  | QReadFile n => [snd (iofs_readfile step io_fuel s n)]
  | QRead n chunk => with_file n (fun s1 h => snd (io_read_loop step io_loop_fuel s1 h chunk))
  | QReadAt n off len => with_file n (fun s1 h => [snd (step s1 (HReadAt h len off))])
  | QSeek n pre off whence len =>
      with_file n (fun s1 h =>
        let s2 := if 0 <? pre then fst (step s1 (HRead h pre)) else s1 in
        let '(s3, p) := step s2 (HSeek h off whence) in
        [p; snd (step s3 (HRead h len))])
  | QStat n => [snd (iofs_stat step s n)]
  | QGlob p => [io_glob_res (snd (iofs_glob step s p))]
  end.
End Eval.

Section EvalTop.
Context {St : Type} (step : St -> op -> St * res).

Definition io_eval (s : St) (t : iotop) : list res :=
  let fs0 : St * list (nat * str) := (s, []) in
  let fstep := fromiofs_step step in
  let fopen (n : str) (k : St * list (nat * str) -> nat -> list res) : list res :=
    match fstep fs0 (Open n) with
    | (s1, RHandle h) => ROk :: k s1 h
    | (_, r) => [r]
    end in
  match t with
  | TBasic q => io_eval_q step s q
  | TSub d q => if iofs_sub_ok d then io_eval_q (iofs_sub_step step d) s q else [io_invalid]
  | TFromStat n => [snd (fstep fs0 (Stat n))]
  | TFromOpen n => fopen n (fun s1 h => [snd (fstep s1 (HStat h))])
  | TFromReadFile n => [snd (afero_readfile fstep io_fuel fs0 n)]
  | TFromReaddir n => fopen n (fun s1 h => [snd (fstep s1 (HReaddir h (-1)))])
  | TFromNames n => fopen n (fun s1 h => [snd (fstep s1 (HReaddirnames h (-1)))])
  | TFromMut o => [snd (fstep fs0 o)]
  | TFromHMut n o => fopen n (fun s1 h => [snd (fstep s1 (op_set_handle o h))])
  end.
End EvalTop.
