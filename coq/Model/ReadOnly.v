(* Model/ReadOnly.v — transcription of readonlyfs.go over any inner filesystem.
   Files are handed out unwrapped, so handle operations go straight to the source. *)
From AF Require Import Lib.Bytes Lib.Path Lib.Ops Gen.Consts.
Local Open Scope Z_scope.

(* the calls ReadOnlyFs forwards to its source; every other call is answered with EPERM *)
Definition ro_passes (o : op) : bool :=
  match o with
  | Create _ | Mkdir _ _ | MkdirAll _ _ | Remove _ | RemoveAll _ | Rename _ _
  | Chmod _ _ | Chown _ _ _ | Chtimes _ _ => false
  | OpenFile _ flag _ => Z.eqb (Z.land flag readonly_mask) 0
  | _ => true
  end.

Section ReadOnly.
Context {St : Type} (inner : St -> op -> St * res).

Definition ro_step (s : St) (o : op) : St * res :=
  match o with
  | Create _ | Mkdir _ _ | MkdirAll _ _ | Remove _ | RemoveAll _ | Rename _ _
  | Chmod _ _ | Chown _ _ _ | Chtimes _ _ => (s, RErr (E KEPERM))
  | OpenFile p flag perm =>
    if negb (Z.eqb (Z.land flag readonly_mask) 0) then (s, RErr (E KEPERM))
    else inner s o
  | _ => inner s o
  end.
End ReadOnly.
