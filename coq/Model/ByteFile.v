(* Model/ByteFile.v — the SPECIFICATION C02 (and C14, C19, C20) refer to: a flat byte array
   with per-handle offsets, written without reference to the Go code. *)
From AF Require Import Lib.Bytes Lib.Path Lib.Ops.

(* the array after writing b at offset off: the gap (if any) is zero-filled, bytes before
   off and from off+|b| on are untouched *)
Definition pwrite (data : bytes) (off : nat) (b : bytes) : bytes :=
  match b with
  | [] => data                     (* a zero-length write changes nothing (write(2) with count 0) *)
  | _ => firstn off (data ++ zeros (off - length data)) ++ b ++ skipn (off + length b) data
  end.
(* up to n bytes from offset off *)
Definition pread (data : bytes) (off n : nat) : bytes := firstn n (skipn off data).
(* cut or zero-extend to n bytes *)
Definition ptrunc (data : bytes) (n : nat) : bytes := firstn n (data ++ zeros (n - length data)).

Record bh := mkBH { bpos : nat; bclosed : bool; bro : bool }.
Record bstate := mkBS { bdata : bytes; bhs : list bh }.

(* projected results: what the property speaks about *)
Inductive pres :=
| PNone                       (* no such handle *)
| POk
| PErr (c : nat)              (* error class *)
| PBytes (b : bytes) (eof : bool)   (* a read: the bytes, and whether end of file was reported *)
| PCount (n : nat)            (* a successful write of n bytes *)
| PPos (n : nat)              (* a successful seek *)
| PSize (n : nat).

(* error classes *)
Definition C_CLOSED := 1. Definition C_READONLY := 2. Definition C_INVALID := 3.

Local Open Scope Z_scope.
Definition bf_step (s : bstate) (o : op) : bstate * pres :=
  let data := bdata s in
  let with_h (i : nat) (k : bh -> bstate * pres) : bstate * pres :=
    match nth_error (bhs s) i with Some h => k h | None => (s, PNone) end in
  let seth (i : nat) (h : bh) (d : bytes) := mkBS d (list_set i h (bhs s)) in
  match o with
  | HRead i n => with_h i (fun h =>
      if bclosed h then (s, PErr C_CLOSED) else
      let b := pread data (bpos h) (Z.to_nat n) in
      (seth i (mkBH (bpos h + length b) false (bro h)) data,
       PBytes b ((0 <? n) && Nat.eqb (length b) 0)))
  | HReadAt i n off => with_h i (fun h =>
      if off <? 0 then (s, PErr C_INVALID) else
      if bclosed h then (s, PErr C_CLOSED) else
      let b := pread data (Z.to_nat off) (Z.to_nat n) in
      (s, PBytes b (zlen b <? n)))
  | HWrite i b | HWriteString i b => with_h i (fun h =>
      if bclosed h then (s, PErr C_CLOSED) else
      if bro h then (s, PErr C_READONLY) else
      (seth i (mkBH (bpos h + length b) false false) (pwrite data (bpos h) b), PCount (length b)))
  | HWriteAt i b off => with_h i (fun h =>
      if off <? 0 then (s, PErr C_INVALID) else
      if bclosed h then (s, PErr C_CLOSED) else
      if bro h then (s, PErr C_READONLY) else
      (seth i h (pwrite data (Z.to_nat off) b), PCount (length b)))
  | HSeek i off wh => with_h i (fun h =>
      if bclosed h then (s, PErr C_CLOSED) else
      let target := if wh =? 0 then off else if wh =? 1 then Z.of_nat (bpos h) + off
                    else if wh =? 2 then zlen data + off else Z.of_nat (bpos h) in
      if target <? 0 then (s, PErr C_INVALID)
      else (seth i (mkBH (Z.to_nat target) false (bro h)) data, PPos (Z.to_nat target)))
  | HTruncate i n => with_h i (fun h =>
      if bclosed h then (s, PErr C_CLOSED) else
      if bro h then (s, PErr C_READONLY) else
      if n <? 0 then (s, PErr C_INVALID) else
      (mkBS (ptrunc data (Z.to_nat n)) (bhs s), POk))
  | HClose i => with_h i (fun h => if bclosed h then (s, PErr C_CLOSED) else (seth i (mkBH (bpos h) true (bro h)) data, POk))
  | HStat i => with_h i (fun h => (s, PSize (length data)))
  | HSync i => with_h i (fun h => (s, POk))
  | _ => (s, PNone)
  end.

Fixpoint bf_run (s : bstate) (ops : list op) : bstate * list pres :=
  match ops with
  | [] => (s, [])
  | o :: r => let '(s1, x) := bf_step s o in let '(s2, xs) := bf_run s1 r in (s2, x :: xs)
  end.

Definition bf_init (content : bytes) (spec : list (bool * bool)) : bstate :=
  mkBS content (map (fun '(ro, cl) => mkBH 0 cl ro) spec).

(* projection of a result of the Go-level model (or of the implementation) *)
Definition class_of (e : err) : nat :=
  match ek e with
  | KClosed => C_CLOSED
  | KReadOnlyHandle => C_READONLY
  | KNegative | KOutOfRange | KInvalid | KEINVAL => C_INVALID
  | _ => 0%nat
  end.
Definition is_eof (e : err) : bool := match ek e with KEOF | KUnexpectedEOF => true | _ => false end.

Definition proj (o : op) (r : res) : pres :=
  match r with
  | RNoSlot => PNone
  | ROk => POk
  | RErr e => PErr (class_of e)
  | RData b None => PBytes b false
  | RData b (Some e) =>
      if is_eof e then
        (* a zero-length read says nothing about end of file *)
        PBytes b (match o with HRead _ n | HReadAt _ n _ => 0 <? n | _ => true end)
      else PErr (class_of e)
  | RCount n None => PCount (Z.to_nat n)
  | RCount _ (Some e) => PErr (class_of e)
  | RPos n None => PPos (Z.to_nat n)
  | RPos _ (Some e) => PErr (class_of e)
  | RInfo fi => PSize (Z.to_nat (fi_size fi))
  | _ => PErr 99
  end.
