(* Model/GcsFs.v — gcsfs/fs.go (Fs.Create/OpenFile/Remove/RemoveAll/Rename/Stat/Mkdir/MkdirAll) and
   the runner of harness cases over Model/Gcs.v. *)
From AF Require Import Lib.Bytes Lib.Path Lib.Ops Gen.Consts Model.Gcs.
Local Open Scope Z_scope.

(* Fs: the store, the heap of gcsFileResource values, rawGcsObjects (name -> resource) *)
Record gfs := mkG { g_objs : gstore; g_res : list resource; g_raw : list (str * nat) }.

Definition set_objs (g : gfs) (o : gstore) : gfs := mkG o (g_res g) (g_raw g).
Definition set_res (g : gfs) (i : nat) (r : resource) : gfs := mkG (g_objs g) (list_set i r (g_res g)) (g_raw g).
Definition put_or (g : gfs) (i : nat) (o : gstore) (r : resource) : gfs := mkG o (list_set i r (g_res g)) (g_raw g).
Definition galloc (g : gfs) (r : resource) : gfs * nat :=
  (mkG (g_objs g) (g_res g ++ [r]) (g_raw g), length (g_res g)).

Definition gvalidate (name : str) : option gerr := if is_empty name then Some GNoBucket else None.

(* getObj: only the bucket is checked *)
Definition get_obj (bkt name : str) : option gerr := get_bucket bkt (fst (split_name name)).

Definition rdwr_create_trunc : Z := Z.lor o_rdwr (Z.lor o_create o_trunc).

Definition fs_create (bkt : str) (g : gfs) (name0 : str) : gfs * (gerr + ghandle) :=
  let name := norm_name name0 in
  match gvalidate name with Some e => (g, inl e) | None =>
  match get_obj bkt name with Some e => (g, inl e) | None =>
  let '(bk, path) := split_name name in
  match o_put bkt (g_objs g) bk path [] with
  | inl e => (g, inl e)
  | inr o1 =>
    let '(g1, i) := galloc (set_objs g o1) (new_resource name) in
    (mkG (g_objs g1) (g_res g1) (alist_set name i (g_raw g1)), inr (mkGH rdwr_create_trunc 0 false i))
  end end end.

Definition fs_stat (bkt : str) (g : gfs) (name0 : str) : gerr + ginfo :=
  let name := norm_name name0 in
  match gvalidate name with Some e => inl e | None => new_file_info bkt (g_objs g) name end.

Definition fs_mkdir (bkt : str) (g : gfs) (name0 : str) : gfs * option gerr :=
  let name := norm_dir_name name0 in
  match gvalidate name with Some e => (g, Some e) | None =>
  let '(bk, path) := split_name name in
  if is_empty bk then (g, Some GNoBucket) else
  if is_empty path then (g, Some GEmptyName) else
  match get_obj bkt name with Some e => (g, Some e) | None =>
  match o_put bkt (g_objs g) bk path [] with
  | inl e => (g, Some e)
  | inr o1 => (set_objs g o1, None)
  end end end.

(* the loop of MkdirAll over strings.Split(path, "/") *)
Fixpoint mkdirall_loop (bkt : str) (g : gfs) (root : str) (first : bool) (folders : list str) : gfs * option gerr :=
  match folders with
  | [] => (g, None)
  | f :: rest =>
    if is_empty f && negb first then mkdirall_loop bkt g root false rest
    else if is_empty root then mkdirall_loop bkt g f false rest
    else
      let root' := root ++ s_slash ++ f in
      match fs_mkdir bkt g root' with
      | (g1, Some e) => (g1, Some e)
      | (g1, None) => mkdirall_loop bkt g1 root' false rest
      end
  end.

Definition fs_mkdirall (bkt : str) (g : gfs) (name0 : str) : gfs * option gerr :=
  let path := norm_dir_name name0 in
  match gvalidate path with Some e => (g, Some e) | None =>
  let '(bk, sp) := split_name path in
  if is_empty bk then (g, Some GNoBucket) else
  if is_empty sp then (g, Some GEmptyName) else
  mkdirall_loop bkt g [] true (split_slash path)
  end.

(* handle-level calls on the resource a handle points to *)
Definition with_res {A} (g : gfs) (h : ghandle) (dflt : A) (k : resource -> A) : A :=
  match nth_error (g_res g) (h_res h) with Some r => k r | None => dflt end.

Definition h_stat (bkt : str) (g : gfs) (h : ghandle) : gfs * (gerr + ginfo) :=
  with_res g h (g, inl GOther) (fun r =>
    let '(o1, r1, x) := gf_stat bkt (g_objs g) r in (put_or g (h_res h) o1 r1, x)).

Definition h_seek (bkt : str) (g : gfs) (h : ghandle) (off wh : Z) : gfs * ghandle * Z * option gerr :=
  with_res g h (g, h, 0, Some GOther) (fun r =>
    let '(o1, r1, h1, p, e) := gf_seek bkt (g_objs g) r h off wh in (put_or g (h_res h) o1 r1, h1, p, e)).

Definition h_write_at (bkt : str) (g : gfs) (h : ghandle) (b : bytes) (off : Z) : gfs * ghandle * Z * option gerr :=
  with_res g h (g, h, 0, Some GOther) (fun r =>
    let '(o1, r1, h1, k, e) := gf_write_at bkt (g_objs g) r h b off in (put_or g (h_res h) o1 r1, h1, k, e)).

Definition fs_open_file (bkt : str) (g : gfs) (name0 : str) (flag : Z) : gfs * (gerr + ghandle) :=
  let name := norm_name name0 in
  match gvalidate name with Some e => (g, inl e) | None =>
  let found : gerr + (gfs * ghandle) :=
    match alist_get name (g_raw g) with
    | Some i => inr (g, mkGH flag 0 false i)
    | None =>
      match get_obj bkt name with
      | Some e => inl e
      | None => let '(g1, i) := galloc g (new_resource name) in inr (g1, mkGH flag 0 false i)
      end
    end in
  match found with
  | inl e => (g, inl e)
  | inr (g1, file) =>
    let st1 : gfs * option gerr :=
      if flag =? o_rdonly then
        match h_stat bkt g1 file with (g2, inl e) => (g2, Some e) | (g2, inr _) => (g2, None) end
      else (g1, None) in
    match st1 with
    | (g2, Some e) => (g2, inl e)
    | (g2, None) =>
      if negb (Z.land flag o_trunc =? 0) then
        with_res g2 file (g2, inl GOther) (fun r =>
          match o_delete bkt (g_objs g2) (r_bk r) (r_path r) with
          | inl e => (g2, inl e)
          | inr o3 => fs_create bkt (set_objs g2 o3) name
          end)
      else
        let st2 : gfs * ghandle * option gerr :=
          if negb (Z.land flag o_append =? 0) then
            let '(g3, f3, _, e) := h_seek bkt g2 file 0 2 in (g3, f3, e)
          else (g2, file, None) in
        match st2 with
        | (g3, f3, Some e) => (g3, inl e)
        | (g3, f3, None) =>
          if negb (Z.land flag o_create =? 0) then
            match h_stat bkt g3 f3 with
            | (g4, inr _) => (g4, inl GEPERM)
            | (g4, inl _) =>
              match h_write_at bkt g4 f3 [] (h_off f3) with
              | (g5, f5, _, Some e) => (g5, inl e)
              | (g5, f5, _, None) => (g5, inr f5)
              end
            end
          else (g3, inr f3)
        end
    end
  end end.

Definition fs_open (bkt : str) (g : gfs) (name : str) := fs_open_file bkt g name o_rdonly.

Definition h_readdir (c : cfg) (bkt : str) (g : gfs) (h : ghandle) (count : Z) : gfs * lres :=
  with_res g h (g, LList [] (Some GOther)) (fun r =>
    let '(o1, r1, x) := gf_readdir c bkt (g_objs g) r count in (put_or g (h_res h) o1 r1, x)).

Inductive ures := UOk | UErr (e : gerr) | UPanic | UFuel.

Definition fs_remove (c : cfg) (bkt : str) (g : gfs) (name0 : str) : gfs * ures :=
  let name := norm_name name0 in
  match gvalidate name with Some e => (g, UErr e) | None =>
  match get_obj bkt name with Some e => (g, UErr e) | None =>
  match fs_stat bkt g name with
  | inl e => (g, UErr e)
  | inr info =>
    let g1 := mkG (g_objs g) (g_res g) (alist_del name (g_raw g)) in
    let '(bk, path) := split_name name in
    if gi_dir info then
      match fs_open bkt g1 name with
      | (g2, inl e) => (g2, UErr e)
      | (g2, inr dir) =>
        match h_readdir c bkt g2 dir 0 with
        | (g3, LPanic) => (g3, UPanic)
        | (g3, LList _ (Some e)) => (g3, UErr e)
        | (g3, LList (_ :: _) None) => (g3, UErr GENOTEMPTY)
        | (g3, LList [] None) =>
          let name' := ensure_trailing name in
          match get_obj bkt name' with Some e => (g3, UErr e) | None =>
          let '(bk', path') := split_name name' in
          match o_delete bkt (g_objs g3) bk' path' with
          | inl e => (g3, UErr e)
          | inr o4 => (set_objs g3 o4, UOk)
          end end
        end
      end
    else
      match o_delete bkt (g_objs g1) bk path with
      | inl e => (g1, UErr e)
      | inr o2 => (set_objs g1 o2, UOk)
      end
  end end end.

Fixpoint fs_remove_all (c : cfg) (bkt : str) (fuel : nat) (g : gfs) (path0 : str) : gfs * ures :=
  match fuel with
  | O => (g, UFuel)
  | S f =>
    let path := norm_name path0 in
    match gvalidate path with Some e => (g, UErr e) | None =>
    match fs_stat bkt g path with
    | inl GENOENT => (g, UOk)
    | inl e => (g, UErr e)
    | inr info =>
      if negb (gi_dir info) then fs_remove c bkt g path else
      match fs_open bkt g path with
      | (g1, inl e) => (g1, UErr e)
      | (g1, inr dir) =>
        match h_readdir c bkt g1 dir 0 with
        | (g2, LPanic) => (g2, UPanic)
        | (g2, LList _ (Some e)) => (g2, UErr e)
        | (g2, LList infos None) =>
          let fix each (g : gfs) (l : list ginfo) : gfs * ures :=
            match l with
            | [] => (g, UOk)
            | i :: rest =>
              match fs_remove_all c bkt f g (path ++ s_slash ++ norm_seps (gi_base i)) with
              | (g', UOk) => each g' rest
              | x => x
              end
            end in
          match each g2 infos with
          | (g3, UOk) =>
            match fs_remove c bkt g3 path with
            | (g4, UErr GENOENT) => (g4, if fix_d20 c then UOk else UErr GENOENT)  (* an implicit folder is gone with its last object *)
            | x => x
            end
          | x => x
          end
        end
      end
    end end
  end.

Definition fs_rename (bkt : str) (g : gfs) (old0 new0 : str) : gfs * option gerr :=
  let old := norm_name old0 in
  match gvalidate old with Some e => (g, Some e) | None =>
  let new := norm_name new0 in
  match gvalidate new with Some e => (g, Some e) | None =>
  match get_obj bkt old with Some e => (g, Some e) | None =>
  match get_obj bkt new with Some e => (g, Some e) | None =>
  let '(sbk, sp) := split_name old in
  let '(dbk, dp) := split_name new in
  match o_copy bkt (g_objs g) sbk sp dbk dp with
  | inl e => (g, Some e)
  | inr o1 =>
    let g1 := mkG o1 (g_res g) (alist_del old (g_raw g)) in
    match o_delete bkt o1 sbk sp with
    | inl e => (g1, Some e)
    | inr o2 => (set_objs g1 o2, None)
    end
  end end end end end.

(* ------------------------------------------------------------------ results and the case runner *)
Inductive gres :=
| GPanic | GNoSlot | GFuel | GOk | GErr (e : gerr) | GHandle
| GInfo (i : ginfo)
| GData (b : bytes) (e : option gerr)
| GCount (n : Z) (e : option gerr)
| GPos (n : Z) (e : option gerr)
| GInfos (l : list ginfo) (e : option gerr)
| GNames (l : list str) (e : option gerr)
| GName (s : str)
| GSnap (l : list (str * bytes)).

Definition of_opt (e : option gerr) : gres := match e with None => GOk | Some x => GErr x end.
Definition of_ures (u : ures) : gres :=
  match u with UOk => GOk | UErr e => GErr e | UPanic => GPanic | UFuel => GFuel end.

(* one call on an open handle: the part of the machine C20_data_exact is about *)
Definition h_step (c : cfg) (bkt : str) (fuel : nat) (objs : gstore) (r : resource) (h : ghandle) (o : op)
  : gstore * resource * ghandle * gres :=
  match o with
  | HRead _ n =>
      let '(o1, r1, h1, b, e) := gf_read_at bkt objs r h n (h_off h) in (o1, r1, h1, GData b e)
  | HReadAt _ n off =>
      let '(o1, r1, h1, b, e) := gf_read_at bkt objs r h n off in (o1, r1, h1, GData b e)
  | HWrite _ b | HWriteString _ b =>
      let '(o1, r1, h1, k, e) := gf_write_at bkt objs r h b (h_off h) in (o1, r1, h1, GCount k e)
  | HWriteAt _ b off =>
      let '(o1, r1, h1, k, e) := gf_write_at bkt objs r h b off in (o1, r1, h1, GCount k e)
  | HSeek _ off wh =>
      let '(o1, r1, h1, p, e) := gf_seek bkt objs r h off wh in (o1, r1, h1, GPos p e)
  | HTruncate _ n =>
      let '(o1, r1, t) := gf_truncate bkt fuel objs r h n in
      (o1, r1, h, match t with TOk => GOk | TErr e => GErr e | TFuel => GFuel end)
  | HClose _ =>
      let '(o1, r1, h1, e) := gf_close bkt objs r h in (o1, r1, h1, of_opt e)
  | HSync _ =>
      let '(o1, r1, e) := gf_sync bkt objs r in (o1, r1, h, of_opt e)
  | HStat _ =>
      let '(o1, r1, x) := gf_stat bkt objs r in
      (o1, r1, h, match x with inl e => GErr e | inr i => GInfo i end)
  | HReaddir _ n =>
      let '(o1, r1, x) := gf_readdir c bkt objs r n in
      (o1, r1, h, match x with LPanic => GPanic | LList l e => GInfos l e end)
  | HReaddirnames _ n =>
      let '(o1, r1, x) := gf_readdirnames c bkt objs r n in
      (o1, r1, h, match x with NPanic => GPanic | NErr e => GErr e | NList l e => GNames l e end)
  | HName _ => (objs, r, h, GName (r_name r))
  | _ => (objs, r, h, GNoSlot)
  end.

Fixpoint h_run (c : cfg) (bkt : str) (fuel : nat) (objs : gstore) (r : resource) (h : ghandle) (ops : list op)
  : gstore * resource * ghandle * list gres :=
  match ops with
  | [] => (objs, r, h, [])
  | o :: rest =>
    let '(o1, r1, h1, x) := h_step c bkt fuel objs r h o in
    let '(o2, r2, h2, xs) := h_run c bkt fuel o1 r1 h1 rest in
    (o2, r2, h2, x :: xs)
  end.

Record gstate := mkGS { gs_fs : gfs; gs_slots : list (nat * ghandle) }.

Fixpoint gslot_get (i : nat) (l : list (nat * ghandle)) : option ghandle :=
  match l with [] => None | (j, h) :: r => if Nat.eqb i j then Some h else gslot_get i r end.
Fixpoint gslot_set (i : nat) (h : ghandle) (l : list (nat * ghandle)) : list (nat * ghandle) :=
  match l with
  | [] => [(i, h)]
  | (j, h') :: r => if Nat.eqb i j then (i, h) :: r else (j, h') :: gslot_set i h r
  end.

Definition ghandle_of (o : op) : option nat :=
  match o with
  | HRead h _ | HReadAt h _ _ | HWrite h _ | HWriteAt h _ _ | HWriteString h _ | HSeek h _ _
  | HTruncate h _ | HClose h | HReaddir h _ | HReaddirnames h _ | HStat h | HName h | HSync h => Some h
  | _ => None
  end.

Definition gbind (s : gstate) (slot : option nat) (x : gfs * (gerr + ghandle)) : gstate * gres :=
  match x with
  | (g, inl e) => (mkGS g (gs_slots s), GErr e)
  | (g, inr h) => (mkGS g (match slot with Some i => gslot_set i h (gs_slots s) | None => gs_slots s end), GHandle)
  end.

Definition g_step (c : cfg) (bkt : str) (fuel : nat) (s : gstate) (slot : option nat) (o : op) : gstate * gres :=
  let g := gs_fs s in
  match ghandle_of o with
  | Some i =>
    match gslot_get i (gs_slots s) with
    | None => (s, GNoSlot)
    | Some h =>
      match nth_error (g_res g) (h_res h) with
      | None => (s, GNoSlot)
      | Some r =>
        let '(o1, r1, h1, x) := h_step c bkt fuel (g_objs g) r h o in
        (mkGS (put_or g (h_res h) o1 r1) (gslot_set i h1 (gs_slots s)), x)
      end
    end
  | None =>
    match o with
    | Create p => gbind s slot (fs_create bkt g p)
    | Open p => gbind s slot (fs_open bkt g p)
    | OpenFile p flag _ => gbind s slot (fs_open_file bkt g p flag)
    | Mkdir p _ => let '(g1, e) := fs_mkdir bkt g p in (mkGS g1 (gs_slots s), of_opt e)
    | MkdirAll p _ => let '(g1, e) := fs_mkdirall bkt g p in (mkGS g1 (gs_slots s), of_opt e)
    | Remove p => let '(g1, u) := fs_remove c bkt g p in (mkGS g1 (gs_slots s), of_ures u)
    | RemoveAll p => let '(g1, u) := fs_remove_all c bkt fuel g p in (mkGS g1 (gs_slots s), of_ures u)
    | Rename p q => let '(g1, e) := fs_rename bkt g p q in (mkGS g1 (gs_slots s), of_opt e)
    | Stat p => (s, match fs_stat bkt g p with inl e => GErr e | inr i => GInfo i end)
    | _ => (s, GNoSlot)
    end
  end.

Definition snap_of (g : gfs) : list (str * bytes) :=
  map (fun n => (n, match alist_get n (g_objs g) with Some d => d | None => [] end)) (names_sorted (g_objs g)).

(* items of a case: an op with its slot, or a snapshot of the bucket *)
Inductive gitem := GIOp (slot : option nat) (o : op) | GISnap.

Fixpoint g_run (c : cfg) (bkt : str) (fuel : nat) (s : gstate) (items : list gitem) : list gres :=
  match items with
  | [] => []
  | GISnap :: rest => GSnap (snap_of (gs_fs s)) :: g_run c bkt fuel s rest
  | GIOp slot o :: rest => let '(s1, x) := g_step c bkt fuel s slot o in x :: g_run c bkt fuel s1 rest
  end.

Definition g_init (objs : gstore) : gstate := mkGS (mkG objs [] []) [].
