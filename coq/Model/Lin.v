(* Model/Lin.v — C04: histories, real-time order, linearizability against a sequential
   specification, an executable checker, and the concurrent machine in which every call runs
   as a sequence of atomic SECTIONS (the code between two lock operations).

   The sequential specification is Model/MemFs.v ([m_step]) behind per-goroutine handle slots
   ([lin_step]).  The section table [ln_sec] abstracts memmap.go AS IT IS TODAY; which methods
   have more than one section is read off the source by `afcheck consts` ([ln_cfg_today]).

   HONESTY NOTE.  The machine has no locks.  Its sections are the critical sections of the
   filesystem lock mu as the translator finds them; between two sections of a call it lets any
   call run, inside a section none.  The code is finer: an operation on a handle takes only a
   file's or directory's mutex and runs inside other calls' sections of mu, between two of their
   file-mutex sections.  Three such windows were found by real preemption and repaired
   ([sc_rdnames_split], [sc_rename_parents_split], [sc_rename_kids_split]); a fourth was found by
   the lock-aware cooperative scheduler and repaired: OpenFile with O_APPEND|O_TRUNC used to seek
   and truncate under two holds of the file's mutex, so for handle operations it behaved like
   [sc_open_finish] = true although that switch is false for every call that takes mu (w10 in
   Proofs/LinProof.v).  The translator now also reads HOW the handle is finished
   ([lin_openfile_finish_one_hold]: 1 = one method of mem.File, one hold of the file's mutex);
   [ln_cfg_handles_today] below is the table with OpenFile as the operations on handles see it,
   and with today's source it coincides with [ln_cfg_today]: against handle operations OpenFile
   is now one step.  That is a fact about ONE method, established by shape recognition; the
   machine still has no locks, and that no other namespace method has such a window is search
   (the lock-aware scheduler, harness/cmd/afcheck/c04_verifsched.go: every lock acquisition is a
   switching point, fixed window programs exhaustively under a preemption bound), not proof. *)
From Coq Require Import Sorting.Permutation.
From AF Require Import Lib.Bytes Lib.Path Lib.Ops Gen.Consts Model.MemFile Model.MemFs.
Local Open Scope nat_scope.

(* ---------------------------------------------------------------- histories *)
(* one call of a history: who, what, invocation stamp, response stamp (None = the call has
   taken effect but has not returned yet: it precedes nothing), result *)
Record lcall (Op Res : Type) := mkCall {
  lc_tid : nat; lc_op : Op; lc_inv : nat; lc_resp : option nat; lc_res : Res }.
Arguments mkCall {Op Res}.
Arguments lc_tid {Op Res}.
Arguments lc_op {Op Res}.
Arguments lc_inv {Op Res}.
Arguments lc_resp {Op Res}.
Arguments lc_res {Op Res}.

(* a really precedes b: a returned before b was invoked *)
Definition lc_precedes {Op Res} (a b : lcall Op Res) : Prop :=
  match lc_resp a with Some r => r < lc_inv b | None => False end.
Definition lc_precedesb {Op Res} (a b : lcall Op Res) : bool :=
  match lc_resp a with Some r => r <? lc_inv b | None => false end.

(* an order respects real time when no call is placed before a call that really precedes it *)
Fixpoint respects_real_time {Op Res} (order : list (lcall Op Res)) : Prop :=
  match order with
  | [] => True
  | a :: r => (forall b, In b r -> ~ lc_precedes b a) /\ respects_real_time r
  end.
Fixpoint rt_okb {Op Res} (order : list (lcall Op Res)) : bool :=
  match order with
  | [] => true
  | a :: r => forallb (fun b => negb (lc_precedesb b a)) r && rt_okb r
  end.

Fixpoint lin_replay {St Op Res} (step : St -> Op -> St * Res) (s : St) (ops : list Op) : St * list Res :=
  match ops with
  | [] => (s, [])
  | o :: r => let '(s1, x) := step s o in let '(s2, xs) := lin_replay step s1 r in (s2, x :: xs)
  end.

(* the property: some order of ALL the calls respects real time and, run one call at a time
   from s0, gives every call its recorded result and ends in the recorded final state *)
Definition linearizable {St Op Res Obs} (step : St -> Op -> St * Res) (obs : St -> Obs)
    (s0 : St) (hist : list (lcall Op Res)) (final : Obs) : Prop :=
  exists order, Permutation order hist /\ respects_real_time order /\
    snd (lin_replay step s0 (map lc_op order)) = map lc_res order /\
    obs (fst (lin_replay step s0 (map lc_op order))) = final.

(* ---------------------------------------------------------------- checker (brute force) *)
Fixpoint lin_insert_all {A} (a : A) (l : list A) : list (list A) :=
  match l with
  | [] => [[a]]
  | x :: r => (a :: l) :: map (cons x) (lin_insert_all a r)
  end.
Fixpoint lin_perms {A} (l : list A) : list (list A) :=
  match l with
  | [] => [[]]
  | a :: r => flat_map (lin_insert_all a) (lin_perms r)
  end.
Fixpoint lin_list_eqb {A} (eqb : A -> A -> bool) (l1 l2 : list A) : bool :=
  match l1, l2 with
  | [], [] => true
  | a :: r1, b :: r2 => eqb a b && lin_list_eqb eqb r1 r2
  | _, _ => false
  end.

Definition lin_order_ok {St Op Res Obs} (step : St -> Op -> St * Res) (obs : St -> Obs)
    (res_eqb : Res -> Res -> bool) (obs_eqb : Obs -> Obs -> bool)
    (s0 : St) (final : Obs) (order : list (lcall Op Res)) : bool :=
  rt_okb order &&
  lin_list_eqb res_eqb (snd (lin_replay step s0 (map lc_op order))) (map lc_res order) &&
  obs_eqb (obs (fst (lin_replay step s0 (map lc_op order)))) final.

Definition lin_check {St Op Res Obs} (step : St -> Op -> St * Res) (obs : St -> Obs)
    (res_eqb : Res -> Res -> bool) (obs_eqb : Obs -> Obs -> bool)
    (s0 : St) (hist : list (lcall Op Res)) (final : Obs) : bool :=
  existsb (lin_order_ok step obs res_eqb obs_eqb s0 final) (lin_perms hist).

(* ---------------------------------------------------------------- the concurrent machine *)
(* A call runs as a sequence of sections.  [sec st o pc] runs ONE section atomically: it gives
   the new shared state and either the next program counter or the call's result. *)
Inductive lphase (Op Res PC : Type) :=
| LPIdle
| LPRun (o : Op) (inv : nat) (pc : PC)      (* invoked, next section at pc *)
| LPRet (o : Op) (inv : nat) (r : Res).     (* last section done, not yet returned *)
Arguments LPIdle {Op Res PC}.
Arguments LPRun {Op Res PC}.
Arguments LPRet {Op Res PC}.

Record lthread (Op Res PC : Type) := mkLT { lt_todo : list Op; lt_phase : lphase Op Res PC }.
Arguments mkLT {Op Res PC}.
Arguments lt_todo {Op Res PC}.
Arguments lt_phase {Op Res PC}.

Record lcfg (St Op Res PC : Type) := mkLC {
  lg_st : St;                         (* the shared state *)
  lg_clk : nat;                       (* global stamp counter: one tick per event *)
  lg_thr : list (lthread Op Res PC);
  lg_lin : list (lcall Op Res)        (* calls in the order of their LAST section *)
}.
Arguments mkLC {St Op Res PC}.
Arguments lg_st {St Op Res PC}.
Arguments lg_clk {St Op Res PC}.
Arguments lg_thr {St Op Res PC}.
Arguments lg_lin {St Op Res PC}.

Definition lin_set_resp {Op Res} (t clk : nat) (l : list (lcall Op Res)) : list (lcall Op Res) :=
  map (fun c => match lc_resp c with
                | None => if Nat.eqb (lc_tid c) t then mkCall (lc_tid c) (lc_op c) (lc_inv c) (Some clk) (lc_res c) else c
                | Some _ => c
                end) l.

Section Machine.
Context {St Op Res PC : Type}.
Variable sec : St -> Op -> PC -> St * (PC + Res).
Variable pc0 : PC.

(* one event of thread t: invoke its next call / run its next section / return *)
Definition lin_event (c : lcfg St Op Res PC) (t : nat) : lcfg St Op Res PC :=
  match nth_error (lg_thr c) t with
  | None => c
  | Some th =>
    match lt_phase th with
    | LPIdle =>
      match lt_todo th with
      | [] => c
      | o :: rest =>
        mkLC (lg_st c) (S (lg_clk c)) (list_set t (mkLT rest (LPRun o (lg_clk c) pc0)) (lg_thr c)) (lg_lin c)
      end
    | LPRun o inv pc =>
      match sec (lg_st c) o pc with
      | (s', inl pc') =>
        mkLC s' (S (lg_clk c)) (list_set t (mkLT (lt_todo th) (LPRun o inv pc')) (lg_thr c)) (lg_lin c)
      | (s', inr r) =>
        mkLC s' (S (lg_clk c)) (list_set t (mkLT (lt_todo th) (LPRet o inv r)) (lg_thr c))
             (lg_lin c ++ [mkCall t o inv None r])
      end
    | LPRet o inv r =>
      mkLC (lg_st c) (S (lg_clk c)) (list_set t (mkLT (lt_todo th) LPIdle) (lg_thr c))
           (lin_set_resp t (lg_clk c) (lg_lin c))
    end
  end.

Definition lin_start (s0 : St) (progs : list (list Op)) : lcfg St Op Res PC :=
  mkLC s0 0 (map (fun p => mkLT p LPIdle) progs) [].

(* a schedule is the list of thread numbers that move, in order: any interleaving *)
Definition lin_run (s0 : St) (progs : list (list Op)) (sched : list nat) : lcfg St Op Res PC :=
  fold_left lin_event sched (lin_start s0 progs).

Definition lin_quiescent (c : lcfg St Op Res PC) : bool :=
  forallb (fun th => match lt_phase th, lt_todo th with LPIdle, [] => true | _, _ => false end) (lg_thr c).
End Machine.

(* a call is ATOMIC in a section table when its first section is its only one and does what
   the sequential specification does *)
Definition lin_atomic_op {St Op Res PC} (step : St -> Op -> St * Res)
    (sec : St -> Op -> PC -> St * (PC + Res)) (pc0 : PC) (o : Op) : Prop :=
  forall s, sec s o pc0 = (fst (step s o), inr (snd (step s o))).

(* ---------------------------------------------------------------- the specification: MemMapFs *)
Definition lslots := list (nat * nat).          (* slot -> handle number of the filesystem *)
Fixpoint lslot_get (sl : lslots) (n : nat) : option nat :=
  match sl with
  | [] => None
  | (k, v) :: r => if Nat.eqb k n then Some v else lslot_get r n
  end.
Definition lstate := (mst * lslots)%type.
Definition lop := (option nat * op)%type.       (* slot that receives a returned handle, call *)
Definition lin_init : lstate := (m_init, []).

(* no result depends on clock values and canonical results print every "now" alike: all calls
   run at the same instant *)
Definition lin_now (m : mst) : mst := mkM (mdata m) (mheap m) (mhandles m) BIG.
(* what a caller sees of a result: not the number of a handle *)
Definition lin_proj (r : res) : res := match r with RHandle _ => RHandle 0 | _ => r end.

Definition lin_bind (sl : lslots) (slot : option nat) (r : res) : lslots :=
  match r, slot with
  | RHandle h, Some sn => (sn, h) :: sl
  | _, _ => sl
  end.

(* handle arguments of H-ops are SLOT numbers, as in Stack.run_item *)
Definition lin_step (st : lstate) (c : lop) : lstate * res :=
  let '(m, sl) := st in
  let '(slot, o) := c in
  match op_handle_of o with
  | Some sn =>
    match lslot_get sl sn with
    | None => (st, RNoSlot)
    | Some h => let '(m', r) := m_step (lin_now m) (op_set_handle o h) in ((m', sl), lin_proj r)
    end
  | None =>
    let '(m', r) := m_step (lin_now m) o in ((m', lin_bind sl slot r), lin_proj r)
  end.

Definition lin_obs (st : lstate) : list entry := snapshot (fst st).

(* ---------------------------------------------------------------- sections of memmap.go *)
Record seccfg := mkCfg {
  sc_open_split : bool;      (* OpenFile: lookup [R] ... then Create [W] as a separate call *)
  sc_open_setmode : bool;    (* OpenFile: trailing setFileMode (lookup by name) after creating *)
  sc_mkdir_setmode : bool;   (* Mkdir: trailing setFileMode after the write-locked section *)
  sc_rmall_split : bool;     (* RemoveAll: unregister [W], then one [W] section per key *)
  sc_chmod_split : bool;     (* Chmod: [R] lookup + read mode, setFileMode: [R] lookup, [W] set on THAT node *)
  sc_chtimes_split : bool;   (* Chtimes: [R] lookup, [W] set the time on THAT node *)
  sc_open_finish : bool;     (* OpenFile: the handle is finished AFTER the locked lookup/creation section:
                                O_APPEND seek and O_TRUNC truncate of THAT node, one file-mutex section each *)
  sc_rdnames_split : bool;   (* Readdirnames: [dir mutex] fix the list of entries, then read their CURRENT names *)
  sc_rename_parents_split : bool;  (* Rename: [old parent's mutex] the entry leaves its old directory, LATER [new parent's
                                      mutex] it enters the new one (a directory handle lists under the directory's
                                      mutex, not under mu: it can run between the two) *)
  sc_rename_kids_split : bool      (* Rename of a directory: every descendant is unregistered [its directory's mutex] and
                                      registered again [the same mutex, a second hold], one after the other *)
}.

Definition ln_cfg_today : seccfg :=
  mkCfg (Z.eqb lin_openfile_split 1) (Z.eqb lin_openfile_setmode 1) (Z.eqb lin_mkdir_setmode 1)
        (negb (Z.eqb lin_removeall_locks 1)) (negb (Z.eqb lin_chmod_locks 1)) (negb (Z.eqb lin_chtimes_locks 1))
        (Z.eqb lin_openfile_finish_outside 1) (Z.eqb lin_readdirnames_outside 1)
        (Z.eqb lin_rename_parents_apart 1) (Z.eqb lin_rename_children_apart 1).
(* OpenFile as the operations on HANDLES see it.  They take the file's mutex only, never mu, so
   the seek and the truncation of OpenFile are one step for them only when both happen under one
   hold of that mutex; otherwise they can run between the two although OpenFile holds mu all
   along.  (Over-approximation: with the switch on the machine lets every call run there.) *)
Definition ln_cfg_handles_today : seccfg :=
  let k := ln_cfg_today in
  mkCfg (sc_open_split k) (sc_open_setmode k) (sc_mkdir_setmode k) (sc_rmall_split k) (sc_chmod_split k)
        (sc_chtimes_split k) (sc_open_finish k || negb (Z.eqb lin_openfile_finish_one_hold 1))
        (sc_rdnames_split k) (sc_rename_parents_split k) (sc_rename_kids_split k).
Definition ln_cfg_atomic : seccfg := mkCfg false false false false false false false false false false.

Inductive lpc :=
| LnStart
| LnOpenCreate                                  (* OpenFile: the lookup found nothing; Create is next *)
| LnMkdirLocked                                 (* Mkdir: the unlocked pre-check found nothing *)
| LnRmAllLoop                                   (* RemoveAll: unregistered; deleting key by key *)
| LnSetMode (name : str) (mode : Z) (ok : res)  (* trailing setFileMode(name, mode) *)
| LnChmodLookup (name : str) (mode : Z)         (* Chmod: mode computed; setFileMode looks the name up *)
| LnSetNode (f : nat) (mode : Z)                (* setFileMode: write lock taken, set the mode of node f *)
| LnSetTime (f : nat) (t : Z)                   (* Chtimes: write lock taken, set the time of node f *)
| LnOpenSeek (f h : nat)                        (* OpenFile: handle h on node f exists, no lock held; O_APPEND seek next *)
| LnOpenTrunc (f h : nat)                       (* OpenFile: O_TRUNC truncate of node f through handle h next *)
| LnRdNames (refs : list nat) (e : option err)  (* Readdirnames: the entries are fixed; read their names *)
| LnRenMoved (f : nat)                          (* Rename: node f has left its old parent; everything else is to come *)
| LnRenKidOut (f : nat) (ds : list nat) (removes : list str)   (* Rename: descendants ds still carry their old names *)
| LnRenKidIn (f d : nat) (ds : list nat) (removes : list str). (* Rename: descendant d is out of its directory *)

Definition ln_ret (st : lstate) (slot : option nat) (r : res) : lstate * (lpc + res) :=
  ((fst st, lin_bind (snd st) slot r), inr (lin_proj r)).

Definition ln_atomic (st : lstate) (c : lop) : lstate * (lpc + res) :=
  (fst (lin_step st c), inr (snd (lin_step st c))).

(* MkdirAll = Mkdir with "exists" mapped to nil *)
Definition ln_mkres (o : op) (r : res) : res :=
  match o, r with
  | MkdirAll _ _, RErr e => if errk_eqb (ek e) KExist then ROk else r
  | _, _ => r
  end.

(* Mkdir [R]: the name exists -> EEXIST (exactly what the specification answers in this state);
   otherwise go on to the write-locked section *)
Definition ln_mkdir_start (st : lstate) (c : lop) (p : str) : lstate * (lpc + res) :=
  match lookup (fst st) (normalize_path p) with
  | Some _ => ln_atomic st c
  | None => (st, inl LnMkdirLocked)
  end.

(* Mkdir [W]: check again and create.  Without the trailing setFileMode this IS the
   specification's step; with it, the call goes on to look the name up once more. *)
Definition ln_mkdir_locked (k : seccfg) (st : lstate) (c : lop) (p : str) (perm : Z) : lstate * (lpc + res) :=
  if sc_mkdir_setmode k then
    let '(m1, r) := m_mkdir (lin_now (fst st)) p perm in
    match r with
    | ROk => ((m1, snd st), inl (LnSetMode p (Z.lor (Z.land perm chmod_bits) mode_dir) ROk))
    | _ => ((m1, snd st), inr (ln_mkres (snd c) r))
    end
  else ln_atomic st c.

(* ---- OpenFile whose handle is finished outside the locked section ([sc_open_finish]) ---- *)
Definition ln_trunc_wanted (flag : Z) : bool := flag_has flag o_trunc && flag_has flag (Z.lor o_rdwr o_wronly).
(* what the locked section sees of the flag word: everything but O_APPEND and O_TRUNC *)
Definition ln_open_flag1 (flag : Z) : Z := Z.land flag (Z.lnot (Z.lor o_append o_trunc)).

(* the next section of an OpenFile that holds handle h on node f; stage 0: nothing finished yet,
   1: the seek is done *)
Definition ln_open_next (flag : Z) (f h : nat) (stage : nat) : option lpc :=
  match stage with
  | O => if flag_has flag o_append then Some (LnOpenSeek f h)
         else if ln_trunc_wanted flag then Some (LnOpenTrunc f h) else None
  | _ => if ln_trunc_wanted flag then Some (LnOpenTrunc f h) else None
  end.

(* the locked section: lookup / creation (with its mode) and a handle at offset 0 on the file AS
   IT IS; whether the handle is read-only is decided on the whole flag word *)
Definition ln_open_locked (st : lstate) (c : lop) (p : str) (flag perm : Z) : lstate * (lpc + res) :=
  let m := lin_now (fst st) in
  let '(m2, r) := m_openfile m p (ln_open_flag1 flag) perm in
  match r with
  | RHandle h =>
    match nth_error (mhandles m2) h with
    | Some hd =>
      let m3 := set_handle m2 h (mkH (href hd) 0 0 false (Z.eqb (Z.land flag memfs_access_mask) 0)) in
      match ln_open_next flag (href hd) h 0 with
      | Some pc => ((m3, snd st), inl pc)
      | None => ((m3, lin_bind (snd st) (fst c) r), inr (lin_proj r))
      end
    | None => ((m2, snd st), inr RPanic)
    end
  | _ => ((m2, snd st), inr r)
  end.

(* ---- Readdirnames whose names are read after the directory's locked section ([sc_rdnames_split]) ----
   the locked part of File.Readdir: which entries are returned (the selection of [m_readdir]),
   as node references *)
Definition ln_rdn_list (s : mst) (i : nat) (count : Z) : mst * (list nat * option err + res) :=
  match nth_error (mhandles s) i with
  | None => (s, inr RNoSlot)
  | Some h =>
    match get_node s (href h) with
    | None => (s, inr RPanic)
    | Some n =>
      if negb (ndir n) then (s, inr (RErr (EW KNotADir)))
      else
        let all := dir_files s n in
        let rdc := if (zlen all <? hrdc h)%Z then zlen all else hrdc h in
        let files := skipn (Z.to_nat rdc) all in
        let len := zlen files in
        let out := if (0 <? count)%Z then (if (len <? count)%Z then len else count) else len in
        let e := if ((0 <? count) && (len =? 0))%Z then Some (E KEOF) else None in
        (set_handle s i (set_rdc h (rdc + out)%Z), inl (firstn (Z.to_nat out) files, e))
    end
  end.
(* FileInfo.Name() of every entry, now *)
Definition ln_rdn_names (s : mst) (refs : list nat) : list str :=
  map (fun r => match get_node s r with Some n => fi_name (finfo_of n) | None => [] end) refs.

(* ---- Rename whose directory changes are separate holds of the directories' mutexes ----
   NOTE.  The section machine has no lock: between two sections of one call it lets ANY call of
   another thread run.  All sections of a Rename lie inside ONE write-locked section of mu, so in
   the code only calls that do not take mu - the operations on handles - can run between them.
   The split shapes below are used for refutation witnesses in which nothing but listings
   through directory handles runs between Rename's sections (stated with the theorems); the
   general theorem needs both switches off.  With [sc_rename_kids_split] alone the entry's two
   parents are held across the children's steps in the code: what the machine shows of THEM
   between those steps is not a behaviour of the code, what it shows of the directories of the
   renamed subtree is. *)
(* the tail of m_rename once every descendant has its new name: the old keys go, the entry
   enters its new parent *)
Definition ln_ren_finish (s4 : mst) (f : nat) (old : str) (removes : list str) : mst :=
  let s5 := set_data s4 (fold_left (fun d key => alist_del key d) removes (mdata s4)) in
  let s6 := set_data s5 (alist_del old (mdata s5)) in
  reg s6 f 0.

(* m_rename after the entry has left its old parent: new name, new key, then the descendants *)
Definition ln_ren_moved (k : seccfg) (m : mst) (sl : lslots) (f : nat) (old new : str) : lstate * (lpc + res) :=
  let s2 := upd_node m f (with_name new) in
  let s3 := set_data s2 (alist_set new f (mdata s2)) in
  if sc_rename_kids_split k then ((s3, sl), inl (LnRenKidOut f (find_descendants s3 old) []))
  else
    match rename_descs old new s3 (find_descendants s3 old) [] with
    | None => ((s3, sl), inr RPanic)
    | Some (s4, false, _) => ((s4, sl), inr (RErr (E KNotExist)))
    | Some (s4, true, removes) => ((ln_ren_finish s4 f old removes, sl), inr ROk)
    end.

Definition ln_sec (k : seccfg) (st : lstate) (c : lop) (pc : lpc) : lstate * (lpc + res) :=
  let m := lin_now (fst st) in
  let sl := snd st in
  match pc, snd c with
  (* OpenFile: [R] lookup; with O_CREATE and nothing found: Create [W] (which truncates a file
     that appeared meanwhile), then the handle is prepared as for an existing file (in this older
     shape the preparation is kept inside the Create section whatever [sc_open_finish] says) *)
  | LnStart, OpenFile p flag perm =>
    if sc_open_split k then
      match lookup m (normalize_path p) with
      | Some _ => ln_atomic st c
      | None => if flag_has flag o_create then (st, inl LnOpenCreate) else (st, inr (RErr (EW KNotExist)))
      end
    else if sc_open_finish k then ln_open_locked st c p flag perm
    else ln_atomic st c
  | LnOpenCreate, OpenFile p flag perm =>
    let '(m1, _) := m_create m p in
    let '(m2, r) := m_openfile m1 p (Z.land flag (Z.lnot o_excl)) perm in
    match r with
    | RHandle h =>
      if sc_open_setmode k then ((m2, sl), inl (LnSetMode p (Z.land perm chmod_bits) r))
      else let '(m3, r3) := set_file_mode m2 p (Z.land perm chmod_bits) in
           match r3 with ROk => ln_ret (m3, sl) (fst c) r | _ => ((m3, sl), inr r3) end
    | _ => ((m2, sl), inr r)
    end
  (* Mkdir: [R] check, [W] check again + create, then setFileMode looks the name up again *)
  | LnStart, Mkdir p perm => ln_mkdir_start st c p
  | LnStart, MkdirAll p perm => ln_mkdir_start st c p
  | LnMkdirLocked, Mkdir p perm => ln_mkdir_locked k st c p perm
  | LnMkdirLocked, MkdirAll p perm => ln_mkdir_locked k st c p perm
  (* RemoveAll: [W] unregister from the parent, then one [W] section per key at or below *)
  | LnStart, RemoveAll p =>
    if sc_rmall_split k then
      match unregister m (normalize_path p) with
      | None => (st, inr RPanic)
      | Some (m1, _) => ((m1, sl), inl LnRmAllLoop)
      end
    else ln_atomic st c
  | LnRmAllLoop, RemoveAll p =>
    match find (fun kv => under (normalize_path p) (fst kv)) (mdata m) with
    | None => (st, inr ROk)
    | Some (key, _) => ((set_data m (alist_del key (mdata m)), sl), inl LnRmAllLoop)
    end
  | LnSetMode name mode ok, _ =>
    let '(m1, r) := set_file_mode m name mode in
    match r with ROk => ln_ret (m1, sl) (fst c) ok | _ => ((m1, sl), inr r) end
  (* Chmod: the node found under the read lock is the one whose mode is set under the write
     lock, wherever it is by then; Chtimes likewise *)
  | LnStart, Chmod p mode0 =>
    if sc_chmod_split k then
      match lookup m (normalize_path p) with
      | None => (st, inr (RErr (EW KNotExist)))
      | Some f =>
        let prev := match get_node m f with Some n => Z.land (nmode n) (Z.lnot chmod_bits) | None => 0%Z end in
        (st, inl (LnChmodLookup p (Z.lor prev (Z.land mode0 chmod_bits))))
      end
    else ln_atomic st c
  | LnChmodLookup name mode, _ =>
    match lookup m (normalize_path name) with
    | None => (st, inr (RErr (EW KNotExist)))
    | Some f => (st, inl (LnSetNode f mode))
    end
  | LnSetNode f mode, _ => ((upd_node m f (with_mode mode), sl), inr ROk)
  | LnStart, Chtimes p t =>
    if sc_chtimes_split k then
      match lookup m (normalize_path p) with
      | None => (st, inr (RErr (EW KNotExist)))
      | Some f => (st, inl (LnSetTime f t))
      end
    else ln_atomic st c
  | LnSetTime f t, _ => ((upd_node m f (with_mtime t), sl), inr ROk)
  (* OpenFile finishing its handle outside the locked section: the seek reads the length the file
     has NOW, the truncate empties THAT node and stamps it, whatever happened to the name since *)
  | LnOpenSeek f h, OpenFile p flag perm =>
    let len := match get_node m f with Some n => zlen (ndata n) | None => 0%Z end in
    let m1 := match nth_error (mhandles m) h with Some hd => set_handle m h (set_at hd len) | None => m end in
    match ln_open_next flag f h 1 with
    | Some pc' => ((m1, sl), inl pc')
    | None => ln_ret (m1, sl) (fst c) (RHandle h)
    end
  | LnOpenTrunc f h, OpenFile p flag perm =>
    match nth_error (mhandles m) h with
    | Some hd =>
      if hro hd then ((m, sl), inr (RErr (EW KReadOnlyHandle)))
      else ln_ret (upd_node m f (fun n => with_mtime (mclock m) (with_data [] n)), sl) (fst c) (RHandle h)
    | None => ((m, sl), inr RPanic)
    end
  (* Readdirnames: [dir mutex] which entries; then FileInfo.Name() of each, as it is by then *)
  | LnStart, HReaddirnames sn count =>
    if sc_rdnames_split k then
      match lslot_get sl sn with
      | None => (st, inr RNoSlot)
      | Some h =>
        match ln_rdn_list m h count with
        | (m1, inl (refs, e)) => ((m1, sl), inl (LnRdNames refs e))
        | (m1, inr r) => ((m1, sl), inr r)
        end
      end
    else ln_atomic st c
  | LnRdNames refs e, _ => (st, inr (RNames (ln_rdn_names m refs) e))
  (* Rename, the pieces of m_rename in its own order: [old parent] the entry leaves; new name and
     key; per descendant [its directory] out, [its directory] in under the new name; the old keys
     go and [new parent] the entry enters *)
  | LnStart, Rename p q =>
    if sc_rename_parents_split k || sc_rename_kids_split k then
      let old := normalize_path p in
      let new := normalize_path q in
      match lookup m old with
      | None => (st, inr (RErr (EW KNotExist)))
      | Some f =>
        if beqb old new then (st, inr ROk) else
        if below_file m new then (st, inr (RErr (EW KENOTDIR))) else
        match unregister m old with
        | None => (st, inr RPanic)
        | Some (s1, false) => ((s1, sl), inr (RErr (E KNotExist)))
        | Some (s1, true) =>
          if sc_rename_parents_split k then ((s1, sl), inl (LnRenMoved f))
          else ln_ren_moved k s1 sl f old new
        end
      end
    else ln_atomic st c
  | LnRenMoved f, Rename p q => ln_ren_moved k m sl f (normalize_path p) (normalize_path q)
  | LnRenKidOut f ds removes, Rename p q =>
    match ds with
    | [] => ((ln_ren_finish m f (normalize_path p) removes, sl), inr ROk)
    | d :: r =>
      match unregister m (node_name m d) with
      | None => (st, inr RPanic)
      | Some (s1, false) => ((s1, sl), inr (RErr (E KNotExist)))
      | Some (s1, true) => ((s1, sl), inl (LnRenKidIn f d r removes))
      end
    end
  | LnRenKidIn f d r removes, Rename p q =>
    let dname := node_name m d in
    let newname := str_replace1 dname (normalize_path p) (normalize_path q) in
    let s2 := upd_node m d (with_name newname) in
    let s3 := set_data s2 (alist_set newname d (mdata s2)) in
    ((reg s3 d 0, sl), inl (LnRenKidOut f r (removes ++ [dname])))
  (* every other method: one critical section *)
  | LnStart, _ => ln_atomic st c
  | _, _ => (st, inr RPanic)
  end.

(* the calls that the section table runs as (an unlocked pre-check that changes nothing, then)
   ONE section that is the specification's step *)
Definition ln_lin_ok (k : seccfg) (o : op) : bool :=
  match o with
  | OpenFile _ _ _ => negb (sc_open_split k) && negb (sc_open_finish k)
  | HReaddirnames _ _ => negb (sc_rdnames_split k)
  | Mkdir _ _ | MkdirAll _ _ => negb (sc_mkdir_setmode k)
  | RemoveAll _ => negb (sc_rmall_split k)
  | Chmod _ _ => negb (sc_chmod_split k)
  | Chtimes _ _ => negb (sc_chtimes_split k)
  | Rename _ _ => negb (sc_rename_parents_split k) && negb (sc_rename_kids_split k)
  | _ => true
  end.

(* histories of the section machine over the real specification state *)
Definition ln_run (k : seccfg) (s0 : lstate) (progs : list (list lop)) (sched : list nat)
  : lcfg lstate lop res lpc := lin_run (ln_sec k) LnStart s0 progs sched.

(* "hist with final state fin is produced by the section machine": some programs and some
   complete schedule give exactly these calls and this final tree *)
Definition produced_by_sections (k : seccfg) (s0 : lstate) (hist : list (lcall lop res)) (fin : list entry) : Prop :=
  exists progs sched,
    lin_quiescent (ln_run k s0 progs sched) = true /\
    hist = lg_lin (ln_run k s0 progs sched) /\
    fin = lin_obs (lg_st (ln_run k s0 progs sched)).
