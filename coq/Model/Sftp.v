(* Model/Sftp.v — C19: sftpfs (sftpfs/sftp.go, sftpfs/file.go) over the pkg/sftp client over an
   SFTP server.

   Three layers, top to bottom:
   (3) sftpfs.Fs / sftpfs.File — TRANSCRIBED method by method from /repo/sftpfs (this is the code
       the property is about): fs_* and sff_* below.  Quirks kept: File.WriteAt returns (0, nil)
       without sending anything, RemoveAll is a no-op, Fs.OpenFile builds a File without the
       client (Readdir on it dereferences nil: RPanic), MkdirAll's fast path returns the nil
       error of Stat when the path is a regular file, Mkdir = client.Mkdir then client.Chmod.
   (2) *sftp.Client / *sftp.File of github.com/pkg/sftp v1.13.8 — TRUSTED, modelled from its
       documented behaviour (client.go): sequential offset kept on the client side, Read/Write =
       ReadAt/WriteAt at that offset, short read <=> io.EOF, a write larger than the maximal
       packet (32768) is split into consecutive packets, Seek(SeekEnd) asks the server for the
       size, Truncate/Stat/Chmod on a handle are FSETSTAT/FSTAT requests, Remove falls back to
       RMDIR on SSH_FX_FAILURE, errors arrive as status codes (only EOF / no-such-file /
       permission survive as identities, everything else is SSH_FX_FAILURE = KOther here).
   (1) the server: pkg/sftp's in-memory request server (request-example.go, request-server.go) —
       TRUSTED, it is the "conforming SFTP server" the harness has.  A map from cleaned absolute
       path to directory | file object; file objects are separate (handles keep the object when
       the name goes away).  Paths are kept as their list of segments (pkey): "/a/b" = [a; b],
       "/" = []; this is the cleaned path of cleanPathWithBase("/", p).  Server behaviours kept
       because the harness can see them: FSTAT/FSETSTAT resolve the handle's PATH again (so they
       follow the name, not the object), SETSTAT on a directory fails, a zero-length write
       beyond EOF zero-extends, write packets on a read-only handle are answered EOF/garbage
       (= an error on the client), SSH_FXF_APPEND is ignored.
       NOT modelled (never exercised by the harness, the model answers with a plain failure):
       a READ packet on a write-only handle (the request server WRITES zeros — a pkg/sftp bug),
       Truncate to a negative size (the in-memory server panics), renaming "/" or a directory
       into its own subtree (the in-memory server corrupts its map), symlinks/hard links
       (sftpfs has no method that creates them). *)
From AF Require Import Lib.Bytes Lib.Path Lib.Ops Gen.Consts.
Local Open Scope Z_scope.

(* ------------------------------------------------------------------ keys = cleaned paths *)
Definition pkey := list str.

Fixpoint keqb (a b : pkey) : bool :=
  match a, b with
  | [], [] => true
  | x :: a', y :: b' => beqb x y && keqb a' b'
  | _, _ => false
  end.

Fixpoint kget {A} (k : pkey) (l : list (pkey * A)) : option A :=
  match l with
  | [] => None
  | (k', v) :: r => if keqb k k' then Some v else kget k r
  end.
Fixpoint kdel {A} (k : pkey) (l : list (pkey * A)) : list (pkey * A) :=
  match l with
  | [] => []
  | (k', v) :: r => if keqb k k' then kdel k r else (k', v) :: kdel k r
  end.
(* Go map assignment *)
Fixpoint kset {A} (k : pkey) (v : A) (l : list (pkey * A)) : list (pkey * A) :=
  match l with
  | [] => [(k, v)]
  | (k', v') :: r => if keqb k k' then (k, v) :: r else (k', v') :: kset k v r
  end.
(* Some rest when k = p ++ rest *)
Fixpoint kstrip (p k : pkey) : option pkey :=
  match p, k with
  | [], _ => Some k
  | x :: p', y :: k' => if beqb x y then kstrip p' k' else None
  | _ :: _, [] => None
  end.

(* cleanPathWithBase("/", p): Clean, made absolute, ".." at the root stays at the root *)
Definition skey (p : str) : pkey := norm_aux true (split_slash p) [].
Definition kpath (k : pkey) : str := SLASH :: join_slash k.

(* ------------------------------------------------------------------ (1) the server *)
Inductive snode := SfDir | SfFile (id : nat).
Record server := mkSfSrv { sv_tree : list (pkey * snode); sv_objs : list bytes }.

Definition eNotExist := E KNotExist.
Definition eFail := E KOther.          (* SSH_FX_FAILURE with some message *)
Definition eEOF := E KEOF.
Definition eClosed := E KClosed.       (* os.ErrClosed, client side *)
Definition eInvalid := E KInvalid.     (* os.ErrInvalid, client side *)

Inductive srv_res (A : Type) := SfOk (a : A) | SfErr (e : err).
Arguments SfOk {A} a. Arguments SfErr {A} e.

Definition obj_content (objs : list bytes) (id : nat) : bytes := nth id objs [].

(* root.lfetch (= fetch: there are no symlinks) *)
Definition lfetch (t : list (pkey * snode)) (k : pkey) : option snode :=
  match k with [] => Some SfDir | _ => kget k t end.

(* root.canonName: the parent must exist and be a directory (the name itself is unchanged
   because there are no symlinks) *)
Definition canon_err (t : list (pkey * snode)) (k : pkey) : option err :=
  match lfetch t (removelast k) with
  | None => Some eNotExist
  | Some (SfFile _) => Some eFail          (* ENOTDIR *)
  | Some SfDir => None
  end.

(* root.putfile *)
Definition putfile (t : list (pkey * snode)) (k : pkey) (n : snode) : srv_res (list (pkey * snode)) :=
  match canon_err t k with
  | Some e => SfErr e
  | None => match lfetch t k with
            | Some _ => SfErr eFail        (* os.ErrExist *)
            | None => SfOk (kset k n t)
            end
  end.

(* memFile.Truncate *)
Definition srv_truncate (c : bytes) (size : Z) : bytes :=
  let grow := size - zlen c in
  if grow <=? 0 then firstn (Z.to_nat size) c else c ++ zeros (Z.to_nat grow).

(* memFile.WriteAt, off >= 0 *)
Definition srv_writeat (c : bytes) (off : Z) (b : bytes) : bytes :=
  let grow := zlen b + off - zlen c in
  let c1 := if 0 <? grow then c ++ zeros (Z.to_nat grow) else c in
  firstn (Z.to_nat off) c1 ++ copy_into (skipn (Z.to_nat off) c1) b.

(* memFile.ReadAt into a buffer of n > 0 bytes at off >= 0: the bytes copied *)
Definition srv_readat (c : bytes) (off n : Z) : bytes :=
  firstn (Z.to_nat n) (skipn (Z.to_nat off) c).

(* root.openfile *)
Definition srv_openfile (s : server) (k : pkey) (creat excl trunc : bool) : srv_res (server * nat) :=
  match lfetch (sv_tree s) k with
  | None =>
      if creat then
        match putfile (sv_tree s) k (SfFile (length (sv_objs s))) with
        | SfErr e => SfErr e
        | SfOk t' => SfOk (mkSfSrv t' (sv_objs s ++ [[]]), length (sv_objs s))
        end
      else SfErr eNotExist
  | Some n =>
      if creat && excl then SfErr eFail    (* os.ErrExist *)
      else match n with
           | SfDir => SfErr eFail           (* os.ErrInvalid *)
           | SfFile id =>
               SfOk (if trunc then mkSfSrv (sv_tree s) (list_set id (srv_truncate (obj_content (sv_objs s) id) 0) (sv_objs s))
                    else s, id)
           end
  end.

(* Filecmd "Setstat" (also reached by FSETSTAT, through the PATH of the handle) *)
Definition srv_setstat (s : server) (k : pkey) (size : option Z) : srv_res server :=
  match srv_openfile s k false false false with
  | SfErr e => SfErr e
  | SfOk (s1, id) =>
      match size with
      | None => SfOk s1
      | Some n => if n <? 0 then SfErr eFail   (* not modelled: the in-memory server panics *)
                  else SfOk (mkSfSrv (sv_tree s1) (list_set id (srv_truncate (obj_content (sv_objs s1) id) n) (sv_objs s1)))
      end
  end.

Definition srv_mkdir (s : server) (k : pkey) : srv_res server :=
  match putfile (sv_tree s) k SfDir with
  | SfErr e => SfErr e
  | SfOk t' => SfOk (mkSfSrv t' (sv_objs s))
  end.

Definition has_child (t : list (pkey * snode)) (k : pkey) : bool :=
  existsb (fun '(k', _) => keqb (removelast k') k) t.

(* root.rmdir *)
Definition srv_rmdir (s : server) (k : pkey) : srv_res server :=
  match lfetch (sv_tree s) k with
  | None => SfErr eNotExist
  | Some (SfFile _) => SfErr eFail          (* ENOTDIR *)
  | Some SfDir => if has_child (sv_tree s) k then SfErr eFail
                 else SfOk (mkSfSrv (kdel k (sv_tree s)) (sv_objs s))
  end.

(* root.exists *)
Definition srv_exists (t : list (pkey * snode)) (k : pkey) : bool :=
  match canon_err t k with
  | Some _ => false
  | None => match lfetch t k with Some _ => true | None => false end
  end.

Definition rename_key (p t k : pkey) : pkey :=
  match kstrip p k with Some rest => t ++ rest | None => k end.

(* Filecmd "Rename" + root.rename *)
Definition srv_rename (s : server) (p t : pkey) : srv_res server :=
  if srv_exists (sv_tree s) t then SfErr eFail             (* os.ErrExist *)
  else match lfetch (sv_tree s) p with
       | None => SfErr eNotExist
       | Some _ =>
         match p with
         | [] => SfErr eFail                               (* not modelled: renaming "/" *)
         | _ =>
           match canon_err (sv_tree s) t with
           | Some e => SfErr e
           | None =>
             match kstrip p t with
             | Some _ => SfErr eFail                       (* not modelled: into its own subtree *)
             | None => SfOk (mkSfSrv (map (fun '(k, v) => (rename_key p t k, v)) (sv_tree s)) (sv_objs s))
             end
           end
         end
       end.

(* Filelist "Stat" / Lstat: (is directory, size) *)
Definition srv_stat (s : server) (k : pkey) : option (bool * Z) :=
  match lfetch (sv_tree s) k with
  | None => None
  | Some SfDir => Some (true, 0)
  | Some (SfFile id) => Some (false, zlen (obj_content (sv_objs s) id))
  end.

Definition info_of (name : str) (d : bool) (size : Z) : finfo :=
  mkFi name d size (if d then 493 else 420) 0.

Definition finfo_lt (a b : finfo) : bool := bltb (fi_name a) (fi_name b).

(* root.readdir *)
Definition srv_readdir (s : server) (k : pkey) : srv_res (list finfo) :=
  match lfetch (sv_tree s) k with
  | None => SfErr eNotExist
  | Some (SfFile _) => SfErr eFail          (* ENOTDIR *)
  | Some SfDir =>
      SfOk (sort_by finfo_lt
             (flat_map (fun '(k', v) =>
                match k' with
                | [] => []
                | _ => if keqb (removelast k') k then
                         [match v with
                          | SfDir => info_of (last k' []) true 0
                          | SfFile id => info_of (last k' []) false (zlen (obj_content (sv_objs s) id))
                          end]
                       else []
                end) (sv_tree s)))
  end.

(* ------------------------------------------------------------------ (2) the pkg/sftp client *)
Definition max_packet : nat := 32768.

Inductive fmode := SfRW | SfRO | SfWO.
(* *sftp.File plus what the server keeps for its handle (path, object, kind of handle), plus
   whether the sftpfs.File around it carries the client *)
Record sfile := mkSfFile { sf_name : str; sf_key : pkey; sf_obj : nat; sf_mode : fmode;
                       sf_off : Z; sf_closed : bool; sf_client : bool }.

Definition sf_set_off (f : sfile) (o : Z) : sfile :=
  mkSfFile (sf_name f) (sf_key f) (sf_obj f) (sf_mode f) o (sf_closed f) (sf_client f).
Definition sf_set_closed (f : sfile) : sfile :=
  mkSfFile (sf_name f) (sf_key f) (sf_obj f) (sf_mode f) (sf_off f) true (sf_client f).

Definition has_flag (f bit : Z) : bool := negb (Z.land f bit =? 0).

(* Client.open = toPflags + Request.open on the server *)
Definition c_open (s : server) (name : str) (flag : Z) (client : bool) : srv_res (server * sfile) :=
  let acc := Z.land flag 3 in
  let rd := (acc =? o_rdonly) || (acc =? o_rdwr) in
  let wr := (acc =? o_wronly) || (acc =? o_rdwr) in
  let app := has_flag flag o_append in
  let creat := has_flag flag o_create in
  let trunc := has_flag flag o_trunc in
  let excl := has_flag flag o_excl in
  let k := skey name in
  let go (m : fmode) :=
    match srv_openfile s k creat excl trunc with
    | SfErr e => SfErr e
    | SfOk (s', id) => SfOk (s', mkSfFile name k id m 0 false client)
    end in
  if wr || app || creat || trunc then
    (if rd then go SfRW else if wr then go SfWO else SfErr eFail)
  else if rd then go SfRO
  else SfErr eFail.                        (* "bad file flags" *)

(* File.Read / File.ReadAt with a buffer of n bytes: bytes delivered, error *)
Definition c_readat (c : bytes) (f : sfile) (n off : Z) : bytes * option err :=
  if sf_closed f then ([], Some eClosed)
  else if n <=? 0 then ([], None)
  else match sf_mode f with
       | SfWO => ([], Some eFail)          (* not modelled, see the header *)
       | _ => if off <? 0 then ([], Some eFail)
              else let b := srv_readat c off n in
                   (b, if zlen b <? n then Some eEOF else None)
       end.

(* File.writeAt (sequential, not concurrent: the default): consecutive packets *)
Fixpoint write_chunks (fuel : nat) (c : bytes) (off : Z) (b : bytes) : bytes :=
  match fuel with
  | O => c
  | S fu =>
      if (length b <=? max_packet)%nat then srv_writeat c off b
      else write_chunks fu (srv_writeat c off (firstn max_packet b))
                        (off + Z.of_nat max_packet) (skipn max_packet b)
  end.

(* File.Write at offset off: new obj_content (None = untouched), count, error *)
Definition c_writeat (c : bytes) (f : sfile) (b : bytes) (off : Z) : option bytes * Z * option err :=
  if sf_closed f then (None, 0, Some eClosed)
  else match sf_mode f with
       | SfRO => (None, 0, Some (if zlen c <=? off then eEOF else eFail))
       | _ => if off <? 0 then (None, 0, Some eFail)
              else (Some (write_chunks (S (length b)) c off b), zlen b, None)
       end.

(* ------------------------------------------------------------------ (3) sftpfs *)
Record sftp_state := mkSfSt { sst_srv : server; sst_slots : list (option sfile) }.

Fixpoint sf_slot_set (i : nat) (f : sfile) (l : list (option sfile)) : list (option sfile) :=
  match i, l with
  | O, [] => [Some f]
  | O, _ :: r => Some f :: r
  | S j, [] => None :: sf_slot_set j f []
  | S j, x :: r => x :: sf_slot_set j f r
  end.
Definition sf_slot_get (l : list (option sfile)) (i : nat) : option sfile :=
  match nth_error l i with Some (Some f) => Some f | _ => None end.

Definition sf_bind (s : server) (slots : list (option sfile)) (slot : option nat) (f : sfile) : sftp_state :=
  mkSfSt s (match slot with Some i => sf_slot_set i f slots | None => slots end).

Definition sf_upd_obj (s : server) (id : nat) (c : option bytes) : server :=
  match c with Some c' => mkSfSrv (sv_tree s) (list_set id c' (sv_objs s)) | None => s end.

(* Fs.Stat / Fs.Lstat *)
Definition fs_stat (s : server) (name : str) : res :=
  match srv_stat s (skey name) with
  | None => RErr eNotExist
  | Some (d, size) => RInfo (info_of (path_base name) d size)
  end.

(* Fs.Chmod / Chown / Chtimes *)
Definition fs_setattr (s : server) (name : str) : res :=
  match srv_setstat s (skey name) None with SfErr e => RErr e | SfOk _ => ROk end.

(* Fs.Mkdir: client.Mkdir, then client.Chmod *)
Definition fs_mkdir (s : server) (name : str) : server * res :=
  match srv_mkdir s (skey name) with
  | SfErr e => (s, RErr e)
  | SfOk s1 => (s1, fs_setattr s1 name)
  end.

(* the prefix MkdirAll recurses on: path[0:j-1] when j > 1 *)
Fixpoint drop_slashes (r : str) : str :=
  match r with c :: r' => if N.eqb c SLASH then drop_slashes r' else r | [] => [] end.
Fixpoint drop_element (r : str) : str :=
  match r with c :: r' => if N.eqb c SLASH then r else drop_element r' | [] => [] end.
Definition parent_of (path : str) : option str :=
  match drop_element (drop_slashes (rev path)) with
  | _ :: (_ :: _) as t => Some (rev t)
  | _ => None
  end.

(* Fs.MkdirAll.  [fixed] = false is the code as it is; true is the proposed patch (the fast
   path returns ENOTDIR for a non-directory, as os.MkdirAll and sftp.Client.MkdirAll do). *)
Fixpoint fs_mkdirall (fixed : bool) (fuel : nat) (s : server) (path : str) : server * res :=
  match srv_stat s (skey path) with
  | Some (true, _) => (s, ROk)
  | Some (false, _) => (s, if fixed then RErr (EW KENOTDIR) else ROk)   (* fixed: &os.PathError{..ENOTDIR}; before: `return err` with err == nil *)
  | None =>
      let finish (s1 : server) :=
        match fs_mkdir s1 path with
        | (s2, RErr e) => match srv_stat s2 (skey path) with
                          | Some (true, _) => (s2, ROk)
                          | _ => (s2, RErr e)
                          end
        | (s2, _) => (s2, ROk)
        end in
      match parent_of path with
      | None => finish s
      | Some par =>
          match fuel with
          | O => (s, RErr eFail)
          | S fu => match fs_mkdirall fixed fu s par with
                    | (s1, ROk) => finish s1
                    | (s1, r) => (s1, r)
                    end
          end
      end
  end.

(* Fs.Remove = Client.Remove: SSH_FXP_REMOVE, on SSH_FX_FAILURE SSH_FXP_RMDIR *)
Definition fs_remove (s : server) (name : str) : server * res :=
  let k := skey name in
  match lfetch (sv_tree s) k with
  | None => (s, RErr eNotExist)
  | Some (SfFile _) => (mkSfSrv (kdel k (sv_tree s)) (sv_objs s), ROk)
  | Some SfDir => match srv_rmdir s k with SfErr e => (s, RErr e) | SfOk s' => (s', ROk) end
  end.

Definition fs_rename (s : server) (a b : str) : server * res :=
  match srv_rename s (skey a) (skey b) with SfErr e => (s, RErr e) | SfOk s' => (s', ROk) end.

(* File.Readdir *)
Definition sff_readdir (s : server) (f : sfile) (count : Z) : srv_res (list finfo) :=
  match srv_readdir s (skey (sf_name f)) with
  | SfErr e => SfErr e
  | SfOk l => SfOk (if (0 <? count) && (count <? zlen l) then firstn (Z.to_nat count) l else l)
  end.

(* Client.Create: os.O_RDWR|os.O_CREATE|os.O_TRUNC *)
Definition create_flags : Z := Z.lor o_rdwr (Z.lor o_create o_trunc).

Definition sftp_step (st : sftp_state) (it : option nat * op) : sftp_state * res :=
  let '(slot, o) := it in
  let s := sst_srv st in
  let slots := sst_slots st in
  let with_h (i : nat) (k : sfile -> sftp_state * res) : sftp_state * res :=
    match sf_slot_get slots i with Some f => k f | None => (st, RNoSlot) end in
  let seth (i : nat) (f : sfile) (s' : server) := mkSfSt s' (list_set i (Some f) slots) in
  match o with
  | Create p =>
      match c_open s p create_flags true with
      | SfErr e => (st, RErr e)
      | SfOk (s', f) => (sf_bind s' slots slot f, RHandle 0)
      end
  | Open p =>
      match c_open s p o_rdonly true with
      | SfErr e => (st, RErr e)
      | SfOk (s', f) => (sf_bind s' slots slot f, RHandle 0)
      end
  | OpenFile p flag perm =>
      match c_open s p flag (Z.eqb sftp_openfile_client 1) with
      | SfErr e => (st, RErr e)
      | SfOk (s', f) =>
          (* sshfsFile.Chmod(perm): FSETSTAT through the path of the new handle *)
          match srv_setstat s' (sf_key f) None with
          | SfErr e => (mkSfSt s' slots, RErr e)
          | SfOk s'' => (sf_bind s'' slots slot f, RHandle 0)
          end
      end
  | Mkdir p perm => let '(s', r) := fs_mkdir s p in (mkSfSt s' slots, r)
  | MkdirAll p perm => let '(s', r) := fs_mkdirall (Z.eqb sftp_mkdirall_enotdir 1) (S (length p)) s p in (mkSfSt s' slots, r)
  | Remove p => let '(s', r) := fs_remove s p in (mkSfSt s' slots, r)
  | RemoveAll p => (st, ROk)
  | Rename p q => let '(s', r) := fs_rename s p q in (mkSfSt s' slots, r)
  | Stat p => (st, fs_stat s p)
  | Chmod p _ | Chown p _ _ | Chtimes p _ => (st, fs_setattr s p)
  | HRead i n => with_h i (fun f =>
      let '(b, e) := c_readat (obj_content (sv_objs s) (sf_obj f)) f n (sf_off f) in
      (seth i (sf_set_off f (sf_off f + zlen b)) s, RData b e))
  | HReadAt i n off => with_h i (fun f =>
      let '(b, e) := c_readat (obj_content (sv_objs s) (sf_obj f)) f n off in (st, RData b e))
  | HWrite i b | HWriteString i b => with_h i (fun f =>
      let '(c', n, e) := c_writeat (obj_content (sv_objs s) (sf_obj f)) f b (sf_off f) in
      (seth i (sf_set_off f (sf_off f + n)) (sf_upd_obj s (sf_obj f) c'), RCount n e))
  | HWriteAt i b off => with_h i (fun f => (st, RCount 0 None))      (* file.go: `return 0, nil` *)
  | HSeek i off wh => with_h i (fun f =>
      if sf_closed f then (st, RPos 0 (Some eClosed))
      else
        let target :=
          if wh =? 0 then SfOk off
          else if wh =? 1 then SfOk (off + sf_off f)
          else if wh =? 2 then
            match srv_stat s (sf_key f) with
            | None => SfErr eNotExist
            | Some (_, size) => SfOk (off + size)
            end
          else SfErr eFail in
        match target with
        | SfErr e => (st, RPos (sf_off f) (Some e))
        | SfOk t => if t <? 0 then (st, RPos (sf_off f) (Some eInvalid))
                   else (seth i (sf_set_off f t) s, RPos t None)
        end)
  | HTruncate i n => with_h i (fun f =>
      if sf_closed f then (st, RErr eClosed)
      else match srv_setstat s (sf_key f) (Some n) with
           | SfErr e => (st, RErr e)
           | SfOk s' => (mkSfSt s' slots, ROk)
           end)
  | HClose i => with_h i (fun f =>
      if sf_closed f then (st, RErr eClosed) else (seth i (sf_set_closed f) s, ROk))
  | HStat i => with_h i (fun f =>
      if sf_closed f then (st, RErr eClosed)
      else match srv_stat s (sf_key f) with
           | None => (st, RErr eNotExist)
           | Some (d, size) => (st, RInfo (info_of (path_base (sf_name f)) d size))
           end)
  | HName i => with_h i (fun f => (st, RName (sf_name f)))
  | HSync i => with_h i (fun f => (st, ROk))
  | HReaddir i n => with_h i (fun f =>
      if sf_client f then
        match sff_readdir s f n with
        | SfErr e => (st, RInfos [] (Some e))
        | SfOk l => (st, RInfos l None)
        end
      else (st, RPanic))
  | HReaddirnames i n => with_h i (fun f =>
      if sf_client f then
        match sff_readdir s f n with
        | SfErr e => (st, RNames [] (Some e))
        | SfOk l => (st, RNames (map fi_name l) None)
        end
      else (st, RPanic))
  end.

Definition sitem := (option nat * op)%type.

Definition sftp_init : sftp_state := mkSfSt (mkSfSrv [] []) [].

(* what an independent observer of the server sees: every path with its kind and obj_content *)
Definition sftp_snap_lt (a b : str * option bytes) : bool := bltb (fst a) (fst b).
Definition sftp_snapshot (s : server) : list (str * option bytes) :=
  sort_by sftp_snap_lt
    (map (fun '(k, v) => (kpath k, match v with SfDir => None | SfFile id => Some (obj_content (sv_objs s) id) end))
         (sv_tree s)).

(* sftp_run, keeping after every sftp_step the result and the observer's view *)
Fixpoint sftp_run_obs (st : sftp_state) (items : list sitem) : list (res * list (str * option bytes)) :=
  match items with
  | [] => []
  | it :: r => let '(st1, x) := sftp_step st it in (x, sftp_snapshot (sst_srv st1)) :: sftp_run_obs st1 r
  end.

Fixpoint sftp_run (st : sftp_state) (items : list sitem) : sftp_state * list res :=
  match items with
  | [] => (st, [])
  | it :: r => let '(st1, x) := sftp_step st it in let '(st2, xs) := sftp_run st1 r in (st2, x :: xs)
  end.
