(* Model/Glob.v — C16, Glob half.
   [match_seg]   : transcription of path/filepath.Match (Unix: scanChunk, matchChunk, getEsc) of the
                   installed Go 1.23.  Shared by both Globs (afero calls filepath.Match).  Strings are
                   sequences of code points < 128, so a rune is one element.
   [afero_glob]  : transcription of /repo/match.go  Glob / glob / hasMeta, for either value of the two
                   behaviour switches the translator reads from match.go (Gen/Consts.v
                   glob_hasmeta_backslash, glob_checks_pattern_first): [afero_glob_gen bs chk];
                   [afero_glob] is the code as it is in /repo NOW, [afero_glob_pinned] the pinned tree
   [std_glob]    : independent transcription of path/filepath  Glob / globWithLimit / cleanGlobPath /
                   glob / hasMeta (pattern pre-check Match(pattern, ""), backslash is a meta character,
                   "dir == pattern" guard, depth limit 10000).
   Both look paths up in the same [tree] (Model/Walk.v [tree_lookup]); I/O errors do not exist in a
   static tree (both implementations ignore them anyway). *)
From AF Require Import Lib.Bytes Lib.Path Gen.Consts Model.Walk.

Definition STAR : N := 42.
Definition QUEST : N := 63.
Definition LBRACK : N := 91.
Definition RBRACK : N := 93.
Definition BSLASH : N := 92.
Definition CARET : N := 94.
Definition DASH : N := 45.

(* ======================= filepath.Match ======================= *)

(* func getEsc(chunk) (r rune, nchunk string, err error) ; None = ErrBadPattern *)
Definition get_esc (chunk : str) : option (N * str) :=
  match chunk with
  | [] => None
  | c :: rest =>
    if N.eqb c DASH || N.eqb c RBRACK then None else
    let chunk1 := if N.eqb c BSLASH then rest else chunk in
    match chunk1 with
    | [] => None
    | r :: nchunk => match nchunk with [] => None | _ => Some (r, nchunk) end
    end
  end.

(* the `for { ... }` that parses all ranges of a class; returns (match, rest of chunk) *)
Fixpoint class_loop (fuel : nat) (chunk : str) (r : N) (nrange : nat) (matched : bool)
  : option (bool * str) :=
  match fuel with
  | O => None
  | S f =>
    let closing := match chunk with
                   | c :: _ => N.eqb c RBRACK && negb (Nat.eqb nrange 0)
                   | [] => false
                   end in
    if closing then Some (matched, tl chunk) else
    match get_esc chunk with
    | None => None
    | Some (lo, chunk1) =>
      let hi_res := match chunk1 with
                    | c :: rest1 => if N.eqb c DASH then get_esc rest1 else Some (lo, chunk1)
                    | [] => Some (lo, chunk1)
                    end in
      match hi_res with
      | None => None
      | Some (hi, chunk2) =>
        class_loop f chunk2 r (S nrange) (matched || (N.leb lo r && N.leb r hi))
      end
    end
  end.

(* func matchChunk(chunk, s) (rest string, ok bool, err error)
   None = ErrBadPattern ; Some None = no match ; Some (Some rest) = ok *)
Fixpoint match_chunk_f (fuel : nat) (chunk s : str) (failed : bool) : option (option str) :=
  match chunk with
  | [] => Some (if failed then None else Some s)
  | c :: chunk1 =>
    match fuel with
    | O => None
    | S f =>
      let failed := failed || is_empty s in
      if N.eqb c LBRACK then
        let r := if failed then 0%N else hd 0%N s in
        let s1 := if failed then s else tl s in
        let negated := match chunk1 with c2 :: _ => N.eqb c2 CARET | [] => false end in
        let chunk2 := if negated then tl chunk1 else chunk1 in
        match class_loop (S (length chunk2)) chunk2 r 0 false with
        | None => None
        | Some (m, chunk3) => match_chunk_f f chunk3 s1 (failed || Bool.eqb m negated)
        end
      else if N.eqb c QUEST then
        let failed' := failed || N.eqb (hd 0%N s) SLASH in
        let s1 := if failed then s else tl s in
        match_chunk_f f chunk1 s1 failed'
      else if N.eqb c BSLASH then
        match chunk1 with
        | [] => None
        | c2 :: chunk2 =>
          let failed' := failed || negb (N.eqb c2 (hd 0%N s)) in
          let s1 := if failed then s else tl s in
          match_chunk_f f chunk2 s1 failed'
        end
      else
        let failed' := failed || negb (N.eqb c (hd 0%N s)) in
        let s1 := if failed then s else tl s in
        match_chunk_f f chunk1 s1 failed'
    end
  end.
Definition match_chunk (chunk s : str) : option (option str) :=
  match_chunk_f (length chunk) chunk s false.

(* func scanChunk(pattern) (star bool, chunk, rest string) *)
Fixpoint strip_stars (p : str) : bool * str :=
  match p with
  | c :: p' => if N.eqb c STAR then (true, snd (strip_stars p')) else (false, p)
  | [] => (false, [])
  end.
Fixpoint scan_aux (p : str) (inrange : bool) : str * str :=
  match p with
  | [] => ([], [])
  | c :: p' =>
    if N.eqb c BSLASH then
      match p' with
      | [] => ([c], [])
      | c2 :: p'' => let '(a, b) := scan_aux p'' inrange in (c :: c2 :: a, b)
      end
    else if N.eqb c LBRACK then let '(a, b) := scan_aux p' true in (c :: a, b)
    else if N.eqb c RBRACK then let '(a, b) := scan_aux p' false in (c :: a, b)
    else if N.eqb c STAR then
      if inrange then let '(a, b) := scan_aux p' inrange in (c :: a, b) else ([], p)
    else let '(a, b) := scan_aux p' inrange in (c :: a, b)
  end.
Definition scan_chunk (pattern : str) : bool * str * str :=
  let '(star, p) := strip_stars pattern in
  let '(chunk, rest) := scan_aux p false in (star, chunk, rest).

(* the `for i := 0; i < len(name) && name[i] != Separator; i++` of Match:
   None = error ; Some None = ran out ; Some (Some t) = `name = t; continue Pattern` *)
Fixpoint star_loop (chunk : str) (last : bool) (name : str) : option (option str) :=
  match name with
  | [] => Some None
  | c :: name' =>
    if N.eqb c SLASH then Some None else
    match match_chunk chunk name' with
    | None => None
    | Some (Some t) => if last && negb (is_empty t) then star_loop chunk last name' else Some (Some t)
    | Some None => star_loop chunk last name'
    end
  end.

(* func Match(pattern, name) (matched bool, err error) ; None = ErrBadPattern *)
Fixpoint match_f (fuel : nat) (pattern name : str) : option bool :=
  match pattern with
  | [] => Some (is_empty name)
  | _ =>
    match fuel with
    | O => None
    | S f =>
      let '(star, chunk, rest) := scan_chunk pattern in
      if star && is_empty chunk then Some (negb (existsb (N.eqb SLASH) name)) else
      let after_first :=
        if star then
          match star_loop chunk (is_empty rest) name with
          | None => None
          | Some None => Some false
          | Some (Some t) => match_f f rest t
          end
        else Some false in
      match match_chunk chunk name with
      | Some (Some t) => if is_empty t || negb (is_empty rest) then match_f f rest t else after_first
      | None => None
      | Some None => after_first
      end
    end
  end.
Definition match_seg (pattern name : str) : option bool :=
  match_f (S (length pattern)) pattern name.

(* ======================= shared pieces ======================= *)

Inductive glob_err := GNil | GBadPattern | GOutOfFuel.
Definition glob_res := (list str * glob_err)%type.

(* sort.Strings / slices.Sort of the names of a directory *)
Fixpoint insert_name (x : str) (l : list str) : list str :=
  match l with
  | [] => [x]
  | y :: r => if bltb x y then x :: l else y :: insert_name x r
  end.
Definition sort_names (l : list str) : list str := fold_right insert_name [] l.

Definition chop_last (s : str) : str := removelast s.

(* ======================= afero: /repo/match.go ======================= *)

(* strings.ContainsAny(path, "*?[") — hasMeta of the pinned tree *)
Definition has_meta (p : str) : bool :=
  existsb (fun c => N.eqb c STAR || N.eqb c QUEST || N.eqb c LBRACK) p.

(* strings.ContainsAny(path, `*?[\`) — hasMeta with magicChars as path/filepath sets them (non-Windows) *)
Definition has_meta_bs (p : str) : bool :=
  existsb (fun c => N.eqb c STAR || N.eqb c QUEST || N.eqb c LBRACK || N.eqb c BSLASH) p.

(* func hasMeta(path): [bs] = the backslash is one of the magic characters *)
Definition afero_has_meta (bs : bool) (p : str) : bool := if bs then has_meta_bs p else has_meta p.

(* the `for _, n := range names` of glob *)
Fixpoint afero_glob_names (dir pattern : str) (names : list str) (m : list str) : glob_res :=
  match names with
  | [] => (m, GNil)
  | n :: r =>
    match match_seg pattern n with
    | None => (m, GBadPattern)
    | Some true => afero_glob_names dir pattern r (m ++ [path_join [dir; n]])
    | Some false => afero_glob_names dir pattern r m
    end
  end.

(* func glob(fs, dir, pattern, matches) *)
Definition afero_glob1 (t : tree) (dir pattern : str) (matches : list str) : glob_res :=
  match tree_lookup t dir with
  | None => (matches, GNil)                      (* fs.Stat(dir) failed *)
  | Some F => (matches, GNil)                    (* !fi.IsDir() *)
  | Some (D kids) => afero_glob_names dir pattern (sort_names (map fst kids)) matches
  end.

(* for _, d := range m { matches, err = glob(fs, d, file, matches); if err != nil { return } } *)
Fixpoint afero_glob_over (t : tree) (file : str) (ds : list str) (matches : list str) : glob_res :=
  match ds with
  | [] => (matches, GNil)
  | d :: r =>
    match afero_glob1 t d file matches with
    | (m', GNil) => afero_glob_over t file r m'
    | (m', e) => (m', e)
    end
  end.

(* `if _, err := filepath.Match(pattern, ""); err != nil` *)
Definition pattern_check_fails (pattern : str) : bool :=
  match match_seg pattern [] with None => true | Some _ => false end.

(* func Glob(fs, pattern).  [bs]: hasMeta counts the backslash; [chk]: Glob starts with
   `if _, err := filepath.Match(pattern, ""); err != nil { return nil, err }` *)
Fixpoint afero_glob_gen_f (bs chk : bool) (fuel : nat) (t : tree) (pattern : str) : glob_res :=
  match fuel with
  | O => ([], GOutOfFuel)
  | S f =>
    if chk && pattern_check_fails pattern then ([], GBadPattern) else
    if negb (afero_has_meta bs pattern) then
      match tree_lookup t pattern with            (* lstatIfPossible(fs, pattern) *)
      | None => ([], GNil)
      | Some _ => ([pattern], GNil)
      end
    else
      let '(dir0, file) := path_split pattern in
      let dir := if is_empty dir0 then s_dot
                 else if beqb dir0 s_slash then dir0
                 else chop_last dir0 in
      if negb (afero_has_meta bs dir) then afero_glob1 t dir file []
      else
        match afero_glob_gen_f bs chk f t dir with
        | (m, GNil) => afero_glob_over t file m []
        | (_, e) => ([], e)
        end
  end.
Definition afero_glob_gen (bs chk : bool) (t : tree) (pattern : str) : glob_res :=
  afero_glob_gen_f bs chk (S (length pattern)) t pattern.

(* the two switches, regenerated from match.go on every check *)
Definition sw_hasmeta_backslash : bool := Z.eqb glob_hasmeta_backslash 1.
Definition sw_checks_pattern_first : bool := Z.eqb glob_checks_pattern_first 1.

(* match.go as it is in /repo NOW *)
Definition afero_glob : tree -> str -> glob_res :=
  afero_glob_gen sw_hasmeta_backslash sw_checks_pattern_first.
(* match.go of the pinned tree: `*?[`, no pattern check *)
Definition afero_glob_pinned : tree -> str -> glob_res := afero_glob_gen false false.
(* match.go following path/filepath in both respects *)
Definition afero_glob_fixed : tree -> str -> glob_res := afero_glob_gen true true.

(* ======================= standard library: path/filepath/match.go ======================= *)

(* magicChars = `*?[\` on non-Windows *)
Definition std_has_meta (p : str) : bool :=
  existsb (fun c => N.eqb c STAR || N.eqb c QUEST || N.eqb c LBRACK || N.eqb c BSLASH) p.

Definition path_separators_limit : N := 10000.

(* func cleanGlobPath(path) *)
Definition clean_glob_path (p : str) : str :=
  match p with
  | [] => s_dot
  | _ => if beqb p s_slash then p else chop_last p
  end.

Fixpoint std_glob_names (dir pattern : str) (names : list str) (m : list str) : glob_res :=
  match names with
  | [] => (m, GNil)
  | n :: r =>
    match match_seg pattern n with
    | None => (m, GBadPattern)
    | Some matched =>
      std_glob_names dir pattern r (if matched then m ++ [path_join [dir; n]] else m)
    end
  end.

Definition std_glob1 (t : tree) (dir pattern : str) (matches : list str) : glob_res :=
  match tree_lookup t dir with
  | Some (D kids) => std_glob_names dir pattern (sort_names (map fst kids)) matches
  | _ => (matches, GNil)
  end.

Fixpoint std_glob_over (t : tree) (file : str) (ds : list str) (matches : list str) : glob_res :=
  match ds with
  | [] => (matches, GNil)
  | d :: r =>
    let '(m', e) := std_glob1 t d file matches in
    match e with GNil => std_glob_over t file r m' | _ => (m', e) end
  end.

(* func globWithLimit(pattern, depth) *)
Fixpoint std_glob_f (fuel : nat) (depth : N) (t : tree) (pattern : str) : glob_res :=
  match fuel with
  | O => ([], GOutOfFuel)
  | S f =>
    if N.eqb depth path_separators_limit then ([], GBadPattern) else
    match match_seg pattern [] with          (* Check pattern is well-formed. *)
    | None => ([], GBadPattern)
    | Some _ =>
      if negb (std_has_meta pattern) then
        match tree_lookup t pattern with          (* os.Lstat(pattern) *)
        | Some _ => ([pattern], GNil)
        | None => ([], GNil)
        end
      else
        let '(dir0, file) := path_split pattern in
        let dir := clean_glob_path dir0 in
        if negb (std_has_meta dir) then std_glob1 t dir file []
        else if beqb dir pattern then ([], GBadPattern)      (* Prevent infinite recursion *)
        else
          let '(m, e) := std_glob_f f (N.succ depth) t dir in
          match e with
          | GNil => std_glob_over t file m []
          | _ => ([], e)
          end
    end
  end.
Definition std_glob (t : tree) (pattern : str) : glob_res :=
  std_glob_f (S (length pattern)) 0 t pattern.

(* ======================= well-formedness ======================= *)

(* no escape character anywhere in the pattern *)
Definition no_escape (p : str) : bool := forallb (fun c => negb (N.eqb c BSLASH)) p.

(* what filepath.Glob itself checks before it touches the filesystem: Match(q, "") reports no error
   for the pattern and for every directory part Glob recurses into *)
Fixpoint std_accepts_f (fuel : nat) (pattern : str) : bool :=
  match fuel with
  | O => true
  | S f =>
    match match_seg pattern [] with
    | None => false
    | Some _ =>
      if negb (has_meta pattern) then true else
      let dir := clean_glob_path (fst (path_split pattern)) in
      if negb (has_meta dir) then true else std_accepts_f f dir
    end
  end.
Definition std_accepts (pattern : str) : bool := std_accepts_f (S (length pattern)) pattern.

(* the same for ANY pattern (escapes included): the pre-check of filepath.Glob at every level of its
   recursion, with the backslash counted as a meta character as filepath's hasMeta does.  A pattern that
   is not [glob_accepts]ed is what Glob calls malformed: ErrBadPattern before anything is looked up. *)
Fixpoint glob_accepts_f (fuel : nat) (pattern : str) : bool :=
  match fuel with
  | O => true
  | S f =>
    match match_seg pattern [] with
    | None => false
    | Some _ =>
      if negb (std_has_meta pattern) then true else
      let dir := clean_glob_path (fst (path_split pattern)) in
      if negb (std_has_meta dir) then true else glob_accepts_f f dir
    end
  end.
Definition glob_accepts (pattern : str) : bool := glob_accepts_f (S (length pattern)) pattern.

(* A well-formed pattern without escapes, as one pass of a five-state machine over the pattern:
     pattern ::= { term }
     term    ::= '*' | '?' | c | '[' ['^'] range {range} ']'          (c is not '[' and not '\')
     range   ::= lo | lo '-' hi                                        (lo, hi not in '-' ']' '\' '/')
   i.e. the grammar in the documentation of filepath.Match, with every class closed inside its own
   '/'-separated element (Glob cuts the pattern at every '/').  The pattern is well-formed iff the
   machine is back in [PTop] at the end. *)
Inductive pstate :=
| PTop                 (* outside a class *)
| PClass0              (* just after '[' : a '^' may follow *)
| PClass (some : bool) (* expecting lo, or ']' if there has been a range already *)
| PAfterLo             (* after lo: '-' makes it a range, anything else is the next item *)
| PAfterDash.          (* after lo '-' : expecting hi *)

Definition pstep_class (some : bool) (c : N) : option pstate :=
  if N.eqb c RBRACK then (if some then Some PTop else None)
  else if N.eqb c DASH || N.eqb c BSLASH || N.eqb c SLASH then None
  else Some PAfterLo.

Definition pstep (st : pstate) (c : N) : option pstate :=
  match st with
  | PTop => if N.eqb c BSLASH then None else if N.eqb c LBRACK then Some PClass0 else Some PTop
  | PClass0 => if N.eqb c CARET then Some (PClass false) else pstep_class false c
  | PClass some => pstep_class some c
  | PAfterLo => if N.eqb c DASH then Some PAfterDash else pstep_class true c
  | PAfterDash => if N.eqb c DASH || N.eqb c RBRACK || N.eqb c BSLASH || N.eqb c SLASH then None
                  else Some (PClass true)
  end.

Fixpoint prun (st : pstate) (p : str) : option pstate :=
  match p with
  | [] => Some st
  | c :: r => match pstep st c with Some st' => prun st' r | None => None end
  end.

Definition well_formed (pattern : str) : bool :=
  match prun PTop pattern with Some PTop => true | _ => false end.

(* ======================= what Glob denotes (for well-formed patterns) =======================
   One level: the names of directory [dir] that match [file], sorted, each joined onto [dir].
   A pattern: the levels of all directories the directory part denotes, concatenated in order. *)
Definition matches (file n : str) : bool :=
  match match_seg file n with Some true => true | _ => false end.

Definition glob_level (t : tree) (dir file : str) : list str :=
  match tree_lookup t dir with
  | Some (D kids) => map (fun n => path_join [dir; n]) (filter (matches file) (sort_names (map fst kids)))
  | _ => []
  end.

Fixpoint glob_spec_f (fuel : nat) (t : tree) (pat : str) : list str :=
  match fuel with
  | O => []
  | S f =>
    if negb (has_meta pat) then match tree_lookup t pat with Some _ => [pat] | None => [] end
    else
      let dir := clean_glob_path (fst (path_split pat)) in
      let file := snd (path_split pat) in
      if negb (has_meta dir) then glob_level t dir file
      else flat_map (fun d => glob_level t d file) (glob_spec_f f t dir)
  end.
Definition glob_spec (t : tree) (pat : str) : list str := glob_spec_f (S (length pat)) t pat.
