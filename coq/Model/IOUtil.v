(* Model/IOUtil.v — transcription of ioutil.go ReadFile / readAll / WriteFile and util.go
   WriteReader / SafeWriteReader / Exists over an ARBITRARY inner filesystem
   [step : St -> op -> St * res].  Every call the Go code makes on the Fs / File is one [step].
   A result shape the Go types exclude (e.g. OpenFile answering with a byte count) is RPanic;
   so is running out of fuel in the read loop (not a behaviour of the Go code). *)
From AF Require Import Lib.Bytes Lib.Path Lib.Ops Gen.Consts.
Local Open Scope Z_scope.

(* standard library constants (trusted, compared by the harness) *)
Definition io_min_read : Z := 512.            (* bytes.MinRead *)
Definition io_copy_buf : Z := 32768.          (* io.Copy's buffer: 32 KiB *)
Definition io_size_cap : Z := 1000000000.     (* ioutil.go ReadFile: `size < 1e9` *)

(* os.O_WRONLY|os.O_CREATE|os.O_TRUNC *)
Definition io_write_flags : Z := Z.lor o_wronly (Z.lor o_create o_trunc).

Definition io_is_eof (e : err) : bool := errk_eqb (ek e) KEOF && negb (ewrapped e).        (* e == io.EOF *)
Definition io_is_errexist (e : err) : bool := errk_eqb (ek e) KExist && negb (ewrapped e). (* err == os.ErrExist *)

(* what io.Copy's 32 KiB buffer makes of a reader that hands out the chunks [chunks]: a chunk
   longer than the buffer is delivered by several Reads; an empty chunk is a Read returning (0, nil) *)
Fixpoint io_pieces (fuel : nat) (c : bytes) : list bytes :=
  match fuel with
  | O => [c]
  | S f => if Nat.leb (length c) (Z.to_nat io_copy_buf) then [c]
           else firstn (Z.to_nat io_copy_buf) c :: io_pieces f (skipn (Z.to_nat io_copy_buf) c)
  end.
Definition io_reads (chunks : list bytes) : list bytes := flat_map (fun c => io_pieces (length c) c) chunks.

(* Exists: (true, nil) / (false, nil) / (false, err) / a panicking Stat *)
Inductive io_ex := IoYes | IoNo | IoErr (e : err) | IoPanic.

Section IOUtil.
Context {St : Type} (step : St -> op -> St * res).

(* bytes.Buffer.ReadFrom on a buffer made with capacity [cap]: while at least MinRead bytes are free
   the whole free space is offered to Read; otherwise the buffer grows to max(len+MinRead, 2*cap)
   (the allocator may round this up further; unreachable when Stat reported the true size).
   [acc] = the bytes read so far. *)
Fixpoint io_read_loop (fuel : nat) (s : St) (h : nat) (acc : bytes) (cap : Z) : St * res :=
  match fuel with
  | O => (s, RPanic)
  | S f =>
    let len := zlen acc in
    let cap1 := if io_min_read <=? cap - len then cap else Z.max (len + io_min_read) (2 * cap) in
    match step s (HRead h (cap1 - len)) with
    | (s1, RData b None) => io_read_loop f s1 h (acc ++ b) cap1
    | (s1, RData b (Some e)) =>
        if io_is_eof e then (s1, RData (acc ++ b) None) else (s1, RData (acc ++ b) (Some e))
    | (s1, _) => (s1, RPanic)
    end
  end.

(* ioutil.go ReadFile: Open; defer Close; Stat for the size hint; readAll(f, n + bytes.MinRead).
   Fuel of the loop: the size Stat reported + 2 (every Read before EOF delivers at least one byte
   of a file of that size; one more Read sees io.EOF). *)
Definition read_file (s : St) (p : str) : St * res :=
  match step s (Open p) with
  | (s1, RHandle h) =>
    let '(s2, rst) := step s1 (HStat h) in
    let size := match rst with RInfo fi => fi_size fi | _ => 0 end in
    let n := if size <? io_size_cap then size else 0 in
    let '(s3, r) := io_read_loop (Z.to_nat size + 2) s2 h [] (n + io_min_read) in
    let '(s4, _) := step s3 (HClose h) in
    (s4, r)
  | (s1, RErr e) => (s1, RErr e)
  | (s1, _) => (s1, RPanic)
  end.

(* ioutil.go WriteFile *)
Definition write_file (s : St) (p : str) (data : bytes) (perm : Z) : St * res :=
  match step s (OpenFile p io_write_flags perm) with
  | (s1, RHandle h) =>
    match step s1 (HWrite h data) with
    | (s2, RCount n we) =>
      let e1 := match we with
                | Some e => Some e
                | None => if n <? zlen data then Some (E KShortWrite) else None
                end in
      match step s2 (HClose h) with
      | (s3, ROk) => (s3, match e1 with Some e => RErr e | None => ROk end)
      | (s3, RErr ce) => (s3, match e1 with Some e => RErr e | None => RErr ce end)
      | (s3, _) => (s3, RPanic)
      end
    | (s2, _) => (s2, RPanic)
    end
  | (s1, RErr e) => (s1, RErr e)
  | (s1, _) => (s1, RPanic)
  end.

(* io.Copy(file, r) for a plain io.Reader: one Write per non-empty Read; ROk / RErr / RPanic *)
Fixpoint io_copy (s : St) (h : nat) (reads : list bytes) : St * res :=
  match reads with
  | [] => (s, ROk)                                  (* Read returned (0, io.EOF) *)
  | [] :: r => io_copy s h r                        (* Read returned (0, nil) *)
  | b :: r =>
    match step s (HWrite h b) with
    | (s1, RCount n we) =>
      if (n <? 0) || (zlen b <? n)                  (* errInvalidWrite unless Write reported its own error *)
      then (s1, RErr (match we with Some e => e | None => E KOther end))
      else match we with
           | Some e => (s1, RErr e)
           | None => if n <? zlen b then (s1, RErr (E KShortWrite)) else io_copy s1 h r
           end
    | (s1, _) => (s1, RPanic)
    end
  end.

(* Create; defer Close; io.Copy — the tail shared by WriteReader and SafeWriteReader *)
Definition io_create_copy (s : St) (p : str) (chunks : list bytes) : St * res :=
  match step s (Create p) with
  | (s1, RHandle h) =>
    let '(s2, r) := io_copy s1 h (io_reads chunks) in
    let '(s3, _) := step s2 (HClose h) in
    (s3, r)
  | (s1, RErr e) => (s1, RErr e)
  | (s1, _) => (s1, RPanic)
  end.

(* util.go WriteReader: dir, _ := filepath.Split(path); MkdirAll(dir, 0777) when dir != "";
   an error is ignored only when it IS os.ErrExist (identity, not os.IsExist) *)
Definition write_reader (s : St) (p : str) (chunks : list bytes) : St * res :=
  let dir := fst (path_split p) in
  let pre : St * option res :=
    if is_empty dir then (s, None)
    else match step s (MkdirAll dir 511) with
         | (s1, ROk) => (s1, None)
         | (s1, RErr e) => if io_is_errexist e then (s1, None) else (s1, Some (RErr e))
         | (s1, _) => (s1, Some RPanic)
         end in
  match pre with
  | (s1, Some r) => (s1, r)
  | (s1, None) => io_create_copy s1 p chunks
  end.

(* util.go Exists *)
Definition io_exists (s : St) (p : str) : St * io_ex :=
  match step s (Stat p) with
  | (s1, RInfo _) => (s1, IoYes)
  | (s1, RErr e) => if is_not_exist e then (s1, IoNo) else (s1, IoErr e)
  | (s1, _) => (s1, IoPanic)
  end.

(* util.go SafeWriteReader: every MkdirAll error is returned; an existing path is refused
   (fmt.Errorf("%v already exists") = KOther) before anything is created *)
Definition safe_write_reader (s : St) (p : str) (chunks : list bytes) : St * res :=
  let dir := fst (path_split p) in
  let pre : St * option res :=
    if is_empty dir then (s, None)
    else match step s (MkdirAll dir 511) with
         | (s1, ROk) => (s1, None)
         | (s1, RErr e) => (s1, Some (RErr e))
         | (s1, _) => (s1, Some RPanic)
         end in
  match pre with
  | (s1, Some r) => (s1, r)
  | (s1, None) =>
    match io_exists s1 p with
    | (s2, IoErr e) => (s2, RErr e)
    | (s2, IoPanic) => (s2, RPanic)
    | (s2, IoYes) => (s2, RErr (E KOther))
    | (s2, IoNo) => io_create_copy s2 p chunks
    end
  end.

End IOUtil.
