(* Model/Archive.v — what zipfs and tarfs have in common (C14): archives as entry lists, the
   path splitting both packages use, the directory index as a Go map of maps, and the
   SPECIFICATION side of C14: the read-only byte-array view of one entry (built on
   ByteFile.bf_step), the expected Stat answer and the expected directory listing.
   Definitions only. *)
From AF Require Import Lib.Bytes Lib.Path Lib.Ops Model.ByteFile.
Local Open Scope Z_scope.

(* ---------------------------------------------------------------- archives *)
(* one archive member as written by archive/zip or archive/tar: the raw header name, whether the
   header marks a directory, and the (uncompressed) bytes.  archive/zip and archive/tar are
   trusted to hand back exactly these three things (zip: File.Name, FileInfo().IsDir(),
   UncompressedSize64 = |content| and Open() yielding content; tar: Header.Name, Typeflag,
   Header.Size = |content| and the entry's reader yielding content). *)
(* (the record is called aentry: "entry" is MemFs's snapshot record and both are extracted into one model.ml) *)
Record aentry := mkEntry { ename : str; eisdir : bool; econtent : bytes }.
Definition archive := list aentry.
Definition esize (e : aentry) : Z := zlen (econtent e).

(* zipfs/fs.go:18-27 = tarfs/fs.go:20-29  splitpath (filepath.ToSlash is the identity on Unix) *)
Definition rooted_name (n : str) : str := if is_rooted n then n else SLASH :: n.
(* the entry's cleaned (absolute) path *)
Definition cpath (n : str) : str := clean (rooted_name n).
Definition splitpath (n : str) : str * str :=
  let '(d, f) := path_split (cpath n) in (clean d, f).
(* filepath.Join(splitpath(name)) : File.Name() in both packages *)
Definition joined (n : str) : str := let '(d, f) := splitpath n in join2 d f.

(* ---------------------------------------------------------------- the index *)
(* map[string]map[string]*T as association lists in insertion order *)
Definition index := list (str * list (str * aentry)).

(* if _, ok := files[d]; !ok { files[d] = make(map...) } *)
Definition idx_ensure (d : str) (ix : index) : index :=
  match alist_get d ix with Some _ => ix | None => ix ++ [(d, [])] end.
(* files[d][f] = e   (files[d] exists) *)
Definition idx_put (d f : str) (e : aentry) (ix : index) : index :=
  match alist_get d ix with
  | Some m => alist_set d (alist_set f e m) ix
  | None => ix
  end.
(* if _, ok := files[d][f]; !ok { files[d][f] = e } *)
Definition idx_put_first (d f : str) (e : aentry) (ix : index) : index :=
  match alist_get d ix with
  | Some m => match alist_get f m with Some _ => ix | None => alist_set d (alist_set f e m) ix end
  | None => ix
  end.
(* files[d][f] with both "ok" tests *)
Definition idx_get (ix : index) (d f : str) : option aentry :=
  match alist_get d ix with Some m => alist_get f m | None => None end.

(* ---------------------------------------------------------------- specification *)
(* which entry a path names: the one whose cleaned path splits the same way *)
Definition key_eqb (a b : str * str) : bool := beqb (fst a) (fst b) && beqb (snd a) (snd b).
Definition ekey (e : aentry) : str * str := splitpath (ename e).
Definition names_entry (p : str) (e : aentry) : bool := key_eqb (splitpath p) (ekey e).
(* entries stored directly under directory d (d = a cleaned absolute path); an entry whose own
   name cleans to the root is not a member of anything *)
Definition is_child_of (d : str) (e : aentry) : bool :=
  beqb (fst (ekey e)) d && negb (is_empty (snd (ekey e))).
Definition spec_children (a : archive) (d : str) : list aentry := filter (is_child_of d) a.
(* what Stat has to say about an entry as far as the property goes *)
Definition spec_stat (e : aentry) : bool * Z := (eisdir e, esize e).

(* The read-only byte-array view of ONE entry with any number of handles: ByteFile.bf_step on
   read-only handles, plus a few points where bf_step (written for mem.File) leaves a choice
   that the archive filesystems make differently and the property does not care about:
   - Open adds a fresh read-only handle at offset 0;
   - a closed handle reports "closed" before the offset of ReadAt is looked at;
   - the result of Close is not part of the property (bf_step: a second Close is an error, as in
     tarfs; zipfs returns nil): Close always projects to ok;
   - a whence outside {0,1,2} is an error (bf_step: no-op);
   - [strict] (zipfs): seeking beyond the end is refused (bf_step and tarfs: allowed). *)
Definition aspec_step (strict : bool) (s : bstate) (o : op) : bstate * pres :=
  let with_h (i : nat) (k : bh -> bstate * pres) : bstate * pres :=
    match nth_error (bhs s) i with Some h => k h | None => (s, PNone) end in
  match o with
  | Open _ => (mkBS (bdata s) (bhs s ++ [mkBH 0 false true]), POk)
  | HRead i _ => bf_step s o
  | HClose i => with_h i (fun h => if bclosed h then (s, POk) else bf_step s o)
  | HReadAt i _ _ => with_h i (fun h => if bclosed h then (s, PErr C_CLOSED) else bf_step s o)
  | HSeek i off wh => with_h i (fun h =>
      if bclosed h then (s, PErr C_CLOSED) else
      if negb ((wh =? 0) || (wh =? 1) || (wh =? 2)) then (s, PErr C_INVALID) else
      let target := if wh =? 0 then off else if wh =? 1 then Z.of_nat (bpos h) + off
                    else zlen (bdata s) + off in
      if strict && (zlen (bdata s) <? target) then (s, PErr C_INVALID) else bf_step s o)
  | _ => (s, PNone)
  end.

Fixpoint aspec_run (strict : bool) (s : bstate) (ops : list op) : bstate * list pres :=
  match ops with
  | [] => (s, [])
  | o :: r => let '(s1, x) := aspec_step strict s o in
              let '(s2, xs) := aspec_run strict s1 r in (s2, x :: xs)
  end.

(* projection of a Go-level result to what the property speaks about: ByteFile.proj, except
   - Open: only success/failure;
   - Close: its result is not observed (tarfs reports "closed" for a second Close);
   - Seek with an unknown whence: some error (zipfs EINVAL, bytes.Reader its own);
   - Read may deliver its last bytes together with io.EOF (io.Reader allows it; zipfs does):
     the flag is then not part of the comparison (C14_eof_only_at_end says it is never early). *)
Definition proj14 (o : op) (r : res) : pres :=
  match o, r with
  | _, RNoSlot => PNone
  | _, RPanic => PErr 99
  | Open _, RHandle _ => POk
  | HClose _, _ => POk
  | HSeek _ _ wh, RPos _ (Some e) =>
      if negb ((wh =? 0) || (wh =? 1) || (wh =? 2)) && negb (Nat.eqb (class_of e) C_CLOSED)
      then PErr C_INVALID else proj o r
  | HRead _ _, RData (x :: b) (Some e) => if is_eof e then PBytes (x :: b) false else proj o r
  | _, _ => proj o r
  end.

Fixpoint proj14_all (ops : list op) (rs : list res) : list pres :=
  match ops, rs with
  | o :: os, r :: rs' => proj14 o r :: proj14_all os rs'
  | _, _ => []
  end.

(* a read program: the operations the first sentence of the property is about *)
Definition is_read_op (o : op) : bool :=
  match o with HRead _ _ | HReadAt _ _ _ | HSeek _ _ _ | HClose _ | Open _ => true | _ => false end.
Definition is_mutator (o : op) : bool :=
  match o with
  | Create _ | Mkdir _ _ | MkdirAll _ _ | Remove _ | RemoveAll _ | Rename _ _
  | Chmod _ _ | Chown _ _ _ | Chtimes _ _
  | HWrite _ _ | HWriteAt _ _ _ | HWriteString _ _ | HTruncate _ _ => true
  | OpenFile _ flag _ => negb (flag =? 0)
  | _ => false
  end.

(* FileInfo as far as it is compared: base name, directory flag, size *)
Definition mk_info (name : str) (dir : bool) (size : Z) : finfo := mkFi name dir size 0 0.
Definition root_info : finfo := mk_info s_slash true 0.

(* the Go loop "append; if count > 0 && len >= count { break }" *)
Definition take_count {A} (count : Z) (l : list A) : list A :=
  if 0 <? count then firstn (Z.to_nat count) l else l.

(* generic runner *)
Fixpoint arun {St} (step : St -> op -> St * res) (s : St) (ops : list op) : St * list res :=
  match ops with
  | [] => (s, [])
  | o :: r => let '(s1, x) := step s o in let '(s2, xs) := arun step s1 r in (s2, x :: xs)
  end.

(* ---------------------------------------------------------------- adigest (vm_compute cross-check) *)
Definition adg_mod : Z := 2305843009213693951.
Definition adg (acc x : Z) : Z := Z.land (acc * 131 + x + 7) adg_mod.
Definition adg_bytes (acc : Z) (b : bytes) : Z := fold_left (fun a x => adg a (Z.of_N x)) b (adg acc (zlen b)).
Definition aerrk_code (k : errk) : Z :=
  match k with
  | KNotExist => 1 | KExist => 2 | KClosed => 3 | KOutOfRange => 4 | KReadOnlyHandle => 5 | KNotADir => 6
  | KNegative => 7 | KEOF => 8 | KUnexpectedEOF => 9 | KShortWrite => 10 | KENOENT => 11 | KENOTDIR => 12
  | KEPERM => 13 | KEIO => 14 | KEBADF => 15 | KEROFS => 16 | KEINVAL => 17 | KENOTEMPTY => 18 | KEISDIR => 19
  | KPermission => 20 | KInvalid => 21 | KCombined => 22 | KOther => 23
  end.
Definition adg_err (acc : Z) (e : option err) : Z :=
  match e with None => adg acc 0 | Some x => adg (adg acc (aerrk_code (ek x))) (if ewrapped x then 1 else 2) end.
Definition adg_info (acc : Z) (fi : finfo) : Z :=
  adg (adg (adg_bytes acc (fi_name fi)) (if fi_dir fi then 1 else 0)) (fi_size fi).
Definition adg_res (acc : Z) (r : res) : Z :=
  match r with
  | RPanic => adg acc 101 | RNoSlot => adg acc 102 | ROk => adg acc 103
  | RErr e => adg_err (adg acc 104) (Some e)
  | RHandle h => adg (adg acc 105) (Z.of_nat h)
  | RInfo fi => adg_info (adg acc 106) fi
  | RData b e => adg_err (adg_bytes (adg acc 107) b) e
  | RCount n e => adg_err (adg (adg acc 108) n) e
  | RPos n e => adg_err (adg (adg acc 109) n) e
  | RInfos l e => adg_err (fold_left adg_info l (adg acc 110)) e
  | RNames l e => adg_err (fold_left adg_bytes l (adg acc 111)) e
  | RName s => adg_bytes (adg acc 112) s
  end.
Definition adigest (rs : list res) : Z := fold_left adg_res rs 0.
