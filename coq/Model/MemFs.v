(* Model/MemFs.v — transcription of memmap.go (MemMapFs) + mem/dir.go, mem/dirmap.go and the
   directory/metadata methods of mem/file.go.  Faithful: references (handles survive Remove
   and Rename, Rename keeps identity), the per-directory child index (memDir) kept next to
   the path map, auto-created ancestors, and the behaviours outside POSIX preconditions. *)
From AF Require Import Lib.Bytes Lib.Path Lib.Ops Gen.Consts Model.MemFile.
Local Open Scope Z_scope.

Record node := mkNode {
  nname : str; ndir : bool; nhasdir : bool (* memDir != nil *); ndata : bytes;
  nmode : Z; nmtime : Z; nuid : Z; ngid : Z;
  nkids : list (str * nat)            (* DirMap: name at insertion time -> node *)
}.

Record mst := mkM {
  mdata : list (str * nat);           (* MemMapFs.data : path -> *FileData *)
  mheap : list node;                  (* every FileData ever allocated; index = identity *)
  mhandles : list hnd;                (* every mem.File ever handed out; index = handle *)
  mclock : Z                          (* the value time.Now() yields during this step *)
}.

Definition BIG : Z := 1000000000000000000.   (* "now" values are >= BIG; explicit times are below *)

Definition root_node : node := mkNode s_slash true true [] (Z.lor mode_dir 493 (* 0o755 *)) BIG 0 0 [].
Definition m_init : mst := mkM [(s_slash, 0%nat)] [root_node] [] BIG.

Definition get_node (s : mst) (r : nat) : option node := nth_error (mheap s) r.
Definition set_node (s : mst) (r : nat) (n : node) : mst :=
  mkM (mdata s) (list_set r n (mheap s)) (mhandles s) (mclock s).
Definition set_data (s : mst) (d : list (str * nat)) : mst := mkM d (mheap s) (mhandles s) (mclock s).
Definition alloc_node (s : mst) (n : node) : mst * nat :=
  (mkM (mdata s) (mheap s ++ [n]) (mhandles s) (mclock s), length (mheap s)).
Definition alloc_handle (s : mst) (h : hnd) : mst * nat :=
  (mkM (mdata s) (mheap s) (mhandles s ++ [h]) (mclock s), length (mhandles s)).
Definition set_handle (s : mst) (i : nat) (h : hnd) : mst :=
  mkM (mdata s) (mheap s) (list_set i h (mhandles s)) (mclock s).

Definition lookup (s : mst) (name : str) : option nat := alist_get name (mdata s).
Definition lockfree_open (s : mst) (name : str) : option nat := lookup s (normalize_path name).

Definition upd_node (s : mst) (r : nat) (f : node -> node) : mst :=
  match get_node s r with Some n => set_node s r (f n) | None => s end.

Definition with_name (nm : str) (n : node) : node :=
  mkNode nm (ndir n) (nhasdir n) (ndata n) (nmode n) (nmtime n) (nuid n) (ngid n) (nkids n).
Definition with_mode (m : Z) (n : node) : node :=
  mkNode (nname n) (ndir n) (nhasdir n) (ndata n) m (nmtime n) (nuid n) (ngid n) (nkids n).
Definition with_mtime (t : Z) (n : node) : node :=
  mkNode (nname n) (ndir n) (nhasdir n) (ndata n) (nmode n) t (nuid n) (ngid n) (nkids n).
Definition with_owner (u g : Z) (n : node) : node :=
  mkNode (nname n) (ndir n) (nhasdir n) (ndata n) (nmode n) (nmtime n) u g (nkids n).
Definition with_data (d : bytes) (n : node) : node :=
  mkNode (nname n) (ndir n) (nhasdir n) d (nmode n) (nmtime n) (nuid n) (ngid n) (nkids n).
Definition with_kids (k : list (str * nat)) (n : node) : node :=
  mkNode (nname n) (ndir n) (nhasdir n) (ndata n) (nmode n) (nmtime n) (nuid n) (ngid n) k.
(* mem.InitializeDir *)
Definition init_dir (n : node) : node :=
  if nhasdir n then n
  else mkNode (nname n) true true (ndata n) (nmode n) (nmtime n) (nuid n) (ngid n) [].

Definition new_file (name : str) (now : Z) : node := mkNode name false false [] mode_temporary now 0 0 [].
Definition new_dir (name : str) (now : Z) : node := mkNode name true true [] 0 now 0 0 [].

Definition node_name (s : mst) (r : nat) : str :=
  match get_node s r with Some n => nname n | None => [] end.

(* findParent *)
Definition find_parent (s : mst) (f : nat) : option nat :=
  let pdir := clean (fst (path_split (node_name s f))) in
  lockfree_open s pdir.

(* parent.Lock(); InitializeDir(parent); AddToMemDir(parent, f) *)
Definition add_kid (s : mst) (parent f : nat) : mst :=
  upd_node s parent (fun p => let p' := init_dir p in with_kids (alist_set (node_name s f) f (nkids p')) p').

(* registerWithParent, with lockfreeMkdir inlined; fuel bounds the chain of missing ancestors *)
Fixpoint register (fuel : nat) (s : mst) (f : nat) (perm : Z) : mst :=
  match find_parent s f with
  | Some p => add_kid s p f
  | None =>
    match fuel with
    | O => s
    | S fu =>
      let pdir := path_dir (clean (node_name s f)) in
      let pn := normalize_path pdir in
      let mk : option mst :=
        match lookup s pn with
        | Some x => match get_node s x with
                    | Some nx => if ndir nx then Some s else None      (* ErrFileExists: give up *)
                    | None => None
                    end
        | None =>
          let '(s1, item) := alloc_node s (with_mode (Z.lor mode_dir perm) (new_dir pn (mclock s))) in
          let s2 := set_data s1 (alist_set pn item (mdata s1)) in
          Some (register fu s2 item perm)
        end in
      match mk with
      | None => s
      | Some s3 =>
        match lockfree_open s3 pdir with
        | Some p => add_kid s3 p f
        | None => s3
        end
      end
    end
  end.

Definition reg (s : mst) (f : nat) (perm : Z) : mst := register (S (length (node_name s f))) s f perm.

(* unRegisterWithParent : None = log.Panic / nil dereference, Some (s, false) = lookup error *)
Definition unregister (s : mst) (name : str) : option (mst * bool) :=
  match lockfree_open s name with
  | None => Some (s, false)
  | Some f =>
    match find_parent s f with
    | None => None
    | Some p =>
      match get_node s p with
      | Some pn => if nhasdir pn
                   then Some (upd_node s p (fun pn => with_kids (alist_del (node_name s f) (nkids pn)) pn), true)
                   else None
      | None => None
      end
    end
  end.

Definition finfo_of (n : node) : finfo :=
  mkFi (snd (path_split (nname n))) (ndir n) (if ndir n then dir_size else zlen (ndata n)) (nmode n) (nmtime n).

Definition set_file_mode (s : mst) (name : str) (mode : Z) : mst * res :=
  match lookup s (normalize_path name) with
  | None => (s, RErr (EW KNotExist))
  | Some f => (upd_node s f (with_mode mode), ROk)
  end.

(* lockfreeBelowFile (memmap.go): walk up with filepath.Dir from the directory of the name to the
   nearest ancestor that exists (lockfreeOpen normalises: "." and ".." are the root); true iff that
   ancestor is a regular file.  The Go loop ends at the fixed point of filepath.Dir ("/" or ".");
   every other step shortens the string, so the fuel given by below_file is never used up.
   Switch memfs_refuses_below_file (Gen/Consts.v, from the AST of memmap.go): 1 iff Create, Mkdir,
   Rename and the creating path of OpenFile make this check and answer ENOTDIR; 0 = the code
   before that repair, which created the entry and let registerWithParent turn the regular file
   into a directory. *)
Fixpoint below_file_walk (fuel : nat) (s : mst) (dir : str) : bool :=
  match lockfree_open s dir with
  | Some f => match get_node s f with Some n => negb (ndir n) | None => false end
  | None =>
    if beqb dir (path_dir dir) then false
    else match fuel with O => false | S fu => below_file_walk fu s (path_dir dir) end
  end.
Definition below_file (s : mst) (name : str) : bool :=
  (memfs_refuses_below_file =? 1) && below_file_walk (S (length name)) s (path_dir name).

Definition m_create_node (s : mst) (name : str) : mst * nat :=
  let '(s1, f) := alloc_node s (new_file name (mclock s)) in
  let s2 := set_data s1 (alist_set name f (mdata s1)) in
  (reg s2 f 0, f).

Definition m_create (s : mst) (name0 : str) : mst * res :=
  let name := normalize_path name0 in
  let existing_file :=
    match lookup s name with
    | Some f => match get_node s f with Some n => if ndir n then None else Some f | None => None end
    | None => None
    end in
  (* None = ENOTDIR: the name is free (or a directory) and lies below a regular file *)
  let pre : option (mst * nat) :=
    match existing_file with
    | Some f => Some (upd_node s f (fun n => with_mtime (mclock s) (with_data [] n)), f)   (* truncate in place *)
    | None => if below_file s name then None else Some (m_create_node s name)
    end in
  match pre with
  | None => (s, RErr (EW KENOTDIR))
  | Some (s1, f) =>
    let '(s2, h) := alloc_handle s1 (mkH f 0 0 false false) in
    (s2, RHandle h)
  end.

Definition m_mkdir (s : mst) (name0 : str) (perm0 : Z) : mst * res :=
  let perm := Z.land perm0 chmod_bits in
  let name := normalize_path name0 in
  match lookup s name with
  | Some _ => (s, RErr (EW KExist))
  | None =>
    if below_file s name then (s, RErr (EW KENOTDIR)) else
    let '(s1, item) := alloc_node s (with_mode (Z.lor mode_dir perm) (new_dir name (mclock s))) in
    let s2 := set_data s1 (alist_set name item (mdata s1)) in
    let s3 := reg s2 item perm in
    set_file_mode s3 name (Z.lor perm mode_dir)
  end.

Definition m_mkdirall (s : mst) (name : str) (perm : Z) : mst * res :=
  match m_mkdir s name perm with
  | (s', RErr e) => if errk_eqb (ek e) KExist then (s', ROk) else (s', RErr e)
  | x => x
  end.

Definition m_open (s : mst) (name0 : str) : mst * res :=
  match lookup s (normalize_path name0) with
  | None => (s, RErr (EW KNotExist))
  | Some f => let '(s1, h) := alloc_handle s (mkH f 0 0 false true) in (s1, RHandle h)
  end.

Definition flag_has (flag bit : Z) : bool := 0 <? Z.land flag bit.

Definition m_openfile (s : mst) (name0 : str) (flag perm0 : Z) : mst * res :=
  let perm := Z.land perm0 chmod_bits in
  let name := normalize_path name0 in
  let existing := lookup s name in
  (* inr (state, file, created) or inl = the error of openOrCreate (EEXIST, ENOTDIR) *)
  let pre : errk + (mst * option nat * bool) :=
    match existing with
    | Some _ => if flag_has flag o_excl && flag_has flag o_create then inl KExist else inr (s, existing, false)
    | None => if flag_has flag o_create
              then if below_file s name then inl KENOTDIR
                   else let '(s1, f) := m_create_node s name in inr (s1, Some f, true)
              else inr (s, None, false)
    end in
  match pre with
  | inl k => (s, RErr (EW k))
  | inr (_, None, _) => (s, RErr (EW KNotExist))
  | inr (s1, Some f, created) =>
    let ro := Z.eqb (Z.land flag memfs_access_mask) 0 in
    let data := match get_node s1 f with Some n => ndata n | None => [] end in
    let at_ := if flag_has flag o_append then zlen data else 0 in
    let trunc := flag_has flag o_trunc && flag_has flag (Z.lor o_rdwr o_wronly) in
    let s2 := if trunc && negb ro
              then upd_node s1 f (fun n => with_mtime (mclock s1) (with_data [] n)) else s1 in
    let '(s3, h) := alloc_handle s2 (mkH f (if trunc && negb ro then at_ else at_) 0 false ro) in
    if trunc && ro then
      (* Truncate on a read-only handle fails: the handle is closed and the error returned *)
      (s2, RErr (EW KReadOnlyHandle))
    else if created then
      match set_file_mode s3 name perm with
      | (s4, ROk) => (s4, RHandle h)
      | (s4, r) => (s4, r)
      end
    else (s3, RHandle h)
  end.

Definition m_remove (s : mst) (name0 : str) : mst * res :=
  let name := normalize_path name0 in
  match lookup s name with
  | None => (s, RErr (EW KNotExist))
  | Some _ =>
    match unregister s name with
    | None => (s, RPanic)
    | Some (s1, false) => (s1, RErr (EW KNotExist))
    | Some (s1, true) => (set_data s1 (alist_del name (mdata s1)), ROk)
    end
  end.

Definition under (path p : str) : bool := beqb p path || prefixb (path ++ s_slash) p.

Definition m_removeall (s : mst) (path0 : str) : mst * res :=
  let path := normalize_path path0 in
  match unregister s path with
  | None => (s, RPanic)
  | Some (s1, _) =>
    (set_data s1 (filter (fun kv => negb (under path (fst kv))) (mdata s1)), ROk)
  end.

(* one descendant of renameDescendants; None = panic, (s, false) = error return *)
Definition rename_one (old new : str) (s : mst) (d : nat) : option (mst * bool) :=
  let dname := node_name s d in
  let newname := str_replace1 dname old new in
  match unregister s dname with
  | None => None
  | Some (s1, false) => Some (s1, false)
  | Some (s1, true) =>
    let s2 := upd_node s1 d (with_name newname) in
    let s3 := set_data s2 (alist_set newname d (mdata s2)) in
    Some (reg s3 d 0, true)
  end.

Fixpoint rename_descs (old new : str) (s : mst) (ds : list nat) (removes : list str)
  : option (mst * bool * list str) :=
  match ds with
  | [] => Some (s, true, removes)
  | d :: r =>
    let dname := node_name s d in
    match rename_one old new s d with
    | None => None
    | Some (s1, false) => Some (s1, false, removes)
    | Some (s1, true) => rename_descs old new s1 r (removes ++ [dname])
    end
  end.

Definition find_descendants (s : mst) (name : str) : list nat :=
  let ds := map snd (filter (fun kv => prefixb (name ++ s_slash) (fst kv)) (mdata s)) in
  sort_by (fun a b => Nat.ltb (depth (node_name s a)) (depth (node_name s b))) ds.

(* d, err := m.lockfreeOpen(filepath.Dir(name)); err == nil && mem.GetFileInfo(d).IsDir() *)
Definition dir_is_dir (s : mst) (name : str) : bool :=
  match lockfree_open s (path_dir name) with
  | Some d => match get_node s d with Some n => ndir n | None => false end
  | None => false
  end.

Definition m_rename (s : mst) (old0 new0 : str) : mst * res :=
  let old := normalize_path old0 in
  let new := normalize_path new0 in
  match lookup s old with
  | None =>
    (* switch memfs_rename_missing_source_enotdir (Gen/Consts.v, from the AST of Rename): 1 = the
       directory of the source is resolved, then the directory of the target, before the source is
       looked for — the directory of the source is a directory and the target lies below a regular
       file: ENOTDIR (what rename(2) answers); 0 = the code before that repair: not-exist *)
    if (memfs_rename_missing_source_enotdir =? 1) && dir_is_dir s old && below_file s new
    then (s, RErr (EW KENOTDIR)) else (s, RErr (EW KNotExist))
  | Some f =>
    if beqb old new then (s, ROk) else
    if below_file s new then (s, RErr (EW KENOTDIR)) else
    match unregister s old with
    | None => (s, RPanic)
    | Some (s1, false) => (s1, RErr (E KNotExist))
    | Some (s1, true) =>
      let s2 := upd_node s1 f (with_name new) in
      let s3 := set_data s2 (alist_set new f (mdata s2)) in
      match rename_descs old new s3 (find_descendants s3 old) [] with
      | None => (s3, RPanic)
      | Some (s4, false, _) => (s4, RErr (E KNotExist))
      | Some (s4, true, removes) =>
        let s5 := set_data s4 (fold_left (fun d k => alist_del k d) removes (mdata s4)) in
        let s6 := set_data s5 (alist_del old (mdata s5)) in
        (reg s6 f 0, ROk)
      end
    end
  end.

Definition m_stat (s : mst) (name0 : str) : mst * res :=
  match lookup s (normalize_path name0) with
  | None => (s, RErr (EW KNotExist))
  | Some f => match get_node s f with Some n => (s, RInfo (finfo_of n)) | None => (s, RPanic) end
  end.

Definition m_chmod (s : mst) (name0 : str) (mode0 : Z) : mst * res :=
  let mode := Z.land mode0 chmod_bits in
  let name := normalize_path name0 in
  match lookup s name with
  | None => (s, RErr (EW KNotExist))
  | Some f =>
    let prev := match get_node s f with Some n => Z.land (nmode n) (Z.lnot chmod_bits) | None => 0 end in
    set_file_mode s name (Z.lor prev mode)
  end.

Definition m_chown (s : mst) (name0 : str) (u g : Z) : mst * res :=
  match lookup s (normalize_path name0) with
  | None => (s, RErr (EW KNotExist))
  | Some f => (upd_node s f (with_owner u g), ROk)
  end.

Definition m_chtimes (s : mst) (name0 : str) (t : Z) : mst * res :=
  match lookup s (normalize_path name0) with
  | None => (s, RErr (EW KNotExist))
  | Some f => (upd_node s f (with_mtime t), ROk)
  end.

(* memDir.Files(): children sorted by their CURRENT name *)
Definition dir_files (s : mst) (n : node) : list nat :=
  sort_by (fun a b => bltb (node_name s a) (node_name s b)) (map snd (nkids n)).

(* File.Readdir *)
Definition m_readdir (s : mst) (i : nat) (h : hnd) (count : Z) : mst * list finfo * option err :=
  match get_node s (href h) with
  | None => (s, [], Some (E KOther))
  | Some n =>
    if negb (ndir n) then (s, [], Some (EW KNotADir))
    else
      let all := dir_files s n in
      let rdc := if zlen all <? hrdc h then zlen all else hrdc h in   (* entries were removed since the previous call *)
      let files := skipn (Z.to_nat rdc) all in
      let len := zlen files in
      let out := if 0 <? count then (if len <? count then len else count) else len in
      let e := if (0 <? count) && (len =? 0) then Some (E KEOF) else None in
      let infos := map (fun r => match get_node s r with Some c => finfo_of c | None => mkFi [] false 0 0 0 end)
                       (firstn (Z.to_nat out) files) in
      (set_handle s i (set_rdc h (rdc + out)), infos, e)
  end.

Definition m_hop (s : mst) (i : nat) (k : hnd -> node -> mst * res) : mst * res :=
  match nth_error (mhandles s) i with
  | None => (s, RNoSlot)
  | Some h => match get_node s (href h) with Some n => k h n | None => (s, RPanic) end
  end.

Definition put_data (s : mst) (f : nat) (d : option bytes) : mst :=
  match d with
  | Some d' => upd_node s f (fun n => with_mtime (mclock s) (with_data d' n))
  | None => s
  end.

Definition m_step_raw (s : mst) (o : op) : mst * res :=
  match o with
  | Create p => m_create s p
  | Mkdir p perm => m_mkdir s p perm
  | MkdirAll p perm => m_mkdirall s p perm
  | Open p => m_open s p
  | OpenFile p flag perm => m_openfile s p flag perm
  | Remove p => m_remove s p
  | RemoveAll p => m_removeall s p
  | Rename p q => m_rename s p q
  | Stat p => m_stat s p
  | Chmod p m => m_chmod s p m
  | Chown p u g => m_chown s p u g
  | Chtimes p t => m_chtimes s p t
  | HRead i n => m_hop s i (fun h nd => let '(h', r) := f_read (ndata nd) h n in (set_handle s i h', r))
  | HReadAt i n off => m_hop s i (fun h nd => let '(h', r) := f_readat (ndata nd) h n off in (set_handle s i h', r))
  | HWrite i b | HWriteString i b =>
      m_hop s i (fun h nd => let '(d, h', r) := f_write (ndata nd) h b in
                             (put_data (set_handle s i h') (href h) d, r))
  | HWriteAt i b off =>
      m_hop s i (fun h nd => let '(d, h', r) := f_writeat (ndata nd) h b off in
                             (put_data (set_handle s i h') (href h) d, r))
  | HSeek i off wh => m_hop s i (fun h nd => let '(h', r) := f_seek (ndata nd) h off wh in (set_handle s i h', r))
  | HTruncate i n => m_hop s i (fun h nd => let '(d, r) := f_truncate (ndata nd) h n in (put_data s (href h) d, r))
  | HClose i => m_hop s i (fun h nd =>
      if hclosed h then (s, RErr (E KClosed)) else
      let s1 := set_handle s i (set_closed h) in
      ((if hro h then s1 else upd_node s1 (href h) (with_mtime (mclock s))), ROk))
  | HReaddir i n => m_hop s i (fun h nd =>
      let '(s1, infos, e) := m_readdir s i h n in
      match e, infos with
      | Some er, [] => if errk_eqb (ek er) KEOF then (s1, RInfos [] e) else (s1, RErr er)
      | _, _ => (s1, RInfos infos e)
      end)
  | HReaddirnames i n => m_hop s i (fun h nd =>
      let '(s1, infos, e) := m_readdir s i h n in
      match e, infos with
      | Some er, [] => if errk_eqb (ek er) KEOF then (s1, RNames [] e) else (s1, RErr er)
      | _, _ => (s1, RNames (map fi_name infos) e)
      end)
  | HStat i => m_hop s i (fun h nd => (s, RInfo (finfo_of nd)))
  | HName i => m_hop s i (fun h nd => (s, RName (nname nd)))
  | HSync i => m_hop s i (fun h nd => (s, ROk))
  end.

(* one API call: time.Now() advances between calls *)
Definition m_step (s : mst) (o : op) : mst * res :=
  let '(s1, r) := m_step_raw s o in
  (mkM (mdata s1) (mheap s1) (mhandles s1) (mclock s1 + 1), r).

(* ---- observations ---- *)
Record entry := mkEntry { e_path : str; e_dir : bool; e_data : bytes; e_mode : Z; e_mtime : Z }.

(* the whole path map, sorted by path: what "the filesystem holds" *)
Definition snapshot (s : mst) : list entry :=
  sort_by (fun a b => bltb (e_path a) (e_path b))
    (map (fun kv => match get_node s (snd kv) with
                    | Some n => mkEntry (fst kv) (ndir n) (ndata n) (nmode n) (nmtime n)
                    | None => mkEntry (fst kv) false [] 0 0
                    end) (mdata s)).
