(* Model/SftpSpec.v — the SPECIFICATION side of C19, written with the flat byte-array
   operations of Model/ByteFile.v (pwrite / pread / ptrunc) and without the Go-level arithmetic
   of Model/Sftp.v.

   "No write is silently dropped" is an ACCOUNTING statement: what the server holds must be
   explained by what the calls REPORTED.  [acct] is what one reported result accounts for:
     Write / WriteString reporting (n, e) at handle position p : pwrite at p of the first n bytes
                                  (nothing when n = 0; an EMPTY payload reported without error:
                                  the zero extension up to p that this server performs)
     WriteAt reporting (n, e) at off                          : the same at off; n = 0: nothing
     Truncate reporting nil                                   : ptrunc of the file at the handle's path
     Create / OpenFile reporting a handle                     : a new empty file when the path was
                                  free, an emptied one when o_trunc was asked for
     anything else                                            : nothing.
   The position p and the file a handle / path stands for are read from the sftp_state BEFORE the
   call; SftpProof.C19_offsets_track_reports says that p itself is the sum of what was reported. *)
From AF Require Import Lib.Bytes Lib.Path Lib.Ops Gen.Consts Model.ByteFile Model.Sftp.
Local Open Scope Z_scope.

Definition sf_is_some {A} (o : option A) : bool := match o with Some _ => true | None => false end.

(* pwrite (ByteFile.v) leaves the array alone for an empty payload.  THIS server does one more
   thing on a zero-length WRITE packet beyond EOF: it zero-extends the file up to the offset
   (memFile.WriteAt grows before it copies; write(2) would not).  The observer sees it, so the
   accounting names it: an empty Write/WriteString that reported (0, nil) accounts for the zero
   extension up to the position and nothing else.  (sftpfs.File.WriteAt never reaches the server.) *)
Definition zext (data : bytes) (pos : nat) : bytes := ptrunc data (Nat.max (length data) pos).

Definition acc_seq (data : bytes) (pos : Z) (b : bytes) (n : Z) (e : option err) : bytes :=
  match b, e with
  | [], None => zext data (Z.to_nat pos)
  | _, _ => if n =? 0 then data else pwrite data (Z.to_nat pos) (firstn (Z.to_nat n) b)
  end.

Definition acc_at (data : bytes) (off : Z) (b : bytes) (n : Z) : bytes :=
  if n =? 0 then data else pwrite data (Z.to_nat off) (firstn (Z.to_nat n) b).

Definition acct_open (t : list (pkey * snode)) (p : str) (trunc : bool) (o : list bytes) : list bytes :=
  match lfetch t (skey p) with
  | Some (SfFile id) => if trunc then list_set id [] o else o
  | Some SfDir => o
  | None => o ++ [[]]
  end.

Definition acct (st : sftp_state) (it : sitem) (r : res) (o : list bytes) : list bytes :=
  let t := sv_tree (sst_srv st) in
  match snd it, r with
  | HWrite i b, RCount n e | HWriteString i b, RCount n e =>
      match sf_slot_get (sst_slots st) i with
      | Some f => list_set (sf_obj f) (acc_seq (obj_content o (sf_obj f)) (sf_off f) b n e) o
      | None => o
      end
  | HWriteAt i b off, RCount n e =>
      match sf_slot_get (sst_slots st) i with
      | Some f => list_set (sf_obj f) (acc_at (obj_content o (sf_obj f)) off b n) o
      | None => o
      end
  | HTruncate i n, ROk =>
      match sf_slot_get (sst_slots st) i with
      | Some f => match lfetch t (sf_key f) with
                  | Some (SfFile id) => list_set id (ptrunc (obj_content o id) (Z.to_nat n)) o
                  | _ => o
                  end
      | None => o
      end
  | Create p, RHandle _ => acct_open t p true o
  | OpenFile p flag _, RHandle _ => acct_open t p (has_flag flag o_trunc) o
  | _, _ => o
  end.

Fixpoint sftp_trace (st : sftp_state) (items : list sitem) : list (sftp_state * sitem * res) :=
  match items with
  | [] => []
  | it :: r => let '(st1, x) := sftp_step st it in (st, it, x) :: sftp_trace st1 r
  end.

Definition accounted (tr : list (sftp_state * sitem * res)) (o : list bytes) : list bytes :=
  fold_left (fun o e => let '(st, it, r) := e in acct st it r o) tr o.

(* "return exactly what the server holds": the result the flat-array spec predicts for the
   calls that read; None = the spec does not speak (closed / unbound / write-only handle, ...) *)
Definition spec_size (t : list (pkey * snode)) (o : list bytes) (k : pkey) : option (bool * Z) :=
  match lfetch t k with
  | None => None
  | Some SfDir => Some (true, 0)
  | Some (SfFile id) => Some (false, zlen (obj_content o id))
  end.

Definition spec_read (st : sftp_state) (o : list bytes) (it : sitem) : option res :=
  let t := sv_tree (sst_srv st) in
  let open_h (i : nat) : option sfile :=
    match sf_slot_get (sst_slots st) i with
    | Some f => if sf_closed f then None else Some f
    | None => None
    end in
  let readable (f : sfile) : bool := match sf_mode f with SfWO => false | _ => true end in
  let rd (f : sfile) (n off : Z) : option res :=
    if readable f && (0 <=? off) then
      let b := pread (obj_content o (sf_obj f)) (Z.to_nat off) (Z.to_nat n) in
      Some (RData b (if zlen b <? n then Some eEOF else None))
    else None in
  match snd it with
  | HRead i n => match open_h i with Some f => rd f n (sf_off f) | None => None end
  | HReadAt i n off => match open_h i with Some f => rd f n off | None => None end
  | HSeek i off wh =>
      match open_h i with
      | Some f =>
          let target := if wh =? 0 then Some off
                        else if wh =? 1 then Some (sf_off f + off)
                        else if wh =? 2 then
                          match spec_size t o (sf_key f) with Some (_, sz) => Some (sz + off) | None => None end
                        else None in
          match target with
          | Some tg => if 0 <=? tg then Some (RPos tg None) else None
          | None => None
          end
      | None => None
      end
  | HStat i =>
      match open_h i with
      | Some f => match spec_size t o (sf_key f) with
                  | Some (d, sz) => Some (RInfo (info_of (path_base (sf_name f)) d sz))
                  | None => None
                  end
      | None => None
      end
  | Stat p => match spec_size t o (skey p) with
              | Some (d, sz) => Some (RInfo (info_of (path_base p) d sz))
              | None => Some (RErr eNotExist)
              end
  | _ => None
  end.

(* sftp_run for the model runner: per sftp_step the accounted view of the server and the predicted read *)
Fixpoint sftp_run_spec (st : sftp_state) (o : list bytes) (items : list sitem)
  : list (list (str * option bytes) * option res) :=
  match items with
  | [] => []
  | it :: r =>
      let '(st1, x) := sftp_step st it in
      let o1 := acct st it x o in
      (sftp_snapshot (mkSfSrv (sv_tree (sst_srv st1)) o1), spec_read st o it) :: sftp_run_spec st1 o1 r
  end.
