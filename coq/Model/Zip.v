(* Model/Zip.v — transcription of zipfs/fs.go and zipfs/file.go.
   archive/zip is trusted: zip.File.Open() is a reader that yields exactly the entry's bytes
   (Store and Deflate alike) and UncompressedSize64 is their number.

   The model has a switch [legacy].  legacy = true is the code as it stands in /repo today;
   legacy = false (what the theorems are about) differs in the three places marked PATCH:
     Z1  file.go ReadAt   : negative offset -> error instead of a slice panic;
                            offset beyond the buffered bytes -> (0, err) instead of a slice panic
     Z2  fs.go   New      : the root directory map always exists (Readdir of "/" on an archive
                            without top-level entries is an empty listing, not ENOENT)
   Definitions only. *)
From AF Require Import Lib.Bytes Lib.Path Lib.Ops Gen.Consts Model.ByteFile Model.Archive.
Local Open Scope Z_scope.

(* ---------------------------------------------------------------- fs.go New *)
Definition zip_add (ix : index) (e : aentry) : index :=
  let '(d, f) := splitpath (ename e) in
  let ix1 := idx_ensure d ix in
  let ix2 := idx_put_first d f e ix1 in                     (* the first entry of a name wins *)
  if eisdir e then idx_ensure (join2 d f) ix2 else ix2.

Definition zip_new (legacy : bool) (a : archive) : index :=
  fold_left zip_add a (if legacy then [] else [(s_slash, [])]).        (* PATCH Z2 *)

(* zip.FileHeader.FileInfo(): Name = path.Base(header name), Size = UncompressedSize64 *)
Definition zinfo (e : aentry) : finfo := mk_info (path_base (ename e)) (eisdir e) (esize e).

(* ---------------------------------------------------------------- file.go File *)
(* zrd: the io.ReadCloser from zipfile.Open(): None = not opened yet, Some k = k bytes consumed *)
Record zh := mkZH { zfile : option aentry; zisdir : bool; zclosed : bool; zoff : Z; zbuf : bytes; zrd : option nat }.

Definition zset_off (h : zh) (o : Z) : zh := mkZH (zfile h) (zisdir h) (zclosed h) o (zbuf h) (zrd h).
Definition zset_buf (h : zh) (b : bytes) (r : nat) : zh := mkZH (zfile h) (zisdir h) (zclosed h) (zoff h) b (Some r).

(* io.ReadFull(reader, buf) with len(buf) = k > 0 on a reader that has consumed pos bytes of c *)
Definition read_full (c : bytes) (pos k : nat) : bytes * option err :=
  let b := firstn k (skipn pos c) in
  (b, if Nat.eqb (length b) k then None
      else if Nat.eqb (length b) 0 then Some (E KEOF) else Some (E KUnexpectedEOF)).

(* file.go:22-42 fillBuffer *)
Definition fill_buffer (e : aentry) (h : zh) (offset : Z) : zh * option err :=
  let rd := match zrd h with Some r => r | None => 0%nat end in
  let size := esize e in
  let '(offset, err) := if size <? offset then (size, Some (E KEOF)) else (offset, None) in
  if offset <=? zlen (zbuf h) then (zset_buf h (zbuf h) rd, err)
  else
    let '(b, rerr) := read_full (econtent e) rd (Z.to_nat (offset - zlen (zbuf h))) in
    match b with
    | _ :: _ => (zset_buf h (zbuf h ++ b) (rd + length b), err)
    | [] => (zset_buf h (zbuf h) rd, match rerr with Some x => Some x | None => err end)
    end.

(* file.go:55-66 Read with len(p) = n *)
Definition z_read (h : zh) (n : Z) : zh * res :=
  if zisdir h then (h, RData [] (Some (E KEISDIR))) else
  if zclosed h then (h, RData [] (Some (E KClosed))) else
  match zfile h with
  | None => (h, RPanic)
  | Some e =>
    let n := Z.max 0 n in
    let '(h1, err) := fill_buffer e h (zoff h + n) in
    if (zoff h <? 0) || (zlen (zbuf h1) <? zoff h) then (h1, RPanic)       (* f.buf[f.offset:] *)
    else let b := firstn (Z.to_nat n) (skipn (Z.to_nat (zoff h)) (zbuf h1)) in
         (zset_off h1 (zoff h + zlen b), RData b err)
  end.

(* file.go:68-78 ReadAt *)
Definition z_readat (legacy : bool) (h : zh) (n off : Z) : zh * res :=
  if zisdir h then (h, RData [] (Some (E KEISDIR))) else
  if zclosed h then (h, RData [] (Some (E KClosed))) else
  match zfile h with
  | None => (h, RPanic)
  | Some e =>
    let n := Z.max 0 n in
    if negb legacy && (off <? 0) then (h, RData [] (Some (EW KNegative)))          (* PATCH Z1 *)
    else
      let '(h1, err) := fill_buffer e h (off + n) in
      if negb legacy && (zlen (zbuf h1) <? off) then (h1, RData [] err)            (* PATCH Z1 *)
      else if (off <? 0) || (zlen (zbuf h1) <? off) then (h1, RPanic)              (* f.buf[int(off):] *)
      else (h1, RData (firstn (Z.to_nat n) (skipn (Z.to_nat off) (zbuf h1))) err)
  end.

(* file.go:80-101 Seek *)
Definition z_seek (h : zh) (off whence : Z) : zh * res :=
  if zisdir h then (h, RPos 0 (Some (E KEISDIR))) else
  if zclosed h then (h, RPos 0 (Some (E KClosed))) else
  match zfile h with
  | None => (h, RPanic)
  | Some e =>
    let size := esize e in
    if negb ((whence =? 0) || (whence =? 1) || (whence =? 2)) then (h, RPos 0 (Some (E KEINVAL))) else
    let target := if whence =? 0 then off else if whence =? 1 then off + zoff h else off + size in
    if (target <? 0) || (size <? target) then (h, RPos 0 (Some (E KOutOfRange)))
    else (zset_off h target, RPos target None)
  end.

(* file.go:44-53 Close *)
Definition z_close (h : zh) : zh := mkZH None (zisdir h) true (zoff h) [] None.

(* file.go:107-112 Name *)
Definition z_name (h : zh) : str :=
  match zfile h with None => s_slash | Some e => joined (ename e) end.

(* file.go:114-124 getDirEntries *)
Definition z_dir_entries (ix : index) (h : zh) : list (str * aentry) + err :=
  if negb (zisdir h) then inr (E KENOTDIR)
  else match alist_get (z_name h) ix with
       | Some m => inl m
       | None => inr (EW KENOENT)
       end.

(* file.go:126-154 Readdir / Readdirnames (Go's map order is not modelled: the order here is
   insertion order and results are compared as sets) *)
Definition z_readdir (ix : index) (h : zh) (count : Z) : res :=
  match z_dir_entries ix h with
  | inr e => RErr e
  | inl m => RInfos (take_count count (map (fun fe => zinfo (snd fe)) m)) None
  end.
Definition z_readdirnames (ix : index) (h : zh) (count : Z) : res :=
  match z_dir_entries ix h with
  | inr e => RErr e
  | inl m => RNames (take_count count (map fst m)) None
  end.

(* file.go:156-161 Stat *)
Definition z_hstat (h : zh) : res :=
  match zfile h with None => RInfo root_info | Some e => RInfo (zinfo e) end.

(* ---------------------------------------------------------------- fs.go Fs *)
Record zst := mkZS { zix : index; zhs : list zh }.

Definition z_open (s : zst) (p : str) : zst * res :=
  let '(d, f) := splitpath p in
  let add h := (mkZS (zix s) (zhs s ++ [h]), RHandle (length (zhs s))) in
  if is_empty f then add (mkZH None true false 0 [] None)
  else match alist_get d (zix s) with
       | None => (s, RErr (EW KENOENT))
       | Some m => match alist_get f m with
                   | None => (s, RErr (EW KENOENT))
                   | Some e => add (mkZH (Some e) (eisdir e) false 0 [] None)
                   end
       end.

Definition z_stat (s : zst) (p : str) : res :=
  let '(d, f) := splitpath p in
  if is_empty f then RInfo root_info
  else match alist_get d (zix s) with
       | None => RErr (EW KENOENT)
       | Some m => match alist_get f m with
                   | None => RErr (EW KENOENT)
                   | Some e => RInfo (zinfo e)
                   end
       end.

Definition zip_step (legacy : bool) (s : zst) (o : op) : zst * res :=
  let with_h (i : nat) (k : zh -> zst * res) : zst * res :=
    match nth_error (zhs s) i with Some h => k h | None => (s, RNoSlot) end in
  let upd (i : nat) (hr : zh * res) : zst * res := (mkZS (zix s) (list_set i (fst hr) (zhs s)), snd hr) in
  match o with
  | Create _ | Mkdir _ _ | MkdirAll _ _ | Remove _ | RemoveAll _ | Rename _ _
  | Chmod _ _ | Chown _ _ _ | Chtimes _ _ => (s, RErr (E KEPERM))
  | OpenFile p flag _ => if negb (flag =? o_rdonly) then (s, RErr (E KEPERM)) else z_open s p
  | Open p => z_open s p
  | Stat p => (s, z_stat s p)
  | HRead i n => with_h i (fun h => upd i (z_read h n))
  | HReadAt i n off => with_h i (fun h => upd i (z_readat legacy h n off))
  | HSeek i off wh => with_h i (fun h => upd i (z_seek h off wh))
  | HClose i => with_h i (fun h => upd i (z_close h, ROk))
  | HWrite i _ | HWriteString i _ | HWriteAt i _ _ => with_h i (fun h => (s, RCount 0 (Some (E KEPERM))))
  | HTruncate i _ => with_h i (fun h => (s, RErr (E KEPERM)))
  | HSync i => with_h i (fun h => (s, ROk))
  | HReaddir i n => with_h i (fun h => (s, z_readdir (zix s) h n))
  | HReaddirnames i n => with_h i (fun h => (s, z_readdirnames (zix s) h n))
  | HStat i => with_h i (fun h => (s, z_hstat h))
  | HName i => with_h i (fun h => (s, RName (z_name h)))
  end.

Definition zip_init (legacy : bool) (a : archive) : zst := mkZS (zip_new legacy a) [].
Definition zip_run (legacy : bool) (a : archive) (ops : list op) : list res :=
  snd (arun (zip_step legacy) (zip_init legacy a) ops).
