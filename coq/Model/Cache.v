(* Model/Cache.v — transcription of cacheOnReadFs.go over two arbitrary inner filesystems.
   [now] is the value time.Now() yields during this call, [dur] the cache duration. *)
From AF Require Import Lib.Bytes Lib.Path Lib.Ops Gen.Consts Model.Union Model.Cow.
Local Open Scope Z_scope.

Inductive cache_state := CMiss | CStale | CHit | CLocal.

Section Cache.
Context {B L : Type} (bstep : B -> op -> B * res) (lstep : L -> op -> L * res).
Variable dur : Z.

(* cacheStatus *)
Definition cache_status (now : Z) (sb : B) (sl : L) (name : str)
  : B * L * cache_state * option finfo * option err :=
  match lstep sl (Stat name) with
  | (sl1, RInfo lfi) =>
    if dur =? 0 then (sb, sl1, CHit, Some lfi, None)
    else if fi_mtime lfi + dur <? now then
      match bstep sb (Stat name) with
      | (sb1, RInfo bfi) =>
        if fi_mtime lfi <? fi_mtime bfi then (sb1, sl1, CStale, Some bfi, None)
        else (sb1, sl1, CHit, Some lfi, None)
      | (sb1, _) => (sb1, sl1, CLocal, Some lfi, None)
      end
    else (sb, sl1, CHit, Some lfi, None)
  | (sl1, r) =>
    let e := err_of r in
    if (errk_eqb (ek e) KENOENT && negb (ewrapped e)) || is_not_exist e
    then (sb, sl1, CMiss, None, None)
    else (sb, sl1, CMiss, None, Some e)
  end.

(* CacheOnReadFs.copyToLayer: a directory of the base is created in the layer (since the fix),
   anything else is copied *)
Definition cache_copy_to_layer (sb : B) (sl : L) (name : str) : B * L * option err :=
  if Z.eqb cache_copy_dir_mkdir 1 then
    match bstep sb (Stat name) with
    | (sb1, RInfo fi) =>
      if fi_dir fi then
        match lstep sl (MkdirAll name (Z.land (fi_mode fi) 511)) with
        | (sl1, ROk) => (sb1, sl1, None)
        | (sl1, r) => (sb1, sl1, Some (err_of r))
        end
      else copy_to_layer bstep lstep sb1 sl name
    | (sb1, _) => copy_to_layer bstep lstep sb1 sl name
    end
  else copy_to_layer bstep lstep sb sl name.

Definition cret (sb : B) (sl : L) (tbl : list chandle) (r : res) : (B * L * list chandle) * res :=
  ((sb, sl, tbl), r).

(* the common shape of Chtimes/Chmod/Chown/Rename: base first (after a copy on miss/stale), then layer *)
Definition cache_both (now : Z) (sb : B) (sl : L) (tbl : list chandle) (name : str) (o : op) (copy_first : bool)
  (miss_base_only : bool)   (* Remove since the fix: on a miss only the base is called *)
  : (B * L * list chandle) * res :=
  let '(sb1, sl1, st, _, e) := cache_status now sb sl name in
  match e with
  | Some er => cret sb1 sl1 tbl (RErr er)
  | None =>
    (* Some r = the call returns r here (an error, or a panic of the base, which propagates) *)
    let stop (r : res) : option res :=
      match r with RPanic => Some RPanic | _ => match res_err r with Some er => Some (RErr er) | None => None end end in
    let base_part : B * L * option res :=
      match st with
      | CLocal => (sb1, sl1, None)
      | CHit => let '(sb2, r) := bstep sb1 o in (sb2, sl1, stop r)
      | CStale | CMiss =>
        if copy_first then
          match cache_copy_to_layer sb1 sl1 name with
          | (sb2, sl2, Some ce) => (sb2, sl2, Some (RErr ce))
          | (sb2, sl2, None) => let '(sb3, r) := bstep sb2 o in (sb3, sl2, stop r)
          end
        else let '(sb2, r) := bstep sb1 o in (sb2, sl1, stop r)
      end in
    match st, miss_base_only with
    | CMiss, true => let '(sb2, r) := bstep sb1 o in cret sb2 sl1 tbl r
    | _, _ =>
      match base_part with
      | (sb2, sl2, Some r) => cret sb2 sl2 tbl r
      | (sb2, sl2, None) => let '(sl3, r) := lstep sl2 o in cret sb2 sl3 tbl r
      end
    end
  end.

Definition cache_step (now : Z) (st : B * L * list chandle) (o : op) : (B * L * list chandle) * res :=
  let '(sb, sl, tbl) := st in
  match o with
  | Chtimes p _ | Chmod p _ | Chown p _ _ => cache_both now sb sl tbl p o true false
  | Rename p _ => cache_both now sb sl tbl p o true false
  | Remove p => cache_both now sb sl tbl p o false (Z.eqb cache_remove_miss_base_only 1)
  | RemoveAll p => cache_both now sb sl tbl p o false false
  | Stat p =>
    let '(sb1, sl1, cs, fi, e) := cache_status now sb sl p in
    match e with
    | Some er => cret sb1 sl1 tbl (RErr er)
    | None =>
      match cs, fi with
      | CMiss, _ => let '(sb2, r) := bstep sb1 o in cret sb2 sl1 tbl r
      | _, Some f => cret sb1 sl1 tbl (RInfo f)
      | _, None => cret sb1 sl1 tbl RPanic
      end
    end
  | OpenFile p flag perm =>
    let '(sb1, sl1, cs, _, e) := cache_status now sb sl p in
    match e with
    | Some er => cret sb1 sl1 tbl (RErr er)
    | None =>
      let copied : B * L * option err :=
        match cs with
        | CLocal | CHit => (sb1, sl1, None)
        | _ =>
          let open_op := OpenFile p (if Z.eqb copyfiletolayer_clears_append 1 then Z.land flag (Z.lnot o_append) else flag) perm in
          (* since the fix (switch cache_openfile_dir_mkdir): the base is Stat-ed first and a directory is made in
             the layer with MkdirAll, like CacheOnReadFs.copyToLayer does; before: everything went through
             copyFileToLayer, which copies a directory like a file (EIO) *)
          if Z.eqb cache_openfile_dir_mkdir 1 then
            match bstep sb1 (Stat p) with
            | (sb1', RInfo bfi) =>
              if fi_dir bfi then
                match lstep sl1 (MkdirAll p (Z.land (fi_mode bfi) 511)) with
                | (sl2, ROk) => (sb1', sl2, None)
                | (sl2, r) => (sb1', sl2, Some (err_of r))
                end
              else copy_to_layer_with bstep lstep sb1' sl1 p open_op
            | (sb1', _) => copy_to_layer_with bstep lstep sb1' sl1 p open_op
            end
          else copy_to_layer_with bstep lstep sb1 sl1 p open_op
        end in
      (* after a copy the flag word loses O_EXCL (since the fix): the copy has created the file *)
      let flag := match cs with
                  | CLocal | CHit => flag
                  | _ => if Z.eqb cache_openfile_clears_excl 1 then Z.land flag (Z.lnot o_excl) else flag
                  end in
      let o := OpenFile p flag perm in
      match copied with
      | (sb2, sl2, Some ce) => cret sb2 sl2 tbl (RErr ce)
      | (sb2, sl2, None) =>
        if negb (Z.land flag cache_mask =? 0) then
          match bstep sb2 o with
          | (sb3, RHandle bh) =>
            match lstep sl2 o with
            | (sl3, RHandle lh) =>
              let '(tbl1, i) := alloc_ch tbl (HU (mkUF (Some bh) (Some lh) 0 [])) in
              cret sb3 sl3 tbl1 (RHandle i)
            | (sl3, r) => cret (fst (bstep sb3 (HClose bh))) sl3 tbl (RErr (err_of r))
            end
          | (sb3, r) => cret sb3 sl2 tbl (RErr (err_of r))
          end
        else open_layer lstep sb2 sl2 tbl o
      end
    end
  | Open p =>
    let '(sb1, sl1, cs, fi, e) := cache_status now sb sl p in
    match e with
    | Some er => cret sb1 sl1 tbl (RErr er)
    | None =>
      let union_dirs (sb0 : B) (sl0 : L) : (B * L * list chandle) * res :=
        (* bfile, _ := base.Open; lfile, err := layer.Open; if err != nil && bfile == nil -> err *)
        let '(sb2, rb) := bstep sb0 o in
        let '(sl2, rl) := lstep sl0 o in
        let ob := match rb with RHandle h => Some h | _ => None end in
        let ol := match rl with RHandle h => Some h | _ => None end in
        match ob, ol with
        | None, None => cret sb2 sl2 tbl (RErr (err_of rl))
        | _, _ => let '(tbl1, i) := alloc_ch tbl (HU (mkUF ob ol 0 [])) in cret sb2 sl2 tbl1 (RHandle i)
        end in
      match cs with
      | CLocal => open_layer lstep sb1 sl1 tbl o
      | CMiss =>
        match bstep sb1 (Stat p) with
        | (sb2, RInfo bfi) =>
          if fi_dir bfi then open_base bstep sb2 sl1 tbl o
          else
            match cache_copy_to_layer sb2 sl1 p with
            | (sb3, sl2, Some ce) => cret sb3 sl2 tbl (RErr ce)
            | (sb3, sl2, None) => open_layer lstep sb3 sl2 tbl o
            end
        | (sb2, r) => cret sb2 sl1 tbl (RErr (err_of r))
        end
      | CStale =>
        match fi with
        | Some f =>
          if negb (fi_dir f) then
            match cache_copy_to_layer sb1 sl1 p with
            | (sb3, sl2, Some ce) => cret sb3 sl2 tbl (RErr ce)
            | (sb3, sl2, None) => open_layer lstep sb3 sl2 tbl o
            end
          else union_dirs sb1 sl1
        | None => cret sb1 sl1 tbl RPanic
        end
      | CHit =>
        match fi with
        | Some f => if negb (fi_dir f) then open_layer lstep sb1 sl1 tbl o else union_dirs sb1 sl1
        | None => cret sb1 sl1 tbl RPanic
        end
      end
    end
  | Mkdir p perm =>
    match bstep sb o with
    | (sb1, ROk) => let '(sl1, r) := lstep sl (MkdirAll p perm) in cret sb1 sl1 tbl r
    | (sb1, r) => cret sb1 sl tbl r
    end
  | MkdirAll p perm =>
    match bstep sb o with
    | (sb1, ROk) => let '(sl1, r) := lstep sl o in cret sb1 sl1 tbl r
    | (sb1, r) => cret sb1 sl tbl r
    end
  | Create p =>
    match bstep sb o with
    | (sb1, RHandle bh) =>
      match lstep sl o with
      | (sl1, RHandle lh) =>
        let '(tbl1, i) := alloc_ch tbl (HU (mkUF (Some bh) (Some lh) 0 [])) in
        cret sb1 sl1 tbl1 (RHandle i)
      | (sl1, r) => cret (fst (bstep sb1 (HClose bh))) sl1 tbl (RErr (err_of r))
      end
    | (sb1, r) => cret sb1 sl tbl (RErr (err_of r))
    end
  | _ =>
    match op_handle_of o with
    | None => cret sb sl tbl RNoSlot
    | Some i =>
      match nth_error tbl i with
      | None => cret sb sl tbl RNoSlot
      | Some (HB h) => let '(sb1, r) := bstep sb (op_set_handle o h) in cret sb1 sl tbl r
      | Some (HL h) => let '(sl1, r) := lstep sl (op_set_handle o h) in cret sb sl1 tbl r
      | Some (HU u) =>
        let '(sb1, sl1, u1, r) := uf_op bstep lstep sb sl u o in
        cret sb1 sl1 (list_set i (HU u1) tbl) r
      end
    end
  end.
End Cache.
