(* Model/Tar.v — transcription of tarfs/fs.go and tarfs/file.go.
   archive/tar is trusted: Next() yields the headers in order, the entry reader yields exactly
   the aentry's bytes and Header.Size is their number.  bytes.Reader is modelled from its
   documentation (Read / ReadAt / Seek below).

   The model has a switch [legacy].  legacy = true is the code as it stands in /repo today;
   legacy = false (what the theorems are about) differs in the places marked PATCH:
     T1  fs.go Open : every handle gets its own reader position (today the copied File shares
                      the *bytes.Reader of the stored File, so all handles of an entry, past and
                      present, share one offset)
     T2  fs.go New  : a directory entry registers its own (possibly empty) directory map, as
                      zipfs does (today Readdir of an empty directory entry fails with ENOENT)
   Definitions only. *)
From AF Require Import Lib.Bytes Lib.Path Lib.Ops Gen.Consts Model.ByteFile Model.Archive.
Local Open Scope Z_scope.

(* ---------------------------------------------------------------- fs.go New *)
Definition tar_add (legacy : bool) (ix : index) (e : aentry) : index :=
  let '(d, f) := splitpath (ename e) in
  let ix1 := idx_ensure d ix in
  let ix2 := idx_put d f e ix1 in                          (* the last entry of a name wins *)
  if negb legacy && eisdir e then idx_ensure (join2 d f) ix2 else ix2.      (* PATCH T2 *)

(* the pseudo-root: Header{Name: "/", Typeflag: TypeDir}, no bytes *)
Definition tar_root : aentry := mkEntry s_slash true [].

Definition tar_new (legacy : bool) (a : archive) : index :=
  idx_put s_slash [] tar_root (idx_ensure s_slash (fold_left (tar_add legacy) a [])).

(* tar.Header.FileInfo(): Name = path.Base(name), for directories path.Base(path.Clean(name)) *)
Definition tinfo (e : aentry) : finfo :=
  mk_info (if eisdir e then path_base (clean (ename e)) else path_base (ename e)) (eisdir e) (esize e).

(* ---------------------------------------------------------------- bytes.Reader over c at position i *)
Definition br_read (c : bytes) (i n : Z) : Z * res :=
  if zlen c <=? i then (i, RData [] (Some (E KEOF)))
  else let b := firstn (Z.to_nat n) (skipn (Z.to_nat i) c) in (i + zlen b, RData b None).
Definition br_readat (c : bytes) (n off : Z) : res :=
  if off <? 0 then RData [] (Some (E KNegative))
  else if zlen c <=? off then RData [] (Some (E KEOF))
  else let b := firstn (Z.to_nat n) (skipn (Z.to_nat off) c) in
       RData b (if zlen b <? n then Some (E KEOF) else None).
Definition br_seek (c : bytes) (i off whence : Z) : Z * res :=
  if negb ((whence =? 0) || (whence =? 1) || (whence =? 2)) then (i, RPos 0 (Some (E KOther))) else
  let abs := if whence =? 0 then off else if whence =? 1 then i + off else zlen c + off in
  if abs <? 0 then (i, RPos 0 (Some (E KNegative))) else (abs, RPos abs None).

(* ---------------------------------------------------------------- file.go File *)
(* tfile = the header and bytes (nil after Close); tkey = which stored File this handle was
   copied from (only used by the legacy shared reader); tpos = the handle's own reader position *)
Record th := mkTH { tfile : option aentry; tkey : str * str; tclosed : bool; tpos : Z }.

Definition tset_pos (h : th) (p : Z) : th := mkTH (tfile h) (tkey h) (tclosed h) p.

(* legacy: one reader position per stored File *)
Definition shared := list ((str * str) * Z).
Fixpoint tsh_get (k : str * str) (l : shared) : Z :=
  match l with
  | [] => 0
  | (k', v) :: r => if key_eqb k k' then v else tsh_get k r
  end.
Fixpoint tsh_set (k : str * str) (v : Z) (l : shared) : shared :=
  match l with
  | [] => [(k, v)]
  | (k', v') :: r => if key_eqb k k' then (k, v) :: r else (k', v') :: tsh_set k v r
  end.

Record tst := mkTS { tix : index; ths : list th; tsh : shared }.

(* the position a handle reads at, and how it is stored back *)
Definition t_getpos (legacy : bool) (s : tst) (h : th) : Z := if legacy then tsh_get (tkey h) (tsh s) else tpos h.
Definition t_setpos (legacy : bool) (s : tst) (i : nat) (h : th) (p : Z) : tst :=
  if legacy then mkTS (tix s) (ths s) (tsh_set (tkey h) p (tsh s))
  else mkTS (tix s) (list_set i (tset_pos h p) (ths s)) (tsh s).

(* file.go:34-44 Read, 46-56 ReadAt, 58-68 Seek *)
Definition t_read (legacy : bool) (s : tst) (i : nat) (h : th) (n : Z) : tst * res :=
  if tclosed h then (s, RData [] (Some (E KClosed))) else
  match tfile h with
  | None => (s, RPanic)
  | Some e =>
    if eisdir e then (s, RData [] (Some (E KEISDIR))) else
    let '(p, r) := br_read (econtent e) (t_getpos legacy s h) (Z.max 0 n) in (t_setpos legacy s i h p, r)
  end.
Definition t_readat (s : tst) (h : th) (n off : Z) : tst * res :=
  if tclosed h then (s, RData [] (Some (E KClosed))) else
  match tfile h with
  | None => (s, RPanic)
  | Some e =>
    if eisdir e then (s, RData [] (Some (E KEISDIR))) else (s, br_readat (econtent e) (Z.max 0 n) off)
  end.
Definition t_seek (legacy : bool) (s : tst) (i : nat) (h : th) (off wh : Z) : tst * res :=
  if tclosed h then (s, RPos 0 (Some (E KClosed))) else
  match tfile h with
  | None => (s, RPanic)
  | Some e =>
    if eisdir e then (s, RPos 0 (Some (E KEISDIR))) else
    let '(p, r) := br_seek (econtent e) (t_getpos legacy s h) off wh in (t_setpos legacy s i h p, r)
  end.

(* file.go:21-32 Close *)
Definition t_close (s : tst) (i : nat) (h : th) : tst * res :=
  if tclosed h then (s, RErr (E KClosed))
  else (mkTS (tix s) (list_set i (mkTH None (tkey h) true (tpos h)) (ths s)) (tsh s), ROk).

(* file.go:74-76 Name (nil header after Close: panic) *)
Definition t_name (h : th) : option str :=
  match tfile h with None => None | Some e => Some (joined (ename e)) end.

(* file.go:78-92 getDirectoryNames (sorted keys), 94-123 Readdir: entries in key order without
   the pseudo-root's own "" key *)
Definition key_lt (a b : str * aentry) : bool := bltb (fst a) (fst b).
Definition t_readdir_entries (ix : index) (h : th) (count : Z) : list aentry + res :=
  if tclosed h then inr (RErr (E KClosed)) else
  match tfile h with
  | None => inr RPanic
  | Some e =>
    if negb (eisdir e) then inr (RErr (E KENOTDIR)) else
    match alist_get (joined (ename e)) ix with
    | None => inr (RErr (EW KENOENT))
    | Some m =>
      inl (take_count count (map snd (filter (fun fe => negb (is_empty (fst fe))) (sort_by key_lt m))))
    end
  end.
Definition t_readdir (ix : index) (h : th) (count : Z) : res :=
  match t_readdir_entries ix h count with
  | inr r => r
  | inl l => RInfos (map tinfo l) None
  end.
(* file.go:125-137 Readdirnames: the FileInfo names of Readdir *)
Definition t_readdirnames (ix : index) (h : th) (count : Z) : res :=
  match t_readdir_entries ix h count with
  | inr r => r
  | inl l => RNames (map (fun e => fi_name (tinfo e)) l) None
  end.

(* file.go:139 Stat: f.h.FileInfo() — with a nil header every use of the result panics *)
Definition t_hstat (h : th) : res :=
  match tfile h with None => RPanic | Some e => RInfo (tinfo e) end.

(* ---------------------------------------------------------------- fs.go Fs *)
Definition t_open (s : tst) (p : str) : tst * res :=
  let '(d, f) := splitpath p in
  match alist_get d (tix s) with
  | None => (s, RErr (EW KENOENT))
  | Some m => match alist_get f m with
              | None => (s, RErr (EW KENOENT))
              | Some e => (mkTS (tix s) (ths s ++ [mkTH (Some e) (d, f) false 0]) (tsh s),   (* PATCH T1: tpos *)
                           RHandle (length (ths s)))
              end
  end.

Definition t_stat (s : tst) (p : str) : res :=
  let '(d, f) := splitpath p in
  match alist_get d (tix s) with
  | None => RErr (EW KENOENT)
  | Some m => match alist_get f m with
              | None => RErr (EW KENOENT)
              | Some e => RInfo (tinfo e)
              end
  end.

Definition tar_step (legacy : bool) (s : tst) (o : op) : tst * res :=
  let with_h (i : nat) (k : th -> tst * res) : tst * res :=
    match nth_error (ths s) i with Some h => k h | None => (s, RNoSlot) end in
  match o with
  | Create _ | Mkdir _ _ | MkdirAll _ _ | Remove _ | RemoveAll _ | Rename _ _
  | Chmod _ _ | Chown _ _ _ | Chtimes _ _ => (s, RErr (E KEROFS))
  | OpenFile p flag _ => if negb (flag =? o_rdonly) then (s, RErr (EW KEPERM)) else t_open s p
  | Open p => t_open s p
  | Stat p => (s, t_stat s p)
  | HRead i n => with_h i (fun h => t_read legacy s i h n)
  | HReadAt i n off => with_h i (fun h => t_readat s h n off)
  | HSeek i off wh => with_h i (fun h => t_seek legacy s i h off wh)
  | HClose i => with_h i (fun h => t_close s i h)
  | HWrite i _ | HWriteString i _ | HWriteAt i _ _ => with_h i (fun h => (s, RCount 0 (Some (E KEROFS))))
  | HTruncate i _ => with_h i (fun h => (s, RErr (E KEROFS)))
  | HSync i => with_h i (fun h => (s, ROk))
  | HReaddir i n => with_h i (fun h => (s, t_readdir (tix s) h n))
  | HReaddirnames i n => with_h i (fun h => (s, t_readdirnames (tix s) h n))
  | HStat i => with_h i (fun h => (s, t_hstat h))
  | HName i => with_h i (fun h => (s, match t_name h with Some n => RName n | None => RPanic end))
  end.

Definition tar_init (legacy : bool) (a : archive) : tst := mkTS (tar_new legacy a) [] [].
Definition tar_run (legacy : bool) (a : archive) (ops : list op) : list res :=
  snd (arun (tar_step legacy) (tar_init legacy a) ops).
