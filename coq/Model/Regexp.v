(* Model/Regexp.v — transcription of regexpfs.go (RegexpFs, RegexpFile).  The regular expression
   is a parameter [m : str -> bool] (package regexp is trusted; the harness passes the real
   MatchString verdicts).  Files returned by Open (and, since the fix, OpenFile) are RegexpFiles
   whose listings are filtered; the wrapper remembers which handles those are. *)
From AF Require Import Lib.Bytes Lib.Path Lib.Ops Gen.Consts.
Local Open Scope Z_scope.

Section Regexp.
Context {St : Type} (inner : St -> op -> St * res).
Variable m : str -> bool.        (* re.MatchString *)

Definition eNOENT : res := RErr (E KENOENT).

(* IsDir(source, name) *)
Definition is_dir (s : St) (name : str) : St * (bool + err) :=
  match inner s (Stat name) with
  | (s', RInfo fi) => (s', inl (fi_dir fi))
  | (s', RErr e) => (s', inr e)
  | (s', _) => (s', inr (E KOther))
  end.

(* dirOrMatches *)
Definition dir_or_matches (s : St) (name : str) : St * option err :=
  match is_dir s name with
  | (s', inr e) => (s', Some e)
  | (s', inl true) => (s', None)
  | (s', inl false) => (s', if m name then None else Some (E KENOENT))
  end.

Definition filter_infos (l : list finfo) : list finfo :=
  filter (fun fi => fi_dir fi || m (fi_name fi)) l.

(* RegexpFile.Readdir(n).  As pinned (regexp_readdir_refills = 0): one Readdir(n) of the source, filtered —
   for n > 0 a page whose entries are all hidden comes back empty with a nil error.  With the refill loop
   (regexp_readdir_refills = 1): for n > 0 such a page is dropped and the next one is read, until an entry
   survives, the source returns nothing, or it reports an error (io.EOF at the end).  [fuel] bounds the number
   of dropped pages. *)
Fixpoint re_readdir (fuel : nat) (s : St) (h : nat) (n : Z) : St * res :=
  match inner s (HReaddir h n) with
  | (s', RInfos l None) =>
    let fl := filter_infos l in
    if negb (Z.eqb regexp_readdir_refills 1) then (s', RInfos fl None)
    else if (n <=? 0) || negb (match fl with [] => true | _ => false end) || (match l with [] => true | _ => false end)
    then (s', RInfos fl None)
    else match fuel with
         | S f => re_readdir f s' h n
         | O => (s', RInfos [] None)
         end
  | (s', RInfos l (Some e)) => (s', RInfos [] (Some e))     (* err != nil: return nil, err *)
  | x => x
  end.
Definition re_fuel : nat := 4096.

(* state: the inner state and the handles that are RegexpFiles *)
Definition re_step (st : St * list nat) (o : op) : (St * list nat) * res :=
  let '(s, wrapped) := st in
  let gated (name : str) : (St * list nat) * res :=
    match dir_or_matches s name with
    | (s', Some e) => ((s', wrapped), RErr e)
    | (s', None) => let '(s'', r) := inner s' o in ((s'', wrapped), r)
    end in
  let wrap (x : St * res) : (St * list nat) * res :=
    match x with
    | (s', RHandle h) => ((s', h :: wrapped), RHandle h)
    | (s', r) => ((s', wrapped), r)
    end in
  match o with
  | Chtimes p _ | Chmod p _ | Chown p _ _ | Stat p | Remove p => gated p
  | OpenFile p _ _ =>
    match dir_or_matches s p with
    | (s', Some e) => ((s', wrapped), RErr e)
    | (s', None) => if Z.eqb regexp_openfile_wraps 1 then wrap (inner s' o)
                    else let '(s'', r) := inner s' o in ((s'', wrapped), r)
    end
  | Rename p q =>
    match is_dir s p with
    | (s', inr e) => ((s', wrapped), RErr e)
    | (s', inl true) => ((s', wrapped), ROk)                 (* directories: silently nothing *)
    | (s', inl false) =>
      if negb (m p) then ((s', wrapped), eNOENT)
      else if negb (m q) then ((s', wrapped), eNOENT)
      else let '(s'', r) := inner s' o in ((s'', wrapped), r)
    end
  | RemoveAll p =>
    match is_dir s p with
    | (s', inr e) => ((s', wrapped), RErr e)
    | (s', inl d) =>
      if negb d && negb (m p) then ((s', wrapped), eNOENT)
      else let '(s'', r) := inner s' o in ((s'', wrapped), r)
    end
  | Open p =>
    match is_dir s p with
    | (s', inr e) => ((s', wrapped), RErr e)
    | (s', inl d) =>
      if negb d && negb (m p) then ((s', wrapped), eNOENT)
      else wrap (inner s' o)
    end
  | Mkdir _ _ | MkdirAll _ _ => let '(s', r) := inner s o in ((s', wrapped), r)
  | Create p =>
    if m p then let '(s', r) := inner s o in ((s', wrapped), r) else ((s, wrapped), eNOENT)
  | HReaddir h n =>
    if existsb (Nat.eqb h) wrapped then
      let '(s', r) := re_readdir re_fuel s h n in ((s', wrapped), r)
    else let '(s', r) := inner s o in ((s', wrapped), r)
  | HReaddirnames h n =>
    if existsb (Nat.eqb h) wrapped then
      (* RegexpFile.Readdirnames goes through RegexpFile.Readdir *)
      match re_readdir re_fuel s h n with
      | (s', RInfos l e) => ((s', wrapped), RNames (map fi_name l) e)
      | (s', r) => ((s', wrapped), r)
      end
    else let '(s', r) := inner s o in ((s', wrapped), r)
  | _ => let '(s', r) := inner s o in ((s', wrapped), r)
  end.
End Regexp.
