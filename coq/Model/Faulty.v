(* Model/Faulty.v — a fault-injecting wrapper around ANY filesystem step function.
   It numbers EVERY call made to the wrapped filesystem (Fs methods and file-handle methods
   alike, in the order in which they are made; the counter is part of the state) and applies a
   plan at the call with index i:
     FltPass    the call is forwarded unchanged;
     FltFail e  the call is NOT performed; the error e is returned in the shape in which this
                operation reports errors (RErr e, RData [] (Some e), RCount 0 (Some e), ...);
                a call that cannot report an error (HName) is forwarded;
     FltShort k on Write / WriteString / WriteAt: only the first k bytes are written and the
                short count is returned with no error (io.Copy then reports ErrShortWrite);
                on Read / ReadAt: at most k bytes are read and io.EOF is reported early;
                on every other call: forwarded unchanged.
   The Go counterpart is harness/cmd/afcheck/faultfs.go (same numbering discipline). *)
From AF Require Import Lib.Bytes Lib.Path Lib.Ops.
Local Open Scope Z_scope.

Inductive fault := FltPass | FltFail (e : err) | FltShort (k : nat).

Definition plan := nat -> fault.

(* extractable plans: an association list call index -> fault (first match wins) *)
Fixpoint fault_lookup (l : list (nat * fault)) (i : nat) : fault :=
  match l with
  | [] => FltPass
  | (j, f) :: r => if Nat.eqb j i then f else fault_lookup r i
  end.
Definition fault_plan_of (l : list (nat * fault)) : plan := fault_lookup l.
Definition fault_single (i : nat) (f : fault) : plan := fault_plan_of [(i, f)].
Definition fault_none : plan := fun _ => FltPass.

Definition fault_is_pass (f : fault) : bool := match f with FltPass => true | _ => false end.

(* at most one call of the whole run is faulted *)
Definition at_most_one_fault (pl : plan) : Prop :=
  forall i j, pl i <> FltPass -> pl j <> FltPass -> i = j.

(* the result of a call that is refused with error e; None = this call has no error result *)
Definition fault_err_res (o : op) (e : err) : option res :=
  match o with
  | Create _ | Mkdir _ _ | MkdirAll _ _ | Open _ | OpenFile _ _ _ | Remove _ | RemoveAll _
  | Rename _ _ | Stat _ | Chmod _ _ | Chown _ _ _ | Chtimes _ _ => Some (RErr e)
  | HRead _ _ | HReadAt _ _ _ => Some (RData [] (Some e))
  | HWrite _ _ | HWriteAt _ _ _ | HWriteString _ _ => Some (RCount 0 (Some e))
  | HSeek _ _ _ => Some (RPos 0 (Some e))
  | HTruncate _ _ | HClose _ | HStat _ | HSync _ => Some (RErr e)
  | HReaddir _ _ => Some (if errk_eqb (ek e) KEOF then RInfos [] (Some e) else RErr e)
  | HReaddirnames _ _ => Some (if errk_eqb (ek e) KEOF then RNames [] (Some e) else RErr e)
  | HName _ => None
  end.

Definition fault_zmin (a b : Z) : Z := if a <? b then a else b.

(* the call actually made on the wrapped filesystem under FltShort k *)
Definition fault_shorten (o : op) (k : nat) : op :=
  match o with
  | HWrite h b => HWrite h (firstn k b)
  | HWriteString h b => HWriteString h (firstn k b)
  | HWriteAt h b off => HWriteAt h (firstn k b) off
  | HRead h n => HRead h (fault_zmin n (Z.of_nat k))
  | HReadAt h n off => HReadAt h (fault_zmin n (Z.of_nat k)) off
  | _ => o
  end.

(* ... and what is reported: a shortened read that met no error reports io.EOF *)
Definition fault_short_res (o : op) (r : res) : res :=
  match o, r with
  | HRead _ _, RData b None | HReadAt _ _ _, RData b None => RData b (Some (E KEOF))
  | _, _ => r
  end.

Definition faulty_step {St} (inner : St -> op -> St * res) (pl : plan)
    (st : St * nat) (o : op) : (St * nat) * res :=
  let '(s, n) := st in
  match pl n with
  | FltPass => let '(s', r) := inner s o in ((s', S n), r)
  | FltFail e =>
    match fault_err_res o e with
    | Some r => ((s, S n), r)
    | None => let '(s', r) := inner s o in ((s', S n), r)
    end
  | FltShort k => let '(s', r) := inner s (fault_shorten o k) in ((s', S n), fault_short_res o r)
  end.

(* method codes for call traces (the Go injector logs the same names) *)
Definition fault_op_code (o : op) : nat :=
  match o with
  | Create _ => 0 | Mkdir _ _ => 1 | MkdirAll _ _ => 2 | Open _ => 3 | OpenFile _ _ _ => 4
  | Remove _ => 5 | RemoveAll _ => 6 | Rename _ _ => 7 | Stat _ => 8 | Chmod _ _ => 9
  | Chown _ _ _ => 10 | Chtimes _ _ => 11 | HRead _ _ => 12 | HReadAt _ _ _ => 13
  | HWrite _ _ => 14 | HWriteAt _ _ _ => 15 | HWriteString _ _ => 16 | HSeek _ _ _ => 17
  | HTruncate _ _ => 18 | HClose _ => 19 | HReaddir _ _ => 20 | HReaddirnames _ _ => 21
  | HStat _ => 22 | HName _ => 23 | HSync _ => 24
  end%nat.
